(* C01 — Pipes deliver every byte exactly once, in order.
   Only theorem statements here; proofs live in Proof/Streams.v and Proof/StreamsC01.v.
   All statements are about Model/Streams.v (the LTS of streams.Stdin whose steps
   are the atomic actions of the Go code) for an ARBITRARY buffer limit, number
   of threads, thread programs and schedule. *)
From Coq Require Import List NArith ZArith Bool.
From Murex Require Import Base.Bytes Gen.StreamsTables Model.Streams Check.C01 Proof.Streams Proof.StreamsC01.
Import ListNotations.
Open Scope N_scope.

(* 1. FIFO exactness.  In every run, the bytes handed to readers (Read, ReadAll,
   WriteTo chunks, concatenated in the order of the take steps) followed by the
   bytes still in the buffer are exactly the bytes appended (Write payloads and
   ReadFrom chunks in the order of the append steps): nothing lost, duplicated or
   reordered, whatever the chunking and the interleaving.  If some Write reported
   ErrClosedPipe (the reader cancelled the pipe, the Write emptied the buffer),
   the left side is still a subsequence of the right: loss only, never
   duplication or reordering. *)
Theorem C01_fifo_exact : forall max progs sched,
  let o := run_ctl max progs sched in
  (closed_seen (co_steps o) = false ->
     delivered (co_steps o) ++ co_buf o = appended (co_steps o)) /\
  Subseq (delivered (co_steps o) ++ co_buf o) (appended (co_steps o)).
Proof. exact fifo_exact. Qed.
Print Assumptions C01_fifo_exact.

(* 2. End-of-stream soundness: the two steps of Read that can report EOF do so
   only when the buffer is empty and no writer is open, or after cancellation. *)
Theorem C01_eof_sound_check : forall s n s' c' b,
  step_pc s (PRChk n) = (s', c', EvRead n b e_eof) ->
  buf s = [] /\ (deps s < 1)%Z /\ s' = s /\ b = [].
Proof. exact eof_sound_chk. Qed.
Print Assumptions C01_eof_sound_check.

Theorem C01_eof_sound_cancel : forall s n s' c' b,
  step_pc s (PRSel n) = (s', c', EvRead n b e_eof) -> canc s = true /\ s' = s /\ b = [].
Proof. exact eof_sound_sel. Qed.
Print Assumptions C01_eof_sound_cancel.

(* a Read with room and a non-empty buffer hands out at least one byte *)
Theorem C01_take_progress : forall s n,
  n <> 0 -> buf s <> [] ->
  snd (do_take s n) <> [] /\ blen (buf (fst (do_take s n))) < blen (buf s).
Proof. exact take_progress. Qed.
Print Assumptions C01_take_progress.

(* 3. Writer progress (enabledness; fairness of the Go scheduler is outside the
   model): below the limit, or with the limit off, a writer's check succeeds; at
   or above the limit it only spins without touching the state; given its three
   steps it completes; and a reader's take that brings the buffer below the
   limit enables the blocked writer's next check.  No thread is ever stuck. *)
Theorem C01_writer_enabled : forall s p k,
  smax s = 0 \/ blen (buf s) < smax s -> step_pc s (PWChk p k) = (s, PWApp p k, EvTau).
Proof. exact writer_enabled. Qed.
Print Assumptions C01_writer_enabled.

Theorem C01_writer_blocked_spins : forall s p k,
  smax s <> 0 -> smax s <= blen (buf s) -> step_pc s (PWChk p k) = (s, PWSel p k, EvTau).
Proof. exact writer_blocked. Qed.
Print Assumptions C01_writer_blocked_spins.

Theorem C01_writer_completes : forall s p,
  canc s = false -> smax s = 0 \/ blen (buf s) < smax s ->
  exists s3,
    step_pc s (PWSel p KTop) = (s, PWChk p KTop, EvTau) /\
    step_pc s (PWChk p KTop) = (s, PWApp p KTop, EvTau) /\
    step_pc s (PWApp p KTop) = (s3, PIdle, EvWrite p (blen p) e_nil) /\
    buf s3 = buf s ++ p.
Proof. exact writer_completes. Qed.
Print Assumptions C01_writer_completes.

Theorem C01_drain_unblocks : forall s n p k,
  blen (buf (fst (do_take s n))) < smax s ->
  let s' := fst (do_take s n) in step_pc s' (PWChk p k) = (s', PWApp p k, EvTau).
Proof. exact drain_unblocks. Qed.
Print Assumptions C01_drain_unblocks.

Theorem C01_never_stuck : forall s prog c,
  (c <> PIdle \/ prog <> []) -> snd (step_thread s (prog, c)) <> EvIdle.
Proof. exact never_stuck. Qed.
Print Assumptions C01_never_stuck.

(* 4. Counters: at the end of every run Stats() = (bytes appended, bytes handed out). *)
Theorem C01_counters_exact : forall max progs sched os yf,
  exec (init_sys max progs) sched = (os, yf) ->
  bW (sh yf) = blen (appended os) /\ bR (sh yf) = blen (delivered os).
Proof. exact counters_exact. Qed.
Print Assumptions C01_counters_exact.

(* 5. Headline: for every buffer limit, thread programs and schedule the model's
   run satisfies the predicate `spec_ok` that the check evaluates on the
   implementation's observations (FIFO exactness; counters exact after EVERY
   step and buffer length = written - read; EOF only when drained; Read within
   its slice; Stats = counters). *)
Theorem C01_model_meets_spec : forall max progs sched,
  spec_ok (Ctl max progs sched (run_ctl max progs sched)) = true.
Proof. exact model_meets_spec. Qed.
Print Assumptions C01_model_meets_spec.

(* Non-vacuity.  (a) A concurrent run with a writer blocked on a full pipe
   (limit 1) that is unblocked by the reader: everything is delivered in order. *)
Example C01_concurrent_nonvacuous :
  let o := run_ctl 1 [[OOpen; OWrite [1;2]; OWrite [3]; OClose]; [ORead 1; ORead 4; ORead 4; ORead 1]]
                   [0;0; 0;0;0;0; 1;1; 0;0;0; 1;1;1; 0;0;0; 1;1;1;1; 0;0; 1;1;1;1; 1;1;1; 0;0; 1;1]%nat in
  delivered (co_steps o) = [1;2;3] /\ co_buf o = [] /\ closed_seen (co_steps o) = false /\
  existsb (fun x => match os_ev x with EvRead _ _ 1 => true | _ => false end) (co_steps o) = true.
Proof. vm_compute. repeat split. Qed.

(* (b) spec_ok is not trivially true: it rejects what the code did before the fix
   "streams.Stdin.ReadAll drains the buffer and adds to the read counter"
   (Open; Write "abcdef"; Close; Read 2; ReadAll; Stats gave read counter 4 and
   left "cdef" in the buffer). *)
Example C01_nonvacuous :
  spec_ok (Ctl 1048576 [[OOpen; OWrite [97;98;99;100;101;102]; OClose; ORead 2; OReadAll; OStats]]
    [0;0;0;0;0;0;0;0;0;0;0;0;0;0;0;0;0;0;0]%nat
    (mkCtlObs [
      mkOStep 0 EvTau (mkSnap 0 0 0 0%Z false 1048576 []);
      mkOStep 1 EvUnit (mkSnap 0 0 0 1%Z false 1048576 []);
      mkOStep 0 EvTau (mkSnap 0 0 0 1%Z false 1048576 []);
      mkOStep 6 EvTau (mkSnap 0 0 0 1%Z false 1048576 []);
      mkOStep 7 EvTau (mkSnap 0 0 0 1%Z false 1048576 []);
      mkOStep 8 (EvWrite [97;98;99;100;101;102] 6 0) (mkSnap 6 0 6 1%Z false 1048576 []);
      mkOStep 0 EvTau (mkSnap 6 0 6 1%Z false 1048576 []);
      mkOStep 2 EvUnit (mkSnap 6 0 6 0%Z false 1048576 []);
      mkOStep 0 EvTau (mkSnap 6 0 6 0%Z false 1048576 []);
      mkOStep 10 EvTau (mkSnap 6 0 6 0%Z false 1048576 []);
      mkOStep 11 EvTau (mkSnap 6 0 6 0%Z false 1048576 []);
      mkOStep 12 (EvRead 2 [97;98] 0) (mkSnap 6 2 4 0%Z false 1048576 []);
      mkOStep 0 EvTau (mkSnap 6 2 4 0%Z false 1048576 []);
      mkOStep 13 EvTau (mkSnap 6 2 4 0%Z false 0 []);
      mkOStep 14 EvTau (mkSnap 6 2 4 0%Z false 0 []);
      mkOStep 15 EvTau (mkSnap 6 2 4 0%Z false 0 []);
      mkOStep 16 (EvReadAll [99;100;101;102]) (mkSnap 6 4 4 0%Z false 0 []);
      mkOStep 0 EvTau (mkSnap 6 4 4 0%Z false 0 []);
      mkOStep 4 (EvStats 6 4) (mkSnap 6 4 4 0%Z false 0 [])]
      [99;100;101;102])) = false.
Proof. vm_compute. reflexivity. Qed.

(* (c) ... and it rejects a blocked writer that does not resume: what the code did
   under the seeded edit "Write reads stdin.max once, before its back-pressure
   loop" (writer blocked at limit 1, ReadAll lifts the limit, the writer's next
   check still sees the stale limit and goes back to polling: yield point 6
   instead of 8). *)
Example C01_progress_nonvacuous :
  spec_ok (Ctl 1 [[OOpen; (OWrite [97;98]); (OWrite [99]); OClose]; [OReadAll; OStats]] [0%nat; 0%nat; 0%nat; 0%nat; 0%nat; 0%nat; 0%nat; 0%nat; 0%nat; 1%nat; 1%nat; 0%nat; 0%nat; 0%nat; 0%nat; 0%nat; 1%nat; 1%nat; 1%nat] (mkCtlObs [(mkOStep 0 EvTau (mkSnap 0 0 0 (0)%Z false 1 []));
  (mkOStep 1 EvUnit (mkSnap 0 0 0 (1)%Z false 1 []));
  (mkOStep 0 EvTau (mkSnap 0 0 0 (1)%Z false 1 []));
  (mkOStep 6 EvTau (mkSnap 0 0 0 (1)%Z false 1 []));
  (mkOStep 7 EvTau (mkSnap 0 0 0 (1)%Z false 1 []));
  (mkOStep 8 (EvWrite [97;98] 2 0) (mkSnap 2 0 2 (1)%Z false 1 []));
  (mkOStep 0 EvTau (mkSnap 2 0 2 (1)%Z false 1 []));
  (mkOStep 6 EvTau (mkSnap 2 0 2 (1)%Z false 1 []));
  (mkOStep 7 EvTau (mkSnap 2 0 2 (1)%Z false 1 []));
  (mkOStep 0 EvTau (mkSnap 2 0 2 (1)%Z false 1 []));
  (mkOStep 13 EvTau (mkSnap 2 0 2 (1)%Z false 0 []));
  (mkOStep 6 EvTau (mkSnap 2 0 2 (1)%Z false 0 []));
  (mkOStep 7 EvTau (mkSnap 2 0 2 (1)%Z false 0 []));
  (mkOStep 6 EvTau (mkSnap 2 0 2 (1)%Z false 0 []));
  (mkOStep 7 EvTau (mkSnap 2 0 2 (1)%Z false 0 []));
  (mkOStep 6 EvTau (mkSnap 2 0 2 (1)%Z false 0 []));
  (mkOStep 14 EvTau (mkSnap 2 0 2 (1)%Z false 0 []));
  (mkOStep 15 EvTau (mkSnap 2 0 2 (1)%Z false 0 []));
  (mkOStep 14 EvTau (mkSnap 2 0 2 (1)%Z false 0 []))] [97;98])) = false.
Proof. vm_compute. reflexivity. Qed.
