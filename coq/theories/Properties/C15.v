(* C15 — Array streams round-trip and foreach visits each element once.
   Only theorem statements here; proofs live in Proof/ArrayIO.v. *)
From Murex Require Import Base.Outcome Base.Bytes Model.ByteStr Model.ArrayIO Check.C15 Proof.ByteStr Proof.ArrayIO.

(* Writing a legal list with the type's ArrayWriter and reading the bytes back
   delivers exactly that list, in order — any length, including the empty list. *)
Theorem C15_array_roundtrip_str : forall xs,
  forallb (legal_elem TStr) xs = true -> read_str (write_lines xs) = (xs, false).
Proof. exact roundtrip_str. Qed.
Print Assumptions C15_array_roundtrip_str.

Theorem C15_array_roundtrip_generic : forall xs,
  forallb (legal_elem TGeneric) xs = true -> read_generic (write_lines xs) = (xs, false).
Proof. exact roundtrip_generic. Qed.
Print Assumptions C15_array_roundtrip_generic.

Theorem C15_array_roundtrip_jsonl : forall xs,
  forallb (legal_elem TJsonl) xs = true -> read_jsonl (write_lines xs) = (xs, false).
Proof. exact roundtrip_jsonl. Qed.
Print Assumptions C15_array_roundtrip_jsonl.

(* json: encoding/json's []string codec enters as two named hypotheses.  The
   empty list is the documented exception of the writer: Close reports
   "no data returned" (proc strict-arrays), writes nothing, and the empty stream
   reads back as the empty list. *)
Theorem C15_array_roundtrip_json :
  forall (jenc : list bytes -> bytes) (jdec : bytes -> option (list bytes)),
  (forall xs, jdec (jenc xs) = Some (map sanitize xs)) ->
  (forall xs, xs <> [] -> crlf_trim (jenc xs) <> []) ->
  forall xs, forallb valid_utf8 xs = true ->
  read_json jdec (fst (write_json jenc xs)) = (xs, false) /\
  snd (write_json jenc xs) = match xs with [] => true | _ => false end.
Proof. exact roundtrip_json. Qed.
Print Assumptions C15_array_roundtrip_json.

(* the element-level json model evaluated by the check is that byte-level model *)
Theorem C15_json_model_is_codec :
  forall (jenc : list bytes -> bytes) (jdec : bytes -> option (list bytes)),
  (forall xs, jdec (jenc xs) = Some (map sanitize xs)) ->
  (forall xs, xs <> [] -> crlf_trim (jenc xs) <> []) ->
  forall xs, roundtrip TJson xs =
    Some (fst (read_json jdec (fst (write_json jenc xs))), snd (write_json jenc xs),
          snd (read_json jdec (fst (write_json jenc xs)))).
Proof. exact roundtrip_json_model. Qed.
Print Assumptions C15_json_model_is_codec.

(* generic: the tabwriter leaves legal elements without a form feed untouched
   (0xff, its escape byte, included) *)
Theorem C15_write_generic_legal : forall xs,
  forallb (legal_elem TGeneric) xs = true -> forallb no_ff xs = true ->
  write_generic xs = Some (write_lines xs).
Proof. exact write_generic_legal. Qed.
Print Assumptions C15_write_generic_legal.

(* F15-3 (known finding 3): a form feed — legal by the property's alphabet — is
   written as a line break *)
Theorem C15_generic_formfeed_refuted :
  forallb (legal_elem TGeneric) [[97; 12; 98]]%N = true /\
  roundtrip TGeneric [[97; 12; 98]]%N = Some ([[97]; [98]]%N, false, false).
Proof. exact generic_ff_refuted. Qed.
Print Assumptions C15_generic_formfeed_refuted.

(* paths: join with `:` / split at `:` *)
Theorem C15_array_roundtrip_paths : forall xs, xs <> [] -> forallb no_colon xs = true ->
  split_colon (join_colon xs) = xs.
Proof. exact roundtrip_paths. Qed.
Print Assumptions C15_array_roundtrip_paths.

(* F15-4 (known finding 4): the empty list comes back as one empty element *)
Theorem C15_paths_empty_refuted : roundtrip TPaths [] = Some ([[]], false, false).
Proof. exact paths_empty_refuted. Qed.
Print Assumptions C15_paths_empty_refuted.

(* yaml (writer after the fix): the YAML library's scalar encoder and decoder
   enter as named hypotheses, every list round-trips *)
Theorem C15_array_roundtrip_yaml :
  forall (yscalar : bytes -> bytes) (ydec : bytes -> option (list bytes)),
  (forall xs, xs <> [] -> ydec (write_yaml yscalar xs) = Some xs) ->
  (forall xs, xs <> [] -> crlf_trim (write_yaml yscalar xs) <> []) ->
  forall xs, read_yaml ydec (write_yaml yscalar xs) = (xs, false).
Proof. exact roundtrip_yaml. Qed.
Print Assumptions C15_array_roundtrip_yaml.

(* all six modelled types at once, as the function the check evaluates; `extra`
   is the exact guard excluding findings 3 and 4 *)
Theorem C15_roundtrip_legal : forall t xs, main_ty t ->
  forallb (legal_elem t) xs = true -> extra t xs = true ->
  roundtrip t xs = Some (xs, match t, xs with TJson, [] => true | _, _ => false end, false).
Proof. exact roundtrip_legal. Qed.
Print Assumptions C15_roundtrip_legal.

(* foreach runs its body once per element, in order, with the element bound
   verbatim — for lists without an empty-string element (F15 below). *)
Theorem C15_foreach_once_in_order : forall xs,
  forallb text_elem xs = true -> foreach_bound xs = xs /\ foreach_seen xs = xs.
Proof. exact foreach_once_in_order. Qed.
Print Assumptions C15_foreach_once_in_order.

(* F15 (known finding 1): the faithful model of forEachInnerLoop skips "" —
   `%["x","","y"] -> foreach e {…}` runs the body twice. *)
Theorem C15_foreach_refuted :
  exists ob, model_obs TJson (map expand f15_in) = Some ob /\
    spec_ok {| c_ty := TJson; c_in := f15_in; c_legal_other := true; c_docs := true; c_obs := ob |} = false /\
    classify {| c_ty := TJson; c_in := f15_in; c_legal_other := true; c_docs := true; c_obs := ob |} = 1%N /\
    length (o_each ob) = 2%nat.
Proof. exact foreach_refuted. Qed.
Print Assumptions C15_foreach_refuted.

(* Headline: for every main type and every input list without an empty element
   the model's observation satisfies the predicate the check evaluates on the
   implementation's observations (round trip and foreach). *)
Theorem C15_model_meets_spec : forall t cin docs,
  main_ty t ->
  let xs := map expand cin in
  forallb nonempty xs = true -> extra t xs = true ->
  forall ob, model_obs t xs = Some ob ->
  spec_ok {| c_ty := t; c_in := cin; c_legal_other := true; c_docs := docs; c_obs := ob |} = true.
Proof. exact model_meets_spec. Qed.
Print Assumptions C15_model_meets_spec.

(* Every clause of the legal alphabets is necessary (one witness per clause). *)
Theorem C15_legal_sharp :
  rt_differs TStr [[97; 10; 98]]%N = true /\ rt_differs TGeneric [[97; 10; 98]]%N = true /\
  rt_differs TJsonl [[97; 10; 98]]%N = true /\
  rt_differs TStr [[32; 97]]%N = true /\ rt_differs TStr [[97; 9]]%N = true /\
  rt_differs TJsonl [[194; 160; 97]]%N = true /\ rt_differs TJsonl [[97; 226; 128; 168]]%N = true /\
  rt_differs TGeneric [[32; 97; 32]]%N = false /\
  rt_differs TGeneric [[97; 13]]%N = true /\
  rt_differs TStr [N.iter 65536 (cons 120%N) []] = true /\
  rt_differs TGeneric [N.iter 65536 (cons 120%N) []] = true /\
  rt_differs TStr [N.iter 65535 (cons 120%N) []] = false /\
  rt_differs TJson [[97; 255]]%N = true /\
  rt_differs TPaths [[97; 58; 98]]%N = true.
Proof. exact legal_sharp. Qed.
Print Assumptions C15_legal_sharp.

(* Non-vacuity: a legal, empty-free list exists for which the model produces an
   observation, and spec_ok rejects wrong observations (an element dropped by
   the reader; a body run twice for one element). *)
Local Open Scope N_scope.
Example C15_nonvacuous :
  forallb (legal_elem TStr) [[97]; [98; 32; 99]] = true /\
  (exists ob, model_obs TStr [[97]; [98; 32; 99]] = Some ob) /\
  spec_ok {| c_ty := TStr; c_in := [[Lit [97]]; [Lit [98]]]; c_legal_other := true; c_docs := false;
             c_obs := {| o_werr := false; o_read := [[Lit [97]]]; o_rerr := false; o_typed := true;
                         o_each := [[Lit [97]]; [Lit [98]]] |} |} = false /\
  spec_ok {| c_ty := TStr; c_in := [[Lit [97]]; [Lit [98]]]; c_legal_other := true; c_docs := false;
             c_obs := {| o_werr := false; o_read := [[Lit [97]]; [Lit [98]]]; o_rerr := false; o_typed := true;
                         o_each := [[Lit [97]]; [Lit [97]]; [Lit [98]]] |} |} = false.
Proof. vm_compute. repeat split. eexists; reflexivity. Qed.
