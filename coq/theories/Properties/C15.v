From Murex Require Import Check.C15.
Example C15_stub_nonvacuous : True. Proof. exact I. Qed.
