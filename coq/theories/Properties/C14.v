(* C14 — stub while the harness is being validated *)
From Murex Require Import Base.Outcome Model.Format Check.C14.
Theorem C14_stub : True. Proof. exact I. Qed.
Print Assumptions C14_stub.
