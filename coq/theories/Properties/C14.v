(* C14 — format preserves structured data between formats.
   Only theorem statements here; proofs live in Proof/Format.v. *)
From Murex Require Import Base.Outcome Base.Bytes Model.Alter Model.Format Check.C14 Proof.Format.

(* csv: the encoding/csv reader (TrimLeadingSpace, Comment '#') applied to what
   the writer printed gives back every row of every table, of any size, whose
   rows have at least one cell, are not a single empty cell, do not start with
   '#' and contain no carriage return (row_ok: exactly what findings 1-3 exclude). *)
Theorem C14_csv_roundtrip : forall t, Forall row_ok t -> csv_read (wtable t) = map RRow t.
Proof. exact csv_roundtrip. Qed.
Print Assumptions C14_csv_roundtrip.

(* list of records -> table (MapToTable) -> list of records (Table2Map) is the
   identity on rectangular tables of string cells *)
Theorem C14_table_map_roundtrip : forall o ms,
  NoDup (map fst o) -> is_table (JObj o :: ms) = true ->
  exists t, maps_to_table (JObj o :: ms) = Some (map fst o :: t) /\
            table_to_maps (map RRow (map fst o :: t)) = Ok (JArr (JObj o :: ms)).
Proof. exact table_map_roundtrip. Qed.
Print Assumptions C14_table_map_roundtrip.

(* the whole pipeline json -> csv -> json *)
Theorem C14_csv_format_roundtrip : forall o ms,
  NoDup (map fst o) -> is_table (JObj o :: ms) = true -> csv_guard (JObj o :: ms) ->
  format_rt FCsv (JArr (JObj o :: ms)) = Ok (JArr (JObj o :: ms)).
Proof. exact csv_format_roundtrip. Qed.
Print Assumptions C14_csv_format_roundtrip.

(* the guard cannot be dropped: the design-phase witness loses its only row,
   a one-column table loses its empty cells *)
Theorem C14_csv_comment_refuted :
  exists ms, is_table ms = true /\
    format_rt FCsv (JArr ms) = Ok (JArr []) /\ spec_ok (model_case FCsv (JArr ms)) = false.
Proof.
  exists [JObj [([97], JStr [35; 121]); ([98], JStr [32; 50])]]%N.
  vm_compute. repeat split.
Qed.
Print Assumptions C14_csv_comment_refuted.

Theorem C14_csv_blank_refuted :
  exists ms, is_table ms = true /\ spec_ok (model_case FCsv (JArr ms)) = false.
Proof.
  exists [JObj [([97], JStr [])]; JObj [([97], JStr [120])]; JObj [([97], JStr [])]]%N.
  vm_compute. repeat split.
Qed.
Print Assumptions C14_csv_blank_refuted.

(* jsonl: every non-empty array whose leading array elements hold only strings *)
Theorem C14_jsonl_roundtrip : forall es,
  es <> [] -> rows_are_strings es -> format_rt FJsonl (JArr es) = Ok (JArr es).
Proof. exact jsonl_roundtrip. Qed.
Print Assumptions C14_jsonl_roundtrip.

(* ... for any JSON printer that emits no newline, the text splits back into
   exactly one line per element *)
Theorem C14_jsonl_lines : forall pj : json -> bytes,
  (forall v, ~ In 10%N (pj v)) -> forall es, split_lines [] (jsonl_text pj es) = map pj es.
Proof. exact jsonl_lines. Qed.
Print Assumptions C14_jsonl_lines.

Theorem C14_jsonl_rows_refuted :
  exists es, format_rt FJsonl (JArr es) <> Ok (JArr es) /\
             spec_ok (model_case FJsonl (JArr es)) = false.
Proof.
  exists [JArr [JNum [49]; JNum [50]]; JArr [JNum [51]; JNum [52]]]%N.
  split; [vm_compute; discriminate | vm_compute; reflexivity].
Qed.
Print Assumptions C14_jsonl_rows_refuted.

(* yaml / toml (partial): given the library round trip on a domain, murex's
   glue (cmdFormat: unmarshal with the source type, marshal with the target
   type, twice) adds no loss *)
Theorem C14_format_glue_preserves : forall enc dec (dom : json -> Prop),
  (forall v, dom v -> exists b, enc v = Some b /\ dec b = Some v) ->
  forall v, dom v -> format_via enc dec v = Ok v.
Proof. exact format_glue_preserves. Qed.
Print Assumptions C14_format_glue_preserves.

(* headline: the model's observation satisfies the predicate the check
   evaluates on the implementation *)
Theorem C14_csv_meets_spec : forall o ms,
  NoDup (map fst o) -> csv_guard (JObj o :: ms) ->
  spec_ok (model_case FCsv (JArr (JObj o :: ms))) = true.
Proof. exact csv_meets_spec. Qed.
Print Assumptions C14_csv_meets_spec.

Theorem C14_jsonl_meets_spec : forall es,
  es <> [] -> rows_are_strings es -> spec_ok (model_case FJsonl (JArr es)) = true.
Proof. exact jsonl_meets_spec. Qed.
Print Assumptions C14_jsonl_meets_spec.

(* Non-vacuity: a hostile table inside the guard (leading space, quote, comma,
   newline, '#' not in first position), and spec_ok rejects a dropped row. *)
Definition ex_rows : list json :=
  [JObj [([97], JStr [32; 50]); ([98], JStr [35; 121])];
   JObj [([97], JStr [34; 44; 10]); ([98], JStr [])]]%N.

Example C14_csv_nonvacuous :
  is_table ex_rows = true /\
  (exists t, maps_to_table ex_rows = Some t /\ Forall row_ok t) /\
  format_rt FCsv (JArr ex_rows) = Ok (JArr ex_rows) /\
  spec_ok {| c_fmt := FCsv; c_doc := JArr ex_rows; c_kind := 0; c_mid_ok := true; c_mid := [];
             c_out := Some (JArr [JObj [([97], JStr [32; 50]); ([98], JStr [35; 121])]]%N) |} = false.
Proof.
  split; [reflexivity|]. split; [|split; vm_compute; reflexivity].
  eexists. split; [vm_compute; reflexivity|].
  repeat constructor; try discriminate; unfold cell_ok; cbn; intuition discriminate.
Qed.

Example C14_jsonl_nonvacuous :
  rows_are_strings [JArr [JStr [97]]; JNum [49]; JArr [JNum [50]]]%N /\
  spec_ok {| c_fmt := FJsonl; c_doc := JArr [JNum [49]; JNull]%N; c_kind := 0; c_mid_ok := true;
             c_mid := []; c_out := Some (JArr [JNull]) |} = false.
Proof. split; [repeat constructor | reflexivity]. Qed.
