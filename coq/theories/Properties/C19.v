(* C19 — Murex code never crashes or hangs the shell.  PARTIAL: the theorem is the
   conjunction of the panic- and hang-freedom theorems of the builtins that have an
   executable model (explicit Panic / OutOfFuel outcomes); the rest of the builtin
   vocabulary is reached only by the child-process search of the check. *)
From Murex Require Import Base.Outcome Base.Bytes.
From Murex Require Proof.C19Total.
Import Murex.Proof.C19Total.

Theorem C19_modelled_builtins_total :
  (forall f o legacy doc params, total (Murex.Model.Index.run f o legacy doc params)) /\
  (forall A f (p : Murex.Model.Range.rparams) (xs : list A), total (Murex.Model.Range.run_range f p xs)) /\
  (forall e, Murex.Proof.MkArray.wf_expr e -> total (Murex.Model.MkArray.expand e)) /\
  (forall block pos, exists r, Murex.Model.Tokenizer.parse block pos = Ok r) /\
  (forall src orc, Murex.Model.BlockParse.contract_b src orc = true ->
     Murex.Proof.BlockParse.returns (Murex.Model.BlockParse.parse_block src orc)) /\
  (forall t c n args, Murex.Model.Resolve.resolve_cmd t c n args <> OutOfFuel) /\
  (forall a conv args, total (Murex.Model.Flags.args_builtin a conv args)) /\
  (forall ops s, ~ In Murex.Model.NamedPipes.RPanic (Murex.Model.NamedPipes.results s ops)) /\
  (forall s o, snd (Murex.Model.Jobs.step s o) <> Murex.Model.Jobs.RPanic).
Proof.
  exact (conj index_total (conj range_total (conj mkarray_total (conj tokenizer_total
        (conj block_parser_total (conj resolve_terminates (conj args_total
        (conj named_pipes_total jobs_total)))))))).
Qed.
Print Assumptions C19_modelled_builtins_total.

Theorem C19_model_meets_spec : forall p,
  Murex.Check.C19.spec_ok {| Murex.Check.C19.c_prog := p;
                             Murex.Check.C19.c_kind := Murex.Check.C19.model_kind p |} = true.
Proof. exact model_meets_spec. Qed.
Print Assumptions C19_model_meets_spec.

(* the predicate is not vacuous: it rejects an internal panic, a dead shell and a hang *)
Example C19_nonvacuous :
  Murex.Check.C19.spec_ok {| Murex.Check.C19.c_prog := [104]%N; Murex.Check.C19.c_kind := 1%N |} = false /\
  Murex.Check.C19.spec_ok {| Murex.Check.C19.c_prog := [104]%N; Murex.Check.C19.c_kind := 2%N |} = false /\
  Murex.Check.C19.spec_ok {| Murex.Check.C19.c_prog := [104]%N; Murex.Check.C19.c_kind := 3%N |} = false.
Proof. repeat split. Qed.
