From Murex Require Import Check.C36.
Example C36_stub_nonvacuous : True. Proof. exact I. Qed.
