(* C36 — `%[ ]` and `%{ }` literals build the same value as JSON.
   Only theorem statements here; proofs live in Proof/Literal.v. *)
From Murex Require Import Base.Outcome Base.Bytes Model.ByteStr Model.Literal Check.C36 Proof.Literal.

(* Headline.  For every text in the image of the printer — a document of the
   property's grammar (null, true, false, JSON numbers, double-quoted strings
   without murex escapes, arrays and objects nested to any depth) rendered in any
   style: single-line with arbitrary inline white space, or indented over several
   lines with line breaks after opening brackets and commas and before closing
   brackets — the literal evaluates to exactly what the plain JSON parser reads.
   The only excluded shape is known finding 1: a line break between a key's
   colon and its value (s_colb / s_cola are inline white space). *)
Theorem C36_literal_eq_json : forall txt, rendering txt -> lit_parse (37%N :: txt) = json_parse txt.
Proof. exact literal_eq_json. Qed.
Print Assumptions C36_literal_eq_json.

(* both sides separately: the value is the one the document denotes (objects:
   members in key order, a repeated key keeping its last value) *)
Theorem C36_literal_value : forall st, style_ok st -> forall j, restricted j = true -> top j ->
  lit_parse (37%N :: print st 0 j) = Ok (canon j).
Proof. exact literal_value. Qed.
Print Assumptions C36_literal_value.

(* print / json_parse round trip *)
Theorem C36_json_parse_print : forall st, style_ok st -> forall j, restricted j = true -> top j ->
  json_parse (print st 0 j) = Ok (canon j).
Proof. exact json_parse_print. Qed.
Print Assumptions C36_json_parse_print.

(* parseArrayMaker's `..` range detection never fires on such text *)
Theorem C36_arraymaker_never_fires_on_json : forall st, style_ok st ->
  forall d l rest, restricted (JArr l) = true ->
  match print st d (JArr l) ++ rest with
  | _ :: r => maker_scan r 1 false = MkEarly \/ maker_scan r 1 false = MkEnd false
  | [] => False
  end.
Proof. exact arraymaker_never_fires. Qed.
Print Assumptions C36_arraymaker_never_fires_on_json.

(* every element / member value is consumed exactly once by the array loop and
   by the object loop (the inductive invariant) *)
Theorem C36_value_consumed : forall st, style_ok st ->
  forall j d, restricted j = true -> elem_ok st d j /\ val_ok st d j.
Proof. exact both. Qed.
Print Assumptions C36_value_consumed.

(* the generator's styles are styles of the theorem: encoding/json's MarshalIndent
   layout with any indentation width, and every constant-spacing layout *)
Theorem C36_indent_style_ok : forall k, style_ok (indent_style k).
Proof. exact indent_style_ok. Qed.
Print Assumptions C36_indent_style_ok.

Theorem C36_const_style_ok : forall o cb ca colb cola cl e,
  wsn_ok o = true -> ws_ok cb = true -> wsn_ok ca = true -> ws_ok colb = true -> ws_ok cola = true ->
  wsn_ok cl = true -> wsn_ok e = true -> style_ok (const_style o cb ca colb cola cl e).
Proof. exact const_style_ok. Qed.
Print Assumptions C36_const_style_ok.

(* ... and any layout made of a line-break string and an indentation unit per
   level: tab indentation, CRLF line ends *)
Theorem C36_layout_style_ok : forall nl unit cola,
  wsn_ok nl = true -> wsn_ok unit = true -> ws_ok cola = true -> style_ok (layout_style nl unit cola).
Proof. exact layout_style_ok. Qed.
Print Assumptions C36_layout_style_ok.

(* Non-vacuity: a real document (numbers such as -12.5e+3, strings with `..`,
   brackets and multi-byte characters, nested objects with a repeated key, empty
   containers) rendered with 2-space indentation evaluates; the excluded shape
   (newline after a colon) fails in the model exactly as in murex; `%[1..3]` does
   fire the array maker; spec_ok rejects a wrong value. *)
Local Open Scope N_scope.
Definition C36_sample : json :=
  JArr [JNum [45; 49; 50; 46; 53; 101; 43; 51]; JStr [97; 46; 46; 98; 91; 195; 169]; JNull; JArr [];
        JObj [([107], JBool true); ([97], JArr [JObj []]); ([107], JNum [48])]].
Example C36_nonvacuous :
  restricted C36_sample = true /\
  lit_parse (37 :: print (indent_style 2) 0 C36_sample) =
    Ok (JArr [JNum [45; 49; 50; 46; 53; 101; 43; 51]; JStr [97; 46; 46; 98; 91; 195; 169]; JNull; JArr [];
              JObj [([97], JArr [JObj []]); ([107], JNum [48])]]) /\
  json_parse (print (indent_style 2) 0 C36_sample) = lit_parse (37 :: print (indent_style 2) 0 C36_sample) /\
  existsb (N.eqb 10) (print (indent_style 2) 0 C36_sample) = true /\
  lit_parse [37; 123; 34; 97; 34; 58; 10; 49; 125] = Err 5 /\
  json_parse [123; 34; 97; 34; 58; 10; 49; 125] = Ok (JObj [([97], JNum [49])]) /\
  lit_parse [37; 91; 49; 46; 46; 51; 93] = Err 8 /\
  spec_ok {| c_text := [37; 91; 110; 117; 108; 108; 93]; c_nums := [];
             c_obs := {| o_ok := true; o_val := VArr [VStr [110; 117; 108; 108]];
                         o_jok := true; o_jval := VArr [VNull] |} |} = false.
Proof. vm_compute. repeat split. Qed.
