(* C36 — `%[ ]` and `%{ }` literals build the same value as JSON.
   Only theorem statements here; proofs live in Proof/Literal.v. *)
From Murex Require Import Base.Outcome Base.Bytes Model.ByteStr Model.Literal Check.C36 Proof.Literal.

(* A literal written as a JSON array or object of the property's grammar —
   null, true, false, numbers, double-quoted strings without murex escapes,
   arrays and objects nested to any depth — printed with any inline spacing
   variant (spaces, tabs, \r around brackets, commas and colons) evaluates to
   exactly the value the document denotes (objects: members in key order, a
   repeated key keeping its last value, as encoding/json does). *)
Theorem C36_literal_eq_json : forall st, style_ok st = true ->
  forall j, restricted j = true ->
  match j with JArr _ | JObj _ => True | _ => False end ->
  lit_parse (37%N :: print st j) = Ok (canon j).
Proof. exact literal_eq_json. Qed.
Print Assumptions C36_literal_eq_json.

(* parseArrayMaker's `..` range detection never fires on such text: its scan
   stops early or ends with the range flag unset, for a JSON array followed by
   anything. *)
Theorem C36_arraymaker_never_fires_on_json : forall st, style_ok st = true ->
  forall l rest, restricted (JArr l) = true ->
  match print st (JArr l) ++ rest with
  | _ :: r => maker_scan r 1 false = MkEarly \/ maker_scan r 1 false = MkEnd false
  | [] => False
  end.
Proof. exact arraymaker_never_fires. Qed.
Print Assumptions C36_arraymaker_never_fires_on_json.

(* every element / member value is consumed exactly once by the array loop and
   by the object loop (the inductive invariant of the headline theorem) *)
Theorem C36_value_consumed : forall st, style_ok st = true ->
  forall j, restricted j = true -> elem_ok st j /\ val_ok st j.
Proof. exact both. Qed.
Print Assumptions C36_value_consumed.

(* Non-vacuity: the grammar contains real documents (numbers such as -12.5e+3,
   strings with `..`, brackets and multi-byte characters, nested objects with a
   repeated key), the literal evaluates, a `..` outside a string does fire the
   array maker, and spec_ok rejects a wrong value. *)
Local Open Scope N_scope.
Definition C36_sample : json :=
  JArr [JNum [45; 49; 50; 46; 53; 101; 43; 51]; JStr [97; 46; 46; 98; 91; 195; 169]; JNull;
        JObj [([107], JBool true); ([97], JArr []); ([107], JNum [48])]].
Definition C36_loose : style :=
  {| s_open := [32]; s_cb := [32]; s_ca := [32; 9]; s_colb := [32]; s_cola := [32; 32]; s_close := [13; 32] |}.
Example C36_nonvacuous :
  restricted C36_sample = true /\ style_ok C36_loose = true /\
  lit_parse (37 :: print C36_loose C36_sample) =
    Ok (JArr [JNum [45; 49; 50; 46; 53; 101; 43; 51]; JStr [97; 46; 46; 98; 91; 195; 169]; JNull;
              JObj [([97], JArr []); ([107], JNum [48])]]) /\
  lit_parse [37; 91; 49; 46; 46; 51; 93] = Err 8 /\
  spec_ok {| c_text := [37; 91; 110; 117; 108; 108; 93]; c_nums := [];
             c_obs := {| o_ok := true; o_val := VArr [VStr [110; 117; 108; 108]];
                         o_jok := true; o_jval := VArr [VNull] |} |} = false.
Proof. vm_compute. repeat split. Qed.
