(* C32 — Running murex code causes no data races (partial: the anchored structs' own
   methods, intra-procedural locking).  Statements only; proofs in Proof/Lockset.v. *)
From Coq Require Import List NArith Bool String.
Import ListNotations.
From Murex Require Import Model.Lockset Gen.Lockset Check.C32 Proof.Lockset.

(* Soundness of the discipline, for ANY classification c of fields, ANY guard map, ANY number
   of threads each running ANY sequence of paths that pass path_ok (every Wr holds the write
   lock of the field's mutex, every Rd holds it at least for reading unless the field is never
   written, atomics are not mixed with plain accesses outside the lock, every path is lock
   balanced), in ANY interleaving allowed by the lock semantics (Lock exclusive, RLock
   excludes Lock): no reachable state has two threads about to perform conflicting accesses. *)
Theorem C32_lockset_sound :
  forall (c : cls) (guard : N -> option N) (progs : list (list path)),
  Forall (Forall (fun p => path_ok c guard p = true)) progs ->
  forall st, reachable (init_state progs) st -> ~ racy st.
Proof. exact lockset_sound. Qed.
Print Assumptions C32_lockset_sound.

(* The discipline holds TODAY for every path of every method the translator extracted from
   /repo (Gen/Lockset.v, regenerated on every run), except the listed findings and the
   caller-locked helper. *)
Theorem C32_discipline_now : lockset_ok guard_table (without excluded methods) = true.
Proof. vm_compute. reflexivity. Qed.
Print Assumptions C32_discipline_now.

(* ... so threads that call any of those methods, in any order and number, never race on
   the fields of the anchored structs. *)
Theorem C32_current_methods_race_free :
  forall (progs : list (list path)),
  Forall (Forall (fun p => In p (table_paths (without excluded methods)))) progs ->
  forall st, reachable (init_state progs) st -> ~ racy st.
Proof.
  intros progs H. apply (lockset_table_sound guard_table (without excluded methods) progs); [|exact H].
  vm_compute. reflexivity.
Qed.
Print Assumptions C32_current_methods_race_free.

(* The excluded methods are exactly the ones that break the discipline today: nothing is
   excluded that passes (for the findings that the translator can see), nothing fails
   that is not excluded. *)
Theorem C32_bad_methods_are_the_listed_ones :
  forallb (fun m => in_names excluded m) (bad_methods guard_table methods) = true /\
  bad_methods guard_table (without excluded methods) = [].
Proof. vm_compute. split; reflexivity. Qed.
Print Assumptions C32_bad_methods_are_the_listed_ones.

(* The findings are violations of the discipline: frozen witness = the paths of
   Stdin.GetDataType / SetDataType as extracted from the pinned tree (finding 1: the cancelled
   branch reads dataType without the mutex).  Stated on the frozen paths, not on Gen, so that
   a later repair of the code does not break this file. *)
Definition witness_table : table := [
  ("streams.Stdin.GetDataType"%string,
     [[Rd 0; Rd 6]; [Lock 0; Rd 6; Unlock 0]; [Lock 0; Rd 6; Rd 5; Unlock 0]]);
  ("streams.Stdin.SetDataType"%string,
     [[]; [Lock 0; Rd 6; Wr 6; Unlock 0]; [Lock 0; Rd 6; Unlock 0]])
]%N.
Theorem C32_discipline_refuted :
  lockset_ok [(0, 0); (5, 0); (6, 0)]%N witness_table = false /\
  bad_methods [(0, 0); (5, 0); (6, 0)]%N witness_table = ["streams.Stdin.GetDataType"%string].
Proof. vm_compute. split; reflexivity. Qed.
Print Assumptions C32_discipline_refuted.

(* Non-vacuity: the semantics does exhibit a race for an undisciplined pair of paths (write
   after unlock against a locked read: the pre-fix Named.Delete), path_ok rejects exactly
   that path, and spec_ok rejects an observation with a race report. *)
Open Scope N_scope.
Definition ex_guard (f : N) : option N := Some 0.
Definition ex_cls : cls := mkcls (fun _ => true) (fun _ => false) (fun _ => true).
Example C32_nonvacuous :
  path_ok ex_cls ex_guard [Lock 0; Rd 1; Wr 1; Unlock 0] = true /\
  path_ok ex_cls ex_guard [Lock 0; Rd 1; Unlock 0; Wr 1] = false /\
  (exists st, reachable (init_state [[[Lock 0; Rd 1; Unlock 0; Wr 1]]; [[Lock 0; Rd 1; Unlock 0]]]) st /\ racy st) /\
  spec_ok (mkcase KPair "pipes.Named.Delete" "pipes.Named.Get" true false ["pipes.Named.Delete"%string]) = false /\
  spec_ok (mkcase KPair "pipes.Named.Get" "pipes.Named.Get" false false []) = true.
Proof.
  split; [reflexivity|]. split; [reflexivity|]. split; [|split; reflexivity].
  (* thread 0: Lock, Rd, Unlock -> about to Wr 1; thread 1: Lock -> about to Rd 1 *)
  eexists. split.
  - eapply reach_step with (i := 0%nat); [reflexivity|].
    eapply reach_step with (i := 0%nat); [reflexivity|].
    eapply reach_step with (i := 0%nat); [reflexivity|].
    eapply reach_step with (i := 1%nat); [reflexivity|].
    apply reach_refl.
  - exists 0%nat, 1%nat. do 4 eexists.
    split; [discriminate|]. split; [reflexivity|]. split; [reflexivity|].
    split; [reflexivity|]. split; reflexivity.
Qed.
