(* C16 — Index and element lookups return the element or a clean error.
   Only theorem statements here; proofs live in Proof/Index.v. *)
From Murex Require Import Base.Outcome Base.Bytes Model.Decimal Model.Index Check.C16 Proof.Index Proof.Decimal Proof.DecimalCor.
Open Scope Z_scope.

(* `[k]` on an array of any length n: for -n <= k < n the element k (negative k
   counts from the end) is what is written ... *)
Theorem C16_index_in_range : forall xs key k,
  atoi key = Some k -> in_range (zlen xs) k ->
  exists v, spec_pick xs k = Some v /\ ito_index_array [key] xs = Ok (render_index v).
Proof. exact index_in_range. Qed.
Print Assumptions C16_index_in_range.

(* ... and every other integer is a clean error. *)
Theorem C16_index_out_of_range_errs : forall xs key k,
  atoi key = Some k -> ~ in_range (zlen xs) k -> ito_index_array [key] xs = Err E_RANGE.
Proof. exact index_out_of_range_errs. Qed.
Print Assumptions C16_index_out_of_range_errs.

(* The same two statements over integers: strconv.Itoa k is a text that
   strconv.Atoi reads back as k, for every int64 k. *)
Theorem C16_atoi_itoa : forall z, (int_min <= z <= int_max)%Z -> atoi (itoa z) = Some z.
Proof. exact atoi_itoa. Qed.
Print Assumptions C16_atoi_itoa.

Theorem C16_index_in_range_int : forall xs k, int64 k -> in_range (zlen xs) k ->
  exists v, spec_pick xs k = Some v /\ ito_index_array [itoa k] xs = Ok (render_index v).
Proof. exact I16.index_in_range_int. Qed.
Print Assumptions C16_index_in_range_int.

Theorem C16_index_out_of_range_int : forall xs k, int64 k -> ~ in_range (zlen xs) k ->
  ito_index_array [itoa k] xs = Err E_RANGE.
Proof. exact I16.index_out_of_range_int. Qed.
Print Assumptions C16_index_out_of_range_int.

(* No list of parameters (integers or not, any number of them) makes
   itoIndexArray reach a slice access outside the array. *)
Theorem C16_index_never_panics : forall params xs, clean (ito_index_array params xs).
Proof. exact index_never_panics. Qed.
Print Assumptions C16_index_never_panics.

(* Several indexes: all in range gives the elements in parameter order; one out
   of range gives a clean error. *)
Theorem C16_index_multi_in_range : forall xs params ks,
  Forall2 (fun key k => atoi key = Some k /\ in_range (zlen xs) k) params ks ->
  exists vs, Forall2 (fun k v => spec_pick xs k = Some v) ks vs /\ array_collect params xs = Ok vs.
Proof. exact index_multi_in_range. Qed.
Print Assumptions C16_index_multi_in_range.

Theorem C16_index_multi_out_of_range : forall xs params key k,
  In key params -> atoi key = Some k -> ~ in_range (zlen xs) k ->
  exists e, array_collect params xs = Err e.
Proof. exact index_multi_out_of_range. Qed.
Print Assumptions C16_index_multi_out_of_range.

(* `[[/k]]` (any separator byte): the same three statements. *)
Theorem C16_element_in_range : forall xs sep key k,
  existsb (N.eqb sep) key = false -> atoi key = Some k -> in_range (zlen xs) k ->
  exists v, spec_pick xs k = Some v /\ element_lookup (sep :: key) (JArr xs) = Ok v.
Proof. exact element_in_range. Qed.
Print Assumptions C16_element_in_range.

Theorem C16_element_out_of_range_errs : forall xs sep key k,
  existsb (N.eqb sep) key = false -> atoi key = Some k -> ~ in_range (zlen xs) k ->
  element_lookup (sep :: key) (JArr xs) = Err E_RANGE.
Proof. exact element_out_of_range_errs. Qed.
Print Assumptions C16_element_out_of_range_errs.

(* Paths of any depth on documents of any shape never panic, and paths compose. *)
Theorem C16_element_never_panics : forall path obj, clean (element_lookup path obj).
Proof. exact element_lookup_never_panics. Qed.
Print Assumptions C16_element_never_panics.

Theorem C16_element_paths_compose : forall a b obj,
  Forall (fun c => c <> []) a -> elem_walk (a ++ b) obj = obind (elem_walk a obj) (elem_walk b).
Proof. exact elem_walk_app. Qed.
Print Assumptions C16_element_paths_compose.

(* On a map, `[key]` returns that key's value. *)
Theorem C16_map_key_returns_value : forall legacy kv key v,
  bracketed key = None -> assoc key kv = Some v ->
  ito_index_map legacy [key] kv = Ok (render_index v).
Proof. exact map_key_returns_value. Qed.
Print Assumptions C16_map_key_returns_value.

(* No index or element lookup — `[`, `![`, `[[`, json / yaml / jsonl, any
   document, any parameters — ends in a panic or a hang. *)
Theorem C16_run_never_panics : forall f o legacy doc params, clean (run f o legacy doc params).
Proof. exact run_never_panics. Qed.
Print Assumptions C16_run_never_panics.

(* The model's observation satisfies the predicate the check evaluates on the
   implementation: unguarded for `[` and `![` ... *)
Theorem C16_index_meets_spec : forall f o legacy doc params,
  f <> FJsonl -> o <> OpElem -> spec_ok (mk f o legacy doc params) = true.
Proof. exact index_meets_spec. Qed.
Print Assumptions C16_index_meets_spec.

(* ... and for every operator outside the listed known-finding shapes. *)
Theorem C16_model_meets_spec : forall f o legacy doc params,
  f <> FJsonl -> classify (mk f o legacy doc params) = 0%N ->
  spec_ok (mk f o legacy doc params) = true.
Proof. exact model_meets_spec_json_yaml. Qed.
Print Assumptions C16_model_meets_spec.

(* The listed findings are real (model = implementation on these witnesses). *)
Theorem C16_jsonl_row_past_end_refuted :
  spec_ok (mk FJsonl OpIndex true (JArr [JNum 1; JNum 2; JNum 3]) [[53%N]]) = false.
Proof. exact jsonl_row_past_end_refuted. Qed.
Print Assumptions C16_jsonl_row_past_end_refuted.

Theorem C16_json_null_element_refuted :
  spec_ok (mk FJson OpElem true (JArr [JNum 1; JNull]) [[47%N; 49%N]]) = false.
Proof. exact json_null_element_refuted. Qed.
Print Assumptions C16_json_null_element_refuted.

Theorem C16_jsonl_table_element_refuted :
  spec_ok (mk FJsonl OpElem true (JArr [JArr [JNum 1]; JArr [JNum 2]]) [[47%N; 49%N]]) = false.
Proof. exact jsonl_table_element_refuted. Qed.
Print Assumptions C16_jsonl_table_element_refuted.

(* ... and the model predicts them for every input of their shape (so the
   correspondence run compares them exactly instead of skipping them). *)
Theorem C16_jsonl_row_past_end_predicted : forall rows key k,
  all_digits key = true -> atoi key = Some k -> zlen rows <= k ->
  jsonl_index false [key] rows = Ok (OutVal (JArr [])).
Proof. exact jsonl_row_past_end_predicted. Qed.
Print Assumptions C16_jsonl_row_past_end_predicted.

Theorem C16_jsonl_negative_is_column_name : forall rows r rest t,
  rows = r :: rest -> existsb is_arr rows = true -> table_rows rows = Some t ->
  forall key, special_param (45%N :: key) = false ->
  jsonl_index false [45%N :: key] rows = table_cols [45%N :: key] t.
Proof. exact jsonl_negative_is_column_name. Qed.
Print Assumptions C16_jsonl_negative_is_column_name.

Theorem C16_jsonl_table_element_predicted : forall rows sep key,
  forallb is_arr rows = true -> key <> [] -> existsb (N.eqb sep) key = false ->
  exists e, jsonl_element (sep :: key) rows = Err e.
Proof. exact jsonl_table_element_predicted. Qed.
Print Assumptions C16_jsonl_table_element_predicted.

(* The code before the fix (no `i < 0` test after adding the length): `[-5]` on
   three elements reaches v[-2]. *)
Theorem C16_prefix_index_panics :
  obind (array_pos_prefix [45%N; 53%N] 3) (slice_get [JNum 1; JNum 2; JNum 3]) = Panic.
Proof. exact prefix_index_panics. Qed.
Print Assumptions C16_prefix_index_panics.

(* Non-vacuity: the hypotheses are satisfiable ("-2" parses, is in range of a
   3 element array) and spec_ok rejects wrong observations: the pre-fix panic,
   a wrong element, and a silent success for an index out of range. *)
Example C16_nonvacuous :
  atoi [45%N; 50%N] = Some (-2) /\ in_range (zlen [JNum 7; JNum 8; JNum 9]) (-2) /\
  ito_index_array [[45%N; 50%N]] [JNum 7; JNum 8; JNum 9] = Ok (OutScalar [56%N]) /\
  spec_ok {| c_fmt := FJson; c_op := OpIndex; c_legacy := true; c_doc := JArr [JNum 7; JNum 8; JNum 9];
             c_params := [[45%N; 53%N]]; c_obs := {| o_class := 2%N; o_out := []; o_val := None |} |} = false /\
  spec_ok {| c_fmt := FJson; c_op := OpIndex; c_legacy := true; c_doc := JArr [JNum 7; JNum 8; JNum 9];
             c_params := [[45%N; 50%N]]; c_obs := {| o_class := 0%N; o_out := [57%N]; o_val := None |} |} = false /\
  spec_ok {| c_fmt := FYaml; c_op := OpElem; c_legacy := true; c_doc := JArr [JNum 7; JNum 8; JNum 9];
             c_params := [[47%N; 51%N]]; c_obs := {| o_class := 0%N; o_out := []; o_val := None |} |} = false.
Proof. unfold in_range. vm_compute. repeat split; try reflexivity; discriminate. Qed.
