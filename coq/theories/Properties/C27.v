(* C27 — Job IDs stay stable while jobs run.
   Only theorem statements here; proofs live in Proof/Jobs.v.
   `run s ops` is the job table after the operations `ops` (any mix of Add,
   Add(nil), Terminate, GarbageCollect, Get, GetLatest, List, any length);
   slot k holds job id k+1. *)
From Coq Require Import List ZArith.
From Murex Require Import Base.Outcome Model.Jobs Check.C27 Proof.Jobs.

(* A running job keeps its id: if process p sat at slot k after ops1 and has not
   terminated by the end of ops1 ++ ops2, it still sits at slot k — whatever
   other jobs started, finished or were garbage-collected in between. *)
Theorem C27_id_stable_while_running : forall s0 ops1 ops2 k p,
  nth_error (slots (run s0 ops1)) k = Some (Some p) ->
  mem p (dead (run s0 (ops1 ++ ops2))) = false ->
  nth_error (slots (run s0 (ops1 ++ ops2))) k = Some (Some p).
Proof. exact id_stable_while_running. Qed.
Print Assumptions C27_id_stable_while_running.

(* fg/bg lookups never return a finished job, and what they return is what
   `jobs` lists under that id; they never panic. *)
Theorem C27_get_never_returns_finished : forall s n p,
  get s n = Ok p -> mem p (dead s) = false /\ In (Z.to_nat n, p) (list_jobs s).
Proof. exact get_never_returns_finished. Qed.
Print Assumptions C27_get_never_returns_finished.

Theorem C27_latest_never_returns_finished : forall s p,
  latest s = Ok p -> mem p (dead s) = false /\ exists k, last_entry (list_jobs s) = Some (k, p).
Proof. exact latest_never_returns_finished. Qed.
Print Assumptions C27_latest_never_returns_finished.

Theorem C27_lookups_never_panic : forall s o, snd (step s o) <> RPanic.
Proof. exact step_never_panics. Qed.
Print Assumptions C27_lookups_never_panic.

(* `jobs` lists exactly the running jobs: (id, p) is listed iff slot id-1 holds
   p and p has not terminated ... *)
Theorem C27_list_is_exactly_unfinished_slots : forall s k p,
  In (k, p) (list_jobs s) <->
  1 <= k /\ nth_error (slots s) (k - 1) = Some (Some p) /\ mem p (dead s) = false.
Proof. exact list_jobs_In. Qed.
Print Assumptions C27_list_is_exactly_unfinished_slots.

(* ... and, starting from the empty table, the listed processes are exactly
   those that were added and never terminated. *)
Theorem C27_list_is_exactly_running : forall ops p,
  In p (map snd (list_jobs (run st0 ops))) <-> In (Add p) ops /\ ~ In (Terminate p) ops.
Proof. exact list_is_exactly_running. Qed.
Print Assumptions C27_list_is_exactly_running.

(* An id is reused only after every job that held that id or a higher one has
   finished: the next Add after ops0 ++ ops1 hands out id length+1; any job q
   that ever sat at an id k'+1 >= that is dead by then. *)
Theorem C27_id_reuse_only_after_suffix_finished : forall s0 ops0 ops1 k' q,
  nth_error (slots (run s0 ops0)) k' = Some (Some q) ->
  length (slots (run s0 (ops0 ++ ops1))) <= k' ->
  mem q (dead (run s0 (ops0 ++ ops1))) = true.
Proof. exact id_reuse_only_after_suffix_finished. Qed.
Print Assumptions C27_id_reuse_only_after_suffix_finished.

(* GarbageCollect's backwards loop (modelled literally) trims exactly the
   trailing finished entries. *)
Theorem C27_gc_loop_is_trim : forall d l, gc_slots d l = trim (map (gc_clear d) l).
Proof. exact gc_slots_spec. Qed.
Print Assumptions C27_gc_loop_is_trim.

Theorem C27_gc_trims_exactly_trailing : forall d l,
  exists cut,
    map (gc_clear d) l = gc_slots d l ++ cut /\
    Forall (fun x => x = None) cut /\
    (forall k p, nth_error l k = Some (Some p) -> mem p d = false ->
                 nth_error (gc_slots d l) k = Some (Some p)) /\
    match rev (gc_slots d l) with None :: _ => False | _ => True end.
Proof. exact gc_trims_exactly_trailing. Qed.
Print Assumptions C27_gc_trims_exactly_trailing.

(* Headline: for EVERY history, the model's observations satisfy the predicate
   that the check evaluates on the implementation's observations. *)
Theorem C27_model_meets_spec : forall ops,
  spec_ok {| c_ops := ops; c_obs := trace st0 ops |} = true.
Proof. exact model_meets_spec. Qed.
Print Assumptions C27_model_meets_spec.

(* Non-vacuity: a concrete history with id reuse is accepted when observed as the
   model predicts, and spec_ok rejects (1) a renumbering GC: job 2 (process 1)
   shown as %1 after process 0 finished; (2) Get returning a finished job. *)
Example C27_nonvacuous :
  let ops := [Add 0; Add 1; Terminate 0; GC; Get 2%Z] in
  spec_ok {| c_ops := ops; c_obs := trace st0 ops |} = true /\
  spec_ok {| c_ops := ops; c_obs :=
     [ {| so_res := RNone; so_list := [(1,0)]; so_raw := [Some 0] |};
       {| so_res := RNone; so_list := [(1,0);(2,1)]; so_raw := [Some 0; Some 1] |};
       {| so_res := RNone; so_list := [(2,1)]; so_raw := [Some 0; Some 1] |};
       {| so_res := RNone; so_list := [(1,1)]; so_raw := [Some 1] |};
       {| so_res := RGot None; so_list := [(1,1)]; so_raw := [Some 1] |} ] |} = false /\
  spec_ok {| c_ops := [Add 0; Terminate 0; Get 1%Z]; c_obs :=
     [ {| so_res := RNone; so_list := [(1,0)]; so_raw := [Some 0] |};
       {| so_res := RNone; so_list := []; so_raw := [Some 0] |};
       {| so_res := RGot (Some 0); so_list := []; so_raw := [Some 0] |} ] |} = false.
Proof. vm_compute. repeat split. Qed.
