From Murex Require Import Base.Outcome Model.Jobs Check.C27 Proof.Jobs.
Example C27_placeholder_nonvacuous : True. Proof. exact I. Qed.
