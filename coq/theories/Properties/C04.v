(* C04 — `&&`, `||` and `;` behave as documented in normal mode.
   Only theorem statements here; proofs live in Proof/RunMode.v. *)
From Murex Require Import Base.Outcome Base.Bytes Model.RunMode Check.C04 Proof.RunMode.

(* For EVERY program (any number of pipelines, any number of stages, any exit
   numbers and outputs) the model of the block parser's flags followed by the
   model of runModeNormal yields exactly the stdout and exit number that the
   reference interpreter of the rule yields. *)
Theorem C04_normal_refines_spec : forall prog, run_program RmNormal prog = spec_normal prog.
Proof. exact normal_refines_spec. Qed.
Print Assumptions C04_normal_refines_spec.

(* ... which is what the check evaluates on the implementation's observations:
   the model's observation always passes spec_ok (and agree). *)
Theorem C04_model_meets_spec : forall prog,
  spec_ok {| k_prog := prog; k_flags := flags_of (flatten prog);
             k_obs := run_program RmNormal prog |} = true.
Proof. intro prog. unfold spec_ok; cbn [k_prog k_obs]. rewrite normal_refines_spec. apply obs_eqb_refl. Qed.
Print Assumptions C04_model_meets_spec.

(* the flattened program is what the parser can produce: methods never carry
   && / || *)
Theorem C04_parse_flags_wf : forall prog,
  Forall (fun p => p_method p = true -> p_and p = false /\ p_or p = false) (flatten prog).
Proof. exact flatten_methods_unflagged. Qed.
Print Assumptions C04_parse_flags_wf.

(* `;` / newline: the next command always runs, after any history *)
Theorem C04_semicolon_always_runs : forall prog pl, prog <> [] ->
  run_program RmNormal (prog ++ [(JSemi, pl)]) =
  {| o_out := o_out (run_program RmNormal prog) ++ pl_out pl; o_exit := pl_exit pl |}.
Proof. exact semicolon_always_runs. Qed.
Print Assumptions C04_semicolon_always_runs.

Theorem C04_and_runs_iff_prev_ok : forall a b,
  run_program RmNormal [(JSemi, a); (JAnd, b)] =
  if Z.eqb (pl_exit a) 0
  then {| o_out := pl_out a ++ pl_out b; o_exit := pl_exit b |}
  else {| o_out := pl_out a; o_exit := pl_exit a |}.
Proof. exact and_runs_iff_prev_ok. Qed.
Print Assumptions C04_and_runs_iff_prev_ok.

Theorem C04_or_runs_iff_prev_failed : forall a b,
  run_program RmNormal [(JSemi, a); (JOr, b)] =
  if Z.eqb (pl_exit a) 0
  then {| o_out := pl_out a; o_exit := pl_exit a |}
  else {| o_out := pl_out a ++ pl_out b; o_exit := pl_exit b |}.
Proof. exact or_runs_iff_prev_failed. Qed.
Print Assumptions C04_or_runs_iff_prev_failed.

(* a skip propagates along the chain and the skipped commands keep the exit
   number of the command before them *)
Theorem C04_skip_propagates : forall a b c j1 j2,
  j1 <> JSemi -> j2 <> JSemi ->
  (if is_and j1 then negb (Z.eqb (pl_exit a) 0) else Z.eqb (pl_exit a) 0) = true ->
  run_program RmNormal [(JSemi, a); (j1, b); (j2, c)] =
  {| o_out := pl_out a; o_exit := pl_exit a |}.
Proof. exact skip_propagates. Qed.
Print Assumptions C04_skip_propagates.

Theorem C04_semicolon_ends_skipping : forall a b c j1,
  j1 <> JSemi ->
  (if is_and j1 then negb (Z.eqb (pl_exit a) 0) else Z.eqb (pl_exit a) 0) = true ->
  run_program RmNormal [(JSemi, a); (j1, b); (JSemi, c)] =
  {| o_out := pl_out a ++ pl_out c; o_exit := pl_exit c |}.
Proof. exact semicolon_ends_skipping. Qed.
Print Assumptions C04_semicolon_ends_skipping.

(* Before the repair ("fix: ... remaining stages of a skipped pipeline") the
   scheduler did not meet the rule: `false && out a | g` printed g, exit 0. *)
Theorem C04_old_scheduler_refuted :
  exists prog, spec_ok {| k_prog := prog; k_flags := flags_of (flatten prog);
                          k_obs := run_program_old RmNormal prog |} = false.
Proof. exists witness_skipped_pipeline. reflexivity. Qed.
Print Assumptions C04_old_scheduler_refuted.

(* Non-vacuity: a concrete non-trivial program (a pipeline skipped by &&, then a
   `;`), the model's observation for it, and spec_ok rejecting a wrong one. *)
Example C04_nonvacuous :
  let prog := [(JSemi, (w_false, [])); (JAnd, (w_out 97, [w_g 103 0])); (JOr, (w_out 98, [])); (JSemi, (w_out 99, []))] in
  run_program RmNormal prog = {| o_out := [99; 10]%N; o_exit := 0 |} /\
  spec_ok {| k_prog := prog; k_flags := []; k_obs := {| o_out := [98; 10; 99; 10]%N; o_exit := 0 |} |} = false.
Proof. split; reflexivity. Qed.
