(* C33 — Redirections route output exactly as written.
   Only theorem statements here; proofs live in Proof/Redirect.v. *)
From Murex Require Import Base.Outcome Base.Bytes Model.Redirect Check.C33 Proof.Redirect.
Local Open Scope N_scope.

(* Headline: for EVERY block (any number of commands linked by `|`, ` ? ` or `;`, any
   redirection lists over <out> <err> <null> <!out> <!err> <!null> and user-named pipes
   <name> <!name> incl. duplicates and both streams redirected at once, any bytes, any files) the code-shaped model — stream identities wired by
   compile and createProcess — produces exactly the observation that the
   documentation-shaped predicate of the check accepts: every byte of every command
   lands in the documented sink, in order, and nowhere else. *)
Theorem C33_model_meets_spec : forall l fs,
  spec_ok {| c_stages := l; c_files := fs; c_obs := model_obs l fs |} = true.
Proof. exact model_meets_spec. Qed.
Print Assumptions C33_model_meets_spec.

(* The wiring itself: createProcess' switches = the documented destinations, for
   every position in a block of any length and every redirection list. *)
Theorem C33_wire_doc : forall n i s, (s_link s <> Semi -> S i <> n) ->
  wire n i s = (stream_of i (doc_out s), stream_of i (doc_err s)).
Proof. exact wire_doc. Qed.
Print Assumptions C33_wire_doc.

(* parseRedirection: the first stdout name and the first stderr name win. *)
Theorem C33_first_redirection_wins : forall l,
  n_out (parse_redirs l) = first_out l /\ n_err (parse_redirs l) = first_err l.
Proof. exact parse_redirs_first. Qed.
Print Assumptions C33_first_redirection_wins.

(* No byte is ever written into the block's own stdin (where `<!out>` used to lose them). *)
Theorem C33_no_other_bytes_move : forall l fs st, run_block l fs = Ok st -> st_pin st = [].
Proof. exact nothing_lost_in_parent_stdin. Qed.
Print Assumptions C33_no_other_bytes_move.

(* The property's sentences for one command writing o to stdout and e to stderr (any bytes). *)
Theorem C33_no_redirect : forall o e fs,
  exists st, run_block (one [] o e) fs = Ok st /\ st_out st = o /\ st_err st = e /\ st_fs st = fs.
Proof. exact no_redirect. Qed.
Print Assumptions C33_no_redirect.

Theorem C33_err_redirect : forall o e fs,
  exists st, run_block (one [R_err] o e) fs = Ok st /\ st_out st = [] /\ st_err st = o ++ e /\ st_fs st = fs.
Proof. exact err_redirect. Qed.
Print Assumptions C33_err_redirect.

Theorem C33_bang_out_redirect : forall o e fs,
  exists st, run_block (one [R_bout] o e) fs = Ok st /\ st_out st = o ++ e /\ st_err st = [] /\ st_fs st = fs.
Proof. exact bang_out_redirect. Qed.
Print Assumptions C33_bang_out_redirect.

Theorem C33_null_redirects : forall o e fs,
  (exists st, run_block (one [R_null] o e) fs = Ok st /\ st_out st = [] /\ st_err st = e /\ st_fs st = fs) /\
  (exists st, run_block (one [R_bnull] o e) fs = Ok st /\ st_out st = o /\ st_err st = [] /\ st_fs st = fs) /\
  (exists st, run_block (one [R_null; R_bnull] o e) fs = Ok st /\ st_out st = [] /\ st_err st = [] /\ st_fs st = fs).
Proof. exact null_redirects. Qed.
Print Assumptions C33_null_redirects.

(* Both streams redirected at once (where the independent seed lived). *)
Theorem C33_both_redirected : forall o e fs,
  (exists st, run_block (one [R_err; R_bout] o e) fs = Ok st /\ st_out st = e /\ st_err st = o /\ st_fs st = fs) /\
  (exists st, run_block (one [R_bout; R_err] o e) fs = Ok st /\ st_out st = e /\ st_err st = o /\ st_fs st = fs) /\
  (exists st, run_block (one [R_err; R_bnull] o e) fs = Ok st /\ st_out st = [] /\ st_err st = o /\ st_fs st = fs) /\
  (exists st, run_block (one [R_null; R_bout] o e) fs = Ok st /\ st_out st = e /\ st_err st = [] /\ st_fs st = fs).
Proof. exact both_redirected. Qed.
Print Assumptions C33_both_redirected.

(* User-named pipes as targets: `cmd <p> <!q>` puts stdout in p, stderr in q, nothing elsewhere. *)
Theorem C33_named_pipe_redirect : forall o e j k fs, j <> k ->
  exists st, run_block (one [R_pipe j; R_bpipe k] o e) fs = Ok st /\
    pipe_get (st_pipes st) j = o /\ pipe_get (st_pipes st) k = e /\ st_out st = [] /\ st_err st = [] /\ st_fs st = fs.
Proof. exact named_pipe_redirect. Qed.
Print Assumptions C33_named_pipe_redirect.

(* `cmd ? next`: next reads cmd's stderr (and here copies it to stdout), cmd's stdout goes to stderr. *)
Theorem C33_qpipe_routes : forall o e fs,
  exists st, run_block (qpiped [] o e) fs = Ok st /\ st_out st = e /\ st_err st = o /\ st_fs st = fs.
Proof. exact qpipe_routes. Qed.
Print Assumptions C33_qpipe_routes.

(* `cmd |> f` leaves f holding exactly the piped bytes, `cmd >> f` the previous
   contents followed by exactly those bytes; other files and streams untouched. *)
Theorem C33_truncate_exact : forall o e f fs,
  exists st, run_block (to_file (Trunc f) o e) fs = Ok st /\
    file_get (st_fs st) f = Some o /\ (forall g, g <> f -> file_get (st_fs st) g = file_get fs g) /\
    st_out st = [] /\ st_err st = e.
Proof. exact truncate_exact. Qed.
Print Assumptions C33_truncate_exact.

Theorem C33_append_exact : forall o e f fs,
  exists st, run_block (to_file (Append f) o e) fs = Ok st /\
    file_get (st_fs st) f = Some (match file_get fs f with Some old => old ++ o | None => o end) /\
    (forall g, g <> f -> file_get (st_fs st) g = file_get fs g) /\
    st_out st = [] /\ st_err st = e.
Proof. exact append_exact. Qed.
Print Assumptions C33_append_exact.

(* The fixed defect F33: the old wiring of `<!out>` (p.Next.Stdin) is not the documented sink
   for a command that no pipe follows. *)
Theorem C33_old_wiring_refuted :
  wire_old_bang_out 1 0 = SParentIn /\
  stream_of 0 (doc_err {| s_act := Emit [] [101]; s_redirs := [R_bout]; s_link := Semi |}) = SParentOut.
Proof. exact old_wiring_refuted. Qed.
Print Assumptions C33_old_wiring_refuted.

(* The second fixed defect F33b: `<err>` used to be the NEXT command's compile-time stderr, which is
   the stdin of the command after it when that command has a ` ? ` pipe. *)
Theorem C33_old_err_wiring_refuted :
  old_err_target 3 0 (Some QPipe) = SStdin 2 /\
  stream_of 0 (doc_out {| s_act := Emit [111] []; s_redirs := [R_err]; s_link := Semi |}) = SParentErr.
Proof. exact old_err_wiring_refuted. Qed.
Print Assumptions C33_old_err_wiring_refuted.

(* Non-vacuity: a three-command block with duplicates, a pipe and a file is accepted when
   observed as the model says, and spec_ok rejects the pre-fix observation of
   `c33emit <!out>` (stderr bytes vanish) and a truncate that keeps old contents. *)
Example C33_nonvacuous :
  let blk := [ {| s_act := Emit [111] [69]; s_redirs := [R_bout; R_err; R_null]; s_link := Pipe |};
               {| s_act := Emit [112] [70]; s_redirs := [R_bnull]; s_link := Pipe |};
               {| s_act := Append 1; s_redirs := []; s_link := Semi |} ] in
  o_err (model_obs blk [(1, [48])]) = [111] /\
  file_get (o_files (model_obs blk [(1, [48])])) 1 = Some [48; 69; 112] /\
  spec_ok {| c_stages := one [R_bout] [111] [69]; c_files := [];
             c_obs := {| o_kind := 0; o_out := [111]; o_err := []; o_complaints := O; o_files := []; o_pipes := [] |} |} = false /\
  spec_ok {| c_stages := to_file (Trunc 0) [111] []; c_files := [(0, [48])];
             c_obs := {| o_kind := 0; o_out := []; o_err := []; o_complaints := O; o_files := [(0, [48; 111])]; o_pipes := [] |} |} = false /\
  (* `a <err>; b ? c` observed as before the second fix: a's bytes on stdout *)
  spec_ok {| c_stages := [ {| s_act := Emit [111] []; s_redirs := [R_err]; s_link := Semi |};
                           {| s_act := Emit [] [81]; s_redirs := []; s_link := QPipe |};
                           {| s_act := Emit [] []; s_redirs := []; s_link := Semi |} ]; c_files := [];
             c_obs := {| o_kind := 0; o_out := [111; 81]; o_err := []; o_complaints := O; o_files := []; o_pipes := [] |} |} = false /\
  (* a named pipe that receives stderr although only stdout was sent there *)
  spec_ok {| c_stages := one [R_pipe 0] [111] [69]; c_files := [];
             c_obs := {| o_kind := 0; o_out := []; o_err := []; o_complaints := O; o_files := []; o_pipes := [(0, [111; 69])] |} |} = false.
Proof. repeat split. Qed.
