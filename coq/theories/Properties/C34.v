(* C34 — Autocomplete never runs a line containing unsafe commands.
   Only theorem statements here; proofs live in Proof/TokUnsafe.v. *)
From Murex Require Import Base.Outcome Base.Bytes Model.Tokenizer Check.C34 Proof.TokUnsafe.
Local Open Scope N_scope.

(* Once the verdict Unsafe is set, no continuation of the line (any runes, any
   length, any pos) clears it: whatever is typed after an unsafe part, the line
   stays unsafe. *)
Theorem C34_unsafe_is_sticky : forall l pos prev i t h r,
  t_unsafe t = true -> tok_go pos prev i t h l = Ok r -> t_unsafe (r_tok r) = true.
Proof. exact unsafe_is_sticky. Qed.
Print Assumptions C34_unsafe_is_sticky.

(* Where a command name ends — white space, `;`, `|`, line feed, `{` — it is looked
   up in the safe list (regenerated from utils/parser/safe.go) and the verdict
   becomes isCmdUnsafe(name) || Unsafe; a line feed and `|>` make the line unsafe
   outright.  (Before the fix c0afb05 the flow tokens did not do this.) *)
Theorem C34_name_judged_at_boundary : forall pos prev i tl t c,
  reading_name t -> pos = 0%Z -> In c [32; 59; 124; 10; 123] ->
  t_unsafe (s_tok (step pos prev i c tl t)) =
    (is_cmd_unsafe (t_func t) || t_unsafe t) || (c =? 10) || ((c =? 124) && next_is tl 62).
Proof. exact name_judged_at_boundary. Qed.
Print Assumptions C34_name_judged_at_boundary.

(* An unescaped `$` or `@` sigil outside single quotes, a `<` redirection in
   parameter position and an unquoted line feed always set Unsafe. *)
Theorem C34_variable_and_redirect_are_unsafe : forall pos prev i tl t,
  t_escaped t = false -> t_var_sigil t = 0 -> pos = 0%Z ->
  (t_qs t = false -> t_unsafe (s_tok (step pos prev i 36 tl t)) = true) /\
  (t_qs t = false -> next_is tl 32 = false -> next_is tl 9 = false ->
     t_unsafe (s_tok (step pos prev i 64 tl t)) = true) /\
  (t_read_func t = false -> t_expect_func t = false ->
     t_unsafe (s_tok (step pos prev i 60 tl t)) = true) /\
  (inq t = false -> t_unsafe (s_tok (step pos prev i 10 tl t)) = true).
Proof. exact variable_and_redirect_unsafe. Qed.
Print Assumptions C34_variable_and_redirect_are_unsafe.

(* Non-vacuity and the design-phase witnesses, evaluated on the model:
   `g;et x | out ` and `rm;get x | out ` are now judged unsafe, `out hello | out `
   is judged safe with the text `out hello ` to run, and spec_ok rejects the
   pre-fix observation (verdict safe, commands g and et). *)
Example C34_nonvacuous :
  tok_unsafe [103;59;101;116;32;120;32;124;32;111;117;116;32] = true /\
  tok_unsafe [114;109;59;103;101;116;32;120;32;124;32;111;117;116;32] = true /\
  tok_fields [111;117;116;32;104;101;108;108;111;32;124;32;111;117;116;32]
    = Some (false, [111;117;116], false, 10%Z) /\
  spec_ok {| c_src := [103;59;101;116;32;120;32;124;32;111;117;116;32]; c_unsafe := false;
             c_func := [111;117;116]; c_expect_func := false; c_last_flow := 9%Z; c_perr := false;
             c_cmds := [[103]; [101;116]]; c_subshell := false; c_redirect := false |} = false.
Proof. vm_compute. repeat split. Qed.

(* Known finding 1 (KNOWN_FINDINGS.txt, C34 id=1): the faithful model does NOT meet
   the property for `a = 5 | out ` — the model (like the code) says safe, while the
   block parser's tree for `a = 5 ` is one expression statement (an assignment). *)
Theorem C34_expression_statement_refuted :
  exists c, agree c = true /\ spec_ok c = false /\ classify c = 1.
Proof.
  exists {| c_src := [97;32;61;32;53;32;124;32;111;117;116;32]; c_unsafe := false;
            c_func := [111;117;116]; c_expect_func := false; c_last_flow := 6%Z; c_perr := false;
            c_cmds := [[101;120;112;114]]; c_subshell := false; c_redirect := false |}.
  vm_compute. repeat split.
Qed.
Print Assumptions C34_expression_statement_refuted.
