(* C34 — Autocomplete never runs a line containing unsafe commands.
   Only theorem statements here; proofs live in Proof/TokUnsafe.v. *)
From Murex Require Import Base.Outcome Base.Bytes Model.Tokenizer Model.CmdLine Check.C34 Proof.TokUnsafe Proof.TokSound.
Local Open Scope N_scope.

(* Once the verdict Unsafe is set, no continuation of the line (any runes, any
   length, any pos) clears it: whatever is typed after an unsafe part, the line
   stays unsafe. *)
Theorem C34_unsafe_is_sticky : forall l pos prev i t h r,
  t_unsafe t = true -> tok_go pos prev i t h l = Ok r -> t_unsafe (r_tok r) = true.
Proof. exact unsafe_is_sticky. Qed.
Print Assumptions C34_unsafe_is_sticky.

(* Where a command name ends — white space, `;`, `|`, line feed, `{` — it is looked
   up in the safe list (regenerated from utils/parser/safe.go) and the verdict
   becomes isCmdUnsafe(name) || Unsafe; a line feed and `|>` make the line unsafe
   outright.  (Before the fix c0afb05 the flow tokens did not do this.) *)
Theorem C34_name_judged_at_boundary : forall pos prev i tl t c,
  reading_name t -> pos = 0%Z -> In c [32; 59; 124; 10; 123] ->
  t_unsafe (s_tok (step pos prev i c tl t)) =
    (is_cmd_unsafe (t_func t) || t_unsafe t) || (c =? 10) || ((c =? 124) && next_is tl 62).
Proof. exact name_judged_at_boundary. Qed.
Print Assumptions C34_name_judged_at_boundary.

(* An unescaped `$` or `@` sigil outside single quotes, a `<` redirection in
   parameter position and an unquoted line feed always set Unsafe. *)
Theorem C34_variable_and_redirect_are_unsafe : forall pos prev i tl t,
  t_escaped t = false -> t_var_sigil t = 0 -> pos = 0%Z ->
  (t_qs t = false -> t_unsafe (s_tok (step pos prev i 36 tl t)) = true) /\
  (t_qs t = false -> next_is tl 32 = false -> next_is tl 9 = false ->
     t_unsafe (s_tok (step pos prev i 64 tl t)) = true) /\
  (t_read_func t = false -> t_expect_func t = false ->
     t_unsafe (s_tok (step pos prev i 60 tl t)) = true) /\
  (inq t = false -> t_unsafe (s_tok (step pos prev i 10 tl t)) = true).
Proof. exact variable_and_redirect_unsafe. Qed.
Print Assumptions C34_variable_and_redirect_are_unsafe.

(* Non-vacuity and the design-phase witnesses, evaluated on the model:
   `g;et x | out ` and `rm;get x | out ` are now judged unsafe, `out hello | out `
   is judged safe with the text `out hello ` to run, and spec_ok rejects the
   pre-fix observation (verdict safe, commands g and et). *)
Example C34_nonvacuous :
  tok_unsafe [103;59;101;116;32;120;32;124;32;111;117;116;32] = true /\
  tok_unsafe [114;109;59;103;101;116;32;120;32;124;32;111;117;116;32] = true /\
  tok_fields [111;117;116;32;104;101;108;108;111;32;124;32;111;117;116;32]
    = Some (false, [111;117;116], false, 10%Z) /\
  spec_ok {| c_src := [103;59;101;116;32;120;32;124;32;111;117;116;32]; c_unsafe := false;
             c_func := [111;117;116]; c_expect_func := false; c_last_flow := 9%Z; c_perr := false;
             c_cmds := [[103]; [101;116]]; c_subshell := false; c_redirect := false;
             c_line := None; c_all_cmds := []; c_all_perr := false |} = false.
Proof. vm_compute. repeat split. Qed.

(* Known finding 1 (KNOWN_FINDINGS.txt, C34 id=1): the faithful model does NOT meet
   the property for `a = 5 | out ` — the model (like the code) says safe, while the
   block parser's tree for `a = 5 ` is one expression statement (an assignment). *)
Theorem C34_expression_statement_refuted :
  exists c, agree c = true /\ spec_ok c = false /\ classify c = 1.
Proof.
  exists {| c_src := [97;32;61;32;53;32;124;32;111;117;116;32]; c_unsafe := false;
            c_func := [111;117;116]; c_expect_func := false; c_last_flow := 6%Z; c_perr := false;
            c_cmds := [[101;120;112;114]]; c_subshell := false; c_redirect := false;
             c_line := None; c_all_cmds := []; c_all_perr := false |}.
  vm_compute. repeat split.
Qed.
Print Assumptions C34_expression_statement_refuted.

(* ---- the global claim, for the command-line grammar of Model/CmdLine.v ----
   line ::= stmt (sep stmt)*; stmt ::= name (' ' item)*; item ::= word | 'q text' | "q text"
   | '{' [' '] sline [' '] '}' (one level); sep ::= [' '] (; | '|' | -> | && | '||') [' '].
   [commands] (validated against the real ParseBlock tree on every generated grammar
   case by Check.C34.grammar_agree) lists what the block parser executes. *)

(* For EVERY well-formed line of the grammar (any number of statements, arguments,
   block contents): if the tokenizer judges the typed line safe, every command that
   the block parser would execute in the text before the last separator — the text
   autocompletion runs — is on the safe list, including the commands inside blocks. *)
Theorem C34_safe_verdict_sound_sublang : forall l,
  line_ok l = true ->
  tok_unsafe (render_line l) = false ->
  Forall (fun n => safe_name n = true) (commands_of (prefix_to_last_flow l)).
Proof. exact safe_verdict_sound_sublang. Qed.
Print Assumptions C34_safe_verdict_sound_sublang.

(* ... and on this grammar the verdict is exactly "one of the names that were read
   and ended by a boundary is not on the list" *)
Theorem C34_verdict_exact_sublang : forall l,
  line_ok l = true -> tok_unsafe (render_line l) = existsb is_cmd_unsafe (looked_up l).
Proof. exact verdict_line. Qed.
Print Assumptions C34_verdict_exact_sublang.

(* Non-vacuity: `if {out a; get} z | out ` is a well-formed line judged safe whose
   prefix runs if, out, get; with `rm` in the block (`if {out a;rm} z | out `) the
   line is judged unsafe. *)
Example C34_sublang_nonvacuous :
  let blk (n : list N) : item :=
    IBlock false ({| ss_name := [111;117;116]; ss_args := [{| a_quote := QNone; a_text := [97] |}] |},
                  [({| s_k := SSemi; s_before := false; s_after := false |}, {| ss_name := n; ss_args := [] |})]) in
  let mk (n : list N) : line :=
    ({| st_name := [105;102]; st_items := [blk n; IArg {| a_quote := QNone; a_text := [122] |}] |},
     [({| s_k := SPipe; s_before := true; s_after := true |}, {| st_name := [111;117;116]; st_items := [] |})]) in
  line_ok (mk [103;101;116]) = true /\
  tok_unsafe (render_line (mk [103;101;116])) = false /\
  commands_of (prefix_to_last_flow (mk [103;101;116])) = [[105;102]; [111;117;116]; [103;101;116]] /\
  line_ok (mk [114;109]) = true /\
  tok_unsafe (render_line (mk [114;109])) = true.
Proof. vm_compute. repeat split. Qed.
