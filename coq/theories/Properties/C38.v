(* C38 — List builtins preserve their elements.
   Only theorem statements here; proofs live in Proof/Lists.v. *)
From Coq Require Import Permutation Sorted.
From Murex Require Import Base.Outcome Base.Bytes Model.ByteStr Model.Lists Check.C38 Proof.ByteStr Proof.Lists.

(* msort: a permutation of the input in non-decreasing (byte-wise) string order. *)
Theorem C38_msort_perm_sorted : forall xs,
  Permutation (fst (apply_op OpMsort xs)) xs /\ StronglySorted ble (fst (apply_op OpMsort xs)).
Proof. exact msort_perm_sorted. Qed.
Print Assumptions C38_msort_perm_sorted.

(* ... and this is all that is assumed of sort.Strings: any function meeting
   sort.Strings' contract (sorted permutation) returns exactly the model's list. *)
Theorem C38_sort_contract_unique : forall (sort : list bytes -> list bytes) l,
  Permutation (sort l) l -> StronglySorted ble (sort l) -> sort l = isort l.
Proof. exact sort_contract_unique. Qed.
Print Assumptions C38_sort_contract_unique.

(* mtac: the reverse. *)
Theorem C38_mtac_is_rev : forall xs, fst (apply_op OpMtac xs) = rev xs.
Proof. exact mtac_is_rev. Qed.
Print Assumptions C38_mtac_is_rev.

(* prepend / append: exactly the given elements at the start / end. *)
Theorem C38_prepend_exact : forall ps xs, fst (apply_op (OpPrepend ps) xs) = ps ++ xs.
Proof. exact prepend_exact. Qed.
Print Assumptions C38_prepend_exact.

Theorem C38_append_exact : forall ps xs, fst (apply_op (OpAppend ps) xs) = xs ++ ps.
Proof. exact append_exact. Qed.
Print Assumptions C38_append_exact.

(* match / !match: complementary order-preserving subsequences whose merge is
   the input; match has exactly the elements containing the pattern. *)
Theorem C38_match_partition : forall ps xs,
  join_sp ps <> [] ->
  let m := fst (apply_op (OpMatch ps) xs) in
  let nm := snd (apply_op (OpMatch ps) xs) in
  Merge m nm xs /\
  Forall (fun x => contains (join_sp ps) x = true) m /\
  Forall (fun x => contains (join_sp ps) x = false) nm.
Proof. exact match_partition. Qed.
Print Assumptions C38_match_partition.

Theorem C38_merge_length : forall (m nm xs : list bytes),
  Merge m nm xs -> length xs = (length m + length nm)%nat.
Proof. exact (@merge_length bytes). Qed.
Print Assumptions C38_merge_length.

(* left / right / prefix / suffix: pointwise, length preserved. *)
Theorem C38_left_right_prefix_suffix_pointwise : forall xs,
  (forall n, fst (apply_op (OpLeft n) xs) = map (left1 n) xs) /\
  (forall n, fst (apply_op (OpRight n) xs) = map (right1 n) xs) /\
  (forall ps, fst (apply_op (OpPrefix ps) xs) = map (fun x => join_sp ps ++ x) xs) /\
  (forall ps, fst (apply_op (OpSuffix ps) xs) = map (fun x => x ++ join_sp ps) xs) /\
  (forall o, match o with OpLeft _ | OpRight _ | OpPrefix _ | OpSuffix _ => True | _ => False end ->
             length (fst (apply_op o xs)) = length xs).
Proof. exact pointwise_ops. Qed.
Print Assumptions C38_left_right_prefix_suffix_pointwise.

(* what left / right do to one element: a prefix / suffix made of whole
   characters, `left n` and `right -n` cut at the same place, and on ASCII
   elements `left n` is the first n bytes (the documented examples). *)
Theorem C38_left_is_prefix : forall n b,
  exists k, left1 n b = take_chars k b /\ b = left1 n b ++ drop_chars k b.
Proof. exact left1_prefix. Qed.
Print Assumptions C38_left_is_prefix.

Theorem C38_right_is_suffix : forall n b,
  exists k, right1 n b = drop_chars k b /\ b = take_chars k b ++ right1 n b.
Proof. exact right1_suffix. Qed.
Print Assumptions C38_right_is_suffix.

Theorem C38_left_right_complement : forall n b, n <> 0%Z -> left1 n b ++ right1 (- n) b = b.
Proof. exact left_right_complement. Qed.
Print Assumptions C38_left_right_complement.

Theorem C38_left_ascii : forall n b, Forall (fun c => (c < 128)%N) b -> (0 < n)%Z ->
  left1 n b = firstn (Z.to_nat n) b.
Proof. exact left1_ascii. Qed.
Print Assumptions C38_left_ascii.

(* The executable predicate of the check is sound for the statements above ... *)
Theorem C38_mergeb_sound : forall pat xs m nm, mergeb pat xs m nm = true ->
  Merge m nm xs /\ Forall (fun x => contains pat x = true) m /\ Forall (fun x => contains pat x = false) nm.
Proof. exact mergeb_sound. Qed.
Print Assumptions C38_mergeb_sound.

(* counts are preserved: match and !match together keep every element, msort
   and mtac keep the length, prepend / append add exactly the parameters *)
Theorem C38_match_count : forall ps xs, join_sp ps <> [] ->
  (length (fst (apply_op (OpMatch ps) xs)) + length (snd (apply_op (OpMatch ps) xs)) = length xs)%nat.
Proof. exact match_count. Qed.
Print Assumptions C38_match_count.

Theorem C38_msort_mtac_count : forall xs,
  length (fst (apply_op OpMsort xs)) = length xs /\ length (fst (apply_op OpMtac xs)) = length xs.
Proof. intro xs. split; [apply msort_count|apply mtac_count]. Qed.
Print Assumptions C38_msort_mtac_count.

Theorem C38_prepend_append_count : forall ps xs,
  length (fst (apply_op (OpPrepend ps) xs)) = (length ps + length xs)%nat /\
  length (fst (apply_op (OpAppend ps) xs)) = (length xs + length ps)%nat.
Proof. exact pend_count. Qed.
Print Assumptions C38_prepend_append_count.

(* ... and the model satisfies it for every type, strict-arrays setting, builtin,
   parameter list and input list (no bound on lengths) — under the exact guard
   `clean`: the model reports no error.  For str lists the guard always holds;
   for json it fails exactly when a result list is empty (known finding 1). *)
Theorem C38_model_meets_spec : forall dt strict o xs, clean dt strict o xs = true ->
  spec_ok {| c_dt := dt; c_strict := strict; c_op := o; c_in := xs; c_obs := run dt strict o xs |} = true.
Proof. exact model_meets_spec. Qed.
Print Assumptions C38_model_meets_spec.

Theorem C38_guard_str : forall strict o xs, clean DStr strict o xs = true.
Proof. exact clean_str. Qed.
Print Assumptions C38_guard_str.

Theorem C38_guard_json_nonempty : forall strict o xs,
  is_nil (fst (apply_op o xs)) = false ->
  (match o with OpMatch _ => is_nil (snd (apply_op o xs)) = false | _ => True end) ->
  clean DJson strict o xs = true.
Proof. exact clean_json_nonempty. Qed.
Print Assumptions C38_guard_json_nonempty.

(* F38-1 (known finding 1): with the json type an empty result list is the
   error "no data returned" instead of `[]` — `%[a,b] -> match x`. *)
Theorem C38_empty_result_refuted :
  clean DJson true (OpMatch [[120%N]]) [[97%N]; [98%N]] = false /\
  o_out (run DJson true (OpMatch [[120%N]]) [[97%N]; [98%N]]) = [] /\
  o_err (run DJson true (OpMatch [[120%N]]) [[97%N]; [98%N]]) = true.
Proof. exact empty_result_refuted. Qed.
Print Assumptions C38_empty_result_refuted.

(* every case outside the guard violates the property in exactly that way *)
Theorem C38_unclean_is_finding : forall dt strict o xs, clean dt strict o xs = false ->
  spec_ok {| c_dt := dt; c_strict := strict; c_op := o; c_in := xs; c_obs := run dt strict o xs |} = false /\
  classify {| c_dt := dt; c_strict := strict; c_op := o; c_in := xs; c_obs := run dt strict o xs |} = 1%N.
Proof. exact unclean_is_finding. Qed.
Print Assumptions C38_unclean_is_finding.

(* Non-vacuity: spec_ok rejects wrong observations — a dropped duplicate, an
   unsorted result, a multi-byte character cut in half (the pre-fix behaviour of
   `left 1` on "é", which JSON turned into U+FFFD), and a match that loses an element. *)
Local Open Scope N_scope.
Example C38_nonvacuous :
  spec_ok {| c_dt := DJson; c_strict := true; c_op := OpMsort; c_in := [[98]; [97]; [97]];
             c_obs := {| o_err := false; o_out := [[97]; [98]]; o_err2 := false; o_out2 := [] |} |} = false /\
  spec_ok {| c_dt := DJson; c_strict := true; c_op := OpMsort; c_in := [[98]; [97]];
             c_obs := {| o_err := false; o_out := [[98]; [97]]; o_err2 := false; o_out2 := [] |} |} = false /\
  spec_ok {| c_dt := DJson; c_strict := true; c_op := OpLeft 1; c_in := [[195; 169]];
             c_obs := {| o_err := false; o_out := [[239; 191; 189]]; o_err2 := false; o_out2 := [] |} |} = false /\
  spec_ok {| c_dt := DStr; c_strict := true; c_op := OpMatch [[97]]; c_in := [[97]; [98]; [97; 98]];
             c_obs := {| o_err := false; o_out := [[97]]; o_err2 := false; o_out2 := [[98]] |} |} = false /\
  spec_ok {| c_dt := DStr; c_strict := true; c_op := OpMatch [[97]]; c_in := [[97]; [98]; [97; 98]];
             c_obs := run DStr true (OpMatch [[97]]) [[97]; [98]; [97; 98]] |} = true.
Proof. vm_compute. repeat split. Qed.
