(* C11 — Variables are scoped per function call; globals are shared.
   Only theorem statements here; proofs live in Proof/Scope.v. *)
From Murex Require Import Base.Outcome Base.Bytes Model.Scope Check.C11 Proof.Scope.

(* Refinement, for op trees of any shape and depth and on any caller stack: the
   stack machine behaves as the stack-free reference semantics of the property
   text on (global table, current frame), and every caller frame is left as it was. *)
Theorem C11_refinement : forall ops g l c,
  run_state ops {| globals := g; cur := l; callers := c |} =
  ({| globals := fst (fst (seq_ops spec_op ops (g, l)));
      cur := snd (fst (seq_ops spec_op ops (g, l))); callers := c |},
   snd (seq_ops spec_op ops (g, l))).
Proof. exact run_state_refines. Qed.
Print Assumptions C11_refinement.

(* Headline: what the check evaluates on the implementation's observations holds
   of the model for every program. *)
Theorem C11_model_meets_spec : forall ops,
  spec_ok {| c_ops := ops; c_status := 0; c_obs := run ops |} = true.
Proof. exact model_meets_spec. Qed.
Print Assumptions C11_model_meets_spec.

(* A call returns with the caller's frame and all outer frames exactly as they were. *)
Theorem C11_callee_writes_invisible : forall body s,
  cur (fst (step (OCall body) s)) = cur s /\ callers (fst (step (OCall body) s)) = callers s.
Proof. exact callee_writes_invisible. Qed.
Print Assumptions C11_callee_writes_invisible.

(* If the callee, at any depth, performs no global write, the whole state is unchanged. *)
Theorem C11_callee_local_writes_leave_state : forall body s,
  forallb gfree body = true -> fst (step (OCall body) s) = s.
Proof. exact callee_local_writes_leave_state. Qed.
Print Assumptions C11_callee_local_writes_leave_state.

(* A call's output and its effect on the global table do not depend on the
   caller's frame or on any other frame: no other call's variables are visible. *)
Theorem C11_calls_isolated : forall body g l1 c1 l2 c2,
  snd (step (OCall body) {| globals := g; cur := l1; callers := c1 |}) =
  snd (step (OCall body) {| globals := g; cur := l2; callers := c2 |}) /\
  globals (fst (step (OCall body) {| globals := g; cur := l1; callers := c1 |})) =
  globals (fst (step (OCall body) {| globals := g; cur := l2; callers := c2 |})).
Proof. exact calls_isolated. Qed.
Print Assumptions C11_calls_isolated.

(* Blocks share the enclosing function's variables: a block is its body inlined. *)
Theorem C11_blocks_share : forall body rest s,
  run_state (OBlock body :: rest) s = run_state (body ++ rest) s.
Proof. exact blocks_share. Qed.
Print Assumptions C11_blocks_share.

Theorem C11_local_shadows_global : forall s x v t1 t2,
  let s' := fst (step (OSet x v) s) in
  snd (step (ORead t1 x) s') = [(t1, Some v)] /\
  snd (step (OReadGlobal t2 x) s') = [(t2, t_get (globals s) x)].
Proof. exact local_shadows_global. Qed.
Print Assumptions C11_local_shadows_global.

Theorem C11_unset_is_local : forall s x t,
  t_get (cur s) x <> None ->
  let s' := fst (step (OUnset t x) s) in
  globals s' = globals s /\ callers s' = callers s /\
  lookup s' x = t_get (globals s) x /\
  (forall y, y <> x -> lookup s' y = lookup s y) /\
  snd (step (OUnset t x) s) = [(t, Some 0%N)].
Proof. exact unset_is_local. Qed.
Print Assumptions C11_unset_is_local.

Theorem C11_unset_unbound_errors : forall s x t,
  t_get (cur s) x = None -> step (OUnset t x) s = (s, [(t, None)]).
Proof. exact unset_unbound_errors. Qed.
Print Assumptions C11_unset_unbound_errors.

Theorem C11_undefined_read_errors : forall s x t,
  t_get (cur s) x = None -> t_get (globals s) x = None ->
  step (ORead t x) s = (s, [(t, None)]).
Proof. exact undefined_read_errors. Qed.
Print Assumptions C11_undefined_read_errors.

(* $GLOBAL.x is one value seen in every scope: at any call depth below. *)
Theorem C11_global_seen_everywhere : forall n s x v t,
  snd (run_state (nest (S n) [ORead t x]) (fst (step (OSetGlobal x v) s))) = [(t, Some v)].
Proof. exact global_seen_everywhere. Qed.
Print Assumptions C11_global_seen_everywhere.

(* A local assignment is seen at no call depth below. *)
Theorem C11_local_seen_nowhere_below : forall n s x v t,
  snd (run_state (nest (S n) [ORead t x]) (fst (step (OSet x v) s))) = [(t, t_get (globals s) x)].
Proof. exact local_seen_nowhere_below. Qed.
Print Assumptions C11_local_seen_nowhere_below.

(* Non-vacuity: a program with a call, a block and a foreach; the predicate
   accepts the model's trace and rejects the trace of a leaking callee (the
   caller reading the callee's 2 instead of its own 1) and of a non-shared block. *)
Example C11_nonvacuous :
  let prog := [OSet 0 1; OCall [ORead 1 0; OSet 0 2; OSetGlobal 1 7; ORead 2 0];
               ORead 3 0; ORead 4 1; OBlock [OSet 2 5]; ORead 5 2;
               OForeach 3 [8; 9] [ORead 6 3]; OUnset 7 0; ORead 8 0]%N in
  run prog = [(1, None); (2, Some 2); (3, Some 1); (4, Some 7); (5, Some 5);
              (6, Some 8); (6, Some 9); (7, Some 0); (8, None)]%N /\
  spec_ok {| c_ops := prog; c_status := 0; c_obs := run prog |} = true /\
  spec_ok {| c_ops := prog; c_status := 0;
             c_obs := [(1, None); (2, Some 2); (3, Some 2); (4, Some 7); (5, Some 5);
                       (6, Some 8); (6, Some 9); (7, Some 0); (8, None)]%N |} = false /\
  spec_ok {| c_ops := prog; c_status := 0;
             c_obs := [(1, None); (2, Some 2); (3, Some 1); (4, Some 7); (5, None);
                       (6, Some 8); (6, Some 9); (7, Some 0); (8, None)]%N |} = false.
Proof. vm_compute. repeat split; reflexivity. Qed.
