(* C06 — Arithmetic and comparison expressions follow C precedence.
   Only statements here; proofs live in Proof/ExprClimb.v, Proof/Expr.v, Proof/ExprC06.v.
   (Coq's Floats library is deliberately not imported here so that Print
   Assumptions prints the primitive float operations with qualified names.) *)
From Murex Require Import Base.Outcome Base.Bytes Model.Expr Model.ExprSpec Check.C06
     Model.ExprLex Proof.ExprClimb Proof.Expr Proof.ExprC06 Proof.ExprLex Gen.ExprTables.
Import ListNotations.

(* The fold-pass evaluator (scan left to right, fold the first operator whose
   key reaches the pass threshold, restart; one pass per threshold) equals
   evaluation of the tree built by precedence climbing with the levels
   { * / } > { + - } > { < <= > >= } > { == != } (> && > || > ?: ??), left-associative —
   for EVERY token list (any length), ANY nesting of parentheses, EVERY operator
   semantics `apply` (so in particular whatever the float operations do), and
   every threshold table that induces those levels. *)
Theorem C06_flat_eq_tree :
  forall (apply : sym -> value -> value -> option value) (gs : list N),
    table_ok gs = true ->
    forall ts tr, parse_expr ts = Some tr ->
                  eval_group apply gs ts = to_outcome (eval_top apply tr).
Proof. exact flat_eq_tree. Qed.
Print Assumptions C06_flat_eq_tree.

(* The tables regenerated from the Go source (symbols.Exp enum positions and the
   orderOfOperations slice) induce exactly those levels. A change of precedence
   in the code breaks this obligation. *)
Theorem C06_table_ok_now : table_ok groups = true.
Proof. exact table_ok_now. Qed.
Print Assumptions C06_table_ok_now.

(* ... and no value node can be mistaken for an operator by a pass. *)
Theorem C06_value_keys_ok_now : value_keys_ok groups = true.
Proof. exact value_keys_ok_now. Qed.
Print Assumptions C06_value_keys_ok_now.

(* Hence for the model of the Go code as it is now: *)
Theorem C06_eval_expr_eq_tree :
  forall orc ts tr, parse_expr ts = Some tr ->
                    eval_expr orc ts = to_outcome (eval_top (apply_go orc) tr).
Proof. exact eval_expr_eq_tree. Qed.
Print Assumptions C06_eval_expr_eq_tree.

(* Whenever the property says what an expression evaluates to (`reference`:
   textbook tree, IEEE-754 binary64 + - * /, comparisons giving booleans,
   strings in byte order), the model returns exactly that value. *)
Theorem C06_model_meets_reference :
  forall orc ts v, reference orc ts = Some v -> eval_expr orc ts = Ok v.
Proof. exact model_meets_reference. Qed.
Print Assumptions C06_model_meets_reference.

(* The same in the form the check evaluates on the implementation's observations. *)
Theorem C06_model_meets_spec :
  forall orc src ts,
    spec_ok {| c_toks := ts; c_src := src; c_orc := orc; c_obs := obs_of (eval_expr orc ts) |} = true.
Proof. exact model_meets_spec. Qed.
Print Assumptions C06_model_meets_spec.

(* The machine's fuel (one unit per fold) always suffices. *)
Theorem C06_fuel_sufficient :
  forall orc ts tr, parse_expr ts = Some tr -> eval_expr orc ts <> OutOfFuel.
Proof. exact fuel_sufficient. Qed.
Print Assumptions C06_fuel_sufficient.

(* Corollaries in the property's words, for all numbers a b c (d). *)
Theorem C06_mul_before_add : forall orc a b c,
  eval_expr orc [PV (VNum a); PO Add; PV (VNum b); PO Mul; PV (VNum c)]
    = Ok (VNum (PrimFloat.add a (PrimFloat.mul b c))) /\
  eval_expr orc [PV (VNum a); PO Mul; PV (VNum b); PO Add; PV (VNum c)]
    = Ok (VNum (PrimFloat.add (PrimFloat.mul a b) c)).
Proof. exact mul_before_add. Qed.
Print Assumptions C06_mul_before_add.

Theorem C06_sub_left_assoc : forall orc a b c,
  eval_expr orc [PV (VNum a); PO Sub; PV (VNum b); PO Sub; PV (VNum c)]
    = Ok (VNum (PrimFloat.sub (PrimFloat.sub a b) c)).
Proof. exact sub_left_assoc. Qed.
Print Assumptions C06_sub_left_assoc.

Theorem C06_div_left_assoc : forall orc a b c,
  eval_expr orc [PV (VNum a); PO Div; PV (VNum b); PO Div; PV (VNum c)]
    = Ok (VNum (PrimFloat.div (PrimFloat.div a b) c)) /\
  eval_expr orc [PV (VNum a); PO Div; PV (VNum b); PO Mul; PV (VNum c)]
    = Ok (VNum (PrimFloat.mul (PrimFloat.div a b) c)).
Proof. exact div_left_assoc. Qed.
Print Assumptions C06_div_left_assoc.

Theorem C06_add_before_compare : forall orc a b c d,
  eval_expr orc [PV (VNum a); PO Add; PV (VNum b); PO Lt; PV (VNum c); PO Mul; PV (VNum d)]
    = Ok (VBool (PrimFloat.ltb (PrimFloat.add a b) (PrimFloat.mul c d))).
Proof. exact add_before_compare. Qed.
Print Assumptions C06_add_before_compare.

Theorem C06_compare_before_equal : forall orc a b c d,
  eval_expr orc [PV (VNum a); PO Lt; PV (VNum b); PO Eq; PV (VNum c); PO Ge; PV (VNum d)]
    = Ok (VBool (Bool.eqb (PrimFloat.ltb a b) (PrimFloat.leb d c))).
Proof. exact compare_before_equal. Qed.
Print Assumptions C06_compare_before_equal.

Theorem C06_parens_override : forall orc a b c,
  eval_expr orc [PP [PV (VNum a); PO Add; PV (VNum b)]; PO Mul; PV (VNum c)]
    = Ok (VNum (PrimFloat.mul (PrimFloat.add a b) c)).
Proof. exact parens_override. Qed.
Print Assumptions C06_parens_override.

Theorem C06_cmp_yields_bool : forall orc o a b,
  In o [Gt; Ge; Lt; Le; Eq; Ne] ->
  exists r, eval_expr orc [PV (VNum a); PO o; PV (VNum b)] = Ok (VBool r).
Proof. exact cmp_yields_bool. Qed.
Print Assumptions C06_cmp_yields_bool.

(* a number literal is its float64: 1.0 == 1 compares the same float with itself *)
Theorem C06_num_eq_by_value : forall orc a b,
  eval_expr orc [PV (VNum a); PO Eq; PV (VNum b)] = Ok (VBool (PrimFloat.eqb a b)).
Proof. exact num_eq_by_value. Qed.
Print Assumptions C06_num_eq_by_value.

Theorem C06_str_lt_is_bytewise : forall orc s t,
  eval_expr orc [PV (VStr s); PO Lt; PV (VStr t)] = Ok (VBool (bytes_ltb s t)).
Proof. exact str_lt_is_bytewise. Qed.
Print Assumptions C06_str_lt_is_bytewise.

(* ... where bytes_ltb is the lexicographic order on bytes: first difference decides, a proper prefix is smaller *)
Theorem C06_bytes_ltb_is_lexicographic : forall s t,
  bytes_ltb s t = true <->
  (exists p x y s' t', s = p ++ x :: s' /\ t = p ++ y :: t' /\ (x < y)%N) \/
  (exists y t', t = s ++ y :: t').
Proof. exact bytes_ltb_spec. Qed.
Print Assumptions C06_bytes_ltb_is_lexicographic.

(* Mixed comparisons (compareTypes, non-strict): strconv enters as the observed
   tables of the case (or_parse = ConvertGoType(s, Number), or_fmt = FloatToString). *)
Theorem C06_num_vs_numeric_string : forall orc x s y,
  lookup_parse (or_parse orc) s = Some (Some y) ->
  eval_expr orc [PV (VNum x); PO Eq; PV (VStr s)] = Ok (VBool (PrimFloat.eqb x y)) /\
  eval_expr orc [PV (VStr s); PO Lt; PV (VNum x)] = Ok (VBool (PrimFloat.ltb y x)).
Proof. exact num_vs_numeric_string. Qed.
Print Assumptions C06_num_vs_numeric_string.

Theorem C06_num_vs_other_string : forall orc x s t,
  lookup_parse (or_parse orc) s = Some None -> lookup_fmt (or_fmt orc) x = Some t ->
  eval_expr orc [PV (VNum x); PO Eq; PV (VStr s)] = Ok (VBool (bytes_eqb t s)) /\
  eval_expr orc [PV (VNum x); PO Lt; PV (VStr s)] = Ok (VBool (bytes_ltb t s)).
Proof. exact num_vs_other_string. Qed.
Print Assumptions C06_num_vs_other_string.

Theorem C06_num_vs_bool : forall orc x b,
  eval_expr orc [PV (VNum x); PO Eq; PV (VBool b)] =
  Ok (VBool (PrimFloat.eqb x (if b then PrimFloat.one else PrimFloat.zero))).
Proof. exact num_vs_bool. Qed.
Print Assumptions C06_num_vs_bool.

(* table_ok speaks about the induced ORDER of levels only: a harmless regrouping
   (here: a new threshold symbols.Like that splits the equality group without
   separating == from !=) keeps it true. *)
Theorem C06_table_ok_split_groups :
  table_ok [sym_Multiply; sym_Add; sym_Merge; sym_GreaterThan; sym_Like; sym_EqualTo;
            sym_LogicalAnd; sym_LogicalOr; sym_Elvis; sym_Assign]%list = true.
Proof. vm_compute. reflexivity. Qed.
Print Assumptions C06_table_ok_split_groups.

(* The `-` rule of the reader (parse_expression.go case '-'): directly before a
   digit, `-` is the subtraction operator after a value and the sign of a literal
   at the start of an expression / group or after an operator — whatever blanks
   precede it. *)
Theorem C06_minus_after_value : forall f acc sub d r1,
  is_digit d = true -> sign_position acc = false ->
  lex (S f) (45 :: d :: r1)%N acc sub = lex f (d :: r1) (LOp Sub :: acc) sub.
Proof. exact minus_after_value. Qed.
Print Assumptions C06_minus_after_value.

Theorem C06_minus_is_sign : forall f acc sub d r1,
  is_digit d = true -> sign_position acc = true ->
  lex (S f) (45 :: d :: r1)%N acc sub =
  (let '(t, r') := span_while num_char r1 in lex f r' (LNum (45 :: d :: t)%N :: acc) sub).
Proof. exact minus_is_sign. Qed.
Print Assumptions C06_minus_is_sign.

(* 1 -3, 1-3, 1 - 3 subtract; 1 - -3, 1--3, 1*-3, -3+1, (-3)-3 have a negative literal *)
Theorem C06_minus_examples :
  lex_expr [49;32;45;51]%N = Some [LNum [49]; LOp Sub; LNum [51]]%N /\
  lex_expr [49;45;51]%N = Some [LNum [49]; LOp Sub; LNum [51]]%N /\
  lex_expr [49;32;45;32;51]%N = Some [LNum [49]; LOp Sub; LNum [51]]%N /\
  lex_expr [49;32;45;32;45;51]%N = Some [LNum [49]; LOp Sub; LNum [45;51]]%N /\
  lex_expr [49;45;45;51]%N = Some [LNum [49]; LOp Sub; LNum [45;51]]%N /\
  lex_expr [49;42;45;51]%N = Some [LNum [49]; LOp Mul; LNum [45;51]]%N /\
  lex_expr [45;51;43;49]%N = Some [LNum [45;51]; LOp Add; LNum [49]]%N /\
  lex_expr [40;45;51;41;45;51]%N = Some [LGroup [LNum [45;51]]; LOp Sub; LNum [51]]%N.
Proof. exact minus_examples. Qed.
Print Assumptions C06_minus_examples.

(* Non-vacuity: a concrete mixed expression with nested parentheses parses, the
   reference gives it a value, the model computes it; spec_ok rejects the value
   a wrong precedence would give (2 + 3 * 4 = 20); table_ok rejects a table in
   which + is folded before *. *)
Example C06_nonvacuous :
  (exists tr, parse_expr [PV (VNum PrimFloat.two); PO Add; PP [PV (VNum PrimFloat.one); PO Sub; PP [PV (VNum PrimFloat.two)]];
                          PO Mul; PV (VNum PrimFloat.two); PO Lt; PV (VNum PrimFloat.one)] = Some tr) /\
  reference no_oracles [PV (VNum PrimFloat.two); PO Add; PV (VNum PrimFloat.two); PO Mul; PV (VNum PrimFloat.two)]
    = Some (VNum (PrimFloat.add PrimFloat.two (PrimFloat.mul PrimFloat.two PrimFloat.two))) /\
  spec_ok {| c_toks := [PV (VNum PrimFloat.two); PO Add; PV (VNum PrimFloat.two); PO Mul; PV (VNum PrimFloat.two)];
             c_src := []; c_orc := no_oracles; c_obs := {| o_kind := 0; o_val := VNum (PrimFloat.mul (PrimFloat.add PrimFloat.two PrimFloat.two) PrimFloat.two) |} |} = false /\
  table_ok [sym_Add; sym_Multiply; sym_Merge; sym_GreaterThan; sym_EqualTo; sym_LogicalAnd; sym_LogicalOr; sym_Elvis; sym_Assign]%list = false.
Proof. repeat split; try (eexists; vm_compute; reflexivity); vm_compute; reflexivity. Qed.
