(* C07 — Logical operators inside expressions follow truthiness.
   Only statements here; proofs live in Proof/ExprC07.v (and Proof/Expr.v for the
   flat-evaluator = precedence-tree theorem it re-uses).
   (Coq's Floats library is deliberately not imported: see Properties/C06.v.) *)
From Murex Require Import Base.Outcome Base.Bytes Model.Expr Model.ExprSpec Model.ExprBuiltins Check.C06 Check.C07
     Gen.Truthy Proof.ExprClimb Proof.Expr Proof.ExprC06 Proof.ExprC07.
Import ListNotations.

(* The words that IsTrueString compares with, regenerated from lang/types/types.go
   on every run, are exactly the property's: 0 null false no off fail failed disabled
   (the empty string is tested separately). A change to the list breaks this. *)
Theorem C07_truthy_table : same_words false_words spec_false_words = true.
Proof. exact truthy_table_now. Qed.
Print Assumptions C07_truthy_table.

(* IsTrueString(s, 0), for EVERY (ASCII) string s, is the property's rule: trim,
   lower-case, empty or one of the nine words = false. *)
Theorem C07_is_true_string_spec : forall s, is_true_string s 0 = spec_truthy_str s.
Proof. exact is_true_string_spec. Qed.
Print Assumptions C07_is_true_string_spec.

(* any non-zero (positive) exit number is false whatever was printed *)
Theorem C07_nonzero_exit_false : forall s n, (0 < n)%Z -> is_true_string s n = false.
Proof. exact nonzero_exit_false. Qed.
Print Assumptions C07_nonzero_exit_false.

(* && and || for ALL operand values (numbers, booleans, strings, null) *)
Theorem C07_and_spec : forall orc a b,
  apply_go orc And a b = Some (VBool (spec_truthy a && spec_truthy b)).
Proof. exact and_spec. Qed.
Print Assumptions C07_and_spec.

Theorem C07_or_spec : forall orc a b,
  apply_go orc Or a b = Some (VBool (spec_truthy a || spec_truthy b)).
Proof. exact or_spec. Qed.
Print Assumptions C07_or_spec.

(* ?: yields a if a is truthy and b otherwise — for all values except a = -0 (known finding 1) *)
Theorem C07_elvis_spec : forall orc a b,
  is_neg_zero a = false -> apply_go orc Elvis a b = Some (if spec_truthy a then a else b).
Proof. exact elvis_spec. Qed.
Print Assumptions C07_elvis_spec.

(* ?? yields a unless a is null *)
Theorem C07_nullco_spec : forall orc a b,
  apply_go orc NullCo a b = Some (match a with VNull => b | _ => a end).
Proof. exact nullco_spec. Qed.
Print Assumptions C07_nullco_spec.

(* Truthiness is the same everywhere: (v && true), (v || false), (v ?: x),
   if {v} and v -> ! all follow spec_truthy, for every value but the number -0. *)
Theorem C07_truthy_uniform : forall v,
  is_neg_zero v = false -> spec_ok (CaseTruth v (model_truth v)) = true.
Proof. exact truthy_uniform. Qed.
Print Assumptions C07_truthy_uniform.

(* Statement-level users of truthiness, against a model of what each builtin
   does (if.go, andor.go, while.go, typemgmt cmdNot): for every builtin, either
   polarity (`if` / `!if`, ...), and every list of condition-block results
   (stdout, exit number >= 0), the builtin's branch / exit number / number of
   condition blocks run / number of loop iterations is the one prescribed by the
   single truthiness function of (stdout, exit). *)
Theorem C07_truthy_uniform_builtins : forall b neg cs,
  in_domain cs = true -> run_builtin b neg cs = spec_builtin b neg cs.
Proof. exact truthy_uniform_builtins. Qed.
Print Assumptions C07_truthy_uniform_builtins.

Theorem C07_builtins_meet_spec : forall b neg cs,
  spec_ok (CaseBuiltin b neg cs (run_builtin b neg cs)) = true.
Proof. exact builtins_meet_spec. Qed.
Print Assumptions C07_builtins_meet_spec.

(* a positive exit number makes a condition false whatever it printed *)
Theorem C07_positive_exit_false : forall c, (0 < cd_exit c)%Z -> is_true c = false.
Proof. exact positive_exit_false. Qed.
Print Assumptions C07_positive_exit_false.

(* (outside the property text: a negative exit number, which only and/or produce
   as their success marker, makes it true) *)
Theorem C07_negative_exit_true : forall c, (cd_exit c < 0)%Z -> is_true c = true.
Proof. exact negative_exit_true. Qed.
Print Assumptions C07_negative_exit_true.

(* Closure under nesting, comparisons and arithmetic (re-uses the C06 theorem):
   for every token list of any length and nesting, outside known finding 1, the
   model returns the value prescribed by the textbook tree with the property's
   truthiness. *)
Theorem C07_model_meets_spec : forall orc ts,
  classify (CaseExpr ts orc (obs_of (eval_expr orc ts))) = 0%N ->
  spec_ok (CaseExpr ts orc (obs_of (eval_expr orc ts))) = true.
Proof. exact model_meets_spec07. Qed.
Print Assumptions C07_model_meets_spec.

(* Known finding 1 is real: the model of the code violates uniformity on -0
   ((-0 && true) is true, (-0 ?: x) is x). *)
Theorem C07_elvis_negzero_refuted :
  exists v, spec_ok (CaseTruth v (model_truth v)) = false.
Proof. exact elvis_negzero_refuted. Qed.
Print Assumptions C07_elvis_negzero_refuted.

(* Non-vacuity: the guards are satisfiable, and spec_ok rejects what the code did
   before the fix: (true && false) = true and ('' || 'off') = true. *)
Example C07_nonvacuous :
  is_neg_zero (VStr [111;102;102]%N) = false /\
  classify (CaseExpr [PV (VBool true); PO And; PV (VBool false)] no_oracles
                     (obs_of (eval_expr no_oracles [PV (VBool true); PO And; PV (VBool false)]))) = 0%N /\
  spec_ok (CaseExpr [PV (VBool true); PO And; PV (VBool false)] no_oracles
                    {| o_kind := 0; o_val := VBool true |}) = false /\
  spec_ok (CaseExpr [PP [PV (VStr []); PO Or; PV (VStr [111;102;102]%N)]] no_oracles
                    {| o_kind := 0; o_val := VBool true |}) = false /\
  spec_ok (CaseExpr [PV (VBool true); PO And; PV (VBool false)] no_oracles
                    {| o_kind := 0; o_val := VBool false |}) = true /\
  same_words ([[121;101;115]%N] ++ false_words) spec_false_words = false /\
  in_domain [{| cd_out := [110;111;10]%N; cd_exit := 0 |}; {| cd_out := [121;10]%N; cd_exit := 1 |}] = true /\
  (* `!and { out no } { out y; false -s }` succeeds after running both blocks; an observation
     that stopped after the first block is rejected *)
  spec_ok (CaseBuiltin BAnd true
             [{| cd_out := [110;111;10]%N; cd_exit := 0 |}; {| cd_out := [121;10]%N; cd_exit := 1 |}]
             {| bo_ok := true; bo_flag := true; bo_exit := (-1)%Z; bo_count := 2 |}) = true /\
  spec_ok (CaseBuiltin BAnd true
             [{| cd_out := [110;111;10]%N; cd_exit := 0 |}; {| cd_out := [121;10]%N; cd_exit := 1 |}]
             {| bo_ok := true; bo_flag := false; bo_exit := 1%Z; bo_count := 1 |}) = false.
Proof. repeat split; vm_compute; reflexivity. Qed.
