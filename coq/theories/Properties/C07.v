(* C07 — Logical operators inside expressions follow truthiness.
   Only statements here; proofs live in Proof/ExprC07.v (and Proof/Expr.v for the
   flat-evaluator = precedence-tree theorem it re-uses).
   (Coq's Floats library is deliberately not imported: see Properties/C06.v.) *)
From Murex Require Import Base.Outcome Base.Bytes Model.Expr Model.ExprSpec Check.C06 Check.C07
     Gen.Truthy Proof.ExprClimb Proof.Expr Proof.ExprC06 Proof.ExprC07.
Import ListNotations.

(* The words that IsTrueString compares with, regenerated from lang/types/types.go
   on every run, are exactly the property's: 0 null false no off fail failed disabled
   (the empty string is tested separately). A change to the list breaks this. *)
Theorem C07_truthy_table : same_words false_words spec_false_words = true.
Proof. exact truthy_table_now. Qed.
Print Assumptions C07_truthy_table.

(* IsTrueString(s, 0), for EVERY (ASCII) string s, is the property's rule: trim,
   lower-case, empty or one of the nine words = false. *)
Theorem C07_is_true_string_spec : forall s, is_true_string s 0 = spec_truthy_str s.
Proof. exact is_true_string_spec. Qed.
Print Assumptions C07_is_true_string_spec.

(* any non-zero (positive) exit number is false whatever was printed *)
Theorem C07_nonzero_exit_false : forall s n, (0 < n)%Z -> is_true_string s n = false.
Proof. exact nonzero_exit_false. Qed.
Print Assumptions C07_nonzero_exit_false.

(* && and || for ALL operand values (numbers, booleans, strings, null) *)
Theorem C07_and_spec : forall a b,
  apply_go And a b = Some (VBool (spec_truthy a && spec_truthy b)).
Proof. exact and_spec. Qed.
Print Assumptions C07_and_spec.

Theorem C07_or_spec : forall a b,
  apply_go Or a b = Some (VBool (spec_truthy a || spec_truthy b)).
Proof. exact or_spec. Qed.
Print Assumptions C07_or_spec.

(* ?: yields a if a is truthy and b otherwise — for all values except a = -0 (known finding 1) *)
Theorem C07_elvis_spec : forall a b,
  is_neg_zero a = false -> apply_go Elvis a b = Some (if spec_truthy a then a else b).
Proof. exact elvis_spec. Qed.
Print Assumptions C07_elvis_spec.

(* ?? yields a unless a is null *)
Theorem C07_nullco_spec : forall a b,
  apply_go NullCo a b = Some (match a with VNull => b | _ => a end).
Proof. exact nullco_spec. Qed.
Print Assumptions C07_nullco_spec.

(* Truthiness is the same everywhere: (v && true), (v || false), (v ?: x),
   if {v} and v -> ! all follow spec_truthy, for every value but the number -0. *)
Theorem C07_truthy_uniform : forall v,
  is_neg_zero v = false -> spec_ok (CaseTruth v (model_truth v)) = true.
Proof. exact truthy_uniform. Qed.
Print Assumptions C07_truthy_uniform.

(* Closure under nesting, comparisons and arithmetic (re-uses the C06 theorem):
   for every token list of any length and nesting, outside known finding 1, the
   model returns the value prescribed by the textbook tree with the property's
   truthiness. *)
Theorem C07_model_meets_spec : forall ts,
  classify (CaseExpr ts (obs_of (eval_expr ts))) = 0%N ->
  spec_ok (CaseExpr ts (obs_of (eval_expr ts))) = true.
Proof. exact model_meets_spec07. Qed.
Print Assumptions C07_model_meets_spec.

(* Known finding 1 is real: the model of the code violates uniformity on -0
   ((-0 && true) is true, (-0 ?: x) is x). *)
Theorem C07_elvis_negzero_refuted :
  exists v, spec_ok (CaseTruth v (model_truth v)) = false.
Proof. exact elvis_negzero_refuted. Qed.
Print Assumptions C07_elvis_negzero_refuted.

(* Non-vacuity: the guards are satisfiable, and spec_ok rejects what the code did
   before the fix: (true && false) = true and ('' || 'off') = true. *)
Example C07_nonvacuous :
  is_neg_zero (VStr [111;102;102]%N) = false /\
  classify (CaseExpr [PV (VBool true); PO And; PV (VBool false)]
                     (obs_of (eval_expr [PV (VBool true); PO And; PV (VBool false)]))) = 0%N /\
  spec_ok (CaseExpr [PV (VBool true); PO And; PV (VBool false)]
                    {| o_kind := 0; o_val := VBool true |}) = false /\
  spec_ok (CaseExpr [PP [PV (VStr []); PO Or; PV (VStr [111;102;102]%N)]]
                    {| o_kind := 0; o_val := VBool true |}) = false /\
  spec_ok (CaseExpr [PV (VBool true); PO And; PV (VBool false)]
                    {| o_kind := 0; o_val := VBool false |}) = true /\
  same_words ([[121;101;115]%N] ++ false_words) spec_false_words = false.
Proof. repeat split; vm_compute; reflexivity. Qed.
