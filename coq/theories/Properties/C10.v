(* C10 -- Escaped command lines parse back to the original argv.
   Statements only; proofs are in Proof/CmdLine.v. *)
From Murex Require Import Base.Outcome Base.Bytes Model.StmtParse Gen.EscapeTable Gen.NoTokenise Check.C10 Proof.CmdLine Proof.CmdLineRoundtrip.
Open Scope N_scope.

(* escape.CommandLine (sequential strings.Replace) is a byte-wise encoding, for
   every table whose keys are single bytes and every string *)
Theorem C10_escape_arg_bytewise : forall tbl, single_keys tbl = true ->
  forall s, escape_arg tbl s = flat_map (char_image tbl) s.
Proof. exact escape_arg_bytewise. Qed.
Print Assumptions C10_escape_arg_bytewise.

(* bytes that are not keys are left alone *)
Theorem C10_char_image_other : forall tbl c,
  single_keys tbl = true -> forallb (fun kr => negb (bytes_eqb (fst kr) [c])) tbl = true ->
  char_image tbl c = [c].
Proof. exact char_image_other. Qed.
Print Assumptions C10_char_image_other.

(* the table regenerated from utils/escape/escape.go NOW: one-byte keys, each
   mapped to backslash + a byte the parser's escape rule maps back; argvToCmdLineStr
   still is escape.CommandLine + strings.Join(_, " ") *)
Theorem C10_escape_pairs_now :
  argv_shape_ok = true /\ cmdline_sep = [32] /\ single_keys escape_pairs = true /\
  forallb (key_image_ok escape_pairs) escape_pairs = true.
Proof. exact escape_pairs_now. Qed.
Print Assumptions C10_escape_pairs_now.

Theorem C10_cmdline_bytewise : forall argv,
  cmdline argv = join [32] (map (flat_map (char_image escape_pairs)) argv).
Proof. exact cmdline_bytewise. Qed.
Print Assumptions C10_cmdline_bytewise.

(* HEADLINE, generic in the table: for every escape table that satisfies the
   computable conditions tbl_ok (one-byte keys; every key maps to backslash + a
   byte the parser's escape rule maps back; every byte the statement parser treats
   specially, other than the known-finding ones, is a key; no key is a bare-word
   byte), every plain command word, and argument lists of ANY length whose
   elements have ANY length: if no argument is empty or contains an unescaped
   metacharacter (; { } ~ backtick && %[ %{) and the first argument does not start
   with an assignment operator, then the escaped, blank-joined line is ONE
   statement whose command and parameters are exactly the argv. *)
Theorem C10_roundtrip_generic : forall tbl, tbl_ok tbl = true -> forall cf e cmd args,
  plain_cmd cmd = true -> in_list cmd (c_notok cf) = false ->
  forallb safe_arg args = true -> first_arg_ok tbl args = true ->
  block_first cf e (escape_join tbl [32] (cmd :: args))
  = Ok {| r_cmd := cmd; r_params := args; r_rest := 0 |}.
Proof. exact roundtrip_generic. Qed.
Print Assumptions C10_roundtrip_generic.

(* the table regenerated from utils/escape/escape.go NOW satisfies the conditions *)
Theorem C10_tbl_ok_now : tbl_ok escape_pairs = true.
Proof. exact tbl_ok_now. Qed.
Print Assumptions C10_tbl_ok_now.

(* ... hence the round trip for what argvToCmdLineStr / esccli produce today *)
Theorem C10_cmdline_roundtrip : forall cf e cmd args,
  plain_cmd cmd = true -> in_list cmd (c_notok cf) = false ->
  forallb safe_arg args = true -> first_arg_ok escape_pairs args = true ->
  block_first cf e (cmdline (cmd :: args))
  = Ok {| r_cmd := cmd; r_params := args; r_rest := 0 |}.
Proof. exact cmdline_roundtrip. Qed.
Print Assumptions C10_cmdline_roundtrip.

Theorem C10_cmdline_roundtrip_single : forall cf e cmd a,
  plain_cmd cmd = true -> in_list cmd (c_notok cf) = false ->
  safe_arg a = true -> assign_start (escape_arg escape_pairs a) = false ->
  block_first cf e (cmdline [cmd; a]) = Ok {| r_cmd := cmd; r_params := [a]; r_rest := 0 |}.
Proof. exact cmdline_roundtrip_single. Qed.
Print Assumptions C10_cmdline_roundtrip_single.

(* the guards are EXACTLY the complement of the known-finding classes 1-3 *)
Theorem C10_guards_iff_unclassified : forall cmd args home nc,
  classify (model_case (cmd :: args) home nc) = 0 <->
  forallb safe_arg args = true /\ first_arg_ok escape_pairs args = true.
Proof. exact guards_iff_unclassified. Qed.
Print Assumptions C10_guards_iff_unclassified.

(* ... so: every argv that is not a listed known finding satisfies, in the model,
   the predicate the check evaluates on the implementation *)
Theorem C10_model_meets_spec : forall cmd args home nc,
  plain_cmd cmd = true -> in_list cmd no_tokenise_cmds = false ->
  classify (model_case (cmd :: args) home nc) = 0 ->
  spec_ok (model_case (cmd :: args) home nc) = true.
Proof. exact model_meets_spec. Qed.
Print Assumptions C10_model_meets_spec.

(* F10 (known findings 1-3): the model of the code does not round-trip these *)
Theorem C10_cmdline_roundtrip_refuted :
  w [[101;99;104;111]; [97;59;98]] = false /\
  w [[101;99;104;111]; [126]] = false /\
  w [[101;99;104;111]; [123]] = false /\
  w [[101;99;104;111]; [96]] = false /\
  w [[101;99;104;111]; [37;91;49;93]] = false /\
  w [[101;99;104;111]; [97;38;38;98]] = false /\
  w [[101;99;104;111]; []; [98]] = false /\
  w [[101;99;104;111]; [61]; [98]] = false.
Proof. exact cmdline_roundtrip_refuted. Qed.
Print Assumptions C10_cmdline_roundtrip_refuted.

(* one argv holding every escaped character class: the model's observation
   satisfies the predicate evaluated on the implementation *)
Theorem C10_cmdline_roundtrip_instance :
  w [[101;99;104;111]; [97;32;98]; [36;72;79;77;69]; [105;116;39;115]; [113;34;114]; [35;99]; [42]; [63];
     [97;124;98]; [64;120]; [97;58;98]; [45;120]; [97;61;62;98]; [91;122;93]; [97;92;98]; [97;10;98]; [9];
     [40;120;41]; [60;121;62]; [97;38;98]; [49;48;48;37]; [61;61]; [13]; [195;169]] = true.
Proof. exact cmdline_roundtrip_instance. Qed.
Print Assumptions C10_cmdline_roundtrip_instance.

Example C10_nonvacuous :
  plain_cmd [101;99;104;111] = true /\ in_list [101;99;104;111] no_tokenise_cmds = false /\
  forallb safe_arg [[36;120;32;38;37;93;91]; [97;10;39;34;92]; [45;62;61;62;47;35]] = true /\
  first_arg_ok escape_pairs [[36;120;32;38;37;93;91]; [97;10;39;34;92]; [45;62;61;62;47;35]] = true /\
  single_keys escape_pairs = true /\
  classify (model_case [[101;99;104;111]; [97;59;98]] [47] false) = 1 /\
  classify (model_case [[101;99;104;111]; [36;120]] [47] false) = 0 /\
  spec_ok {| k_argv := [[101;99;104;111]; [36;120]]; k_home := [47]; k_nocolour := false;
             k_obs := {| o_cmdline := [101;99;104;111;32;36;120]; o_same := true; o_kind := 1; o_nfuncs := 0;
                         o_rawlen := 0; o_cmd := []; o_params := []; o_e2e := true |} |} = false.
Proof. vm_compute. repeat split. Qed.
