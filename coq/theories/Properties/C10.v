(* C10 -- Escaped command lines parse back to the original argv.
   Statements only; proofs are in Proof/CmdLine.v. *)
From Murex Require Import Base.Outcome Base.Bytes Model.StmtParse Gen.EscapeTable Check.C10 Proof.CmdLine.
Open Scope N_scope.

(* escape.CommandLine (sequential strings.Replace) is a byte-wise encoding, for
   every table whose keys are single bytes and every string *)
Theorem C10_escape_arg_bytewise : forall tbl, single_keys tbl = true ->
  forall s, escape_arg tbl s = flat_map (char_image tbl) s.
Proof. exact escape_arg_bytewise. Qed.
Print Assumptions C10_escape_arg_bytewise.

(* bytes that are not keys are left alone *)
Theorem C10_char_image_other : forall tbl c,
  single_keys tbl = true -> forallb (fun kr => negb (bytes_eqb (fst kr) [c])) tbl = true ->
  char_image tbl c = [c].
Proof. exact char_image_other. Qed.
Print Assumptions C10_char_image_other.

(* the table regenerated from utils/escape/escape.go NOW: one-byte keys, each
   mapped to backslash + a byte the parser's escape rule maps back; argvToCmdLineStr
   still is escape.CommandLine + strings.Join(_, " ") *)
Theorem C10_escape_pairs_now :
  argv_shape_ok = true /\ cmdline_sep = [32] /\ single_keys escape_pairs = true /\
  forallb (key_image_ok escape_pairs) escape_pairs = true.
Proof. exact escape_pairs_now. Qed.
Print Assumptions C10_escape_pairs_now.

Theorem C10_cmdline_bytewise : forall argv,
  cmdline argv = join [32] (map (flat_map (char_image escape_pairs)) argv).
Proof. exact cmdline_bytewise. Qed.
Print Assumptions C10_cmdline_bytewise.

(* F10 (known findings 1-3): the model of the code does not round-trip these *)
Theorem C10_cmdline_roundtrip_refuted :
  w [[101;99;104;111]; [97;59;98]] = false /\
  w [[101;99;104;111]; [126]] = false /\
  w [[101;99;104;111]; [123]] = false /\
  w [[101;99;104;111]; [96]] = false /\
  w [[101;99;104;111]; [37;91;49;93]] = false /\
  w [[101;99;104;111]; [97;38;38;98]] = false /\
  w [[101;99;104;111]; []; [98]] = false /\
  w [[101;99;104;111]; [61]; [98]] = false.
Proof. exact cmdline_roundtrip_refuted. Qed.
Print Assumptions C10_cmdline_roundtrip_refuted.

(* one argv holding every escaped character class: the model's observation
   satisfies the predicate evaluated on the implementation *)
Theorem C10_cmdline_roundtrip_instance :
  w [[101;99;104;111]; [97;32;98]; [36;72;79;77;69]; [105;116;39;115]; [113;34;114]; [35;99]; [42]; [63];
     [97;124;98]; [64;120]; [97;58;98]; [45;120]; [97;61;62;98]; [91;122;93]; [97;92;98]; [97;10;98]; [9];
     [40;120;41]; [60;121;62]; [97;38;98]; [49;48;48;37]; [61;61]; [13]; [195;169]] = true.
Proof. exact cmdline_roundtrip_instance. Qed.
Print Assumptions C10_cmdline_roundtrip_instance.

Example C10_nonvacuous :
  single_keys escape_pairs = true /\
  classify (model_case [[101;99;104;111]; [97;59;98]] [47] false) = 1 /\
  classify (model_case [[101;99;104;111]; [36;120]] [47] false) = 0 /\
  spec_ok {| k_argv := [[101;99;104;111]; [36;120]]; k_home := [47]; k_nocolour := false;
             k_obs := {| o_cmdline := [101;99;104;111;32;36;120]; o_same := true; o_kind := 1; o_nfuncs := 0;
                         o_rawlen := 0; o_cmd := []; o_params := []; o_e2e := true |} |} = false.
Proof. vm_compute. repeat split. Qed.
