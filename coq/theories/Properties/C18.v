(* C18 — mkarray ranges produce the exact sequence.
   Only theorem statements here; proofs live in Proof/MkArray.v. *)
From Murex Require Import Base.Outcome Base.Bytes Model.Decimal Model.MkArray Model.MkArrayParse Check.C18
  Proof.MkArray Proof.MkArrayParse Proof.Decimal Proof.DecimalCor.
Open Scope Z_scope.

(* `[m..n]` for ALL integers m, n (texts s0, s1 that strconv.Atoi accepts):
   every integer from m to n inclusive, ascending or descending, each written
   by fmtnum keyed on the text of the lower bound. *)
Theorem C18_int_range_exact : forall s0 s1 m n,
  atoi s0 = Some m -> atoi s1 = Some n ->
  int_range s0 s1 = Ok (map (fmtnum (if m <? n then s0 else s1)) (zrange m n)).
Proof. exact int_range_exact. Qed.
Print Assumptions C18_int_range_exact.

(* Over integers: `[m..n]` written in plain decimal is every integer from m to n
   in plain decimal, for all int64 m, n. *)
Theorem C18_int_range_int : forall m n, int64 m -> int64 n ->
  int_range (itoa m) (itoa n) = Ok (map itoa (zrange m n)).
Proof. exact I18.int_range_int. Qed.
Print Assumptions C18_int_range_int.

(* zrange m n has |m - n| + 1 elements and its k-th element is m + k (m <= n) or m - k. *)
Theorem C18_zrange_length : forall m n, length (zrange m n) = Z.to_nat (Z.abs (m - n) + 1).
Proof. exact zrange_length. Qed.
Print Assumptions C18_zrange_length.

Theorem C18_zrange_nth : forall m n k d,
  (k < length (zrange m n))%nat ->
  nth k (zrange m n) d = if m <=? n then m + Z.of_nat k else m - Z.of_nat k.
Proof. exact zrange_nth. Qed.
Print Assumptions C18_zrange_nth.

(* The zero-padding rule: zeros are added in front up to the width of the bound's text. *)
Theorem C18_padding_rule : forall w z, 0 <= z ->
  pad w z = zeros (w - length (itoa z)) ++ itoa z /\
  length (pad w z) = Nat.max w (length (itoa z)).
Proof. exact padding_rule. Qed.
Print Assumptions C18_padding_rule.

(* Several blocks: the odometer loop writes the cartesian product in
   lexicographic order with the last block fastest — any number of blocks, any sizes. *)
Theorem C18_odometer_is_product : forall t,
  vars_nonempty t -> expand_template t = Ok (product t).
Proof. exact odometer_is_product. Qed.
Print Assumptions C18_odometer_is_product.

(* No panic (the counter never indexes outside a block) and no hang. *)
Theorem C18_expand_total : forall e, wf_expr e -> clean (expand e).
Proof. exact expand_total. Qed.
Print Assumptions C18_expand_total.

(* Whatever the documentation determines (spec_expr) is what the model computes ... *)
Theorem C18_spec_is_model : forall e l, spec_expr e = Some l -> expand e = Ok l.
Proof. exact spec_is_model. Qed.
Print Assumptions C18_spec_is_model.

(* ---------- the byte-level front end (parseExpression) ---------- *)

(* (a) The canonical spelling of a well-formed expression — any number of comma
   separated groups, literal prefixes / suffixes, blocks, comma lists of strings
   and ranges — parses back to exactly that expression. *)
Theorem C18_parse_print : forall e, wf_print e -> parse_expr (print_expr e) = Ok e.
Proof. exact parse_print. Qed.
Print Assumptions C18_parse_print.

(* (b) For ANY byte string the parser neither panics nor hangs, ... *)
Theorem C18_parse_expr_total : forall raw, clean (parse_expr raw).
Proof. exact parse_expr_total. Qed.
Print Assumptions C18_parse_expr_total.

(* ... whatever it accepts has no empty block (so the odometer never indexes
   outside a block), ... *)
Theorem C18_parse_expr_wf : forall raw e, parse_expr raw = Ok e -> wf_expr e.
Proof. exact parse_expr_wf. Qed.
Print Assumptions C18_parse_expr_wf.

(* ... and therefore `a <bytes>` and `ja <bytes>` never panic or hang for ANY bytes. *)
Theorem C18_run_expr_total : forall ja raw, clean (run_expr ja raw).
Proof. exact run_expr_total. Qed.
Print Assumptions C18_run_expr_total.

(* The model's observation on the spelling of any well-formed expression
   satisfies the predicate the check evaluates: for `a` without restriction, ... *)
Theorem C18_model_meets_spec : forall e, wf_print e -> spec_ok (mk false e) = true.
Proof. exact model_meets_spec_a. Qed.
Print Assumptions C18_model_meets_spec.

(* ... for `ja` whenever the expression is not a pure number array (the full
   statement also needs itoa (atoi s) = s on digit strings; the number array
   mode is covered by the correspondence run, and drops empty elements:
   known finding 1). *)
Theorem C18_model_meets_spec_ja_partial : forall e,
  wf_print e -> is_number_expr (print_expr e) = false -> spec_ok (mk true e) = true.
Proof. exact model_meets_spec_ja_partial. Qed.
Print Assumptions C18_model_meets_spec_ja_partial.

Theorem C18_ja_drops_empty_refuted :
  spec_ok (mk true [[SBlock [EStr [49%N]; EStr []; EStr [50%N]]]]) = false.
Proof. exact ja_drops_empty_refuted. Qed.
Print Assumptions C18_ja_drops_empty_refuted.

(* Non-vacuity: "08".."11" parses, gives 08 09 10 11; p[1..2][a,b] is the product
   in odometer order; spec_ok rejects a missing end point, wrong padding and the
   first block varying fastest. *)
Example C18_nonvacuous :
  wf_print [[SLit [112%N]; SBlock [ERange [49%N] [50%N]]; SBlock [EStr [97%N]; EStr [98%N]]]] /\
  parse_expr [91%N; 49%N; 92%N; 44%N; 50%N; 44%N; 51%N; 93%N] = Ok [[SBlock [EStr [49%N; 44%N; 50%N]; EStr [51%N]]]] /\
  parse_expr [120%N; 91%N] = Err E_MISSING_CLOSE /\
  atoi [48%N; 56%N] = Some 8 /\ atoi [49%N; 49%N] = Some 11 /\
  int_range [48%N; 56%N] [49%N; 49%N] = Ok [[48%N; 56%N]; [48%N; 57%N]; [49%N; 48%N]; [49%N; 49%N]] /\
  expand [[SLit [112%N]; SBlock [ERange [49%N] [50%N]]; SBlock [EStr [97%N]; EStr [98%N]]]]
    = Ok [[112%N; 49%N; 97%N]; [112%N; 49%N; 98%N]; [112%N; 50%N; 97%N]; [112%N; 50%N; 98%N]] /\
  spec_ok {| c_ja := false; c_raw := print_expr [[SBlock [ERange [49%N] [51%N]]]];
             c_expr := Some [[SBlock [ERange [49%N] [51%N]]]];
             c_obs := {| o_class := 0%N; o_items := [[49%N]; [50%N]] |} |} = false /\
  spec_ok {| c_ja := false; c_raw := print_expr [[SBlock [ERange [48%N; 56%N] [48%N; 57%N]]]];
             c_expr := Some [[SBlock [ERange [48%N; 56%N] [48%N; 57%N]]]];
             c_obs := {| o_class := 0%N; o_items := [[56%N]; [57%N]] |} |} = false /\
  spec_ok {| c_ja := false; c_raw := print_expr [[SBlock [ERange [49%N] [50%N]]; SBlock [EStr [97%N]; EStr [98%N]]]];
             c_expr := Some [[SBlock [ERange [49%N] [50%N]]; SBlock [EStr [97%N]; EStr [98%N]]]];
             c_obs := {| o_class := 0%N; o_items := [[49%N; 97%N]; [50%N; 97%N]; [49%N; 98%N]; [50%N; 98%N]] |} |} = false.
Proof.
  split; [|vm_compute; repeat split; reflexivity].
  unfold wf_print, wf_group. split; [discriminate|]. repeat constructor; cbn; try discriminate; try reflexivity.
Qed.
