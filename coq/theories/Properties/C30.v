(* C30 — The cache never returns stale or foreign values.
   Only theorem statements here; proofs live in Proof/Cache.v.
   `st hr` is the cache state after the history hr (NEWEST operation first); every theorem
   holds for any database implementation obeying the keyed-table laws db_laws — that is the
   stated assumption about SQLite — and for any set of initialised namespaces. *)
From Murex Require Import Base.Bytes Model.Cache Check.C30 Proof.Cache.
Open Scope Z_scope.

(* the executable database used by the correspondence check obeys the laws *)
Theorem C30_list_db_is_keyed_table : db_laws list_db.
Proof. exact list_db_laws. Qed.
Print Assumptions C30_list_db_is_keyed_table.

(* Sound: a returned value is the value of the most recent write under the same namespace AND
   key (so never one written under another key or namespace), and that write's TTL has not
   expired. *)
Theorem C30_read_sound : forall D (ops : dbops D), db_laws ops -> forall all_ns hr k now v,
  c_read ops (state_rev ops all_ns hr) now k = Some v ->
  exists hr1 hr2 t ttl, hr = hr1 ++ (t, Write k v ttl) :: hr2 /\ no_write k hr1 /\ now < ttl.
Proof. intros D ops L. exact (read_sound ops L). Qed.
Print Assumptions C30_read_sound.

(* Complete: the most recent write is returned while its TTL has not expired, unless a Clear
   followed it or a Trim ran after its expiry. *)
Theorem C30_read_complete : forall D (ops : dbops D), db_laws ops -> forall all_ns hr1 hr2 k t v ttl now,
  no_write k hr1 -> Forall (harmless ttl) hr1 -> now < ttl -> v <> [] ->
  c_read ops (state_rev ops all_ns (hr1 ++ (t, Write k v ttl) :: hr2)) now k = Some v.
Proof. intros D ops L. exact (read_complete ops L). Qed.
Print Assumptions C30_read_complete.

(* After expiry of the most recent write nothing is returned (not even an older, still
   unexpired value the write replaced). *)
Theorem C30_expired_returns_nothing : forall D (ops : dbops D), db_laws ops -> forall all_ns hr1 hr2 k t v ttl now,
  no_write k hr1 -> ttl <= now ->
  c_read ops (state_rev ops all_ns (hr1 ++ (t, Write k v ttl) :: hr2)) now k = None.
Proof. intros D ops L. exact (expired_returns_nothing ops L). Qed.
Print Assumptions C30_expired_returns_nothing.

(* Nothing written under that namespace and key (whatever was written under other keys or
   namespaces): nothing is returned. *)
Theorem C30_nothing_written_returns_nothing : forall D (ops : dbops D), db_laws ops -> forall all_ns hr k now,
  no_write k hr -> c_read ops (state_rev ops all_ns hr) now k = None.
Proof. intros D ops L. exact (nothing_written_returns_nothing ops L). Qed.
Print Assumptions C30_nothing_written_returns_nothing.

(* The in-memory layer's Read is dead code: whatever it holds, a read returns what the
   database layer returns. *)
Theorem C30_internal_layer_unobservable : forall D (ops : dbops D) (s : @state D) now k,
  c_read ops s now k = db_read ops s now k.
Proof. exact @internal_layer_unobservable. Qed.
Print Assumptions C30_internal_layer_unobservable.

(* Headline: for every history, what the model returns satisfies the predicate the check
   evaluates on the implementation's answers. *)
Theorem C30_model_meets_spec : forall ns h, spec_ok (mk_case ns h (results list_db ns h)) = true.
Proof. exact model_meets_spec. Qed.
Print Assumptions C30_model_meets_spec.

(* Non-vacuity: a history in which a read must return a value, one where it must not; and
   spec_ok rejects the behaviour found on the unfixed tree (key 1e2 answering with the value
   written under key 100). *)
Definition ns1 : bytes := [109]%N.
Definition k100 : key2 := (ns1, [49;48;48]%N).
Definition k1e2 : key2 := (ns1, [49;101;50]%N).
Definition val : bytes := [34;118;34]%N.
Example C30_nonvacuous :
  results list_db [ns1] [(1000, Write k100 val 1600); (1001, Read k100); (1002, Read k1e2);
                         (1700, Read k100)]
    = [RNone; RRead (Some val); RRead None; RRead None] /\
  spec_ok {| c_ns := [ns1];
             c_steps := [ {| st_now := 1000; st_op := Write k100 val 1600; st_obs := RNone |};
                          {| st_now := 1002; st_op := Read k1e2; st_obs := RRead (Some val) |} ] |} = false.
Proof. vm_compute. split; reflexivity. Qed.
