(* C03 — Sequential programs give the same result under any schedule.
   Only statements here; proofs are in Proof/Confluence.v, Proof/Pipeline.v, Proof/PipelineLib.v.
   The generic theorems hold for ANY deterministic transducers (state type St, step function),
   any number of stages, any schedules (lists of stage ids of any length). *)
From Coq Require Import List ZArith NArith.
Import ListNotations.
From Murex Require Import Base.Outcome Base.Bytes Model.Pipeline Check.C03
  Proof.Confluence Proof.Pipeline Proof.PipelineLib.

(* Kahn determinacy of one pipeline: if at most one stage can ever write stderr
   (quiet / pairwise_quiet; stdout has one writer by construction), any two complete
   schedules end in the same configuration: same stdout bytes, stderr bytes, exit numbers. *)
Theorem C03_pipeline_confluent :
  forall (St : Type) (step : St -> action St) (quiet : St -> bool),
  (forall s, quiet s = true ->
     match step s with
     | ARead k => forall o, quiet (k o) = true
     | AOut _ s' => quiet s' = true
     | AErr _ _ => False
     | AExit _ => True
     end) ->
  forall (c : config St) (s1 s2 : list nat),
  Inv St quiet c ->
  finished (run St step s1 c) = true -> finished (run St step s2 c) = true ->
  run St step s1 c = run St step s2 c.
Proof. exact pipeline_confluent. Qed.
Print Assumptions C03_pipeline_confluent.

(* If the canonical scheduler finishes the pipeline, no schedule whatsoever can hang or
   end elsewhere: after any schedule prefix s the run completes within a bounded number of
   further steps in the same final configuration t. *)
Theorem C03_pipeline_no_hang :
  forall (St : Type) (step : St -> action St) (quiet : St -> bool),
  (forall s, quiet s = true ->
     match step s with
     | ARead k => forall o, quiet (k o) = true
     | AOut _ s' => quiet s' = true
     | AErr _ _ => False
     | AExit _ => True
     end) ->
  forall fuel (c t : config St) (s : list nat),
  Inv St quiet c -> exec St step fuel c = Ok t ->
  exists n k, steps _ (fire St step) n c t /\ (k <= n)%nat /\
              steps _ (fire St step) k (run St step s c) t.
Proof. exact pipeline_no_hang. Qed.
Print Assumptions C03_pipeline_no_hang.

(* Deadlock freedom: an unfinished linear pipeline always has a stage that can move. *)
Theorem C03_pipeline_progress :
  forall (St : Type) (step : St -> action St) (c : config St),
  wf St c -> finished c = false -> exists j c', fire St step j c = Some c'.
Proof. exact progress. Qed.
Print Assumptions C03_pipeline_progress.

(* A program (pipelines joined by ; && ||, a new pipeline started only when the previous
   one has finished) gives, under ANY complete schedule, the concatenation in program order
   of what its pipelines produce when run alone from empty sinks (predict). *)
Theorem C03_program_sequential :
  forall (St : Type) (step : St -> action St) (quiet : St -> bool),
  (forall s, quiet s = true ->
     match step s with
     | ARead k => forall o, quiet (k o) = true
     | AOut _ s' => quiet s' = true
     | AErr _ _ => False
     | AExit _ => True
     end) ->
  forall fuel (prog : list (item St)) (r : result) (s : list nat),
  Forall (item_ok St quiet) prog ->
  predict St step fuel false 0%Z prog = Ok r ->
  gfinished (grun St step s (ginit St prog)) = true ->
  gresult (grun St step s (ginit St prog)) = r.
Proof. exact program_sequential. Qed.
Print Assumptions C03_program_sequential.

(* Headline, on the builtin library and in the terms the check evaluates: for every program
   of the domain (lguard) that the model predicts, and every non-empty family of complete
   schedules, the case built from the model's runs satisfies agree and spec_ok. *)
Theorem C03_model_meets_spec :
  forall (p : lprog) (r : result) (scheds : list (list nat)),
  lguard p = true -> lpredict c03_fuel p = Ok r -> scheds <> [] ->
  Forall (fun s => gfinished (lrun s p) = true) scheds ->
  let c := mkcase p true (map (fun s => obs_of (gresult (lrun s p))) scheds) in
  agree c = true /\ spec_ok c = true.
Proof. exact model_meets_spec. Qed.
Print Assumptions C03_model_meets_spec.

(* ... and no schedule of such a program hangs. *)
Theorem C03_program_no_hang :
  forall (p : lprog) (r : result) (s : list nat),
  lguard p = true -> lpredict c03_fuel p = Ok r ->
  exists k t, steps _ (gfire lstate lstep) k (lrun s p) t /\ gfinished t = true /\ gresult t = r.
Proof. exact lprog_no_hang. Qed.
Print Assumptions C03_program_no_hang.

(* The guard is tight: `err a | err b` has two complete schedules with different stderr.
   This is pipeline semantics (two concurrent writers of one stream), not a defect; it
   delimits "sequential program". *)
Theorem C03_two_stderr_writers_refuted :
  lguard two_err = false /\
  gfinished (lrun [0; 0; 1; 1]%nat two_err) = true /\
  gfinished (lrun [1; 0; 0; 1]%nat two_err) = true /\
  gresult (lrun [0; 0; 1; 1]%nat two_err) <> gresult (lrun [1; 0; 0; 1]%nat two_err) /\
  spec_ok (mkcase two_err true
             [obs_of (gresult (lrun [0; 0; 1; 1]%nat two_err));
              obs_of (gresult (lrun [1; 0; 0; 1]%nat two_err))]) = false.
Proof. exact two_stderr_writers_refuted. Qed.
Print Assumptions C03_two_stderr_writers_refuted.

(* Non-vacuity: a three-stage pipeline followed by && and || pipelines is in the domain, is
   predicted, has complete schedules in two different orders, and spec_ok rejects a run that
   differs in one byte as well as a hang. *)
Open Scope N_scope.
Definition ex_prog : lprog :=
  [(Seq, [SOut [97; 10; 98; 10]; SAll FRev; SLines (LWrap [60] [62])]);
   (AndThen, [SErr [120; 10]]);
   (OrElse, [SOut [99; 10]; SAll FId])].
Definition ex_s1 : list nat := repeat 0%nat 3%nat ++ repeat 1%nat 8%nat ++ repeat 2%nat 20%nat ++ repeat 0%nat 5%nat ++ repeat 1%nat 9%nat.
Definition ex_s2 : list nat := flat_map (fun _ => [2; 1; 0]%nat) (repeat tt 40%nat).
Example C03_nonvacuous :
  lguard ex_prog = true /\
  lpredict c03_fuel ex_prog = Ok ([60; 98; 62; 10; 60; 97; 62; 10; 99; 10], [120; 10], 0%Z) /\
  gfinished (lrun ex_s1 ex_prog) = true /\ gfinished (lrun ex_s2 ex_prog) = true /\
  spec_ok (mkcase ex_prog true [mko [98; 10] [] 0 false; mko [98; 10] [] 0 false]) = true /\
  spec_ok (mkcase ex_prog true [mko [98; 10] [] 0 false; mko [98; 11] [] 0 false]) = false /\
  spec_ok (mkcase ex_prog true [mko [] [] 0 true]) = false.
Proof. vm_compute. repeat split; reflexivity. Qed.
