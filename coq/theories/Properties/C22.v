(* C22 — Commands resolve in precedence order; aliases expand once.
   Only theorem statements here; proofs live in Proof/Resolve.v. *)
From Murex Require Import Base.Outcome Base.Bytes Model.Resolve Check.C22 Proof.Resolve.

(* resolution_order + alias_once: on ANY tables and in any context (auto-cd off),
   what executeProcess runs is the first match in the documented order, an alias
   being expanded exactly once and its target resolved with aliases ignored. *)
Theorem C22_resolution_order : forall t c n args,
  autocd c = false -> resolve_cmd t c n args = spec_resolve t c n args.
Proof. exact resolve_is_spec. Qed.
Print Assumptions C22_resolution_order.

(* Termination on ANY tables (self- and mutually-referential aliases, auto-cd
   on or off): three passes of the switch always suffice ... *)
Theorem C22_alias_once_terminates : forall t c n args, resolve_cmd t c n args <> OutOfFuel.
Proof. exact fuel_3_suffices. Qed.
Print Assumptions C22_alias_once_terminates.

(* ... and more fuel never changes the answer, so the fuelled model is the unbounded goto loop. *)
Theorem C22_fuel_irrelevant : forall k t c n args,
  resolve (3 + k) t c false n args = resolve_cmd t c n args.
Proof. exact any_fuel_above_3. Qed.
Print Assumptions C22_fuel_irrelevant.

Theorem C22_private_first : forall t c n args,
  shell_scope c = false -> e_private (lookup t n) = true ->
  resolve_cmd t c n args = Ok (KPrivate, n, args).
Proof. exact private_first. Qed.
Print Assumptions C22_private_first.

Theorem C22_alias_target_resolved_without_alias : forall t c n args tn targs,
  autocd c = false -> parent_alias c = false ->
  negb (shell_scope c) && e_private (lookup t n) = false ->
  e_alias (lookup t n) = Some (tn, targs) ->
  resolve_cmd t c n args = first_match_noalias t c tn (targs ++ args).
Proof. exact alias_target_resolved_without_alias. Qed.
Print Assumptions C22_alias_target_resolved_without_alias.

Theorem C22_self_alias_terminates : forall t c n args targs,
  autocd c = false -> parent_alias c = false ->
  negb (shell_scope c) && e_private (lookup t n) = false ->
  e_alias (lookup t n) = Some (n, targs) ->
  resolve_cmd t c n args = first_match_noalias t c n (targs ++ args).
Proof. exact self_alias_terminates. Qed.
Print Assumptions C22_self_alias_terminates.

Theorem C22_no_alias_order : forall t c n args,
  autocd c = false -> e_alias (lookup t n) = None ->
  resolve_cmd t c n args = first_match_noalias t c n args.
Proof. exact no_alias_order. Qed.
Print Assumptions C22_no_alias_order.

(* Headline: what the check evaluates on the implementation holds of the model
   for all tables, contexts, names and parameters. *)
Theorem C22_model_meets_spec : forall t c n args,
  spec_ok {| c_tables := t; c_ctx := c; c_name := n; c_args := args;
             c_obs := obs_of (resolve_cmd t c n args) |} = true.
Proof. exact model_meets_spec. Qed.
Print Assumptions C22_model_meets_spec.

(* Non-vacuity: name 0 is an alias of name 1 (with a parameter), name 1 is an
   alias of name 0 AND a function AND an external: the mutual aliases do not
   loop, the function of name 1 runs with the alias parameter prepended; the
   predicate rejects "expanded twice" (function 0 / external) and a hang. *)
Example C22_nonvacuous :
  let e0 := {| e_private := false; e_alias := Some (1, [7]); e_function := true; e_builtin := true;
               e_external := true; e_isdir := false |}%N in
  let e1 := {| e_private := false; e_alias := Some (0, [8]); e_function := true; e_builtin := false;
               e_external := true; e_isdir := false |}%N in
  let t := [(0, e0); (1, e1)]%N in
  let c := {| shell_scope := false; parent_alias := false; autocd := false |} in
  resolve_cmd t c 0%N [5%N] = Ok (KFunction, 1%N, [7; 5]%N) /\
  spec_ok {| c_tables := t; c_ctx := c; c_name := 0%N; c_args := [5%N]; c_obs := ORan KFunction 1%N [7; 5]%N |} = true /\
  spec_ok {| c_tables := t; c_ctx := c; c_name := 0%N; c_args := [5%N]; c_obs := ORan KFunction 0%N [8; 7; 5]%N |} = false /\
  spec_ok {| c_tables := t; c_ctx := c; c_name := 0%N; c_args := [5%N]; c_obs := ORan KExternal 1%N [7; 5]%N |} = false /\
  spec_ok {| c_tables := t; c_ctx := c; c_name := 0%N; c_args := [5%N]; c_obs := OHang |} = false.
Proof. vm_compute. repeat split; reflexivity. Qed.
