(* C05 — try / trypipe stop on failure and honour `||`.
   Only theorem statements here; proofs live in Proof/RunModeStrict.v. *)
From Murex Require Import Base.Outcome Base.Bytes Model.RunMode Check.C05 Proof.RunMode Proof.RunModeStrict Proof.RunModeErr.

(* For EVERY program with non-negative exit numbers, runModeTry on the processes
   the parser produces computes the stdout and exit number of the reference
   interpreter (the last command of each pipeline is checked). *)
Theorem C05_try_refines_spec : forall prog,
  exits_nonneg prog = true -> run_program RmBlockTry prog = spec_strict false prog.
Proof. exact try_refines_spec. Qed.
Print Assumptions C05_try_refines_spec.

(* ... and runModeTryPipe that of the interpreter that checks every command of a
   pipeline in order. *)
Theorem C05_trypipe_refines_spec : forall prog,
  exits_nonneg prog = true -> run_program RmBlockTryPipe prog = spec_strict true prog.
Proof. exact trypipe_refines_spec. Qed.
Print Assumptions C05_trypipe_refines_spec.

(* try {} and `runmode try function` (and `... module`) select the same
   scheduler, likewise trypipe: same result for every program. *)
Theorem C05_try_eq_function_runmode : forall prog,
  run_program RmFunctionTry prog = run_program RmBlockTry prog /\
  run_program RmModuleTry prog = run_program RmBlockTry prog /\
  run_program RmFunctionTryPipe prog = run_program RmBlockTryPipe prog /\
  run_program RmModuleTryPipe prog = run_program RmBlockTryPipe prog.
Proof. intro prog. repeat split; apply same_scheduler_same_result; reflexivity. Qed.
Print Assumptions C05_try_eq_function_runmode.

(* Headline, in the form the check evaluates: for every try / trypipe run mode
   and every program the model's observation passes spec_ok. *)
Theorem C05_model_meets_spec : forall m prog,
  exits_nonneg prog = true ->
  match sched_of m with STry | STryPipe => True | _ => False end ->
  spec_ok {| k_mode := m; k_prog := prog; k_flags := flags_of (flatten prog);
             k_obs := run_program m prog |} = true.
Proof.
  intros m prog NN H. unfold spec_ok; cbn [k_mode k_prog k_obs].
  rewrite (strict_refines_spec m prog NN H). apply obs_eqb_refl.
Qed.
Print Assumptions C05_model_meets_spec.

(* try checks only the last command of a pipeline, trypipe every command:
   `a | b ; c` with a failing and b succeeding *)
Theorem C05_try_vs_trypipe : forall a b c,
  (0 < c_exit a)%Z -> (c_exit b = 0)%Z -> (0 <= c_exit c)%Z ->
  run_program RmBlockTry [(JSemi, (a, [b])); (JSemi, (c, []))] =
    {| o_out := stage_out (c_tok a) b ++ c_tok c; o_exit := c_exit c |} /\
  run_program RmBlockTryPipe [(JSemi, (a, [b])); (JSemi, (c, []))] =
    {| o_out := []; o_exit := c_exit a |}.
Proof. exact try_vs_trypipe_pipeline_head. Qed.
Print Assumptions C05_try_vs_trypipe.

(* ---- tryerr / trypipeerr ------------------------------------------- *)

(* What the code does, for EVERY program: runModeTry / runModeTryPipe with
   checkTryErr compute the reference interpreter in which "more stderr than
   stdout" is read on the CUMULATIVE byte counts of the shared streams. *)
Theorem C05_err_modes_refine_cumulative : forall m prog,
  exits_nonneg prog = true ->
  match sched_of m with STryErr | STryPipeErr => True | _ => False end ->
  run_program m prog = spec_cum_of m prog.
Proof. exact err_modes_refine_cum. Qed.
Print Assumptions C05_err_modes_refine_cumulative.

(* The full statement for the *err modes - the documented per-process rule ... *)
Definition C05_err_modes_follow_documented_rule : Prop :=
  forall m prog, exits_nonneg prog = true ->
    match sched_of m with STryErr | STryPipeErr => True | _ => False end ->
    run_program m prog = spec_of m prog.

(* ... is false on the pinned tree (known finding 1): `tryerr { out ooooooo; s0 t;
   out o }` goes on after s0, `tryerr { s0 tttt || out o; out p }` stops after out o. *)
Theorem C05_err_modes_documented_rule_refuted : ~ C05_err_modes_follow_documented_rule.
Proof.
  intro H. destruct doc_rule_refuted as [R _]. apply R. apply H; [reflexivity|exact I].
Qed.
Print Assumptions C05_err_modes_documented_rule_refuted.

(* Proved fragments of it: programs that write nothing to stderr ... *)
Theorem C05_err_modes_follow_documented_rule_partial : forall m prog,
  exits_nonneg prog = true -> no_stderr prog = true ->
  match sched_of m with STryErr | STryPipeErr => True | _ => False end ->
  run_program m prog = spec_of m prog.
Proof. exact err_modes_meet_doc_no_stderr. Qed.
Print Assumptions C05_err_modes_follow_documented_rule_partial.

(* ... and exactly the programs on which the two readings coincide. *)
Theorem C05_err_modes_follow_documented_rule_partial_exact : forall m prog,
  exits_nonneg prog = true ->
  match sched_of m with STryErr | STryPipeErr => True | _ => False end ->
  obs_eqb (spec_cum_of m prog) (spec_of m prog) = true ->
  run_program m prog = spec_of m prog.
Proof. exact err_modes_meet_doc_when_readings_agree. Qed.
Print Assumptions C05_err_modes_follow_documented_rule_partial_exact.

(* block / function / module forms of the *err modes select the same scheduler *)
Theorem C05_tryerr_eq_function_runmode : forall prog,
  run_program RmFunctionTryErr prog = run_program RmBlockTryErr prog /\
  run_program RmModuleTryErr prog = run_program RmBlockTryErr prog /\
  run_program RmFunctionTryPipeErr prog = run_program RmBlockTryPipeErr prog /\
  run_program RmModuleTryPipeErr prog = run_program RmBlockTryPipeErr prog.
Proof. intro prog. repeat split; apply same_scheduler_same_result; reflexivity. Qed.
Print Assumptions C05_tryerr_eq_function_runmode.

(* the classifier of the check marks exactly the cumulative behaviour *)
Example C05_err_nonvacuous :
  exits_nonneg witness_err_masked = true /\
  spec_ok {| k_mode := RmBlockTryErr; k_prog := witness_err_masked; k_flags := [];
             k_obs := run_program RmBlockTryErr witness_err_masked |} = false /\
  classify {| k_mode := RmBlockTryErr; k_prog := witness_err_masked; k_flags := [];
              k_obs := run_program RmBlockTryErr witness_err_masked |} = 1%N /\
  classify {| k_mode := RmBlockTryErr; k_prog := witness_err_masked; k_flags := [];
              k_obs := {| o_out := []; o_exit := 3 |} |} = 0%N.
Proof. repeat split; reflexivity. Qed.

(* Before the repairs the schedulers skipped exactly one `||` alternative after
   a success: `true || out a || out b` printed b under try and trypipe. *)
Theorem C05_old_try_or_chain_refuted :
  exists prog, exits_nonneg prog = true /\
    spec_ok {| k_mode := RmBlockTry; k_prog := prog; k_flags := flags_of (flatten prog);
               k_obs := run_program_old RmBlockTry prog |} = false /\
    spec_ok {| k_mode := RmBlockTryPipe; k_prog := prog; k_flags := flags_of (flatten prog);
               k_obs := run_program_old RmBlockTryPipe prog |} = false.
Proof. exists witness_or_chain. repeat split; reflexivity. Qed.
Print Assumptions C05_old_try_or_chain_refuted.

(* Non-vacuity: a concrete program meeting the hypotheses (success, two `||`
   alternatives one of which is a pipeline, then a failing command that ends the
   block); the model's observation; and spec_ok rejecting the pre-fix output. *)
Example C05_nonvacuous :
  let prog := [(JSemi, (w_true, [])); (JOr, (w_out 97, [w_g 103 1])); (JOr, (w_out 98, []));
               (JSemi, (w_g 99 7, [])); (JSemi, (w_out 100, []))] in
  exits_nonneg prog = true /\
  run_program RmFunctionTry prog = {| o_out := [99; 10]%N; o_exit := 7 |} /\
  spec_ok {| k_mode := RmBlockTry; k_prog := prog; k_flags := [];
             k_obs := {| o_out := [98; 10; 99; 10]%N; o_exit := 7 |} |} = false.
Proof. repeat split; reflexivity. Qed.
