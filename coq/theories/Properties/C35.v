(* C35 — escape, eschtml and escurl are undone by their `!` forms.
   Only theorem statements here; proofs live in Proof/Escape.v. *)
From Murex Require Import Base.Outcome Base.Bytes Model.Escape Check.C35 Proof.Escape.

(* !eschtml undoes eschtml for EVERY list of bytes (no UTF-8 assumption, no length
   bound), for any entity table that knows amp; lt; gt; — in particular the one
   the check evaluates with. *)
Theorem C35_html_roundtrip : forall ent s, ent_ok ent -> html_unescape ent (html_escape s) = Ok s.
Proof. exact html_roundtrip. Qed.
Print Assumptions C35_html_roundtrip.

Theorem C35_ent_small_ok : ent_ok ent_small.
Proof. exact ent_small_ok. Qed.
Print Assumptions C35_ent_small_ok.

(* ... and so does the full table of html/entity.go (2229 names, regenerated from the toolchain's
   source on every run), which is what the check evaluates the decoder model with. *)
Theorem C35_ent_full_ok : ent_ok ent_full.
Proof. exact ent_full_ok. Qed.
Print Assumptions C35_ent_full_ok.

Theorem C35_longest_entity_constant_now : longest_ok = true.
Proof. reflexivity. Qed.
Print Assumptions C35_longest_entity_constant_now.

(* !escurl undoes escurl for every byte string. *)
Theorem C35_url_roundtrip : forall s, wf_bytes s = true -> url_unescape (url_escape s) = Ok s.
Proof. exact url_roundtrip. Qed.
Print Assumptions C35_url_roundtrip.

(* html.UnescapeString is total and the model's fuel always suffices, on every input. *)
Theorem C35_html_unescape_total : forall ent s, is_ok (html_unescape ent s) = true.
Proof. exact html_unescape_total. Qed.
Print Assumptions C35_html_unescape_total.

(* !escape undoes escape, from strconv's contract as a hypothesis. *)
Theorem C35_escape_roundtrip : forall quote unquote ent,
  (forall s, unquote (quote s) = Some s) ->
  forall s, pipeline quote unquote ent KEscape s = Ok s.
Proof. exact pipeline_escape. Qed.
Print Assumptions C35_escape_roundtrip.

(* The builtins add or remove no byte around the transform. *)
Theorem C35_method_is_bytewise : forall quote unquote ent isnot s,
  cmd quote unquote ent KHtml isnot s = (if isnot then html_unescape ent s else Ok (html_escape s)) /\
  cmd quote unquote ent KUrl isnot s = (if isnot then url_unescape s else Ok (url_escape s)) /\
  cmd quote unquote ent KEscape false s = Ok (quote s) /\
  (forall u, unquote s = Some u -> cmd quote unquote ent KEscape true s = Ok u).
Proof. exact method_is_bytewise. Qed.
Print Assumptions C35_method_is_bytewise.

(* Headline: for every kind and every byte string the case predicted by the model
   satisfies the predicate the check evaluates on the implementation's observations. *)
Theorem C35_model_meets_spec : forall quote unquote,
  (forall s, unquote (quote s) = Some s) ->
  forall k s, wf_bytes s = true -> spec_ok (model_case quote unquote k s) = true.
Proof. exact model_meets_spec. Qed.
Print Assumptions C35_model_meets_spec.

(* ... and for eschtml / escurl without any hypothesis about strconv. *)
Theorem C35_model_meets_spec_html_url : forall quote unquote k s,
  k <> KEscape -> wf_bytes s = true -> spec_ok (model_case quote unquote k s) = true.
Proof. exact model_meets_spec_html_url. Qed.
Print Assumptions C35_model_meets_spec_html_url.

(* Non-vacuity: a byte string with invalid UTF-8 and every special byte is well formed,
   its model case is accepted, the strconv hypothesis is satisfiable (identity functions),
   and spec_ok rejects a wrong observation (a decoder that leaves `+`-for-space, or drops a byte). *)
Example C35_nonvacuous :
  let s := [38; 255; 39; 37; 43; 32; 60; 195; 34; 62; 0]%N in
  wf_bytes s = true /\
  (forall t : bytes, (fun x => Some x) ((fun x => x) t) = Some t) /\
  spec_ok (model_case (fun x => x) (fun x => Some x) KUrl s) = true /\
  spec_ok {| c_kind := KUrl; c_mode := Round; c_in := [97; 32; 98]%N; c_enc := Ok [97; 43; 98]%N;
             c_dec := Ok [97; 43; 98]%N; c_pipe := Ok [97; 43; 98]%N; c_libq := []; c_libuq := None |} = false /\
  spec_ok {| c_kind := KHtml; c_mode := Round; c_in := [38; 10]%N; c_enc := Ok [38; 97; 109; 112; 59; 10]%N;
             c_dec := Ok [38; 10]%N; c_pipe := Ok [38]%N; c_libq := []; c_libuq := None |} = false.
Proof. repeat split. Qed.
