(* C26 — Named pipes can be used in any order without crashing the shell.
   Only theorem statements here; proofs live in Proof/NamedPipes.v.
   `run st0 ops` is the registry after ANY interleaving `ops` of API calls
   (Create, Expose, Close, Delete, Get, Dump) and of `Fire name` steps (the body
   of a delayed closePipe goroutine, which may run at any later point). Nothing
   bounds the length of ops, the number of names or of pending closes. *)
From Coq Require Import List NArith.
From Murex Require Import Base.Outcome Model.NamedPipes Check.C26 Proof.NamedPipes.

(* names are unique among live pipes *)
Theorem C26_names_unique : forall ops, NoDup (map fst (reg (run st0 ops))).
Proof. exact names_unique. Qed.
Print Assumptions C26_names_unique.

(* an operation on a missing pipe returns an error (and changes nothing) *)
Theorem C26_missing_pipe_errors : forall s n,
  has n (reg s) = false ->
  step s (Close n) = (s, RErr) /\ step s (Delete n) = (s, RErr) /\ step s (Get n) = (s, RErr).
Proof. exact missing_pipe_errors. Qed.
Print Assumptions C26_missing_pipe_errors.

(* a closed pipe disappears after its grace period: a successful Close leaves a
   pending Fire, which stays pending whatever else happens, and once it has run
   the name is gone *)
Theorem C26_close_leaves_pending : forall s n,
  snd (step s (Close n)) = ROk -> In n (pend (fst (step s (Close n)))).
Proof. exact close_leaves_pending. Qed.
Print Assumptions C26_close_leaves_pending.

Theorem C26_pending_persists : forall s o n,
  In n (pend s) -> o <> Fire n -> In n (pend (fst (step s o))).
Proof. exact pending_persists. Qed.
Print Assumptions C26_pending_persists.

Theorem C26_closed_pipe_disappears : forall s n,
  In n (pend s) -> has n (reg (fst (step s (Fire n)))) = false.
Proof. exact closed_pipe_disappears. Qed.
Print Assumptions C26_closed_pipe_disappears.

(* the null pipe is always there, unchanged, and never has a close pending *)
Theorem C26_null_pipe_protected : forall ops,
  In (0, 0)%N (reg (run st0 ops)) /\
  (forall t, In (0%N, t) (reg (run st0 ops)) -> t = 0%N) /\
  ~ In 0%N (pend (run st0 ops)).
Proof. exact null_pipe_protected. Qed.
Print Assumptions C26_null_pipe_protected.

(* never crashes: no step panics, from any state, so no interleaving does *)
Theorem C26_registry_never_panics : forall ops s, ~ In RPanic (results s ops).
Proof. exact registry_never_panics. Qed.
Print Assumptions C26_registry_never_panics.

(* ... which was false before the fix: closePipe as it was (step_old) panics on
   the two design-phase witnesses (Close twice; Close then Delete) *)
Theorem C26_old_closePipe_refuted :
  In RPanic (results_old st0 [Create 1; Close 1; Close 1; Fire 1; Fire 1]%N) /\
  In RPanic (results_old st0 [Create 1; Close 1; Delete 1; Fire 1]%N).
Proof. split; vm_compute; tauto. Qed.
Print Assumptions C26_old_closePipe_refuted.

(* Headline: for every batch of registries and every list of phases of API
   calls, the model's observations satisfy the predicate the check evaluates on
   the implementation's observations. *)
Theorem C26_model_meets_spec : forall batch storms,
  Forall (Forall (Forall api)) batch ->
  spec_ok {| c_runs := map (fun phases => {| r_phases := phases;
                                             r_obs := Survived (run_phases st0 phases) |}) batch;
             c_storms := map (fun kwr => {| s_pipes := fst (fst kwr); s_workers := snd (fst kwr);
                                            s_races := snd kwr;
                                            s_obs := StormSurvived false 0 (reg st0) |}) storms |} = true.
Proof. exact model_meets_spec_batch. Qed.
Print Assumptions C26_model_meets_spec.

(* the rounds the storm's workers run: on a free name (not null), create / get /
   dump / delete, and create / get / close / fire, all succeed and give the
   registry back unchanged — so, the steps being atomic (C26_registry_never_panics
   etc. hold for every interleaving), a storm ends with only the null pipe left *)
Theorem C26_storm_round_restores : forall s n,
  has n (reg s) = false -> n <> 0%N ->
  reg (run s [Create n; Get n; Dump; Delete n]) = reg s /\
  reg (run s [Create n; Get n; Close n; Fire n]) = reg s /\
  results s [Create n; Get n; Dump] = [ROk; ROk; RNames (insert n 1 (reg s))].
Proof. exact storm_round_restores. Qed.
Print Assumptions C26_storm_round_restores.

(* names stay unique under contention: of any number of racing Create n on a
   free name exactly one succeeds (the first to take its atomic step), the others
   are refused, and n is registered once *)
Theorem C26_create_race_one_winner : forall s n k,
  has n (reg s) = false ->
  results s (repeat (Create n) (S k)) = ROk :: repeat RErr k /\
  reg (run s (repeat (Create n) (S k))) = insert n 1 (reg s).
Proof. exact create_race_one_winner. Qed.
Print Assumptions C26_create_race_one_winner.

(* Non-vacuity: a registry with a double close and a close-then-delete is
   accepted when observed as the (fixed) model predicts; spec_ok rejects a crash,
   a closed pipe that is still there after the grace period, and a Close on a
   missing pipe that reports success. *)
Example C26_nonvacuous :
  let ph := [[Create 1; Close 1; Close 1; Delete 1; Get 1]; [Create 1; Dump]]%N in
  Forall (Forall api) ph /\
  spec_ok {| c_runs := [{| r_phases := ph; r_obs := Survived (run_phases st0 ph) |}]; c_storms := [] |} = true /\
  spec_ok {| c_runs := [{| r_phases := ph; r_obs := Crashed |}]; c_storms := [] |} = false /\
  spec_ok {| c_runs := [{| r_phases := [[Create 1; Close 1]]%N;
                           r_obs := Survived [{| po_res := [ROk; ROk];
                                                 po_dump := [(0,0); (1,1)]%N |}] |}]; c_storms := [] |} = false /\
  spec_ok {| c_runs := [{| r_phases := [[Close 1]]%N;
                           r_obs := Survived [{| po_res := [ROk]; po_dump := [(0,0)]%N |}] |}]; c_storms := [] |} = false /\
  spec_ok {| c_runs := []; c_storms := [{| s_pipes := 300; s_workers := 6; s_races := 1000; s_obs := StormDied |}]%N |} = false /\
  spec_ok {| c_runs := []; c_storms := [{| s_pipes := 300; s_workers := 6; s_races := 1000;
                                           s_obs := StormSurvived false 2 [(0,0)]%N |}]%N |} = false /\
  spec_ok {| c_runs := []; c_storms := [{| s_pipes := 300; s_workers := 6; s_races := 1000;
                                           s_obs := StormSurvived false 0 [(0,0)]%N |}]%N |} = true.
Proof.
  split; [|vm_compute; repeat split].
  repeat constructor.
Qed.
