(* C08 -- Variable arguments are passed verbatim, with no re-splitting.
   Statements only; proofs are in Proof/StmtShape.v. *)
From Murex Require Import Base.Outcome Base.Bytes Model.StmtParse Check.C08 Proof.StmtShape.
Open Scope N_scope.

(* NON-INTERFERENCE, every source text and every environment: parse_shape never
   looks at a value; whenever it yields a shape and murex parses the statement,
   command, parameter list and stop position are the shape with the values
   filled in -- the values cannot change the structure. *)
Theorem C08_params_are_shape_instantiated : forall cf e src sh r,
  parse_shape cf src = Ok sh -> parse_stmt_raw cf e src = Ok r -> instantiate e sh = Ok r.
Proof. exact params_are_shape_instantiated. Qed.
Print Assumptions C08_params_are_shape_instantiated.

(* never a new command, never re-split: two environments give the same stop
   position and (without @arrays) the same number of parameters *)
Theorem C08_no_new_command : forall cf e1 e2 src sh r1 r2,
  parse_shape cf src = Ok sh ->
  parse_stmt_raw cf e1 src = Ok r1 -> parse_stmt_raw cf e2 src = Ok r2 ->
  r_rest r1 = r_rest sh /\ r_rest r2 = r_rest sh /\
  ((forall n, ~ In (PArr n) (r_params sh)) -> length (r_params r1) = length (r_params r2)).
Proof. exact no_new_command. Qed.
Print Assumptions C08_no_new_command.

(* `f $x` and `f $(x)`: exactly one parameter, crlf_trim of the value, for EVERY byte string *)
Theorem C08_scalar_is_one_param : forall cf v more arrs,
  parse_stmt_raw cf (env_x v more arrs) src_scalar
  = Ok {| r_cmd := [102]; r_params := [crlf_trim v]; r_rest := 0 |} /\
  parse_stmt_raw cf (env_x v more arrs) src_scalar_paren
  = Ok {| r_cmd := [102]; r_params := [crlf_trim v]; r_rest := 0 |}.
Proof. exact scalar_is_one_param. Qed.
Print Assumptions C08_scalar_is_one_param.

(* crlf_trim removes at most one LF then at most one CR and nothing else *)
Theorem C08_crlf_trim_spec : forall v,
  exists t, v = crlf_trim v ++ t /\ (t = [] \/ t = [10] \/ t = [13] \/ t = [13; 10]).
Proof. exact crlf_trim_spec. Qed.
Print Assumptions C08_crlf_trim_spec.

(* `f @a`: one parameter per element, verbatim, for every array without an empty element *)
Theorem C08_array_one_param_per_element : forall cf els sc more,
  els <> [] -> Forall (fun x => x <> []) els ->
  parse_stmt_raw cf (env_a els sc more) src_array
  = Ok {| r_cmd := [102]; r_params := els; r_rest := 0 |}.
Proof. exact array_one_param_per_element. Qed.
Print Assumptions C08_array_one_param_per_element.

(* headline: the model's observation meets the predicate evaluated on the implementation *)
Theorem C08_scalar_meets_spec : forall v more arrs home nc,
  spec_ok (model_case src_scalar (env_x v more arrs) home nc (Some [POne [SVar [120]]])) = true /\
  spec_ok (model_case src_scalar_paren (env_x v more arrs) home nc (Some [POne [SVar [120]]])) = true.
Proof. exact scalar_meets_spec. Qed.
Print Assumptions C08_scalar_meets_spec.

Theorem C08_array_meets_spec : forall els sc more home nc,
  els <> [] -> Forall (fun x => x <> []) els ->
  spec_ok (model_case src_array (env_a els sc more) home nc (Some [PArr [97]])) = true.
Proof. exact array_meets_spec. Qed.
Print Assumptions C08_array_meets_spec.

(* F08 (known finding 1): an empty element is dropped, the guard is needed *)
Theorem C08_array_one_param_per_element_refuted :
  exists els, els <> [] /\
    spec_ok (model_case src_array (env_a els [] []) [] false (Some [PArr [97]])) = false /\
    classify (model_case src_array (env_a els [] []) [] false (Some [PArr [97]])) = 1.
Proof. exact array_spec_refuted. Qed.
Print Assumptions C08_array_one_param_per_element_refuted.

(* non-vacuity: a source with variables in bare, $(..) and double-quoted position and
   an array has a shape; spec_ok rejects a re-split value *)
Example C08_nonvacuous :
  (exists sh, parse_shape {| c_home := []; c_ansi := []; c_notok := [] |}
      [102;32;112;36;40;120;41;113;32;34;36;120;32;34;32;64;97] = Ok sh /\
      r_params sh = [POne [SLit 112; SVar [120]; SLit 113]; POne [SVar [120]; SLit 32]; PArr [97]]) /\
  spec_ok {| k_src := src_scalar; k_env := env_x [97;32;98] [] []; k_home := []; k_nocolour := false;
             k_tmpl := Some [POne [SVar [120]]];
             k_obs := {| o_kind := 0; o_nfuncs := 1; o_rawlen := 4; o_cmd := [102];
                         o_params := [[97]; [98]]; o_e2e := true |} |} = false.
Proof. split; [eexists; split; reflexivity | reflexivity]. Qed.
