(* C21 — External commands report their real exit status.
   Only theorem statements here; proofs live in Proof/ExecStatus.v. *)
From Murex Require Import Base.Outcome Model.ExecStatus Check.C21 Proof.ExecStatus.

(* The exit number of an external command is its exit status (every status, not
   only 0..255), and a command that exits 0 gets exit number 0. *)
Theorem C21_exited_reports_status : forall n, exit_num (Exited n) = n.
Proof. exact exited_reports_status. Qed.
Print Assumptions C21_exited_reports_status.

(* A command that ends by a signal gets a non-zero exit number (every signal). *)
Theorem C21_signaled_nonzero : forall s, (1 <= s)%Z -> exit_num (Signaled s) <> 0%Z.
Proof. exact signaled_nonzero. Qed.
Print Assumptions C21_signaled_nonzero.

(* ... so `&&`, `||`, `try` and `trypipe` treat it as failed. *)
Theorem C21_signaled_fails_chain : forall s, (1 <= s)%Z ->
  o_next (run AndThen (Signaled s)) = false /\
  o_next (run OrElse (Signaled s)) = true /\
  o_next (run InTry (Signaled s)) = false /\
  o_next (run InTryPipe (Signaled s)) = false.
Proof. exact signaled_fails_chain. Qed.
Print Assumptions C21_signaled_fails_chain.

(* Full statement: for every context, every exit status and every signal the
   model's observation satisfies the predicate that the check evaluates on the
   implementation's observations. *)
Theorem C21_model_meets_spec : forall c w,
  match w with Exited _ => True | Signaled s => (1 <= s)%Z | NoChild => True end ->
  spec_ok {| c_ctx := c; c_wait := w; c_obs := run c w |} = true.
Proof. exact model_meets_spec. Qed.
Print Assumptions C21_model_meets_spec.

(* Non-vacuity: the hypothesis is met by a concrete signal, and spec_ok is not
   trivially true (it rejects the pre-fix behaviour: SIGKILL reported as 0). *)
Example C21_nonvacuous :
  (1 <= 9)%Z /\
  spec_ok {| c_ctx := AndThen; c_wait := Signaled 9; c_obs := {| o_exit := 0; o_next := true |} |} = false.
Proof. split; [discriminate | reflexivity]. Qed.
