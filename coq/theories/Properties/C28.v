(* C28 — Function IDs are unique and released when programs finish.
   Only theorem statements here; proofs live in Proof/Fid.v. *)
From Coq Require Import Permutation.
From Murex Require Import Base.Outcome Base.Bytes Model.RunMode Model.Fid Model.FidTree Check.C28 Proof.Fid Proof.FidTree.

(* Under EVERY schedule (any interleaving of Register / Deregister operations of
   any number of goroutines) the ids that are issued are pairwise distinct and
   larger than every id issued before: an id is never given to a second process,
   not even after its first owner was deregistered.  (uint32 wrap-around after
   2^32 registrations is outside the model.) *)
Theorem C28_fid_unique : forall t ops,
  NoDup (issued t ops) /\ Forall (fun i => (latest t < i)%N) (issued t ops).
Proof. exact fid_unique. Qed.
Print Assumptions C28_fid_unique.

(* in the form the "register race" cases are compared with: among the ids any
   schedule hands out, the number of distinct ones is the number of registrations *)
Theorem C28_register_race_distinct : forall t ops,
  length (nodup N.eq_dec (issued t ops)) = length (issued t ops).
Proof. intros t ops. rewrite nodup_fixed_point; [reflexivity|]. apply fid_unique. Qed.
Print Assumptions C28_register_race_distinct.

(* all_released_normal / _try / _trypipe: for every run mode and every list of
   processes (any flags, any exit numbers) each process that compile()
   registered gets exactly one disposal - executed, destroyed as terminated, or
   deregistered explicitly by the skip / abort loops - none is forgotten. *)
Theorem C28_disposals_cover : forall m ps, length (disposals m ps) = length ps.
Proof. exact disposals_cover. Qed.
Print Assumptions C28_disposals_cover.

(* Any schedule in which every Register is for a new process and every
   registered process has been deregistered by the end leaves in the table
   exactly the ids it held at the start, whatever the interleaving. *)
Theorem C28_balanced_schedule_clean : forall t ops,
  (forall x, In x (live t) -> (x <= latest t)%N) ->
  fresh_regs [] ops = true ->
  open_after [] ops = [] ->
  forall x, In x (live (fst (run_ops (t, []) ops))) <-> In x (live t).
Proof. exact balanced_schedule_clean. Qed.
Print Assumptions C28_balanced_schedule_clean.

(* ... and a block run under any run mode is such a schedule. *)
Theorem C28_block_released : forall h0 m ps t,
  (forall x, In x (live t) -> (x <= latest t)%N) ->
  forall x, In x (live (fst (run_ops (t, []) (block_ops h0 m ps)))) <-> In x (live t).
Proof. exact block_released. Qed.
Print Assumptions C28_block_released.

(* ---- Fork / Execute pairing, any nesting --------------------------- *)

(* For EVERY tree of forks - each node a Fork (registered or not) whose Execute
   compiles a process list and runs it under any run mode, each process that ran
   making any number of further forks (if / foreach / switch / sub-shells /
   function calls / try) - the operations of the tree register the handles
   h .. h'-1, each exactly once, and deregister exactly those, each exactly once. *)
Theorem C28_tree_registered_released_once : forall t h,
  let ops := fst (tree_ops h t) in let h' := snd (tree_ops h t) in
  regs_of ops = seq h (h' - h) /\ Permutation (deregs_of ops) (regs_of ops).
Proof. exact tree_registered_once. Qed.
Print Assumptions C28_tree_registered_released_once.

(* ... nothing is left open (whatever was open before stays as it was) ... *)
Theorem C28_tree_balanced : forall t h,
  balanced (fst (tree_ops h t)) h (snd (tree_ops h t)).
Proof. exact tree_ops_balanced. Qed.
Print Assumptions C28_tree_balanced.

(* ... so after the whole tree has run the FID table holds exactly the ids it
   held before. *)
Theorem C28_tree_released : forall t tab,
  (forall x, In x (live tab) -> (x <= latest tab)%N) ->
  forall x, In x (live (fst (run_ops (tab, []) (fst (tree_ops 0 t))))) <-> In x (live tab).
Proof. exact tree_released. Qed.
Print Assumptions C28_tree_released.

(* the number of ids a tree consumes is tree_count (compared with the FID
   counter of the implementation on every generated nested program) *)
Theorem C28_tree_count : forall t h,
  snd (tree_ops h t) - h = tree_count t /\ h <= snd (tree_ops h t).
Proof. exact tree_ops_count. Qed.
Print Assumptions C28_tree_count.

(* a function call whose parameters fail to cast releases its fork ... *)
Theorem C28_failed_cast_call_released : forall t h,
  (forall x, In x (live t) -> (x <= latest t)%N) ->
  live (fst (run_ops (t, []) (call_ops true h false []))) = live t.
Proof. exact failed_cast_call_released. Qed.
Print Assumptions C28_failed_cast_call_released.

(* ... which the code did not do before the repair (the id stayed for ever). *)
Theorem C28_old_failed_cast_call_refuted : forall t h,
  In (N.succ (latest t)) (live (fst (run_ops (t, []) (call_ops false h false [])))).
Proof. exact old_failed_cast_call_leaks. Qed.
Print Assumptions C28_old_failed_cast_call_refuted.

(* Non-vacuity: a concrete interleaving of two blocks satisfies the hypotheses
   and comes back to the initial table; spec_ok rejects a leak and a shared id. *)
Example C28_nonvacuous :
  let t := {| latest := 5; live := [2; 5]%N |} in
  let ops := [OReg 0; OReg 1; OReg 7; ODereg 1; OReg 8; ODereg 7; ODereg 0; ODereg 8] in
  fresh_regs [] ops = true /\ open_after [] ops = [] /\
  issued t ops = [6; 7; 8; 9]%N /\ live (fst (run_ops (t, []) ops)) = [2; 5]%N /\
  spec_ok {| k_progs := []; k_trees := []; k_exact := false; k_issued := 4; k_leaked := 1; k_dup := false; k_regs := 4; k_distinct := 4; k_fresh := true |} = false /\
  spec_ok {| k_progs := []; k_trees := []; k_exact := false; k_issued := 4; k_leaked := 0; k_dup := true; k_regs := 4; k_distinct := 4; k_fresh := true |} = false /\
  (* two racing registrations that got the same id *)
  spec_ok {| k_progs := []; k_trees := []; k_exact := false; k_issued := 3; k_leaked := 0; k_dup := false; k_regs := 4; k_distinct := 3; k_fresh := true |} = false.
Proof. repeat split; reflexivity. Qed.

(* a concrete nested tree: a function fork (registered) whose second process forks
   twice under try; the first child aborts after its first process *)
Example C28_tree_nonvacuous :
  let p e := {| p_method := false; p_and := false; p_or := false;
                p_cmd := {| c_exit := e; c_tok := []; c_fwd := false; c_err := [] |} |} in
  let t := FNode true RmNormal [p 0%Z; p 0%Z]
             [FNode false RmBlockTry [p 1%Z; p 0%Z] [FNode true RmNormal [p 0%Z] [] []] [1%nat];
              FNode false RmNormal [p 0%Z] [] []] [1%nat; 1%nat] in
  tree_count t = 6%nat /\
  regs_of (fst (tree_ops 0 t)) = [0; 1; 2; 3; 4; 5]%nat /\
  open_after [] (fst (tree_ops 0 t)) = [].
Proof. repeat split; reflexivity. Qed.
