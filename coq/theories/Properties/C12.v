(* C12 — Structured variables are values, and nested assignment is precise.
   Only theorem statements here; proofs live in Proof/Alter.v. *)
From Murex Require Import Base.Outcome Base.Bytes Model.Alter Check.C12 Proof.Alter.

(* After `$v.p = x` succeeds, p reads back x converted to the type of the leaf
   that was there (want), for documents and paths of any size. *)
Theorem C12_alter_read_back : forall v p n v',
  alter v p n = Ok v' -> lookup v' p = want (lookup v p) n.
Proof. exact alter_read_back. Qed.
Print Assumptions C12_alter_read_back.

(* ... and that is what `$v.p` (ElementLookup, with its case-insensitive and
   negative-index fall-backs) reads, whenever the value is not null. *)
Theorem C12_alter_read_back_murex : forall v p n v' x,
  alter v p n = Ok v' -> want (lookup v p) n = Some x -> is_null x = false ->
  elookup v' p = Some x.
Proof. exact alter_read_back_murex. Qed.
Print Assumptions C12_alter_read_back_murex.

(* Every path that parts ways with p reads exactly as before. *)
Theorem C12_alter_frame : forall v p n v' q,
  alter v p n = Ok v' -> disjoint v p q = true -> lookup v' q = lookup v q.
Proof. exact alter_frame. Qed.
Print Assumptions C12_alter_frame.

(* The predicate the check evaluates on the implementation's result: read back
   + the two documents are identical outside the spine of p. *)
Theorem C12_alter_precise : forall v p n v',
  alter v p n = Ok v' -> precise v p n v' = true.
Proof. exact alter_precise. Qed.
Print Assumptions C12_alter_precise.

(* Headline for direct calls: for every document, path and new value the
   model's observation satisfies spec_ok. *)
Theorem C12_alter_meets_spec : forall v p n,
  conv_sane n = true -> spec_ok (CAlter v p n (alter_obs v p n)) = true.
Proof. exact alter_meets_spec. Qed.
Print Assumptions C12_alter_meets_spec.

(* Variables: distinct names never share a cell (inv), every command keeps
   that, and so any sequence of commands leaves each variable that none of
   them assigns exactly as it was. *)
Theorem C12_no_aliasing_preserved : forall reparse ops s,
  inv s -> inv (final reparse s ops).
Proof. intros reparse ops s. apply final_inv. Qed.
Print Assumptions C12_no_aliasing_preserved.

Theorem C12_copy_independent : forall reparse ops s y,
  inv s -> Forall (fun o => target o <> Some y) ops ->
  value (final reparse s ops) y = value s y.
Proof. intros reparse ops s y. apply copy_independent. Qed.
Print Assumptions C12_copy_independent.

(* `b = $a`, then any commands that do not assign a (resp. b): a (resp. b)
   still holds the value it had at the copy. *)
Theorem C12_copy_then_modify : forall reparse,
  (forall v, reparse v = v) ->
  forall s a b v ops,
  inv s -> a <> b -> value s a = Some v ->
  let s1 := fst (step reparse s (OCopy b a)) in
  (Forall (fun o => target o <> Some a) ops -> value (final reparse s1 ops) a = Some v) /\
  (Forall (fun o => target o <> Some b) ops -> value (final reparse s1 ops) b = Some v).
Proof. intros reparse H s a b v ops. apply copy_then_modify. exact H. Qed.
Print Assumptions C12_copy_then_modify.

(* A nested set gives its own variable the value alter computes (so the three
   alter theorems apply to it) and, by C12_copy_independent, touches no other. *)
Theorem C12_set_value : forall reparse s x p n c v v',
  var_find x (vars s) = Some c -> heap_find c (heap s) = Some v -> alter v p n = Ok v' ->
  value (fst (step reparse s (OSet x p n))) x = Some v'.
Proof. intros reparse s x p n c v v'. apply step_set_value. Qed.
Print Assumptions C12_set_value.

(* Headline for histories: for every state without aliasing and every sequence
   of copy / nested-set / call / read commands (of any length), the
   observations the model predicts satisfy the per-step property predicate
   that the check evaluates on the implementation's observations. *)
Theorem C12_history_meets_spec : forall ops s r0,
  inv s -> names_ok s -> forallb op_sane ops = true ->
  spec_steps (obs_of s r0) ops
    (map (fun sr => obs_of (fst sr) (snd sr)) (run (fun v => v) s ops)) = true.
Proof. exact history_meets_spec. Qed.
Print Assumptions C12_history_meets_spec.

(* Non-vacuity. The two design-phase witnesses on the fixed model; spec_ok
   rejects what the unfixed code did (a: null); the initial states satisfy inv. *)
Definition ex_n (s : bytes) : newval :=
  {| nv := JStr s; nv_str := Ok (JStr s); nv_num := Err 1; nv_bool := Ok (JBool true) |}.
Definition ex_a123 := JObj [([97], JArr [JNum [49]; JNum [50]; JNum [51]])]%N.
Definition ex_aq1 := JObj [([97], JObj [([113], JNum [49])])]%N.

Example C12_alter_nonvacuous :
  alter ex_a123 [[97]; [49]]%N (ex_n [104]%N) = Err 1 /\
  alter ex_aq1 [[97]; [98]; [99]]%N (ex_n [120]%N) =
    Ok (JObj [([97], JObj [([98], JObj [([99], JStr [120])]); ([113], JNum [49])])])%N /\
  conv_sane (ex_n [120]%N) = true /\
  spec_ok (CAlter ex_aq1 [[97]; [98]; [99]]%N (ex_n [120]%N)
             {| a_kind := 0; a_res := JObj [([97], JNull)]%N |}) = false /\
  spec_ok (CAlter ex_a123 [[97]; [49]]%N (ex_n [104]%N)
             {| a_kind := 0; a_res := JObj [([97], JNull)]%N |}) = false /\
  disjoint ex_aq1 [[97]; [98]; [99]]%N [[97]; [113]]%N = true.
Proof. vm_compute. repeat split. Qed.

Example C12_copy_nonvacuous :
  let s := init_state (fun v => v) empty_state [([118; 97]%N, ex_aq1)] in
  inv s /\ value s [118; 97]%N = Some ex_aq1 /\
  (* an observation in which modifying the copy also changed the original is rejected *)
  spec_ok (CHist [([118; 97]%N, ex_aq1)]
             [OCopy [118; 98]%N [118; 97]%N; OSet [118; 98]%N [[120]]%N (ex_n [121]%N)]
             {| s_ok := true; s_vals := [([118; 97]%N, Some ex_aq1)]; s_strs := [([118; 97]%N, Some ex_aq1)];
                s_text := []; s_doc := None |}
             [{| s_ok := true;
                 s_vals := [([118; 97]%N, Some ex_aq1); ([118; 98]%N, Some ex_aq1)];
                 s_strs := [([118; 97]%N, Some ex_aq1); ([118; 98]%N, Some ex_aq1)];
                 s_text := []; s_doc := None |};
              {| s_ok := true;
                 s_vals := [([118; 97]%N, Some (JObj (obj_set [120]%N (JStr [121]%N) [([97]%N, JObj [([113]%N, JNum [49]%N)])])));
                            ([118; 98]%N, Some (JObj (obj_set [120]%N (JStr [121]%N) [([97]%N, JObj [([113]%N, JNum [49]%N)])])))];
                 s_strs := [([118; 97]%N, Some (JObj (obj_set [120]%N (JStr [121]%N) [([97]%N, JObj [([113]%N, JNum [49]%N)])])));
                            ([118; 98]%N, Some (JObj (obj_set [120]%N (JStr [121]%N) [([97]%N, JObj [([113]%N, JNum [49]%N)])])))];
                 s_text := []; s_doc := None |}]) = false.
Proof.
  split; [|split].
  - apply inv_init. apply inv_empty.
  - reflexivity.
  - vm_compute. reflexivity.
Qed.
