(* C12 — stub while the harness is being validated *)
From Murex Require Import Base.Outcome Model.Alter Check.C12.
Theorem C12_stub : True. Proof. exact I. Qed.
Print Assumptions C12_stub.
