(* C17 — Range filters select the documented slice.
   Only theorem statements here; proofs live in Proof/Range.v.
   Items are of any type A; lists are of any length; bounds are any integers
   whose decimal text strconv.Atoi accepts (hypothesis `atoi p = Some v`). *)
From Murex Require Import Base.Outcome Base.Bytes Model.Decimal Model.Range Check.C17 Proof.Range Proof.Range2
  Proof.Decimal Proof.DecimalCor.
Open Scope Z_scope.

(* [s..e], 1 <= s <= e: items s through e (1-based, inclusive, clipped to n) *)
Theorem C17_range_s_e : forall A (xs : list A) ps pe s e,
  atoi ps = Some s -> atoi pe = Some e -> 1 <= s <= e ->
  range_filter (mkp ps pe false) xs = Ok (slice1 s e xs).
Proof. exact range_s_e. Qed.
Print Assumptions C17_range_s_e.

(* the same over integers (every int64 has its strconv.Itoa text) *)
Theorem C17_range_s_e_int : forall A (xs : list A) s e, int64 s -> int64 e -> 1 <= s <= e ->
  range_filter (mkp (itoa s) (itoa e) false) xs = Ok (slice1 s e xs).
Proof. exact I17.range_s_e_int. Qed.
Print Assumptions C17_range_s_e_int.

Theorem C17_range_last_k_int : forall A (xs : list A) k, int64 (- k) -> 1 <= k ->
  range_filter (mkp (itoa (- k)) [] false) xs = Ok (zskipn (zlen xs - k) xs).
Proof. exact I17.range_last_k_int. Qed.
Print Assumptions C17_range_last_k_int.

(* [s..]: items s through n; with the e flag item s is dropped *)
Theorem C17_range_s_open : forall A (xs : list A) ps s excl,
  atoi ps = Some s -> 1 <= s ->
  range_filter (mkp ps [] excl) xs = Ok (if excl then zskipn s xs else zskipn (s - 1) xs).
Proof. exact range_s_open. Qed.
Print Assumptions C17_range_s_open.

(* [..e]: items 1 through e; with the e flag item e is dropped *)
Theorem C17_range_open_e : forall A (xs : list A) pe e excl,
  atoi pe = Some e -> 1 <= e ->
  range_filter (mkp [] pe excl) xs = Ok (if excl then zfirstn (e - 1) xs else zfirstn e xs).
Proof. exact range_open_e. Qed.
Print Assumptions C17_range_open_e.

(* [-k..]: the last k items *)
Theorem C17_range_last_k : forall A (xs : list A) ps k,
  atoi ps = Some (- k) -> 1 <= k ->
  range_filter (mkp ps [] false) xs = Ok (zskipn (zlen xs - k) xs).
Proof. exact range_last_k. Qed.
Print Assumptions C17_range_last_k.

(* [s..e]e: both end points are excluded *)
Theorem C17_range_exclusive : forall A (xs : list A) ps pe s e,
  atoi ps = Some s -> atoi pe = Some e -> 1 <= s <= e ->
  range_filter (mkp ps pe true) xs = Ok (slice1 (s + 1) (e - 1) xs).
Proof. exact range_exclusive. Qed.
Print Assumptions C17_range_exclusive.

(* For ANY parameters (in or out of the documented domain) the output is a
   subsequence of the input: the output order is the input order. *)
Theorem C17_range_order : forall A (p : rparams) (xs out : list A),
  range_filter p xs = Ok out -> subseq out xs.
Proof. exact range_order. Qed.
Print Assumptions C17_range_order.

(* For ANY parameters the counter machine equals a firstn-of-skipn closed form
   (this characterises the cases the property does not constrain). *)
Theorem C17_range_closed_form : forall A (p : rparams) (xs : list A) rf0 buffer,
  new_index p = Ok (rf0, buffer) ->
  range_filter p xs =
  Ok (closed_form p (if buffer then set_length rf0 (Z.of_nat (length xs)) else rf0) xs).
Proof. exact range_filter_closed_form. Qed.
Print Assumptions C17_range_closed_form.

(* Never a panic or a hang, for any parameters and any list. *)
Theorem C17_range_total : forall A f (p : rparams) (xs : list A), clean (run_range f p xs).
Proof. exact run_range_total. Qed.
Print Assumptions C17_range_total.

(* The model's observation satisfies the predicate the check evaluates on the
   implementation, outside the one listed finding (json + empty selection). *)
Theorem C17_model_meets_spec : forall f s e x xs,
  classify (mk f s e x xs) = 0%N -> spec_ok (mk f s e x xs) = true.
Proof. exact model_meets_spec. Qed.
Print Assumptions C17_model_meets_spec.

Theorem C17_json_empty_selection_refuted :
  spec_ok (mk RJson [53%N] [] false [[97%N]; [98%N]]) = false.
Proof. exact json_empty_selection_refuted. Qed.
Print Assumptions C17_json_empty_selection_refuted.

(* ---------- the other matchers, `![ .. ]`, the 8 / b / t flags ---------- *)

(* The general machine with the index matcher and no flag is the machine above. *)
Theorem C17_index_is_range_filter : forall rx p xs,
  range_filter2 rx KIndex no_flags p xs = range_filter p xs.
Proof. exact range_filter2_index. Qed.
Print Assumptions C17_index_is_range_filter.

(* `[s..e]n` and `@[s..e]`, 1 <= s <= e: the same slice counted from zero. *)
Theorem C17_range_number_s_e : forall rx (xs : list bytes) ps pe s e,
  atoi ps = Some s -> atoi pe = Some e -> 1 <= s <= e ->
  range_filter2 rx KNumber no_flags (mkp ps pe false) xs = Ok (slice1 (s + 1) (e + 1) xs).
Proof. exact range_number_s_e. Qed.
Print Assumptions C17_range_number_s_e.

(* `[a..b]s` / `[a..b]r` for ANY bounds, flags and lists (regexp.Match is the
   parameter rx): from the first item that matches a (dropped with `e`) through
   the first later item that matches b (dropped with `e`); `![` keeps only that
   last item. *)
Theorem C17_range_string_closed : forall rx f p xs,
  range_filter2 rx KString f p xs =
  Ok (pred_closed (bytes_eqb (rp_start p)) (bytes_eqb (rp_end p)) p (f_not f) (prep f xs)).
Proof. exact range_string_closed. Qed.
Print Assumptions C17_range_string_closed.

Theorem C17_range_regexp_closed : forall rx f p xs,
  range_filter2 rx KRegexp f p xs =
  Ok (pred_closed (rx (rp_start p)) (rx (rp_end p)) p (f_not f) (prep f xs)).
Proof. exact range_regexp_closed. Qed.
Print Assumptions C17_range_regexp_closed.

Theorem C17_range_string_a_b : forall rx a b xs, a <> [] -> b <> [] ->
  range_filter2 rx KString no_flags (mkp a b false) xs =
  Ok (upto_incl (bytes_eqb b) (from_first (bytes_eqb a) xs)).
Proof. exact range_string_a_b. Qed.
Print Assumptions C17_range_string_a_b.

Theorem C17_pred_body_plain : forall A (pe : A -> bool) excl ys,
  body pe excl true false ys = if excl then upto_excl pe ys else upto_incl pe ys.
Proof. exact @body_plain. Qed.
Print Assumptions C17_pred_body_plain.

(* The inverse form writes nothing but the item that ends the range. *)
Theorem C17_inverse_writes_only_end : forall A (pe : A -> bool) excl eg ys,
  body pe excl eg true ys = if eg && negb excl then firstn 1 (from_first pe ys) else [].
Proof. exact @body_not. Qed.
Print Assumptions C17_inverse_writes_only_end.

Theorem C17_range_not_s_e : forall rx (xs : list bytes) ps pe s e,
  atoi ps = Some s -> atoi pe = Some e -> 1 <= s <= e ->
  range_filter2 rx KIndex {| f_not := true; f_rmbs := false; f_blank := false; f_trim := false |}
                (mkp ps pe false) xs
  = Ok (firstn 1 (skipn (Z.to_nat (e - 1)) xs)).
Proof. exact range_not_s_e. Qed.
Print Assumptions C17_range_not_s_e.

(* 8 / b / t only rewrite / drop items before the matcher sees them (when the
   matcher does not depend on the buffered length, or the length is unchanged). *)
Theorem C17_flags_are_preprocessing : forall rx k f p xs,
  matcher_of rx k p (Z.of_nat (length xs)) = matcher_of rx k p (Z.of_nat (length (prep f xs))) ->
  range_filter2 rx k f p xs =
  range_filter2 rx k {| f_not := f_not f; f_rmbs := false; f_blank := false; f_trim := false |} p (prep f xs).
Proof. exact flags_are_preprocessing. Qed.
Print Assumptions C17_flags_are_preprocessing.

(* Order and totality for every matcher, `![`, every flag, any parameters. *)
Theorem C17_range2_order : forall rx k f p xs out,
  f_rmbs f = false -> f_trim f = false ->
  range_filter2 rx k f p xs = Ok out -> subseq out xs.
Proof. exact range2_order. Qed.
Print Assumptions C17_range2_order.

Theorem C17_range2_total : forall rx fm k f p xs, clean (run_range2 rx fm k f p xs).
Proof. exact run_range2_total. Qed.
Print Assumptions C17_range2_total.

(* The model's observation satisfies the predicate the check evaluates for every
   matcher and flag combination (outside the one listed finding). *)
Theorem C17_model_meets_spec_all : forall fm k f s e x xs,
  classify (mk2 fm k f s e x xs) = 0%N -> spec_ok (mk2 fm k f s e x xs) = true.
Proof. exact model_meets_spec2. Qed.
Print Assumptions C17_model_meets_spec_all.

(* Non-vacuity: "2".."3" on [a;b;c;d] gives [b;c]; spec_ok rejects an
   off-by-one slice, an inclusive result under the e flag and a reordering. *)
Example C17_nonvacuous :
  atoi [50%N] = Some 2 /\ atoi [51%N] = Some 3 /\
  range_filter (mkp [50%N] [51%N] false) [[97%N]; [98%N]; [99%N]; [100%N]] = Ok [[98%N]; [99%N]] /\
  spec_ok {| c_fmt := RStr; c_kind := KIndex; c_flags := no_flags; c_start := [50%N]; c_end := [51%N]; c_excl := false;
             c_items := [[97%N]; [98%N]; [99%N]; [100%N]];
             c_obs := {| o_class := 0%N; o_items := [[98%N]; [99%N]; [100%N]] |} |} = false /\
  spec_ok {| c_fmt := RStr; c_kind := KIndex; c_flags := no_flags; c_start := [50%N]; c_end := [52%N]; c_excl := true;
             c_items := [[97%N]; [98%N]; [99%N]; [100%N]];
             c_obs := {| o_class := 0%N; o_items := [[98%N]; [99%N]; [100%N]] |} |} = false /\
  spec_ok {| c_fmt := RStr; c_kind := KIndex; c_flags := no_flags; c_start := [48%N]; c_end := [53%N]; c_excl := false;
             c_items := [[97%N]; [98%N]];
             c_obs := {| o_class := 0%N; o_items := [[98%N]; [97%N]] |} |} = false.
Proof. vm_compute. repeat split; reflexivity. Qed.
