(* C13 — Scalar values survive conversion to and from strings.
   Only theorem statements here; proofs live in Proof/Num.v. *)
From Coq Require Import Reals.
From Flocq Require Import Core.
From Murex Require Import Base.Outcome Base.Bytes Model.Num Check.C13 Proof.Num Proof.NumFlocq.
Local Open Scope N_scope.

(* int -> str -> int is the identity for every integer of magnitude up to 2^53
   (the property asks for "below 2^53"; 2^53 itself survives as well). *)
Theorem C13_int_roundtrip : forall z, (Z.abs z <= 2 ^ 53)%Z -> int_of_string (string_of_int z) = Ok z.
Proof. exact int_roundtrip. Qed.
Print Assumptions C13_int_roundtrip.

(* The bound is sharp: 2^53+1 and -(2^53+1) come back as +-2^53 (string -> int goes through float64). *)
Theorem C13_int_roundtrip_sharp :
  int_of_string (string_of_int (2 ^ 53 + 1)) = Ok (2 ^ 53)%Z /\
  int_of_string (string_of_int (- (2 ^ 53 + 1))) = Ok (- 2 ^ 53)%Z.
Proof. exact int_roundtrip_sharp. Qed.
Print Assumptions C13_int_roundtrip_sharp.

(* For EVERY integer: what comes back is exactly the nearest binary64 (ties to even) — then
   int(f) as amd64 defines it (-2^63 outside int64) — or ParseFloat's range error; the only loss is the float64 rounding, murex's glue (Itoa, TrimSpace, "" -> "0",
   decimal syntax) adds none. *)
Theorem C13_int_of_string_itoa : forall z,
  int_of_string (string_of_int z) =
  (let f := round53 z in if float_overflow f then Err 1 else Ok (go_int_of_float f)).
Proof. exact int_of_string_itoa. Qed.
Print Assumptions C13_int_of_string_itoa.

(* round53 — the model's stand-in for strconv.ParseFloat on decimal integers — IS IEEE 754
   binary64 round-to-nearest-even: it equals Flocq's rounding operator on every integer.
   (Depends on the standard library's axioms for the real numbers only.) *)
Theorem C13_round53_is_binary64_RNE : forall z : Z,
  round radix2 (FLT_exp (-1074) 53) ZnearestE (IZR z) = IZR (round53 z).
Proof. exact round53_is_binary64_RNE. Qed.
Print Assumptions C13_round53_is_binary64_RNE.

(* Corollary that closes the integer round trip through float64 without sampling: for
   |z| <= 2^53 the decimal string of z denotes exactly z, the correctly rounded (IEEE 754
   round-to-nearest-even, Flocq) binary64 of that number is z itself, and truncation gives z. *)
Theorem C13_int_through_binary64_exact : forall z : Z, (Z.abs z <= 2 ^ 53)%Z ->
  parse_dec_int (itoa z) = Some z /\
  round radix2 (FLT_exp (-1074) 53) ZnearestE (IZR z) = IZR z /\
  Ztrunc (round radix2 (FLT_exp (-1074) 53) ZnearestE (IZR z)) = z.
Proof. exact int_through_binary64_exact. Qed.
Print Assumptions C13_int_through_binary64_exact.

(* Outside the property's bound (stated for completeness): magnitudes >= 2^63 come back as
   amd64's -2^63. *)
Theorem C13_int_beyond_int64 :
  int_of_string (string_of_int (2 ^ 63)) = Ok (- 2 ^ 63)%Z /\
  int_of_string (string_of_int (10 ^ 19)) = Ok (- 2 ^ 63)%Z /\
  int_of_string (string_of_int (- 2 ^ 63)) = Ok (- 2 ^ 63)%Z.
Proof. exact int_beyond_int64. Qed.
Print Assumptions C13_int_beyond_int64.

Theorem C13_itoa_parses_back : forall z, parse_dec_int (itoa z) = Some z.
Proof. exact parse_dec_int_itoa. Qed.
Print Assumptions C13_itoa_parses_back.

Theorem C13_bool_roundtrip : forall b, bool_of_string (string_of_bool b) = b.
Proof. exact bool_roundtrip. Qed.
Print Assumptions C13_bool_roundtrip.

(* float -> str -> float: from the library's round-trip contract, murex's glue adds no loss.
   Both assumptions about strconv are explicit premises. *)
Theorem C13_float_roundtrip : forall format parse,
  (forall f, is_finite f = true -> parse (format f) = Some f) ->
  (forall f, is_finite f = true -> format f <> [] /\ no_space (format f) = true) ->
  forall f, is_finite f = true -> num_of_string parse (string_of_num format f) = Ok f.
Proof. exact float_roundtrip. Qed.
Print Assumptions C13_float_roundtrip.

(* Headline: the cases the model predicts satisfy the predicate the check evaluates. *)
Theorem C13_model_int_meets_spec : forall z,
  spec_ok (CInt z (string_of_int z) (int_of_string (string_of_int z))) = true.
Proof. exact model_int_meets_spec. Qed.
Print Assumptions C13_model_int_meets_spec.

Theorem C13_model_bool_meets_spec : forall b,
  spec_ok (CBool b (string_of_bool b) (bool_of_string (string_of_bool b))) = true.
Proof. exact model_bool_meets_spec. Qed.
Print Assumptions C13_model_bool_meets_spec.

Theorem C13_model_num_meets_spec : forall format parse,
  (forall f, is_finite f = true -> parse (format f) = Some f) ->
  (forall f, is_finite f = true -> format f <> [] /\ no_space (format f) = true) ->
  forall f, spec_ok (CNum f (string_of_num format f) (num_of_string parse (string_of_num format f))
                          (format f) (num_parse_arg (format f)) (parse (num_parse_arg (format f)))) = true.
Proof. exact model_num_meets_spec. Qed.
Print Assumptions C13_model_num_meets_spec.

(* through typed variables, `$var` and expressions *)
Theorem C13_model_mx_int_meets_spec : forall t z,
  spec_ok (CMxInt t z (itoa z) (mx_int t (itoa z))) = true.
Proof. exact model_mx_int_meets_spec. Qed.
Print Assumptions C13_model_mx_int_meets_spec.

Theorem C13_model_mx_bool_meets_spec : forall t b,
  spec_ok (CMxBool t b (string_of_bool b) (mx_bool t (string_of_bool b))) = true.
Proof. exact model_mx_bool_meets_spec. Qed.
Print Assumptions C13_model_mx_bool_meets_spec.

(* Non-vacuity: the bound holds for a concrete 16-digit negative number; the float hypotheses are
   satisfiable (a one-value toy library); spec_ok rejects an off-by-one result, a bool that
   flips, a float that loses its sign bit (-0 -> +0), and a variable that prints 2^53 for 2^53-1. *)
Example C13_nonvacuous :
  (Z.abs (-9007199254740991) <= 2 ^ 53)%Z /\
  int_of_string (string_of_int (-9007199254740991)) = Ok (-9007199254740991)%Z /\
  spec_ok (CInt 9007199254740991 [57] (Ok 9007199254740992%Z)) = false /\
  spec_ok (CBool false [102;97;108;115;101] true) = false /\
  spec_ok (CNum 9223372036854775808 [45;48] (Ok 0) [45;48] [45;48] (Some 0)) = false /\
  spec_ok (CMxInt T2 9007199254740991 [57] (Ok [57;10])) = true /\
  spec_ok (CMxInt T2 9007199254740991 [57] (Ok [56;10])) = false.
Proof. split; [vm_compute; discriminate|]. repeat split; vm_compute; reflexivity. Qed.
