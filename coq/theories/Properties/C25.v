(* C25 — Config values are scoped like variables.
   Only theorem statements here; proofs live in Proof/ConfigScope.v. *)
From Murex Require Import Base.Outcome Base.Bytes Model.Scope Model.ConfigScope Check.C25 Proof.ConfigScope.

(* Refinement, for any declarations, op trees of any depth, any caller stack:
   on a state whose local table holds only non-global declared options (true of
   the initial state and preserved), the stack machine behaves as the stack-free
   reference semantics and leaves every outer scope as it was. *)
Theorem C25_refinement : forall ds ops s h c,
  hok ds h ->
  crun_state ds ops {| sess := s; here := h; outer := c |} =
  ({| sess := fst (fst (cseq (cspec ds) ops (s, h)));
      here := snd (fst (cseq (cspec ds) ops (s, h))); outer := c |},
   snd (cseq (cspec ds) ops (s, h))) /\
  hok ds (snd (fst (cseq (cspec ds) ops (s, h)))).
Proof. exact crun_state_refines. Qed.
Print Assumptions C25_refinement.

Theorem C25_model_meets_spec : forall ds ops,
  spec_ok {| c_decls := ds; c_ops := ops; c_status := 0; c_obs := crun ds ops |} = true.
Proof. exact cmodel_meets_spec. Qed.
Print Assumptions C25_model_meets_spec.

(* A call returns with the caller's overrides and all outer scopes as they were. *)
Theorem C25_call_keeps_caller : forall ds body s,
  here (fst (cstep ds (CCall body) s)) = here s /\ outer (fst (cstep ds (CCall body) s)) = outer s.
Proof. exact call_keeps_caller. Qed.
Print Assumptions C25_call_keeps_caller.

(* Setting / defaulting non-global options inside a call (at any depth) affects only that call. *)
Theorem C25_local_set_is_call_local : forall ds body s h c,
  hok ds h -> forallb (local_only ds) body = true ->
  fst (cstep ds (CCall body) {| sess := s; here := h; outer := c |}) = {| sess := s; here := h; outer := c |}.
Proof. exact local_set_is_call_local. Qed.
Print Assumptions C25_local_set_is_call_local.

(* Other calls see the session value or the default, at every depth, whatever the caller overrides. *)
Theorem C25_other_calls_see_session_value : forall ds n t k d s h c,
  d_get ds k = Some d ->
  snd (crun_state ds (cnest (S n) [CGet t k]) {| sess := s; here := h; outer := c |}) =
  [(t, Some (match t_get s k with Some v => v | None => d_default d end))].
Proof. exact other_calls_see_session_value. Qed.
Print Assumptions C25_other_calls_see_session_value.

Theorem C25_override_not_inherited : forall ds n t1 t2 k v d s l c,
  d_get ds k = Some d -> d_global d = false ->
  snd (crun_state ds (cnest (S n) [CGet t2 k])
         (fst (cstep ds (CSet t1 k v) {| sess := s; here := Some l; outer := c |}))) =
  [(t2, Some (match t_get s k with Some v0 => v0 | None => d_default d end))].
Proof. exact override_not_inherited. Qed.
Print Assumptions C25_override_not_inherited.

Theorem C25_global_option_seen_everywhere : forall ds n t1 t2 k v d s h c,
  hok ds h -> d_get ds k = Some d -> d_global d = true ->
  let st := fst (cstep ds (CSet t1 k v) {| sess := s; here := h; outer := c |}) in
  cget ds st k = Some v /\
  snd (crun_state ds (cnest (S n) [CGet t2 k]) st) = [(t2, Some v)].
Proof. exact global_option_seen_everywhere. Qed.
Print Assumptions C25_global_option_seen_everywhere.

Theorem C25_session_set_seen_everywhere : forall ds n t1 t2 k v d s c,
  d_get ds k = Some d ->
  let st := fst (cstep ds (CSet t1 k v) {| sess := s; here := None; outer := c |}) in
  cget ds st k = Some v /\
  snd (crun_state ds (cnest (S n) [CGet t2 k]) st) = [(t2, Some v)].
Proof. exact session_set_seen_everywhere. Qed.
Print Assumptions C25_session_set_seen_everywhere.

Theorem C25_default_restores_in_scope : forall ds t k d s h c,
  hok ds h -> d_get ds k = Some d ->
  let st := fst (cstep ds (CDefault t k) {| sess := s; here := h; outer := c |}) in
  cget ds st k = Some (d_default d) /\
  (d_global d = false -> h <> None -> sess st = s).
Proof. exact default_restores_in_scope. Qed.
Print Assumptions C25_default_restores_in_scope.

Theorem C25_undefined_option_errors : forall ds t k v s,
  d_get ds k = None -> (match here s with Some l => t_get l k = None | None => True end) ->
  cstep ds (CGet t k) s = (s, [(t, None)]) /\
  cstep ds (CSet t k v) s = (s, [(t, None)]) /\
  cstep ds (CDefault t k) s = (s, [(t, None)]).
Proof. exact undefined_option_errors. Qed.
Print Assumptions C25_undefined_option_errors.

(* Non-vacuity: option 0 non-global (default 100), option 2 global (default 102).
   The predicate accepts the model's trace and rejects (a) a callee inheriting its
   caller's override and (b) a local override leaking to the session. *)
Example C25_nonvacuous :
  let ds := [(0, {| d_global := false; d_default := 100 |});
             (2, {| d_global := true; d_default := 102 |})]%N in
  let prog := [CCall [CSet 1 0 5; CGet 2 0; CCall [CGet 3 0; CSet 4 2 7]; CGet 5 2; CDefault 6 0; CGet 7 0];
               CGet 8 0; CGet 9 2; CSet 10 0 6; CCall [CGet 11 0]; CGet 12 9]%N in
  crun ds prog = [(1, Some 0); (2, Some 5); (3, Some 100); (4, Some 0); (5, Some 7); (6, Some 0);
                  (7, Some 100); (8, Some 100); (9, Some 7); (10, Some 0); (11, Some 6); (12, None)]%N /\
  spec_ok {| c_decls := ds; c_ops := prog; c_status := 0; c_obs := crun ds prog |} = true /\
  spec_ok {| c_decls := ds; c_ops := prog; c_status := 0;
             c_obs := [(1, Some 0); (2, Some 5); (3, Some 5); (4, Some 0); (5, Some 7); (6, Some 0);
                       (7, Some 100); (8, Some 100); (9, Some 7); (10, Some 0); (11, Some 6); (12, None)]%N |} = false /\
  spec_ok {| c_decls := ds; c_ops := prog; c_status := 0;
             c_obs := [(1, Some 0); (2, Some 5); (3, Some 100); (4, Some 0); (5, Some 7); (6, Some 0);
                       (7, Some 100); (8, Some 5); (9, Some 7); (10, Some 0); (11, Some 6); (12, None)]%N |} = false.
Proof. vm_compute. repeat split; reflexivity. Qed.
