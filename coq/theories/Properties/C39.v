(* C39 — break, continue and return affect only the named block.
   Only theorem statements here; proofs live in Proof/Control.v. *)
From Murex Require Import Base.Outcome Base.Bytes Model.Control Check.C39 Proof.Control.
Local Open Scope N_scope.

(* For every well-named program of the structured language (out, if/else, switch/case/default,
   foreach, formap, for, while with two blocks and with one, try, trypipe, function calls,
   break NAME, break, continue NAME, return N), of any nesting depth and any iteration counts,
   murex's cancellation mechanism (run_cancel) shows exactly the output and exit number of the
   reference semantics with break / continue / return signals (run_ref). *)
Theorem C39_cancel_refines_signals : forall main, well_named main = true -> run_cancel main = run_ref main.
Proof. exact cancel_refines_signals. Qed.
Print Assumptions C39_cancel_refines_signals.

Theorem C39_break_stops_rest_of_block : forall tm e nm rest st o x xp, st <> [] -> all_live st = true ->
  fst (exec_block tm e (BCons (Break nm) rest) {| c_stack := st; c_out := o; c_exit := x |} xp)
  = {| c_stack := brk_walk nm st; c_out := o; c_exit := x |}.
Proof. exact break_stops_rest_of_block. Qed.
Print Assumptions C39_break_stops_rest_of_block.

Theorem C39_nameless_break_ends_innermost : forall F st, kill_top (F :: st) = kill 0 F :: st.
Proof. exact nameless_break_ends_innermost. Qed.
Print Assumptions C39_nameless_break_ends_innermost.

Theorem C39_break_outside_untouched : forall nm F inner outer,
  f_name F = nm -> (forall G, In G inner -> name_eqb (f_name G) nm = false) ->
  brk_walk nm (inner ++ F :: outer) = map (kill 0) inner ++ kill 0 F :: outer.
Proof. exact break_outside_untouched. Qed.
Print Assumptions C39_break_outside_untouched.

Theorem C39_continue_next_iteration : forall nm F inner outer,
  f_name F = nm -> (forall G, In G inner -> name_eqb (f_name G) nm = false) ->
  cont_up nm (inner ++ F :: outer) = map (kill 0) inner ++ kill_rest F :: outer.
Proof. exact continue_next_iteration. Qed.
Print Assumptions C39_continue_next_iteration.

Theorem C39_continue_loop_goes_on : forall body nm k i o x,
  body i = (o, SCont nm, x) ->
  ref_loop body nm false (S k) i = (o ++ fst (ref_loop body nm false k (i + 1)), snd (ref_loop body nm false k (i + 1))).
Proof. exact continue_loop_goes_on. Qed.
Print Assumptions C39_continue_loop_goes_on.

Theorem C39_return_sets_exit : forall main o k x, well_named main = true ->
  ref_block false [] main 0%Z = (o, SRet k, x) -> run_cancel main = (o, k).
Proof. exact return_sets_exit. Qed.
Print Assumptions C39_return_sets_exit.

(* a block that ends by `return k` has exit number k: at any nesting depth, last statement or not *)
Theorem C39_return_exit_any_depth : forall b tm e xp o k x, ref_block tm e b xp = (o, SRet k, x) -> x = k.
Proof. exact (proj2 ret_exit_all). Qed.
Print Assumptions C39_return_exit_any_depth.

(* return n sets the exit number of the call, wherever it is written in the function: directly
   in its body or nested at any depth, also when the block holding it is the function's last
   statement (the exit number of a call is that of the last statement of the function's block) *)
Theorem C39_return_sets_call_exit : forall e f b encl st o x o1 k xb,
  all_live st = true -> map f_name st = names encl -> encl <> [] ->
  wn_stmt encl (Call f b) = true ->
  ref_block false [] b 0%Z = (o1, SRet k, xb) ->
  exec_stmt false e (Call f b) {| c_stack := st; c_out := o; c_exit := x |}
  = ({| c_stack := st; c_out := o ++ o1 ++ [TExit k]; c_exit := x |}, 0%Z).
Proof. exact return_sets_call_exit. Qed.
Print Assumptions C39_return_sets_call_exit.

Theorem C39_outside_unaffected : forall tm e s encl st o x,
  all_live st = true -> map f_name st = names encl -> encl <> [] -> wn_stmt encl s = true ->
  snd (fst (ref_stmt tm e s)) = SNone ->
  fst (exec_stmt tm e s {| c_stack := st; c_out := o; c_exit := x |})
  = {| c_stack := st; c_out := o ++ fst (fst (ref_stmt tm e s)); c_exit := x |}.
Proof. exact outside_unaffected. Qed.
Print Assumptions C39_outside_unaffected.

(* try / trypipe: a loop ended by its own break (or completed) inside a try block has exit
   number 0 and the try block goes on with the statements after the loop ... *)
Theorem C39_break_inside_try_affects_only_named_block : forall pipe e k id n b rest,
  snd (fst (ref_stmt true e (Loop k id n b))) = SNone ->
  snd (ref_stmt true e (Loop k id n b)) = 0%Z /\
  ref_stmt false e (Try pipe (BCons (Loop k id n b) rest)) =
    (let '(o2, g2, x2) := ref_block true e rest 0%Z in
     (fst (fst (ref_stmt true e (Loop k id n b))) ++ o2, absorb (try_name pipe) g2, x2)).
Proof. exact break_inside_try_affects_only_named_block. Qed.
Print Assumptions C39_break_inside_try_affects_only_named_block.

(* ... while a call that returns a non-zero number does end the try block, as documented *)
Theorem C39_failed_call_ends_try_block : forall e f b rest o1 g k, (0 < k)%Z -> rest <> BNil ->
  ref_block false [] b 0%Z = (o1, g, k) ->
  ref_block true e (BCons (Call f b) rest) 0%Z = (o1, SNone, k).
Proof. exact failed_call_ends_try_block. Qed.
Print Assumptions C39_failed_call_ends_try_block.

(* The function boundary (see docs/C39.md). *)
Theorem C39_break_does_not_cross_function : forall tm e f b st o x,
  c_stack (fst (exec_stmt tm e (Call f b) {| c_stack := st; c_out := o; c_exit := x |})) = st /\
  c_exit (fst (exec_stmt tm e (Call f b) {| c_stack := st; c_out := o; c_exit := x |})) = x /\
  snd (fst (ref_stmt tm e (Call f b))) = SNone.
Proof. exact break_does_not_cross_function. Qed.
Print Assumptions C39_break_does_not_cross_function.

Theorem C39_unresolved_break_kills_function_only : forall nm st,
  (forall G, In G st -> name_eqb (f_name G) nm = false) -> brk_walk nm st = map (kill 0) st.
Proof. exact unresolved_break_kills_function_only. Qed.
Print Assumptions C39_unresolved_break_kills_function_only.

(* Headline: the model's observation satisfies the predicate the check evaluates. *)
Theorem C39_model_meets_spec : forall main, well_named main = true ->
  spec_ok {| c_prog := main; c_obs_out := fst (run_cancel main); c_obs_exit := snd (run_cancel main) |} = true.
Proof. exact model_meets_spec. Qed.
Print Assumptions C39_model_meets_spec.

(* The guard of well_named is needed: a `continue` directly in the block it names does nothing
   in the mechanism (known finding 1), so the two semantics differ. *)
Definition direct_continue : block :=
  BCons (Loop LForeach 1 2 (BCons (Out 1) (BCons (Continue NForeach) (BCons (Out 2) BNil)))) (BCons (Out 3) BNil).
Theorem C39_direct_continue_refuted :
  well_named direct_continue = false /\ run_cancel direct_continue <> run_ref direct_continue /\
  spec_ok {| c_prog := direct_continue; c_obs_out := fst (run_cancel direct_continue);
             c_obs_exit := snd (run_cancel direct_continue) |} = false.
Proof. split; [reflexivity|]. split; [vm_compute; discriminate|reflexivity]. Qed.
Print Assumptions C39_direct_continue_refuted.

Definition helper_breaks_callers_loop : block :=
  BCons (Loop LForeach 1 3 (BCons (Call 1 (BCons (Out 1) (BCons (Branch BIf CTrue (BCons (Break NForeach) BNil) BNil) (BCons (Out 2) BNil))))
                     (BCons (Out 3) BNil)))
        (BCons (Out 4) BNil).
Example C39_function_boundary_nonvacuous :
  well_named helper_breaks_callers_loop = true /\
  run_cancel helper_breaks_callers_loop =
    ([TOut 1; TExit 0; TOut 3; TOut 1; TExit 0; TOut 3; TOut 1; TExit 0; TOut 3; TOut 4], 0%Z) /\
  spec_ok {| c_prog := helper_breaks_callers_loop; c_obs_out := [TOut 1; TOut 4]; c_obs_exit := 0%Z |} = false.
Proof. vm_compute. repeat split. Qed.

(* seeded mutation C39-2: `return 3` inside an `if` / a loop that is the LAST statement of the
   function; the call must report 3; an observation reporting 0 is rejected *)
Definition return_in_last_block : block :=
  BCons (Call 1 (BCons (Out 1) (BCons (Branch BIf CTrue (BCons (Return 3) BNil) BNil) BNil)))
  (BCons (Call 2 (BCons (Loop LForeach 1 3 (BCons (Branch BIf (CEq 1 2) (BCons (Return 7) BNil) BNil) (BCons (Out 2) BNil))) BNil))
  (BCons (Branch BIf CTrue (BCons (Return 1) BNil) BNil) BNil)).
Example C39_return_last_block_nonvacuous :
  well_named return_in_last_block = true /\
  run_cancel return_in_last_block = ([TOut 1; TExit 3; TOut 2; TExit 7], 1%Z) /\
  spec_ok {| c_prog := return_in_last_block; c_obs_out := [TOut 1; TExit 0; TOut 2; TExit 7]; c_obs_exit := 1%Z |} = false /\
  spec_ok {| c_prog := return_in_last_block; c_obs_out := [TOut 1; TExit 3; TOut 2; TExit 7]; c_obs_exit := 0%Z |} = false.
Proof. vm_compute. repeat split. Qed.

(* Non-vacuity: a well-named program with a function, nested foreach / while / for / switch / try,
   conditional continue, break, nameless break and return; the former behaviour of `for`
   (a loop ended by break reported exit number 1, which ended the surrounding try block) is
   rejected by spec_ok. *)
Definition ex_prog : block :=
  BCons (Call 1 (BCons (Loop LForeach 1 3 (BCons (Branch BIf (CEq 1 2) (BCons (Continue NForeach) BNil) BNil)
                                     (BCons (Loop LWhile 2 2 (BCons (Branch BSwitch (CEq 2 2) (BCons (Break NWhile) (BCons (Out 9) BNil)) (BCons (Out 1) BNil)) BNil))
                                     (BCons (Branch BIf (CEq 1 3) (BCons (Return 4) BNil) BNil) (BCons (Out 2) BNil)))))
                (BCons (Out 3) BNil)))
        (BCons (Try false (BCons (Loop LFor 3 3 (BCons (Out 5) (BCons (Branch BIf (CEq 3 2) (BCons BreakAny (BCons (Out 8) BNil)) BNil)
                                                 (BCons (Branch BIf (CEq 3 2) (BCons (Break NFor) BNil) BNil) BNil))))
                           (BCons (Out 6) BNil)))
        (BCons (Out 4) BNil)).
Example C39_nonvacuous :
  well_named ex_prog = true /\
  run_cancel ex_prog = ([TOut 1; TOut 2; TOut 1; TExit 4; TOut 5; TOut 5; TOut 6; TOut 4], 0%Z) /\
  spec_ok {| c_prog := BCons (Try false (BCons (Loop LFor 1 3 (BCons (Break NFor) BNil)) (BCons (Out 1) BNil))) (BCons (Out 2) BNil);
             c_obs_out := [TOut 2]; c_obs_exit := 0%Z |} = false.
Proof. vm_compute. repeat split. Qed.
