(* C39 — break, continue and return affect only the named block.
   Only theorem statements here; proofs live in Proof/Control.v. *)
From Murex Require Import Base.Outcome Base.Bytes Model.Control Check.C39 Proof.Control.
Local Open Scope N_scope.

(* For every well-named program of the structured language, of any nesting depth and any
   iteration counts, murex's cancellation mechanism (run_cancel) shows exactly the output and
   exit number of the reference semantics with break / continue / return signals (run_ref). *)
Theorem C39_cancel_refines_signals : forall main, well_named main = true -> run_cancel main = run_ref main.
Proof. exact cancel_refines_signals. Qed.
Print Assumptions C39_cancel_refines_signals.

Theorem C39_break_stops_rest_of_block : forall e nm rest st o x, st <> [] -> all_live st = true ->
  exec_block e (BCons (Break nm) rest) {| c_stack := st; c_out := o; c_exit := x |}
  = {| c_stack := brk_walk nm st; c_out := o; c_exit := x |}.
Proof. exact break_stops_rest_of_block. Qed.
Print Assumptions C39_break_stops_rest_of_block.

Theorem C39_break_outside_untouched : forall nm F inner outer,
  f_name F = nm -> (forall G, In G inner -> name_eqb (f_name G) nm = false) ->
  brk_walk nm (inner ++ F :: outer) = map kill inner ++ kill F :: outer.
Proof. exact break_outside_untouched. Qed.
Print Assumptions C39_break_outside_untouched.

Theorem C39_continue_next_iteration : forall nm F inner outer,
  f_name F = nm -> (forall G, In G inner -> name_eqb (f_name G) nm = false) ->
  cont_up nm (inner ++ F :: outer) = map kill inner ++ kill_rest F :: outer.
Proof. exact continue_next_iteration. Qed.
Print Assumptions C39_continue_next_iteration.

Theorem C39_continue_loop_goes_on : forall body nm k i o,
  body i = (o, SCont nm) ->
  ref_loop body nm (S k) i = (o ++ fst (ref_loop body nm k (i + 1)), snd (ref_loop body nm k (i + 1))).
Proof. exact continue_loop_goes_on. Qed.
Print Assumptions C39_continue_loop_goes_on.

Theorem C39_return_sets_exit : forall main o k, well_named main = true ->
  ref_block [] main = (o, SRet k) -> run_cancel main = (o, k).
Proof. exact return_sets_exit. Qed.
Print Assumptions C39_return_sets_exit.

Theorem C39_return_sets_call_exit : forall e f b encl st o x o1 k,
  all_live st = true -> map f_name st = encl -> encl <> [] -> wn_block [NFunc f] b = true ->
  ref_block [] b = (o1, SRet k) ->
  exec_stmt e (Call f b) {| c_stack := st; c_out := o; c_exit := x |}
  = {| c_stack := st; c_out := o ++ o1 ++ [TExit k]; c_exit := x |}.
Proof. exact return_sets_call_exit. Qed.
Print Assumptions C39_return_sets_call_exit.

Theorem C39_outside_unaffected : forall e s encl st o x,
  all_live st = true -> map f_name st = encl -> encl <> [] -> wn_stmt encl s = true ->
  snd (ref_stmt e s) = SNone ->
  exec_stmt e s {| c_stack := st; c_out := o; c_exit := x |}
  = {| c_stack := st; c_out := o ++ fst (ref_stmt e s); c_exit := x |}.
Proof. exact outside_unaffected. Qed.
Print Assumptions C39_outside_unaffected.

(* The function boundary.  A break / continue / return executed inside a called function - also
   one whose name only a block of the CALLER has - never reaches the caller: the caller's frames
   and exit number are what they were, and for the caller the call is an ordinary statement.
   (well_named asks nothing of the name of a break or continue, so C39_cancel_refines_signals
   covers programs with such jumps: the function is abandoned, the caller carries on.) *)
Theorem C39_break_does_not_cross_function : forall e f b st o x,
  c_stack (exec_stmt e (Call f b) {| c_stack := st; c_out := o; c_exit := x |}) = st /\
  c_exit (exec_stmt e (Call f b) {| c_stack := st; c_out := o; c_exit := x |}) = x /\
  snd (ref_stmt e (Call f b)) = SNone.
Proof. exact break_does_not_cross_function. Qed.
Print Assumptions C39_break_does_not_cross_function.

Theorem C39_unresolved_break_kills_function_only : forall nm st,
  (forall G, In G st -> name_eqb (f_name G) nm = false) -> brk_walk nm st = map kill st.
Proof. exact unresolved_break_kills_function_only. Qed.
Print Assumptions C39_unresolved_break_kills_function_only.

(* the seeded witness: a helper says `break foreach`, its caller loops with foreach; the loop
   runs all its iterations; an observation in which it stopped after the first is rejected *)
Definition helper_breaks_callers_loop : block :=
  BCons (Foreach 1 3 (BCons (Call 1 (BCons (Out 1) (BCons (If CTrue (BCons (Break NForeach) BNil)) (BCons (Out 2) BNil))))
                     (BCons (Out 3) BNil)))
        (BCons (Out 4) BNil).
Example C39_function_boundary_nonvacuous :
  well_named helper_breaks_callers_loop = true /\
  run_cancel helper_breaks_callers_loop =
    ([TOut 1; TExit 0; TOut 3; TOut 1; TExit 0; TOut 3; TOut 1; TExit 0; TOut 3; TOut 4], 0%Z) /\
  spec_ok {| c_prog := helper_breaks_callers_loop; c_obs_out := [TOut 1; TOut 4]; c_obs_exit := 0%Z |} = false.
Proof. vm_compute. repeat split. Qed.

(* Headline: the model's observation satisfies the predicate the check evaluates. *)
Theorem C39_model_meets_spec : forall main, well_named main = true ->
  spec_ok {| c_prog := main; c_obs_out := fst (run_cancel main); c_obs_exit := snd (run_cancel main) |} = true.
Proof. exact model_meets_spec. Qed.
Print Assumptions C39_model_meets_spec.

(* The guard of well_named is needed: a `continue` directly in the block it names does nothing
   in the mechanism (known finding 1), so the two semantics differ. *)
Definition direct_continue : block :=
  BCons (Foreach 1 2 (BCons (Out 1) (BCons (Continue NForeach) (BCons (Out 2) BNil)))) (BCons (Out 3) BNil).
Theorem C39_direct_continue_refuted :
  well_named direct_continue = false /\ run_cancel direct_continue <> run_ref direct_continue /\
  spec_ok {| c_prog := direct_continue; c_obs_out := fst (run_cancel direct_continue);
             c_obs_exit := snd (run_cancel direct_continue) |} = false.
Proof. split; [reflexivity|]. split; [vm_compute; discriminate|reflexivity]. Qed.
Print Assumptions C39_direct_continue_refuted.

(* Non-vacuity: a well-named program with nested loops, a function, conditional continue, break
   and return; spec_ok rejects an observation in which the statement after `break` ran. *)
Definition ex_prog : block :=
  BCons (Call 1 (BCons (Foreach 1 3 (BCons (If (CEq 1 2) (BCons (Continue NForeach) BNil))
                                     (BCons (While 2 2 (BCons (If (CEq 2 2) (BCons (Break NWhile) (BCons (Out 9) BNil))) (BCons (Out 1) BNil)))
                                     (BCons (If (CEq 1 3) (BCons (Return 4) BNil)) (BCons (Out 2) BNil)))))
                (BCons (Out 3) BNil)))
        (BCons (Out 4) BNil).
Example C39_nonvacuous :
  well_named ex_prog = true /\
  run_cancel ex_prog = ([TOut 1; TOut 2; TOut 1; TExit 4; TOut 4], 0%Z) /\
  spec_ok {| c_prog := BCons (If CTrue (BCons (Break NIf) (BCons (Out 1) BNil))) (BCons (Out 2) BNil);
             c_obs_out := [TOut 1; TOut 2]; c_obs_exit := 0%Z |} = false.
Proof. vm_compute. repeat split. Qed.
