(* C24 — Flag parsing follows the declared flag table.
   Only theorem statements here; proofs live in Proof/Flags.v.
   parse_flags is the literal model of ParseFlags (the goto is a recursive call
   bounded by len(Flags) alias hops); ref_parse is the declarative reference
   parser of Check/C24.v; conv stands for types.ConvertGoType (not modelled). *)
From Coq Require Import List.
From Murex Require Import Base.Outcome Base.Bytes Model.Flags Check.C24 Proof.Flags.

(* ParseFlags is the reference parser: same flags, same additional parameters,
   error exactly when the reference reports one — for every table (alias loops
   included), switch setting, conversion function and argument list. *)
Theorem C24_flags_refines_reference : forall a conv args,
  oproj (parse_flags a conv args) = ref_parse a conv args.
Proof. exact flags_refines_reference. Qed.
Print Assumptions C24_flags_refines_reference.

(* "otherwise reports a clean error": never a panic, never a hang *)
Theorem C24_error_is_clean : forall a conv args,
  parse_flags a conv args <> Panic /\ parse_flags a conv args <> OutOfFuel.
Proof. exact error_is_clean. Qed.
Print Assumptions C24_error_is_clean.

(* everything after `--` is additional, verbatim (from any point of the scan
   where no value flag is waiting; with one waiting it is a clean error) *)
Theorem C24_double_dash_rest_additional : forall a conv s rest,
  allow_additional a = true -> ignore s = false ->
  parse_loop a conv s (dd :: rest) =
  match prev s with
  | Some _ => Err 4
  | None => Ok (flags s, additional s ++ rest)
  end.
Proof. exact double_dash_rest_additional. Qed.
Print Assumptions C24_double_dash_rest_additional.

(* alias flags are followed to their targets: the bound of len(Flags) hops never
   cuts a loop-free chain short, however long (pigeonhole) ... *)
Theorem C24_alias_bound_sufficient : forall a l p q,
  chain a l p q -> ref_resolve a p = Some q.
Proof. exact alias_bound_sufficient. Qed.
Print Assumptions C24_alias_bound_sufficient.

(* ... the chase gives up (a clean error) exactly when the aliases loop ... *)
Theorem C24_alias_loop_iff_no_chain : forall a p,
  ref_resolve a p = None <-> ~ exists l q, chain a l p q.
Proof. exact alias_loop_iff_no_chain. Qed.
Print Assumptions C24_alias_loop_iff_no_chain.

(* ... and the answer does not depend on the bound *)
Theorem C24_alias_bound_irrelevant : forall a p fuel,
  length (table a) <= fuel -> ref_chase a fuel p = ref_resolve a p.
Proof. exact alias_bound_irrelevant. Qed.
Print Assumptions C24_alias_bound_irrelevant.

(* reported values have the declared type, provided ConvertGoType returns
   values of the type it is asked for *)
Theorem C24_values_have_declared_type : forall a conv,
  (forall ty raw v, bytes_eqb ty ty_bool = false -> nonempty ty = true -> dash ty = false ->
                    conv ty raw = Some v -> vt ty v = true) ->
  forall args f ad, parse_flags a conv args = Ok (f, ad) -> forallb (value_typed a) f = true.
Proof. exact values_have_declared_type. Qed.
Print Assumptions C24_values_have_declared_type.

(* the `args` builtin never fails itself ... *)
Theorem C24_args_never_panics : forall a conv args,
  args_builtin a conv args <> Panic /\ args_builtin a conv args <> OutOfFuel.
Proof. exact args_never_panics. Qed.
Print Assumptions C24_args_never_panics.

(* ... and exposes exactly the ParseFlags result, or the error with exit number 1 *)
Theorem C24_args_exposes_result : forall a conv args,
  match parse_flags a conv args with
  | Ok (f, ad) => args_builtin a conv args =
                  Ok {| ao_flags := map (fun kv => (fst kv, json_kind (snd kv))) f;
                        ao_additional := ad; ao_error := false; ao_exit := 0 |}
  | _ => args_builtin a conv args =
         Ok {| ao_flags := []; ao_additional := []; ao_error := true; ao_exit := 1 |}
  end.
Proof. exact args_exposes_result. Qed.
Print Assumptions C24_args_exposes_result.

(* Headline: for every case, what the model does satisfies the predicate the
   check evaluates on the implementation's observations. *)
Theorem C24_model_meets_spec : forall a args oracle,
  (forall ty raw v, bytes_eqb ty ty_bool = false -> nonempty ty = true -> dash ty = false ->
                    oracle_fn oracle ty raw = Some v -> vt ty v = true) ->
  spec_ok {| c_spec := a; c_args := args; c_oracle := oracle;
             c_pf := pf_of (parse_flags a (oracle_fn oracle) args);
             c_ab := ab_of (args_builtin a (oracle_fn oracle) args) |} = true.
Proof. exact model_meets_spec. Qed.
Print Assumptions C24_model_meets_spec.

(* Non-vacuity. Table {-a -> -b, -b -> -c, -c : str}, additional allowed.
   (1) the 2-hop chain from -a exists and is resolved with bound 3;
   (2) with {-a -> -b, -b -> -a} there is no chain and the chase gives up;
   (3) spec_ok accepts the model's observation of `-a v rest` and rejects
       (a) the pre-fix behaviour of `args` on an undeclared flag (args failed
       itself), (b) a parser that forgets the alias (reports -a instead of -c). *)
Definition ex_tbl : argspec :=
  {| allow_additional := true; ignore_invalid := false; strict_placement := false;
     table := [([45;97], [45;98]); ([45;98], [45;99]); ([45;99], [115;116;114])]%N |}.
Definition ex_loop : argspec :=
  {| allow_additional := false; ignore_invalid := false; strict_placement := false;
     table := [([45;97], [45;98]); ([45;98], [45;97])]%N |}.
Definition ex_conv : conv_t := fun ty raw => Some {| fv_kind := 0; fv_text := raw |}.
Definition ex_oracle : list (bytes * bytes * option fval) :=
  [([115;116;114], [118], Some {| fv_kind := 0; fv_text := [118] |})]%N.

Example C24_nonvacuous :
  chain ex_tbl [[45;97]; [45;98]]%N [45;97]%N [45;99]%N /\
  ref_resolve ex_tbl [45;97]%N = Some [45;99]%N /\
  ref_resolve ex_loop [45;97]%N = None /\
  (let args := [[45;97]; [118]; [114]]%N in
   spec_ok {| c_spec := ex_tbl; c_args := args; c_oracle := ex_oracle;
              c_pf := pf_of (parse_flags ex_tbl (oracle_fn ex_oracle) args);
              c_ab := ab_of (args_builtin ex_tbl (oracle_fn ex_oracle) args) |} = true /\
   parse_flags ex_tbl (oracle_fn ex_oracle) args
     = Ok ([([45;99]%N, {| fv_kind := 0; fv_text := [118]%N |})], [[114]%N]) /\
   spec_ok {| c_spec := ex_tbl; c_args := args; c_oracle := ex_oracle;
              c_pf := PfOk [([45;97]%N, {| fv_kind := 0; fv_text := [118]%N |})] [[114]%N];
              c_ab := ab_of (args_builtin ex_tbl (oracle_fn ex_oracle) args) |} = false) /\
  spec_ok {| c_spec := ex_loop; c_args := [[45;121]]%N; c_oracle := [];
             c_pf := PfErr; c_ab := AbFailed |} = false.
Proof.
  split; [|vm_compute; repeat split].
  apply chain_hop; [reflexivity|]. apply chain_hop; [reflexivity|]. apply chain_stop. reflexivity.
Qed.
