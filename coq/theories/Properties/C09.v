(* C09 -- Quoted string literals evaluate to exactly their contents.
   Statements only; proofs are in Proof/QuoteDecode.v. *)
From Murex Require Import Base.Outcome Base.Bytes Model.StmtParse Check.C09 Proof.QuoteDecode.
Open Scope N_scope.

(* 'single quotes': every string without a single quote, any length, both positions *)
Theorem C09_single_roundtrip : forall cf e stmt s,
  ~ In 39 s -> lit_value cf e QSingle stmt (enc_single s) = Ok s.
Proof. exact single_roundtrip. Qed.
Print Assumptions C09_single_roundtrip.

(* double quotes: EVERY string, whatever the environment holds (the encoder
   escapes backslash, double quote, dollar and tilde; with ws = true blanks are written \s \t \r \n) *)
Theorem C09_double_roundtrip : forall cf e stmt ws s,
  lit_value cf e QDouble stmt (enc_double ws s) = Ok s.
Proof. exact double_roundtrip. Qed.
Print Assumptions C09_double_roundtrip.

(* the only escapes inside double quotes *)
Theorem C09_double_escapes_exact : forall c,
  unescape c = (if c =? 115 then 32 else if c =? 116 then 9 else if c =? 114 then 13
                else if c =? 110 then 10 else c).
Proof. exact double_escapes_exact. Qed.
Print Assumptions C09_double_escapes_exact.

(* brace quotes, expression position, no parentheses: exact whatever {TOKENS} occur *)
Theorem C09_brace_roundtrip_expr_flat : forall cf e s,
  forallb flat_char s = true -> lit_value cf e QBrace false (enc_brace s) = Ok s.
Proof. exact brace_roundtrip_expr_flat. Qed.
Print Assumptions C09_brace_roundtrip_expr_flat.

(* brace quotes, statement position: the value is the ANSI expansion of the contents ... *)
Theorem C09_brace_stmt_flat_is_expansion : forall cf e s,
  forallb flat_char s = true ->
  lit_value cf e QBrace true (enc_brace s) = Ok (expand_consts (c_ansi cf) s).
Proof. exact brace_stmt_flat_is_expansion. Qed.
Print Assumptions C09_brace_stmt_flat_is_expansion.

(* ... so it is exact precisely when no {NAME} token names a known constant *)
Theorem C09_brace_roundtrip_stmt_flat : forall cf e s,
  forallb flat_char s = true -> unknown_tokens (c_ansi cf) s = true ->
  lit_value cf e QBrace true (enc_brace s) = Ok s.
Proof. exact brace_roundtrip_stmt_flat. Qed.
Print Assumptions C09_brace_roundtrip_stmt_flat.

(* balanced parentheses to any depth, both positions, no open curly bracket *)
Theorem C09_brace_roundtrip_nested : forall cf e stmt s,
  brace_dom s = true -> ~ In 123 s -> lit_value cf e QBrace stmt (enc_brace s) = Ok s.
Proof. exact brace_roundtrip_nested. Qed.
Print Assumptions C09_brace_roundtrip_nested.

(* headline: the case the model produces satisfies the predicate the check
   evaluates on the implementation's observations *)
Theorem C09_model_meets_spec : forall k ws s e home nc,
  match k with QBrace => brace_guard home nc s | _ => True end ->
  spec_ok (model_case k ws s e home nc) = true.
Proof. exact model_meets_spec. Qed.
Print Assumptions C09_model_meets_spec.

(* F09 (known finding 1): the guard is needed *)
Theorem C09_brace_roundtrip_refuted :
  exists s, in_domain QBrace s = true /\
            spec_ok (model_case QBrace false s {| e_scalars := []; e_arrays := [] |} [] false) = false /\
            classify (model_case QBrace false s {| e_scalars := []; e_arrays := [] |} [] false) = 1.
Proof. exact brace_roundtrip_refuted. Qed.
Print Assumptions C09_brace_roundtrip_refuted.

(* non-vacuity: the guards are met by non-trivial strings, and spec_ok rejects a
   wrong observation (the pre-fix behaviour: the encoding of a, double quote, b failed to parse) *)
Example C09_nonvacuous :
  brace_dom [40; 97; 40; 41; 41; 59] = true /\ ~ In 123 [40; 97; 40; 41; 41; 59] /\
  brace_guard [] false [97; 123; 78; 79; 125] /\
  spec_ok {| k_kind := QDouble; k_str := [97; 34; 98]; k_encoded := true; k_ws := false;
             k_lit := enc_double false [97; 34; 98];
             k_env := {| e_scalars := []; e_arrays := [] |}; k_home := []; k_nocolour := false;
             k_stmt := None; k_expr := None; k_e2e := true |} = false.
Proof.
  split; [reflexivity|]. split; [intro H; cbn in H; intuition discriminate|].
  split; [right; split; reflexivity | reflexivity].
Qed.
