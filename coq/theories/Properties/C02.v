(* C02 — A pipe's data type is set once and never changes.
   Only theorem statements here; proofs live in Proof/StreamsC02.v.  All
   statements are about Model/Streams.v (the LTS of streams.Stdin whose steps are
   the atomic actions of the Go code) for ARBITRARY thread programs, number of
   threads and schedule. *)
From Coq Require Import List NArith ZArith Bool.
From Murex Require Import Base.Bytes Gen.StreamsTables Model.Streams Check.C02 Proof.StreamsC02.
Import ListNotations.
Open Scope N_scope.

(* The constants of the Go source (regenerated on every run into Gen/StreamsTables.v)
   are the ones the property text names: `null` and `*`. *)
Theorem C02_constants : types_null = lit_null /\ types_generic = lit_generic.
Proof. exact (conj null_is_null generic_is_star). Qed.
Print Assumptions C02_constants.

(* 1. Write-once: from any state in which a type is set, no schedule of any
   programs changes it. *)
Theorem C02_dt_write_once : forall sched y os yf,
  exec y sched = (os, yf) -> all_wf (thr y) -> sdt (sh y) <> [] -> sdt (sh yf) = sdt (sh y).
Proof. exact dt_write_once. Qed.
Print Assumptions C02_dt_write_once.

(* 2. First wins: at the end of every run the pipe's type is the argument of the
   first SetDataType step (in step order) whose argument is neither "" nor
   "null"; unset if there was none. *)
Theorem C02_dt_first_wins : forall max progs sched os yf,
  exec (init_sys max progs) sched = (os, yf) -> sdt (sh yf) = first_declared os.
Proof. exact dt_first_wins. Qed.
Print Assumptions C02_dt_first_wins.

(* 3. Every GetDataType that returns during a run returns the FINAL type of the
   run; or `*`, and then only from a state with no type declared in which every
   writer had closed (or the pipe was cancelled). *)
Theorem C02_get_returns_final : forall max progs sched os yf,
  exec (init_sys max progs) sched = (os, yf) -> Forall (get_final_ok (sdt (sh yf))) os.
Proof. exact get_returns_final. Qed.
Print Assumptions C02_get_returns_final.

(* 4. Waiting and termination (enabledness; fairness of the Go scheduler is
   outside the model): with no type declared, a writer open and no cancellation
   GetDataType only polls; as soon as a type is declared or all writers have
   closed or the pipe is cancelled it returns within its next two steps. *)
Theorem C02_get_waits : forall s,
  sdt s = [] -> closed s = false -> canc s = false ->
  step_pc s PGSel = (s, PGPoll, EvTau) /\ step_pc s PGPoll = (s, PGSel, EvTau).
Proof. exact get_waits. Qed.
Print Assumptions C02_get_waits.

Theorem C02_get_terminates_if : forall s,
  sdt s <> [] \/ closed s = true \/ canc s = true ->
  (exists t, step_pc s PGSel = (s, PIdle, EvDT t)) \/
  (step_pc s PGSel = (s, PGPoll, EvTau) /\ exists t, step_pc s PGPoll = (s, PIdle, EvDT t)).
Proof. exact get_terminates_if. Qed.
Print Assumptions C02_get_terminates_if.

(* "" and "null" are ignored without touching the pipe *)
Theorem C02_setdt_ignored : forall t,
  t = [] \/ t = lit_null -> begin_op (OSetDT t) = (PIdle, EvSetDT t).
Proof. exact setdt_ignored. Qed.
Print Assumptions C02_setdt_ignored.

(* 5. Headline: for every set of thread programs and every schedule the model's
   run satisfies the predicate `spec_ok` that the check evaluates on the
   implementation's observations (after EVERY step the pipe's type is the first
   valid declaration so far; GetDataType returns it, or `*` only when closed or
   cancelled with none declared). *)
Theorem C02_model_meets_spec : forall max progs sched,
  spec_ok (Ctl max progs sched (run_ctl max progs sched)) = true.
Proof. exact model_meets_spec. Qed.
Print Assumptions C02_model_meets_spec.

(* Non-vacuity.  (a) A race of two setters with a getter polling before any type
   is declared: thread 1's "json" is declared first and wins over thread 0's
   "str"; "" and "null" are ignored; the getter waits (polls) and then returns
   "json"; a later getter sees the same. *)
Example C02_race_nonvacuous :
  let json := [106;115;111;110] in let str := [115;116;114] in
  let o := run_ctl 8 [[OOpen; OSetDT []; OSetDT lit_null; OSetDT str; OClose];
                      [OSetDT json]; [OGetDT; OGetDT]]
                   [0;0; 2;2;2;2;2; 0;0;0; 1;1; 0; 2;2; 0;0; 2;2;2]%nat in
  map (fun x => os_ev x) (filter (fun x => match os_ev x with EvDT _ => true | _ => false end) (co_steps o))
    = [EvDT json; EvDT json] /\
  existsb (fun x => match os_ev x, os_pt x with EvTau, 20 => true | _, _ => false end) (co_steps o) = true.
Proof. vm_compute. split; reflexivity. Qed.

(* (b) spec_ok is not trivially true: it rejects a pipe whose type changes on a
   second SetDataType, and a GetDataType that returns `*` while a writer is open. *)
Example C02_nonvacuous :
  spec_ok (Ctl 8 [[OSetDT [97]; OSetDT [98]]] [0;0;0;0]%nat
    (mkCtlObs [mkOStep 0 EvTau (mkSnap 0 0 0 0%Z false 8 []);
               mkOStep 5 (EvSetDT [97]) (mkSnap 0 0 0 0%Z false 8 [97]);
               mkOStep 0 EvTau (mkSnap 0 0 0 0%Z false 8 [97]);
               mkOStep 5 (EvSetDT [98]) (mkSnap 0 0 0 0%Z false 8 [98])] [])) = false
  /\
  spec_ok (Ctl 8 [[OOpen; OGetDT]] [0;0;0;0;0]%nat
    (mkCtlObs [mkOStep 0 EvTau (mkSnap 0 0 0 0%Z false 8 []);
               mkOStep 1 EvUnit (mkSnap 0 0 0 1%Z false 8 []);
               mkOStep 0 EvTau (mkSnap 0 0 0 1%Z false 8 []);
               mkOStep 19 EvTau (mkSnap 0 0 0 1%Z false 8 []);
               mkOStep 20 (EvDT [42]) (mkSnap 0 0 0 1%Z false 8 [])] [])) = false.
Proof. vm_compute. split; reflexivity. Qed.
