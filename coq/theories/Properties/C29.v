(* C29 — Shell history survives restarts and crashes.
   Only theorem statements here; proofs live in Proof/HistoryChunks.v and Proof/History.v. *)
From Murex Require Import Base.Bytes Model.History Check.C29 Proof.HistoryChunks Proof.History.
Open Scope N_scope.

(* One record is one line: json.Marshal's output contains no raw newline (every command, any
   bytes), so a record can never be split in two by the line reader. *)
Theorem C29_record_has_no_newline : forall ts blk,
  ts_ok ts = true -> ~ In 10 (encode_record ts blk).
Proof. exact record_has_no_newline. Qed.
Print Assumptions C29_record_has_no_newline.

(* Decoding a record gives the command back: every byte of it when it is UTF-8; bytes that are
   not UTF-8 come back as U+FFFD (coerce), nothing else changes. Any length. *)
Theorem C29_decode_encode : forall ts blk,
  ts_ok ts = true -> decode_line (encode_record ts blk) = Some (coerce blk).
Proof. exact decode_encode. Qed.
Print Assumptions C29_decode_encode.

Theorem C29_decode_encode_utf8 : forall ts blk,
  ts_ok ts = true -> utf8_valid blk = true -> decode_line (encode_record ts blk) = Some blk.
Proof. exact decode_encode_valid. Qed.
Print Assumptions C29_decode_encode_utf8.

(* Reload after any sequence of writes onto ANY existing file (even one with a torn tail):
   the entries that were readable before, then exactly the new commands, in order. *)
Theorem C29_reload_appends : forall ws f,
  forallb wr_ok ws = true -> load (fold_left write1 ws f) = load f ++ entries ws.
Proof. exact load_writes. Qed.
Print Assumptions C29_reload_appends.

Theorem C29_reload_exact : forall ws,
  forallb wr_ok ws = true -> load (fold_left write1 ws []) = entries ws.
Proof. exact reload_exact. Qed.
Print Assumptions C29_reload_exact.

(* A torn record is never mistaken for an entry: no strict prefix of a record decodes. *)
Theorem C29_torn_prefix_undecodable : forall ts blk p,
  ts_ok ts = true -> strict_prefix p (encode_record ts blk) -> decode_line p = None.
Proof. exact decode_strict_prefix. Qed.
Print Assumptions C29_torn_prefix_undecodable.

(* Crash theorem.  A write onto any file f dies after any prefix q of the bytes it appends
   (delta f w = optional separator, record, newline); later sessions write ws'.  Reload returns
   the entries of f, then ws' — plus the torn entry itself exactly when its whole record had
   reached the disk.  Nothing before or after the torn write is ever lost. *)
Theorem C29_crash_loses_at_most_current : forall f w q ws',
  wr_ok w = true -> forallb wr_ok ws' = true -> prefix q (delta f w) ->
  (strict_prefix q (sep f ++ record_of w) ->
     load (fold_left write1 ws' (f ++ q)) = load f ++ entries ws') /\
  (prefix (sep f ++ record_of w) q ->
     load (fold_left write1 ws' (f ++ q)) = load f ++ entry_of w ++ entries ws').
Proof. exact crash_then_writes. Qed.
Print Assumptions C29_crash_loses_at_most_current.

(* Headline: for every list of sessions (any number of sessions, writes, any commands, any
   crash offsets) what the model produces satisfies the predicate the check evaluates on the
   implementation's observations. *)
Theorem C29_model_meets_spec : forall ss,
  sessions_ok ss = true -> spec_ok (model_case ss) = true.
Proof. exact model_meets_spec. Qed.
Print Assumptions C29_model_meets_spec.

(* The writer as it was before fix F29b violates the crash theorem: the entry written AFTER
   a torn one is lost. *)
Theorem C29_old_writer_refuted :
  exists f w, wr_ok w = true /\ load (write1_old f w) = load f /\ entry_of w <> [].
Proof. exact old_writer_refuted. Qed.
Print Assumptions C29_old_writer_refuted.

(* Non-vacuity: a concrete history with a torn write satisfies the guard and the predicate;
   and spec_ok rejects the observation the unfixed code produced for it (entry "third",
   written after the crash, missing). *)
Definition ex_ts : bytes := [50;48;50;54;45;48;57;45;50;49;84;50;51;58;52;55;58;53;56;90].
Definition ex_w (c : bytes) : cwr := {| cw_ts := ex_ts; cw_cmd := [(1, c)] |}.
Definition ex_ss : list csession :=
  [ {| cs_writes := [ex_w [102;105;114;115;116]];
       cs_torn := Some (ex_w [115;101;99;111;110;100], 47) |};
    {| cs_writes := [ex_w [116;104;105;114;100]; ex_w [102;111;117;114;116;104]]; cs_torn := None |} ].

Example C29_nonvacuous :
  sessions_ok ex_ss = true /\
  c_obs_load (model_case ex_ss) =
    [Lit [102;105;114;115;116]; Lit [116;104;105;114;100]; Lit [102;111;117;114;116;104]] /\
  spec_ok {| c_sessions := ex_ss; c_obs_mem := []; c_obs_file := Lit [];
             c_obs_load := [Lit [102;105;114;115;116]; Lit [102;111;117;114;116;104]] |} = false.
Proof. vm_compute. repeat split; reflexivity. Qed.
