(* C20 — Parsing any text terminates without panicking.
   Only theorem statements here; proofs live in Proof/TokHighlight.v (tokenizer)
   and Proof/BlockParse.v (block parser dispatcher). *)
From Murex Require Import Base.Outcome Base.Bytes Model.Tokenizer Model.BlockParse Check.C20
  Proof.TokHighlight Proof.BlockParse.

(* Tokenizer (utils/parser.Parse, used by highlighting, hints and autocompletion):
   for EVERY rune list and every pos the model returns a value — it is a total
   structural recursion over the runes (termination) and none of its explicit
   Panic sites (reset[len-1] on an empty stack, hlBlock[n % len], skipping past
   the end) is reachable. *)
Theorem C20_tokenizer_total : forall block pos, exists r, parse block pos = Ok r.
Proof. exact parse_total. Qed.
Print Assumptions C20_tokenizer_total.

(* ... so the predicate evaluated on the implementation holds of the model's outcome *)
Theorem C20_tokenizer_meets_spec : forall block pos,
  exists r, parse block pos = Ok r /\
    spec_ok (TokCase block pos (oclass (parse block pos)) (render (r_hl r))) = true.
Proof.
  intros block pos. destruct (parse_total block pos) as [r E]. exists r. split; [exact E|].
  rewrite E. reflexivity.
Qed.
Print Assumptions C20_tokenizer_meets_spec.

(* Block parser (BlockT.ParseBlock): for EVERY input and EVERY table of sub-parser
   results that satisfies the stop-set contract (each successful pre-parse returns a
   non-negative position at end of input or just before \n ; | ? # && => ~> >> ->)
   the dispatcher returns a tree or a syntax error: neither blk.panic site is
   reachable and the loop ends; length + 1 iterations suffice. *)
Theorem C20_block_terminates_no_panic : forall src orc,
  contract_b src orc = true ->
  returns (blk_go (length src + 1) src orc init_bst) /\ returns (parse_block src orc).
Proof. intros src orc C. split; [exact (block_safe_min src orc C)|exact (block_safe src orc C)]. Qed.
Print Assumptions C20_block_terminates_no_panic.

(* Non-vacuity: a table satisfying the contract exists for a two-statement block
   (`a;b`: pre-parse at 0 stops before `;`, at 2 stops at the end) and gives two
   functions; a table that violates it (pre-parse does not advance: -1) makes the
   model hang, a pending statement followed by a lone `&` makes it panic, and
   spec_ok rejects hang and panic observations. *)
Example C20_nonvacuous :
  let good := mk_oracle [OOk 0%Z; OUnknown; OOk 0%Z] [OUnknown; OUnknown; OUnknown] in
  contract_b [97; 59; 98]%N good = true /\
  parse_block [97; 59; 98]%N good = Ok 2%N /\
  parse_block [97]%N (mk_oracle [OOk (-1)%Z] [OUnknown]) = OutOfFuel /\
  parse_block [97; 32; 38]%N (mk_oracle [OOk 0%Z; OUnknown; OUnknown] [OUnknown; OUnknown; OUnknown]) = Panic /\
  spec_ok (BlkCase [111; 117; 116; 32; 40]%N (mk_oracle [OHang; OHang; OHang; OUnknown; OHang] []) 3%N 0%N) = false /\
  spec_ok (TokCase [97]%N 0%Z 2%N []) = false.
Proof. vm_compute. repeat split. Qed.
