(* C31 — The test framework passes a unit test only if every assertion holds.
   Only theorem statements here; proofs live in Proof/UnitTest.v. *)
From Murex Require Import Base.Bytes Model.UnitTest Check.C31 Proof.UnitTest.

(* For every regexp / unmarshal behaviour, every plan and every actual outcome: the verdict
   runTest computes is "passed" exactly when every assertion of the plan holds. *)
Theorem C31_verdict_iff_all_assertions : forall rx unmarshal p a,
  verdict rx unmarshal p a = true <-> Forall (fun b => b = true) (assertions rx unmarshal p a).
Proof. exact verdict_iff. Qed.
Print Assumptions C31_verdict_iff_all_assertions.

(* No assertion is silently ignored: whichever single assertion (by position in the list)
   fails, the test is reported failed. *)
Theorem C31_any_failing_assertion_fails : forall rx unmarshal p a i,
  nth i (assertions rx unmarshal p a) true = false -> verdict rx unmarshal p a = false.
Proof. exact any_failing_assertion_fails. Qed.
Print Assumptions C31_any_failing_assertion_fails.

(* the exit number `test run` leaves is 0 exactly for "passed" *)
Theorem C31_exit_zero_iff_passed : forall rx unmarshal p a,
  run_exit rx unmarshal p a = 0%Z <-> verdict rx unmarshal p a = true.
Proof. exact run_exit_zero_iff. Qed.
Print Assumptions C31_exit_zero_iff_passed.

(* Headline: the model's verdict satisfies the predicate the check evaluates on the
   implementation's verdicts, for every plan, outcome and oracle answers. *)
Theorem C31_model_meets_spec : forall p a ro re so se, spec_ok (mk_case p a ro re so se) = true.
Proof. exact model_meets_spec. Qed.
Print Assumptions C31_model_meets_spec.

(* Non-vacuity.  A plan asserting EVERYTHING and an outcome satisfying it pass; and for each
   of the 17 assertions there is a variant in which exactly that assertion is false and the
   verdict is "failed" (so each field really is looked at); spec_ok rejects a wrong verdict. *)
Definition t_rx (pat subj : bytes) : rx_result :=
  match pat with 0%N :: _ => RxCompileErr | _ => if bytes_eqb pat subj then RxMatch else RxNoMatch end.
Definition t_um (b dt : bytes) : shape :=
  match b with
  | 91%N :: _ => ShVal true false (Some 3%Z)      (* [ *)
  | 123%N :: _ => ShVal false true (Some 3%Z)     (* { *)
  | _ => ShErr
  end.
Definition s_out : bytes := [91;49;93]%N.  Definition s_err : bytes := [91;50;93]%N.
Definition s_json : bytes := [106]%N.  Definition s_code : bytes := [111]%N.
Definition p0 : plan :=
  {| p_exit := 3; p_out_match := s_out; p_out_regex := s_out; p_out_type := s_json;
     p_out_block := s_code; p_out_is_array := true; p_out_is_map := false; p_out_gt := 3;
     p_err_match := s_err; p_err_regex := s_err; p_err_type := s_json; p_err_block := s_code;
     p_err_is_array := true; p_err_is_map := false; p_pre := s_code; p_post := s_code |}.
Definition a0 : actual :=
  {| a_fn_ran := true; a_exit := 3; a_stdout := s_out; a_out_type := s_json;
     a_stderr := s_err; a_err_type := s_json; a_pre := BlkRan 1 true; a_post := BlkRan 0 true;
     a_out_block := BlkRan 0 true; a_err_block := BlkRan 0 true |}.
Definition set_out (a : actual) (s : bytes) := {| a_fn_ran := a_fn_ran a; a_exit := a_exit a; a_stdout := s; a_out_type := a_out_type a; a_stderr := a_stderr a; a_err_type := a_err_type a; a_pre := a_pre a; a_post := a_post a; a_out_block := a_out_block a; a_err_block := a_err_block a |}.

(* position of the only false assertion, or None when none/several are false *)
Fixpoint only_false (l : list bool) (i : nat) : option nat :=
  match l with
  | [] => None
  | true :: l' => only_false l' (S i)
  | false :: l' => if forallb (fun b => b) l' then Some i else None
  end.
Definition probe (p : plan) (a : actual) : option nat * bool :=
  (only_false (assertions t_rx t_um p a) 0, verdict t_rx t_um p a).

Definition variants : list (plan * actual) :=
  let mk_a f e o ot er et pre post ob eb :=
      {| a_fn_ran := f; a_exit := e; a_stdout := o; a_out_type := ot; a_stderr := er;
         a_err_type := et; a_pre := pre; a_post := post; a_out_block := ob; a_err_block := eb |} in
  let ok := BlkRan 0 true in
  let mk_p om orx ot oa omp og em erx et ea emp :=
      {| p_exit := 3; p_out_match := om; p_out_regex := orx; p_out_type := ot; p_out_block := s_code;
         p_out_is_array := oa; p_out_is_map := omp; p_out_gt := og;
         p_err_match := em; p_err_regex := erx; p_err_type := et; p_err_block := s_code;
         p_err_is_array := ea; p_err_is_map := emp; p_pre := s_code; p_post := s_code |} in
  [ (p0, mk_a false 3%Z s_out s_json s_err s_json ok ok ok ok);                 (* 0 function *)
    (p0, mk_a true 4%Z s_out s_json s_err s_json ok ok ok ok);                  (* 1 exit *)
    (mk_p [91;93]%N s_out s_json true false 3%Z s_err s_err s_json true false, a0);   (* 2 StdoutMatch *)
    (mk_p s_out [120]%N s_json true false 3%Z s_err s_err s_json true false, a0);      (* 3 StdoutRegex *)
    (mk_p s_out s_out [120]%N true false 3%Z s_err s_err s_json true false, a0);       (* 4 StdoutType *)
    (mk_p [] [] s_json true false 0%Z s_err s_err s_json true false, set_out a0 [123;125]%N);  (* 5 StdoutIsArray *)
    (mk_p s_out s_out s_json true true 3%Z s_err s_err s_json true false, a0);         (* 6 StdoutIsMap *)
    (mk_p s_out s_out s_json true false 4%Z s_err s_err s_json true false, a0);        (* 7 StdoutGreaterThan *)
    (p0, mk_a true 3%Z s_out s_json s_err s_json ok ok (BlkRan 1 true) ok);            (* 8 StdoutBlock *)
    (mk_p s_out s_out s_json true false 3%Z [91]%N [] s_json true false, a0);          (* 9 StderrMatch *)
    (mk_p s_out s_out s_json true false 3%Z s_err [0]%N s_json true false, a0);        (* 10 StderrRegex *)
    (mk_p s_out s_out s_json true false 3%Z s_err s_err [120]%N true false, a0);       (* 11 StderrType *)
    (mk_p s_out s_out s_json true false 3%Z [] [] s_json true false,
       mk_a true 3%Z s_out s_json [] s_json ok ok ok ok);                              (* 9 again: see below *)
    (mk_p s_out s_out s_json true false 3%Z s_err s_err s_json true true, a0);         (* 13 StderrIsMap *)
    (p0, mk_a true 3%Z s_out s_json s_err s_json ok ok ok BlkCompileErr);              (* 14 StderrBlock *)
    (p0, mk_a true 3%Z s_out s_json s_err s_json (BlkRan 0 false) ok ok ok);           (* 15 PreBlock *)
    (p0, mk_a true 3%Z s_out s_json s_err s_json ok BlkCompileErr ok ok) ].            (* 16 PostBlock *)

Example C31_nonvacuous :
  probe p0 a0 = (None, true) /\
  map (fun v => probe (fst v) (snd v)) variants =
    [ (Some 0, false); (Some 1, false); (Some 2, false); (Some 3, false); (Some 4, false);
      (Some 5, false); (Some 6, false); (Some 7, false); (Some 8, false); (Some 9, false);
      (Some 10, false); (Some 11, false); (Some 12, false); (Some 13, false); (Some 14, false);
      (Some 15, false); (Some 16, false) ]%nat /\
  (* default stderr rule: no StderrMatch, no StderrRegex, but something on stderr *)
  probe {| p_exit := 0; p_out_match := []; p_out_regex := []; p_out_type := []; p_out_block := [];
           p_out_is_array := false; p_out_is_map := false; p_out_gt := 0; p_err_match := [];
           p_err_regex := []; p_err_type := []; p_err_block := []; p_err_is_array := false;
           p_err_is_map := false; p_pre := []; p_post := [] |}
        {| a_fn_ran := true; a_exit := 0; a_stdout := []; a_out_type := []; a_stderr := [33]%N;
           a_err_type := []; a_pre := BlkCompileErr; a_post := BlkCompileErr;
           a_out_block := BlkCompileErr; a_err_block := BlkCompileErr |} = (Some 9%nat, false) /\
  (* spec_ok is not trivially true: "passed" reported although the exit number differs *)
  spec_ok {| c_plan := p0; c_actual := {| a_fn_ran := true; a_exit := 4; a_stdout := s_out;
               a_out_type := s_json; a_stderr := s_err; a_err_type := s_json; a_pre := BlkRan 0 true;
               a_post := BlkRan 0 true; a_out_block := BlkRan 0 true; a_err_block := BlkRan 0 true |};
             c_rx_out := RxMatch; c_rx_err := RxMatch; c_sh_out := ShVal true false (Some 3%Z);
             c_sh_err := ShVal true false (Some 3%Z); c_obs_passed := true; c_obs_exit := 0%Z |} = false.
Proof. vm_compute. repeat split; reflexivity. Qed.
