(* C23 — Function parameters are bound and typed as declared.
   Only theorem statements here; proofs live in Proof/FuncParams.v. *)
From Murex Require Import Base.Outcome Base.Bytes Model.FuncParams Check.C23 Proof.FuncParams.
Local Open Scope N_scope.

(* Printing a well-formed parameter list (any length; names / types over the identifier
   alphabet, defaults / descriptions free of their closing delimiter, new line, CR and tab,
   mandatory before optional) and parsing the text gives the list back. *)
Theorem C23_sig_print_parse : forall ps, wf_sig ps = true -> parse_sig (print_sig ps) = Ok ps.
Proof. exact sig_print_parse. Qed.
Print Assumptions C23_sig_print_parse.

(* The parser accepts exactly the documented grammar: for EVERY text, the parser succeeds iff
   the automaton of the documented grammar (Model/FuncParams.v: dstep) accepts it. *)
Theorem C23_parse_accepts_exactly : forall t, is_ok (parse_sig t) = doc_accepts t.
Proof. exact parse_accepts_exactly. Qed.
Print Assumptions C23_parse_accepts_exactly.

(* castParameters, for every conversion function conv (types.ConvertGoType is not modelled):
   each supplied argument is bound to its named variable converted to the declared type *)
Theorem C23_bind_supplied : forall conv pre p post args e s,
  bind conv (pre ++ p :: post) args = Ok e ->
  nth_error args (length pre) = Some s -> other_names (p_name p) post ->
  exists v, conv (p_type p) s = Some v /\ lookup e (p_name p) = Some (p_type p, v).
Proof. exact bind_supplied. Qed.
Print Assumptions C23_bind_supplied.

(* a missing optional parameter gets its default *)
Theorem C23_bind_default : forall conv pre p post args e,
  bind conv (pre ++ p :: post) args = Ok e ->
  nth_error args (length pre) = None -> p_opt p = true -> p_hasdef p = true ->
  other_names (p_name p) post ->
  exists v, conv (p_type p) (p_default p) = Some v /\ lookup e (p_name p) = Some (p_type p, v).
Proof. exact bind_default. Qed.
Print Assumptions C23_bind_default.

(* ... or stays unset without one *)
Theorem C23_bind_unset : forall conv pre p post args e,
  bind conv (pre ++ p :: post) args = Ok e ->
  nth_error args (length pre) = None -> p_opt p = true -> p_hasdef p = false ->
  other_names (p_name p) pre -> other_names (p_name p) post ->
  lookup e (p_name p) = None.
Proof. exact bind_unset. Qed.
Print Assumptions C23_bind_unset.

(* an argument (or default) that cannot be converted fails the call before the body runs *)
Theorem C23_bind_fails_before_body : forall conv pre p post args s,
  (nth_error args (length pre) = Some s \/
   (nth_error args (length pre) = None /\ p_opt p = true /\ p_hasdef p = true /\ s = p_default p)) ->
  conv (p_type p) s = None ->
  (forall e, bind conv (pre ++ p :: post) args <> Ok e) /\
  match call conv (pre ++ p :: post) args with Ok o => o_body o = false /\ o_exit_zero o = false | _ => True end.
Proof. exact bind_fails_before_body. Qed.
Print Assumptions C23_bind_fails_before_body.

(* Headline: for every text, argument list and conversion table the model's observation
   satisfies the predicate that the check evaluates on the implementation (and agrees with
   itself); when the text is the print of a well-formed list, that list is what is parsed. *)
Theorem C23_model_meets_spec : forall sig expect args tbl,
  match expect with Some ps => wf_sig ps = true /\ sig = print_sig ps | None => True end ->
  conv_plain_ok tbl = true ->
  spec_ok (model_case sig expect args tbl) = true /\ agree (model_case sig expect args tbl) = true.
Proof. exact model_meets_spec. Qed.
Print Assumptions C23_model_meets_spec.

(* ---- non-vacuity ---- *)
Definition ex_a : param := {| p_name := [97]; p_type := [105;110;116]; p_desc := [104;105;33]; p_default := [53];
                             p_hasdef := true; p_opt := false |}.
Definition ex_b : param := {| p_name := [98]; p_type := [110;117;109]; p_desc := []; p_default := [];
                             p_hasdef := false; p_opt := true |}.
(* a: int [5] "hi!", !b: num *)
Example C23_roundtrip_nonvacuous :
  wf_sig [ex_a; ex_b] = true /\ parse_sig (print_sig [ex_a; ex_b]) = Ok [ex_a; ex_b] /\
  (* the grammar automaton is not trivial: the pre-fix behaviours are outside / inside it *)
  doc_accepts [110;97;91;109;101] = false /\            (* na[me *)
  doc_accepts [97;58;32;115;116;114;10] = true /\       (* a: str NL *)
  doc_accepts [97;58;115;32;44;98] = true.              (* a:s ,b *)
Proof. vm_compute. repeat split. Qed.

Definition ex_conv (ty s : list N) : option (list N) :=
  if bytes_eqb ty [105;110;116] && negb (forallb is_digit s) then None else Some s.
(* spec_ok can be false: it rejects a body that ran although "x" is not an int, a dropped
   binding, and an acceptance outside the grammar *)
Example C23_spec_nonvacuous :
  spec_ok {| c_sig := [97;58;32;105;110;116]; c_expect := None; c_parse := Some [ {| p_name := [97]; p_type := [105;110;116]; p_desc := []; p_default := []; p_hasdef := false; p_opt := false |} ];
             c_panic := false; c_args := [[120]]; c_conv := [([105;110;116], [120], None)];
             c_call := Some {| o_body := true; o_exit_zero := true; o_vars := [None] |} |} = false /\
  spec_ok {| c_sig := [97;58;32;105;110;116]; c_expect := None; c_parse := Some [ {| p_name := [97]; p_type := [105;110;116]; p_desc := []; p_default := []; p_hasdef := false; p_opt := false |} ];
             c_panic := false; c_args := [[55]]; c_conv := [([105;110;116], [55], Some [55])];
             c_call := Some {| o_body := true; o_exit_zero := true; o_vars := [None] |} |} = false /\
  spec_ok {| c_sig := [110;97;91;109;101]; c_expect := None; c_parse := Some [ {| p_name := [110;97;109;101]; p_type := [115;116;114]; p_desc := []; p_default := []; p_hasdef := false; p_opt := false |} ];
             c_panic := false; c_args := []; c_conv := []; c_call := None |} = false /\
  (exists e, bind ex_conv [ex_a; ex_b] [[55]] = Ok e /\ lookup e [97] = Some ([105;110;116], [55]) /\ lookup e [98] = None) /\
  (exists k, bind ex_conv [ex_a; ex_b] [[120]] = Err k).
Proof.
  repeat split; try (vm_compute; reflexivity).
  - eexists. vm_compute. repeat split.
  - eexists. vm_compute. reflexivity.
Qed.
