(* C35 — case type, correspondence predicate and property predicate.
   Depends on the model only. *)
From Murex Require Export Base.Outcome Base.Bytes Base.CheckLib Model.Escape.
From Murex Require Import Gen.HtmlEntity.

(* html/entity.go of the toolchain in use: all 2229 names *)
Definition ent_full : bytes -> option bytes := ent_of_table html_entities.

(* the model's constant is the library's *)
Definition longest_ok : bool := Nat.eqb html_longest_entity_without_semicolon longest_entity_without_semicolon.

(* Round: c_in is fed to `k`, its observed output to `!k`; also `<stdin> -> k -> !k`.
   DecOnly: c_in is fed to `!k` only (malformed / entity-like text): correspondence only. *)
Inductive mode := Round | DecOnly.

Record case := {
  c_kind : kind;
  c_mode : mode;
  c_in : bytes;             (* stdin of the first builtin *)
  c_enc : Outcome bytes;    (* Round: stdout of builtin `k` called as a method on c_in *)
  c_dec : Outcome bytes;    (* stdout of builtin `!k` called as a method on (Round: the observed c_enc; DecOnly: c_in) *)
  c_pipe : Outcome bytes;   (* stdout of the murex pipeline `<stdin> -> k -> !k` (DecOnly: `<stdin> -> !k`) *)
  c_libq : bytes;           (* library oracle: strconv.Quote(c_in) (KEscape only) *)
  c_libuq : option bytes    (* library oracle: strconv.Unquote(input of `!k`)  (KEscape only) *)
}.

(* Ok values are compared byte for byte; failures only by kind. *)
Definition out_eqb (a b : Outcome bytes) : bool :=
  match a, b with
  | Ok x, Ok y => bytes_eqb x y
  | _, _ => N.eqb (oclass a) (oclass b) && negb (is_ok a)
  end.

(* The model with strconv instantiated by the recorded library results. *)
Definition m_cmd (c : case) : kind -> bool -> bytes -> Outcome bytes :=
  cmd (fun _ => c_libq c) (fun _ => c_libuq c) ent_full.

Definition agree (c : case) : bool :=
  let k := c_kind c in
  match c_mode c with
  | Round =>
      out_eqb (m_cmd c k false (c_in c)) (c_enc c)
      && match c_enc c with
         | Ok e => out_eqb (m_cmd c k true e) (c_dec c)
                   && out_eqb (m_cmd c k true e) (c_pipe c)
         | _ => true
         end
  | DecOnly =>
      out_eqb (m_cmd c k true (c_in c)) (c_dec c)
      && out_eqb (m_cmd c k true (c_in c)) (c_pipe c)
  end.

(* The property on what the implementation did: `!k` gives back the original
   text byte for byte — both when the two builtins are called one after the
   other and in a real pipeline.  Nothing is claimed for DecOnly cases. *)
Definition spec_ok (c : case) : bool :=
  match c_mode c with
  | Round => is_ok (c_enc c) && out_eqb (c_dec c) (Ok (c_in c)) && out_eqb (c_pipe c) (Ok (c_in c))
  | DecOnly => true
  end.

(* no known finding for C35 *)
Definition classify (c : case) : N := 0%N.

(* the Round case the model predicts for input s (strconv as functions) *)
Definition model_case (quote : bytes -> bytes) (unquote : bytes -> option bytes)
           (k : kind) (s : bytes) : case :=
  let enc := cmd quote unquote ent_full k false s in
  let dec := obind enc (cmd quote unquote ent_full k true) in
  {| c_kind := k; c_mode := Round; c_in := s; c_enc := enc; c_dec := dec;
     c_pipe := pipeline quote unquote ent_full k s;
     c_libq := quote s; c_libuq := unquote (quote s) |}.
