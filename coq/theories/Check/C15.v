(* C15 — case type, correspondence predicate and the property predicate
   evaluated on what the implementation did.  Depends on the model only. *)
From Murex Require Export Base.Outcome Base.Bytes Base.CheckLib Model.ByteStr Model.ArrayIO.

Local Open Scope N_scope.

(* input: the data type and the list of elements handed to its ArrayWriter
   (elements as compact literals); c_legal_other: for the TOther types the
   generator's statement that the list is within that type's alphabet;
   c_docs: every non-empty element read back is a JSON document according to
   encoding/json.Valid (foreach binds jsonl elements as json-typed variables,
   which murex refuses for other text).
   observation: ArrayWriter error, the ReadArray callback sequence and its
   error, and the values `foreach e { out "[$e]" }` printed. *)
Record obs := {
  o_werr : bool;                (* WriteArray / Write / Close returned an error *)
  o_read : list (list chunk);   (* ReadArray callback sequence *)
  o_rerr : bool;                (* ReadArray returned an error *)
  o_typed : bool;               (* ReadArrayWithType delivered the same sequence *)
  o_each : list (list chunk)    (* elements the foreach body was run with, in order *)
}.
Record case := { c_ty : ty; c_in : list (list chunk); c_legal_other : bool; c_docs : bool; c_obs : obs }.

Definition elems_eqb : list bytes -> list bytes -> bool := list_eqb bytes_eqb.
Definition is_nil {A} (l : list A) : bool := match l with [] => true | _ => false end.

(* foreach over jsonl needs JSON documents as elements; over paths the variable
   is of type `path`, whose expansion normalises the value as a file name
   (path.Clean, a trailing slash for existing directories): the printed value is
   compared only for elements without `/` and `.` *)
Definition each_applies (c : case) : bool :=
  match c_ty c with
  | TJsonl => c_docs c
  | TPaths => negb (existsb (fun x => has_byte 47 x || has_byte 46 x) (map expand (c_in c)))
  | _ => true
  end.

(* correspondence: where the model covers the type, it predicts the callback
   sequence, both error flags and the foreach runs *)
Definition agree (c : case) : bool :=
  let xs := map expand (c_in c) in
  match roundtrip (c_ty c) xs with
  | None => true
  | Some (d, we, re) =>
    Bool.eqb we (o_werr (c_obs c)) && Bool.eqb re (o_rerr (c_obs c)) &&
    elems_eqb d (map expand (o_read (c_obs c))) && o_typed (c_obs c) &&
    (if each_applies c then elems_eqb (foreach_seen d) (map expand (o_each (c_obs c))) else true)
  end.

(* ---- the property's per-type legal alphabets ---- *)
Definition no_newline (x : bytes) : bool := negb (existsb (N.eqb 10) x).
Definition short_enough (x : bytes) : bool := N.of_nat (length x) <? max_token.
Definition no_space_endsb (x : bytes) : bool :=
  match strip_any space_pats x, strip_any (map (@rev N) space_pats) (frev x) with
  | None, None => true
  | _, _ => false
  end.
Definition no_trailing_cr (x : bytes) : bool := match frev x with 13 :: _ => false | _ => true end.
Definition valid_utf8 (x : bytes) : bool := bytes_eqb (sanitize x) x.

Definition no_colon (x : bytes) : bool := negb (has_byte 58 x).

(* the property's per-type alphabets: no newlines; no leading / trailing white
   space for str / jsonl; no tabs (horizontal or vertical) for generic; UTF-8 text
   for json and yaml; no separator for paths *)
Definition legal_elem (t : ty) (x : bytes) : bool :=
  match t with
  | TStr | TJsonl => no_newline x && short_enough x && no_space_endsb x
  | TGeneric => no_newline x && short_enough x && tab_free x && no_trailing_cr x
  | TJson | TYaml => valid_utf8 x && no_newline x && no_trailing_cr x
  | TPaths => no_newline x && no_colon x && no_trailing_cr x
  | TOther _ => true
  end.
Definition legal (c : case) : bool :=
  match c_ty c with
  | TOther _ => c_legal_other c
  | t => forallb (legal_elem t) (map expand (c_in c))
  end.

(* The property on an observation: a legal list is read back as written, in
   order, and foreach runs its body once per element, in order, with the element
   bound verbatim.  The only writer error allowed is the documented empty-array
   error of the json writer (proc strict-arrays); nothing is written then and
   the empty stream still reads as the empty list. *)
Definition spec_ok (c : case) : bool :=
  if legal c then
    let xs := map expand (c_in c) in
    let ob := c_obs c in
    (negb (o_werr ob) || (match c_ty c with TJson => is_nil xs | _ => false end)) &&
    negb (o_rerr ob) &&
    elems_eqb (map expand (o_read ob)) xs && o_typed ob &&
    (* the foreach body prints the bound value as text: compared for UTF-8 text *)
    (if forallb valid_utf8 xs && each_applies c then elems_eqb (map expand (o_each ob)) xs else true)
  else true.

(* known findings:
   1 — foreach does not run its body for an empty-string element
       (forEachInnerLoop returns early when len(b) == 0); everything else about
       the case is as the property says.
   2 — the xml ArrayWriter's output cannot be read back by the xml ReadArray.
   3 — generic: a form feed inside an element is written as a line break by the
       tabwriter, so the element comes back as two.
   4 — paths: the empty list is written as the empty string, which reads back
       as one empty element. *)
Definition classify (c : case) : N :=
  let xs := map expand (c_in c) in
  let ob := c_obs c in
  match c_ty c with
  | TOther 4 => 2
  | _ =>
    if (match c_ty c with TGeneric => true | _ => false end) && existsb (has_byte 12) xs &&
       elems_eqb (map expand (o_read ob)) (concat (map (fun x => fst (scan_lines (ff_to_nl x ++ [10]))) xs))
    then 3
    else if (match c_ty c with TPaths => true | _ => false end) && is_nil xs &&
            elems_eqb (map expand (o_read ob)) [[]]
    then 4
    else if existsb is_nil xs && negb (o_rerr ob) && elems_eqb (map expand (o_read ob)) xs && o_typed ob &&
       forallb valid_utf8 xs && each_applies c && elems_eqb (map expand (o_each ob)) (foreach_bound xs)
    then 1 else 0
  end.
