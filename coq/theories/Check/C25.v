(* C25 — case type, correspondence predicate, and the property predicate.

   The property predicate is a stack-free reference semantics written from the
   property text: a scope is (session table, local overrides of this call) with
   None for "running at session level". *)
From Murex Require Export Base.Outcome Base.Bytes Base.CheckLib Model.ConfigScope.

Definition sc := (table * option table)%type.

Definition session_value (ds : decls) (s : sc) (k : name) (d : decl) : value :=
  match t_get (fst s) k with Some v => v | None => d_default d end.

(* "Global options and settings made at session level are seen everywhere";
   "other calls and the caller keep seeing the session value or the default";
   a call sees its own setting of a non-global option. *)
Definition spec_cget (ds : decls) (s : sc) (k : name) : option value :=
  match d_get ds k with
  | None => None                                         (* undefined option: error *)
  | Some d =>
      if d_global d then Some (session_value ds s k d)
      else match snd s with
           | None => Some (session_value ds s k d)
           | Some l => match t_get l k with
                       | Some v => Some v
                       | None => Some (session_value ds s k d)
                       end
           end
  end.

(* "Setting a non-global config option inside a function call affects only that call" *)
Definition spec_cset (ds : decls) (s : sc) (k : name) (v : value) : option sc :=
  match d_get ds k with
  | None => None
  | Some d =>
      match snd s with
      | None => Some (t_set (fst s) k v, None)           (* session level *)
      | Some l => if d_global d then Some (t_set (fst s) k v, Some l)
                  else Some (fst s, Some (t_set l k v))
      end
  end.

Definition spec_event (tag : N) (r : option sc) (s : sc) : sc * trace :=
  match r with
  | Some s' => (s', [(tag, Some 0%N)])
  | None => (s, [(tag, None)])
  end.

Fixpoint cspec (ds : decls) (o : cop) (s : sc) : sc * trace :=
  match o with
  | CSet tag k v => spec_event tag (spec_cset ds s k v) s
  | CDefault tag k =>                                    (* restores the declared default in this scope *)
      match d_get ds k with
      | None => (s, [(tag, None)])
      | Some d => spec_event tag (spec_cset ds s k (d_default d)) s
      end
  | CGet tag k => (s, [(tag, spec_cget ds s k)])
  | CCall body =>                                        (* no overrides inherited; own overrides discarded *)
      let '(s', tr) := @cseq sc (cspec ds) body (fst s, Some t_empty) in ((fst s', snd s), tr)
  | CBlock body => @cseq sc (cspec ds) body s
  end.

Definition cspec_trace (ds : decls) (ops : list cop) : trace :=
  snd (@cseq sc (cspec ds) ops (session_of ds, None)).

(* ---- case ---- *)
Record case := { c_decls : decls; c_ops : list cop; c_status : N; c_obs : trace }.

Definition event_eqb (a b : event) : bool :=
  N.eqb (fst a) (fst b) && option_eqb N.eqb (snd a) (snd b).
Definition trace_eqb : trace -> trace -> bool := list_eqb event_eqb.

Definition agree (c : case) : bool :=
  N.eqb (c_status c) 0 && trace_eqb (crun (c_decls c) (c_ops c)) (c_obs c).

Definition spec_ok (c : case) : bool :=
  N.eqb (c_status c) 0 && trace_eqb (cspec_trace (c_decls c) (c_ops c)) (c_obs c).

Definition classify (c : case) : N := 0%N.
