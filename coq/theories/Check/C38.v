(* C38 — case type, correspondence predicate and the property predicate
   evaluated on what the implementation did.  Depends on the model only. *)
From Murex Require Export Base.Outcome Base.Bytes Base.CheckLib Model.ByteStr Model.Lists.

(* input: data type, builtin with its parameters, the elements written to the
   builtin's stdin; observation: error flag and the elements decoded from its
   stdout (for OpMatch: of `match` and of `!match`). *)
Record case := { c_dt : dtype; c_strict : bool; c_op : op; c_in : list bytes; c_obs : obs }.

Definition elems_eqb : list bytes -> list bytes -> bool := list_eqb bytes_eqb.

Definition obs_eqb (a b : obs) : bool :=
  Bool.eqb (o_err a) (o_err b) && elems_eqb (o_out a) (o_out b) &&
  Bool.eqb (o_err2 a) (o_err2 b) && elems_eqb (o_out2 a) (o_out2 b).

Definition agree (c : case) : bool := obs_eqb (run (c_dt c) (c_strict c) (c_op c) (c_in c)) (c_obs c).

(* ---- the property, written on observations ----------------------------- *)
(* non-decreasing string order *)
Fixpoint sortedb (l : list bytes) : bool :=
  match l with
  | x :: (y :: _) as t => bytes_leb x y && sortedb t
  | _ => true
  end.

(* same multiset: every element occurs equally often in both lists *)
Definition count (x : bytes) (l : list bytes) : nat := length (filter (bytes_eqb x) l).
Definition permb (a b : list bytes) : bool :=
  forallb (fun x => Nat.eqb (count x a) (count x b)) (a ++ b).

(* m and nm are complementary order-preserving subsequences of xs whose merge is
   xs: m takes exactly the elements containing pat, nm the others *)
Fixpoint mergeb (pat : bytes) (xs m nm : list bytes) : bool :=
  match xs with
  | [] => is_nil m && is_nil nm
  | x :: xs' =>
    if contains pat x
    then match m with y :: m' => bytes_eqb x y && mergeb pat xs' m' nm | [] => false end
    else match nm with y :: nm' => bytes_eqb x y && mergeb pat xs' m nm' | [] => false end
  end.

Fixpoint forall2b {A B} (f : A -> B -> bool) (a : list A) (b : list B) : bool :=
  match a, b with
  | [], [] => true
  | x :: a', y :: b' => f x y && forall2b f a' b'
  | _, _ => false
  end.

(* number of characters kept by left n / right n of an element of c characters:
   n > 0: n (or all if fewer); n < 0: all but |n| (or none if fewer); 0: none *)
Definition keep (n c : Z) : Z :=
  if (0 <? n)%Z then Z.min n c else if (n <? 0)%Z then Z.max 0 (c + n) else 0%Z.

Definition left_spec (n : Z) (i o : bytes) : bool :=
  let cs := chars i in
  bytes_eqb o (concat (firstn (Z.to_nat (keep n (Z.of_nat (length cs)))) cs)).

Definition right_spec (n : Z) (i o : bytes) : bool :=
  let cs := chars i in
  let c := Z.of_nat (length cs) in
  bytes_eqb o (concat (skipn (Z.to_nat (c - keep n c)) cs)).

Definition spec_elems (o : op) (xs out out2 : list bytes) : bool :=
  match o with
  | OpMsort => sortedb out && permb xs out
  | OpMtac => elems_eqb out (rev xs)
  | OpPrepend ps => elems_eqb out (ps ++ xs)
  | OpAppend ps => elems_eqb out (xs ++ ps)
  | OpMatch ps => mergeb (join_sp ps) xs out out2
  | OpLeft n => forall2b (left_spec n) xs out
  | OpRight n => forall2b (right_spec n) xs out
  | OpPrefix ps => forall2b (fun i o => bytes_eqb o (join_sp ps ++ i)) xs out
  | OpSuffix ps => forall2b (fun i o => bytes_eqb o (i ++ join_sp ps)) xs out
  end.

(* The property: the builtin succeeds and its output is the documented list —
   an empty list is a legitimate result.  (Only `match` without a pattern is a
   usage error.) *)
Definition spec_ok (c : case) : bool :=
  let xs := in_elems (c_dt c) (c_in c) in
  let ob := c_obs c in
  match c_op c with
  | OpMatch ps =>
    if is_nil (join_sp ps)
    then o_err ob && o_err2 ob && is_nil (o_out ob) && is_nil (o_out2 ob)   (* usage error, nothing written *)
    else spec_elems (c_op c) xs (o_out ob) (o_out2 ob) && negb (o_err ob) && negb (o_err2 ob)
  | o => spec_elems o xs (o_out ob) [] && negb (o_err ob)
  end.

(* known finding 1: for the json type an empty result list is reported as the
   error "no data returned" (nothing written) instead of `[]`.  Exactly: type
   json, not a usage error, the observed lists are the documented ones, and
   every side that reports an error is an empty list. *)
Definition classify (c : case) : N :=
  let xs := in_elems (c_dt c) (c_in c) in
  let ob := c_obs c in
  match c_dt c with
  | DStr => 0%N
  | DJson =>
    let usage := match c_op c with OpMatch ps => is_nil (join_sp ps) | _ => false end in
    if negb usage && spec_elems (c_op c) xs (o_out ob) (o_out2 ob) &&
       (o_err ob || o_err2 ob) &&
       (negb (o_err ob) || is_nil (o_out ob)) && (negb (o_err2 ob) || is_nil (o_out2 ob))
    then 1%N else 0%N
  end.
