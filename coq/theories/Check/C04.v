(* C04 — `&&`, `||` and `;` in normal mode: case type, correspondence predicate
   and property predicate.  Depends on the model only. *)
From Murex Require Export Base.Outcome Base.Bytes Base.CheckLib Model.RunMode.

(* One generated block run through Fork.Execute in the normal run mode.
   k_prog  : the program (pipelines with the operator written before each);
             each command carries what it does when run (exit number, bytes
             written to stdout, copies stdin first);
   k_flags : (IsMethod, OperatorLogicAnd, OperatorLogicOr) of every process as
             the real block parser produced them for the rendered text;
   k_obs   : stdout of the block and its exit number. *)
Record case := { k_prog : program; k_flags : list (bool * bool * bool); k_obs : obs }.

(* correspondence: the model of the parser flags and of runModeNormal predicts
   exactly what was observed *)
Definition agree (c : case) : bool :=
  list_eqb flag_eqb (flags_of (flatten (k_prog c))) (k_flags c) &&
  obs_eqb (run_program RmNormal (k_prog c)) (k_obs c).

(* the property: the observation is what the reference interpreter of the rule
   (spec_normal: `;` always runs, `&&` iff the command before succeeded, `||`
   iff it failed, a skip propagates along the chain, a skipped command keeps
   the exit number of the command before it, exit number of the block = that of
   its last command) gives *)
Definition spec_ok (c : case) : bool := obs_eqb (spec_normal (k_prog c)) (k_obs c).

(* no known finding is listed for C04 (the skipped-pipeline defect is fixed) *)
Definition classify (c : case) : N := 0%N.
