(* C39 — case type, correspondence predicate and the property predicate evaluated on what the
   implementation did.  Depends on the model only. *)
From Murex Require Export Base.Outcome Base.Bytes Base.CheckLib Model.Control.
Local Open Scope N_scope.

Record case := {
  c_prog : block;          (* the main block of the generated program *)
  c_obs_out : list tok;    (* stdout, line by line: `tN` lines and exit numbers after calls *)
  c_obs_exit : Z }.        (* exit number of the whole program *)

Definition tok_eqb (a b : tok) : bool :=
  match a, b with
  | TOut x, TOut y => x =? y
  | TExit x, TExit y => Z.eqb x y
  | _, _ => false
  end.

Definition obs_eqb (a : list tok * Z) (o : list tok) (x : Z) : bool :=
  list_eqb tok_eqb (fst a) o && Z.eqb (snd a) x.

(* correspondence: the transcription of the cancellation mechanism predicts what was seen *)
Definition agree (c : case) : bool := obs_eqb (run_cancel (c_prog c)) (c_obs_out c) (c_obs_exit c).

(* the property: what was seen is what the reference interpreter (break / continue / return as
   signals that end exactly the named block) says *)
Definition spec_ok (c : case) : bool := obs_eqb (run_ref (c_prog c)) (c_obs_out c) (c_obs_exit c).

(* known finding 1: a `continue name` that sits directly in the block called name *)
Fixpoint direct_cont_stmt (cur : name) (s : stmt) : bool :=
  match s with
  | Branch k _ b d => direct_cont_block (branch_name k) b || direct_cont_block (branch_name k) d
  | Loop k _ _ b => direct_cont_block (loop_name k) b
  | Try pipe b => direct_cont_block (try_name pipe) b
  | Call f b => direct_cont_block (NFunc f) b
  | Continue nm => name_eqb cur nm
  | _ => false
  end
with direct_cont_block (cur : name) (b : block) : bool :=
  match b with BNil => false | BCons s b' => direct_cont_stmt cur s || direct_cont_block cur b' end.

(* known finding 2: a `continue while` whose target is a one-block while *)
Fixpoint cont_w1_stmt (encl : list (name * bool)) (s : stmt) : bool :=
  match s with
  | Branch k _ b d => cont_w1_block ((branch_name k, false) :: encl) b || cont_w1_block ((branch_name k, false) :: encl) d
  | Loop k _ _ b => cont_w1_block ((loop_name k, match k with LWhile1 => true | _ => false end) :: encl) b
  | Try pipe b => cont_w1_block ((try_name pipe, false) :: encl) b
  | Call f b => cont_w1_block [(NFunc f, false)] b
  | Continue nm => target_is_while1 nm encl
  | _ => false
  end
with cont_w1_block (encl : list (name * bool)) (b : block) : bool :=
  match b with BNil => false | BCons s b' => cont_w1_stmt encl s || cont_w1_block encl b' end.

Definition classify (c : case) : N :=
  if direct_cont_block (NFunc 0) (c_prog c) then 1
  else if cont_w1_block [(NFunc 0, false)] (c_prog c) then 2 else 0.
