(* C39 — case type, correspondence predicate and the property predicate evaluated on what the
   implementation did.  Depends on the model only. *)
From Murex Require Export Base.Outcome Base.Bytes Base.CheckLib Model.Control.
Local Open Scope N_scope.

Record case := {
  c_prog : block;          (* the main block of the generated program *)
  c_obs_out : list tok;    (* stdout, line by line: `tN` lines and exit numbers after calls *)
  c_obs_exit : Z }.        (* exit number of the whole program *)

Definition tok_eqb (a b : tok) : bool :=
  match a, b with
  | TOut x, TOut y => x =? y
  | TExit x, TExit y => Z.eqb x y
  | _, _ => false
  end.

Definition obs_eqb (a : list tok * Z) (o : list tok) (x : Z) : bool :=
  list_eqb tok_eqb (fst a) o && Z.eqb (snd a) x.

(* correspondence: the transcription of the cancellation mechanism predicts what was seen *)
Definition agree (c : case) : bool := obs_eqb (run_cancel (c_prog c)) (c_obs_out c) (c_obs_exit c).

(* the property: what was seen is what the reference interpreter (break / continue / return as
   signals that end exactly the named block) says *)
Definition spec_ok (c : case) : bool := obs_eqb (run_ref (c_prog c)) (c_obs_out c) (c_obs_exit c).

(* known finding 1: a `continue name` that sits directly in the block called name *)
Fixpoint direct_cont_stmt (cur : name) (s : stmt) : bool :=
  match s with
  | If _ b => direct_cont_block NIf b
  | Foreach _ _ b => direct_cont_block NForeach b
  | While _ _ b => direct_cont_block NWhile b
  | Call f b => direct_cont_block (NFunc f) b
  | Continue nm => name_eqb cur nm
  | _ => false
  end
with direct_cont_block (cur : name) (b : block) : bool :=
  match b with BNil => false | BCons s b' => direct_cont_stmt cur s || direct_cont_block cur b' end.

Definition classify (c : case) : N := if direct_cont_block (NFunc 0) (c_prog c) then 1 else 0.
