(* C29 — case type, correspondence predicate and the property predicate evaluated on what
   the implementation did.

   A case is a list of shell sessions over one history file (initially absent).  Each session
   is history.New + complete Writes + optionally one torn Write (the process died after `keep`
   bytes of that write reached the disk).  Observed: the in-memory list after the complete
   writes of every session, the final bytes of the file, and the list a fresh history.New
   returns at the end.  Long strings are observed as (length, djb2 mod 2^40) digests. *)
From Murex Require Export Base.Bytes Base.CheckLib Model.History.
Open Scope N_scope.

(* ---- compact inputs: a command is a list of (count, chunk) pieces ---- *)
Fixpoint rep (n : nat) (chunk acc : bytes) : bytes :=
  match n with O => acc | S n' => rep n' chunk (chunk ++ acc) end.

Definition expand (ps : list (N * bytes)) : bytes :=
  fold_right (fun p acc => rep (N.to_nat (fst p)) (snd p) acc) [] ps.

Record cwr := { cw_ts : bytes; cw_cmd : list (N * bytes) }.
Record csession := { cs_writes : list cwr; cs_torn : option (cwr * N) }.

Definition wr_of (c : cwr) : wr := {| w_ts := cw_ts c; w_cmd := expand (cw_cmd c) |}.
Definition session_of (c : csession) : session :=
  {| s_writes := map wr_of (cs_writes c);
     s_torn := match cs_torn c with Some (w, k) => Some (wr_of w, k) | None => None end |}.

(* ---- observed strings ---- *)
Inductive ostr := Lit (b : bytes) | Dig (len : N) (h : N).

Definition lenN (l : bytes) : N := fold_left (fun n _ => N.succ n) l 0.
(* djb2 on 40 bits: h := (33 h + b) mod 2^40 (cheap in binary N: shift, add, mask) *)
Definition fnv (l : bytes) : N :=
  fold_left (fun h b => N.land (N.shiftl h 5 + h + b) 1099511627775) l 5381.

Definition lit_max : N := 600.
Definition to_obs (b : bytes) : ostr :=
  let n := lenN b in if lit_max <? n then Dig n (fnv b) else Lit b.

Definition ostr_eqb (a b : ostr) : bool :=
  match a, b with
  | Lit x, Lit y => bytes_eqb x y
  | Dig n h, Dig m k => (n =? m) && (h =? k)
  | _, _ => false
  end.

Record case := {
  c_sessions : list csession;
  c_obs_mem : list (list ostr);   (* per session: in-memory list after its complete writes *)
  c_obs_file : ostr;              (* the file at the end *)
  c_obs_load : list ostr          (* Len/GetLine of a fresh history.New at the end *)
}.

Definition mk_case (ss : list csession) (r : bytes * list (list bytes)) : case :=
  {| c_sessions := ss;
     c_obs_mem := map (map to_obs) (snd r);
     c_obs_file := to_obs (fst r);
     c_obs_load := map to_obs (load (fst r)) |}.

Definition model_case (ss : list csession) : case :=
  mk_case ss (run_sessions [] (map session_of ss)).

(* the time stamps the implementation wrote are of the kind the theorems assume *)
Definition stamps_ok (ss : list csession) : bool :=
  forallb (fun s => forallb (fun w => ts_ok (cw_ts w)) (cs_writes s)
                    && match cs_torn s with Some (w, _) => ts_ok (cw_ts w) | None => true end) ss.

Definition agree (c : case) : bool :=
  let m := model_case (c_sessions c) in
  stamps_ok (c_sessions c) &&
  list_eqb (list_eqb ostr_eqb) (c_obs_mem m) (c_obs_mem c)
  && ostr_eqb (c_obs_file m) (c_obs_file c)
  && list_eqb ostr_eqb (c_obs_load m) (c_obs_load c).

(* ---- the property on the observation ----
   Every command of every session reads back, in order, with its full text (the text being
   the command with surrounding white space removed, as stored; bytes that are not UTF-8 read
   back as U+FFFD; a command that is empty after trimming is not an entry), consecutive
   duplicates counting as one entry.  Of a torn write at most that entry is missing: both
   "present" and "absent" are allowed for it, nothing else. *)
Fixpoint dedup (l : list ostr) : list ostr :=
  match l with
  | [] => []
  | x :: l' =>
    match l' with
    | y :: _ => if ostr_eqb x y then dedup l' else x :: dedup l'
    | [] => [x]
    end
  end.

(* the lists a session may contribute *)
Definition expected (s : session) : list (list bytes) :=
  match s_torn s with
  | None => [entries (s_writes s)]
  | Some (w, _) => [entries (s_writes s); entries (s_writes s) ++ entry_of w]
  end.

Fixpoint cands (ss : list session) : list (list bytes) :=
  match ss with
  | [] => [[]]
  | s :: ss' => flat_map (fun a => map (app a) (cands ss')) (expected s)
  end.

Definition spec_load (ss : list session) (obs : list ostr) : bool :=
  existsb (fun c => list_eqb ostr_eqb (dedup (map to_obs c)) (dedup obs)) (cands ss).

Definition spec_ok (c : case) : bool := spec_load (map session_of (c_sessions c)) (c_obs_load c).

(* known findings: none (F29a and F29b are fixed) *)
Definition classify (c : case) : N := 0.
