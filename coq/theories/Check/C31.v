(* C31 — case type, correspondence predicate and the property predicate evaluated on what the
   implementation reported.

   A case is one function with fixed output, one unit test plan, and what the harness
   measured: the function's exit number / stdout / stderr / data types (run on its own),
   how each auxiliary block of the plan behaves, the answers of Go's regexp and of
   lang.UnmarshalData for the two streams (library oracles), and finally what
   UnitTests.Run returned for the plan (passed?) and the exit number it set. *)
From Murex Require Export Base.Bytes Base.CheckLib Model.UnitTest.

Definition rx_is_match (r : rx_result) : bool := match r with RxMatch => true | _ => false end.

Definition blk_silent_ok (r : blk_result) : bool :=    (* compiles, nothing on stderr *)
  match r with BlkRan _ true => true | _ => false end.
Definition blk_ok (r : blk_result) : bool :=           (* ... and exit number 0 *)
  match r with BlkRan n true => Z.eqb n 0 | _ => false end.

Section Spec.
  Variable rx : bytes -> bytes -> rx_result.
  Variable unmarshal : bytes -> bytes -> shape.

  Definition sh_is_array (s : shape) : bool := match s with ShVal a _ _ => a | ShErr => false end.
  Definition sh_is_map (s : shape) : bool := match s with ShVal _ m _ => m | ShErr => false end.
  Definition sh_len_ge (s : shape) (n : Z) : bool :=
    match s with ShVal _ _ (Some l) => Z.leb n l | _ => false end.

  (* The assertions of a plan, one boolean each ("not asserted" counts as holding).  Written
     from the meaning of the plan's fields:
       ExitNum            the exit number equals it (always asserted; default 0)
       Std*Match          the stream equals the string
       Std*Regex          the regular expression compiles and matches the stream
       Std*Type           the stream's data type equals it
       Std*IsArray/IsMap  the stream unmarshals (as its data type) to an array / a map
       StdoutGreaterThan  n > 0: the stream unmarshals to something of length >= n
       Std*Block          the block, fed the stream, compiles, exits 0, writes no stderr
       stderr default     neither StderrMatch nor StderrRegex given: stderr must be empty
       PreBlock/PostBlock compile and write nothing to stderr
     plus: the function under test exists and compiles. *)
  Definition assertions (p : plan) (a : actual) : list bool :=
    let so := unmarshal (a_stdout a) (a_out_type a) in
    let se := unmarshal (a_stderr a) (a_err_type a) in
    [ a_fn_ran a;
      Z.eqb (a_exit a) (p_exit p);
      is_empty (p_out_match p) || bytes_eqb (a_stdout a) (p_out_match p);
      is_empty (p_out_regex p) || rx_is_match (rx (p_out_regex p) (a_stdout a));
      is_empty (p_out_type p) || bytes_eqb (a_out_type a) (p_out_type p);
      negb (p_out_is_array p) || sh_is_array so;
      negb (p_out_is_map p) || sh_is_map so;
      negb (Z.ltb 0 (p_out_gt p)) || sh_len_ge so (p_out_gt p);
      is_empty (p_out_block p) || blk_ok (a_out_block a);
      (if negb (is_empty (p_err_match p)) then bytes_eqb (a_stderr a) (p_err_match p)
       else if negb (is_empty (p_err_regex p)) then true
       else is_empty (a_stderr a));
      is_empty (p_err_regex p) || rx_is_match (rx (p_err_regex p) (a_stderr a));
      is_empty (p_err_type p) || bytes_eqb (a_err_type a) (p_err_type p);
      negb (p_err_is_array p) || sh_is_array se;
      negb (p_err_is_map p) || sh_is_map se;
      is_empty (p_err_block p) || blk_ok (a_err_block a);
      is_empty (p_pre p) || blk_silent_ok (a_pre a);
      is_empty (p_post p) || blk_silent_ok (a_post a) ].

  Definition all_hold (p : plan) (a : actual) : bool := forallb (fun b => b) (assertions p a).
End Spec.

Record case := {
  c_plan : plan;
  c_actual : actual;
  c_rx_out : rx_result;  c_rx_err : rx_result;    (* regexp on stdout / stderr *)
  c_sh_out : shape;      c_sh_err : shape;        (* UnmarshalData on stdout / stderr *)
  c_obs_passed : bool;                            (* UnitTests.Run(...) *)
  c_obs_exit : Z                                  (* p.ExitNum afterwards *)
}.

(* the library oracles of a case as functions (the two queries the verdict makes) *)
Definition rx_of (c : case) : bytes -> bytes -> rx_result :=
  fun pat subj =>
    if bytes_eqb pat (p_out_regex (c_plan c)) && bytes_eqb subj (a_stdout (c_actual c))
    then c_rx_out c else c_rx_err c.
Definition um_of (c : case) : bytes -> bytes -> shape :=
  fun b dt =>
    if bytes_eqb b (a_stdout (c_actual c)) && bytes_eqb dt (a_out_type (c_actual c))
    then c_sh_out c else c_sh_err c.

(* two queries with the same arguments must have got the same answer *)
Definition oracle_consistent (c : case) : bool :=
  let p := c_plan c in let a := c_actual c in
  (negb (bytes_eqb (p_err_regex p) (p_out_regex p) && bytes_eqb (a_stderr a) (a_stdout a))
   || match c_rx_out c, c_rx_err c with
      | RxCompileErr, RxCompileErr | RxMatch, RxMatch | RxNoMatch, RxNoMatch => true
      | _, _ => false end).

Definition agree (c : case) : bool :=
  oracle_consistent c &&
  Bool.eqb (verdict (rx_of c) (um_of c) (c_plan c) (c_actual c)) (c_obs_passed c) &&
  Z.eqb (run_exit (rx_of c) (um_of c) (c_plan c) (c_actual c)) (c_obs_exit c).

(* the property on the observation: reported as passed exactly when every assertion holds;
   the exit number of the run is 0 exactly when passed *)
Definition spec_ok (c : case) : bool :=
  Bool.eqb (c_obs_passed c) (all_hold (rx_of c) (um_of c) (c_plan c) (c_actual c)) &&
  Z.eqb (c_obs_exit c) (if c_obs_passed c then 0 else 1)%Z.

Definition mk_case (p : plan) (a : actual) (ro re : rx_result) (so se : shape) : case :=
  let c0 := {| c_plan := p; c_actual := a; c_rx_out := ro; c_rx_err := re;
               c_sh_out := so; c_sh_err := se; c_obs_passed := false; c_obs_exit := 0%Z |} in
  {| c_plan := p; c_actual := a; c_rx_out := ro; c_rx_err := re; c_sh_out := so; c_sh_err := se;
     c_obs_passed := verdict (rx_of c0) (um_of c0) p a;
     c_obs_exit := run_exit (rx_of c0) (um_of c0) p a |}.

Definition classify (c : case) : N := 0%N.
