(* C33 — case type, correspondence predicate and property predicate.
   Depends on the model only. *)
From Murex Require Export Base.Outcome Base.Bytes Base.CheckLib Model.Redirect.
Local Open Scope N_scope.

Record obs := {
  o_kind : N;            (* 0 ran, 1 the block was refused (compile error), 3 hang *)
  o_out : bytes;         (* the block's stdout *)
  o_err : bytes;         (* the block's stderr, without the leading "Invalid usage of named pipes" lines *)
  o_complaints : nat;    (* number of those lines *)
  o_files : files        (* contents afterwards of every file named in the case *)
}.

Record case := { c_stages : list stage; c_files : files; c_obs : obs }.

Definition obytes_eqb (a b : option bytes) : bool :=
  match a, b with
  | Some x, Some y => bytes_eqb x y
  | None, None => true
  | _, _ => false
  end.

(* the harness uses file numbers 0..7 *)
Definition file_ids : list N := [0; 1; 2; 3; 4; 5; 6; 7].
Definition files_eqb (a b : files) : bool :=
  forallb (fun f => obytes_eqb (file_get a f) (file_get b f)) file_ids.

(* ---------- correspondence: the code-shaped model predicts the observation ---------- *)
Definition agree (c : case) : bool :=
  match run_block (c_stages c) (c_files c) with
  | Ok st =>
      N.eqb (o_kind (c_obs c)) 0
      && bytes_eqb (o_out (c_obs c)) (st_out st)
      && bytes_eqb (o_err (c_obs c)) (st_err st)
      && Nat.eqb (o_complaints (c_obs c)) (complaints (c_stages c))
      && files_eqb (o_files (c_obs c)) (st_fs st)
  | _ => N.eqb (o_kind (c_obs c)) 1
  end.

(* ---------- the property, written from its text (documentation-shaped) ---------- *)
(* where the documentation says a command's stdout / stderr bytes go *)
Inductive dest := ToOut | ToErr | ToNext | Nowhere.

Definition dest_eqb (a b : dest) : bool :=
  match a, b with
  | ToOut, ToOut | ToErr, ToErr | ToNext, ToNext | Nowhere, Nowhere => true
  | _, _ => false
  end.

(* the redirection that applies: the first one written for that stream *)
Definition first_out (l : list rname) : option rname := find (fun r => negb (is_bang r)) l.
Definition first_err (l : list rname) : option rname := find is_bang l.

(* without redirection stdout goes into the pipe if there is one, else to the block's stdout *)
Definition plain_out (l : link) : dest := match l with Pipe => ToNext | Semi => ToOut end.

(* `<err>` sends stdout to stderr, `<null>` discards it *)
Definition doc_out (s : stage) : dest :=
  match first_out (s_redirs s) with
  | Some R_err => ToErr
  | Some R_null => Nowhere
  | _ => plain_out (s_link s)
  end.

(* `<!out>` sends stderr to (where) stdout (goes), `<!null>` discards it *)
Definition doc_err (s : stage) : dest :=
  match first_err (s_redirs s) with
  | Some R_bout => plain_out (s_link s)
  | Some R_bnull => Nowhere
  | _ => ToErr
  end.

Definition sel (d : dest) (s : stage) (o e : bytes) : bytes :=
  (if dest_eqb (doc_out s) d then o else []) ++ (if dest_eqb (doc_err s) d then e else []).

(* expected block stdout, block stderr and files; carry = the bytes piped into the first command *)
Fixpoint expected (carry : bytes) (l : list stage) (fs : files) : bytes * bytes * files :=
  match l with
  | [] => ([], [], fs)
  | s :: l' =>
      let '(o, e) := match s_act s with Emit o e => (carry ++ o, e) | _ => ([], []) end in
      let fs1 := match s_act s with
                 | Trunc f => file_set fs f carry                  (* exactly the bytes piped in *)
                 | Append f => file_set fs f (match file_get fs f with Some old => old ++ carry | None => carry end)
                 | Emit _ _ => fs
                 end in
      let '(out', err', fs2) := expected (sel ToNext s o e) l' fs1 in
      (sel ToOut s o e ++ out', sel ToErr s o e ++ err', fs2)
  end.

Definition spec_ok (c : case) : bool :=
  match last_link (c_stages c) with
  | Pipe => true                       (* a block ending in a pipe: nothing is claimed *)
  | Semi =>
      let '(out, err, fs) := expected [] (c_stages c) (c_files c) in
      N.eqb (o_kind (c_obs c)) 0
      && bytes_eqb (o_out (c_obs c)) out
      && bytes_eqb (o_err (c_obs c)) err
      && files_eqb (o_files (c_obs c)) fs
  end.

(* no known finding: the `<!out>` defect (F33) is fixed *)
Definition classify (c : case) : N := 0%N.

(* the observation the model predicts *)
Definition model_obs (l : list stage) (fs : files) : obs :=
  match run_block l fs with
  | Ok st => {| o_kind := 0; o_out := st_out st; o_err := st_err st; o_complaints := complaints l; o_files := st_fs st |}
  | _ => {| o_kind := 1; o_out := []; o_err := []; o_complaints := O; o_files := fs |}
  end.
