(* C33 — case type, correspondence predicate and property predicate.
   Depends on the model only. *)
From Murex Require Export Base.Outcome Base.Bytes Base.CheckLib Model.Redirect.
Local Open Scope N_scope.

Record obs := {
  o_kind : N;            (* 0 ran, 1 the block was refused (compile error), 3 hang *)
  o_out : bytes;         (* the block's stdout *)
  o_err : bytes;         (* the block's stderr, without the leading "Invalid usage of named pipes" lines *)
  o_complaints : nat;    (* number of those lines *)
  o_files : files;       (* contents afterwards of every file named in the case *)
  o_pipes : files        (* contents afterwards of every user-named pipe of the case *)
}.

Record case := { c_stages : list stage; c_files : files; c_obs : obs }.

Definition obytes_eqb (a b : option bytes) : bool :=
  match a, b with
  | Some x, Some y => bytes_eqb x y
  | None, None => true
  | _, _ => false
  end.

(* the harness uses file numbers 0..7 *)
Definition file_ids : list N := [0; 1; 2; 3; 4; 5; 6; 7].
Definition files_eqb (a b : files) : bool :=
  forallb (fun f => obytes_eqb (file_get a f) (file_get b f)) file_ids.

(* ... and named pipes 0..3 (an unused pipe holds nothing) *)
Definition pipe_ids : list N := [0; 1; 2; 3].
Definition pipes_eqb (a b : files) : bool :=
  forallb (fun k => bytes_eqb (pipe_get a k) (pipe_get b k)) pipe_ids.

(* ---------- correspondence: the code-shaped model predicts the observation ---------- *)
Definition agree (c : case) : bool :=
  match run_block (c_stages c) (c_files c) with
  | Ok st =>
      N.eqb (o_kind (c_obs c)) 0
      && bytes_eqb (o_out (c_obs c)) (st_out st)
      && bytes_eqb (o_err (c_obs c)) (st_err st)
      && Nat.eqb (o_complaints (c_obs c)) (complaints (c_stages c))
      && files_eqb (o_files (c_obs c)) (st_fs st)
      && pipes_eqb (o_pipes (c_obs c)) (st_pipes st)
  | _ => N.eqb (o_kind (c_obs c)) 1
  end.

(* ---------- the property, written from its text (documentation-shaped) ---------- *)
(* where the documentation says a command's stdout / stderr bytes go *)
Inductive dest := ToOut | ToErr | ToNext | ToPipe (k : N) | Nowhere.

Definition dest_eqb (a b : dest) : bool :=
  match a, b with
  | ToOut, ToOut | ToErr, ToErr | ToNext, ToNext | Nowhere, Nowhere => true
  | ToPipe j, ToPipe k => N.eqb j k
  | _, _ => false
  end.

(* the redirection that applies: the first one written for that stream *)
Definition first_out (l : list rname) : option rname := find (fun r => negb (is_bang r)) l.
Definition first_err (l : list rname) : option rname := find is_bang l.

(* without redirection: `|` pipes stdout into the next command; ` ? ` "swaps the two streams of
   the left hand command": its stderr is piped into the next command and its stdout goes to
   stderr; otherwise stdout / stderr are the block's *)
Definition plain_out (l : link) : dest := match l with Pipe => ToNext | QPipe => ToErr | Semi => ToOut end.
Definition plain_err (l : link) : dest := match l with QPipe => ToNext | _ => ToErr end.

(* `<err>` sends stdout to stderr, `<null>` discards it, `<name>` writes it to the named pipe *)
Definition doc_out (s : stage) : dest :=
  match first_out (s_redirs s) with
  | Some R_err => ToErr
  | Some R_null => Nowhere
  | Some (R_pipe k) => ToPipe k
  | _ => plain_out (s_link s)
  end.

(* `<!out>` sends stderr to (where) stdout (goes), `<!null>` discards it, `<!name>` writes it to the named pipe *)
Definition doc_err (s : stage) : dest :=
  match first_err (s_redirs s) with
  | Some R_bout => plain_out (s_link s)
  | Some R_bnull => Nowhere
  | Some (R_bpipe k) => ToPipe k
  | _ => plain_err (s_link s)
  end.

Definition sel (d : dest) (s : stage) (o e : bytes) : bytes :=
  (if dest_eqb (doc_out s) d then o else []) ++ (if dest_eqb (doc_err s) d then e else []).

(* what a command writes to its stdout / stderr, given the bytes piped into it *)
Definition stage_oe (carry : bytes) (s : stage) : bytes * bytes :=
  match s_act s with Emit o e => (carry ++ o, e) | _ => ([], []) end.

(* everything the block delivers to destination d, in order; carry = the bytes piped into the first command *)
Fixpoint collect (d : dest) (carry : bytes) (l : list stage) : bytes :=
  match l with
  | [] => []
  | s :: l' => let '(o, e) := stage_oe carry s in sel d s o e ++ collect d (sel ToNext s o e) l'
  end.

(* the files afterwards *)
Fixpoint expected_fs (carry : bytes) (l : list stage) (fs : files) : files :=
  match l with
  | [] => fs
  | s :: l' =>
      let '(o, e) := stage_oe carry s in
      let fs1 := match s_act s with
                 | Trunc f => file_set fs f carry                  (* exactly the bytes piped in *)
                 | Append f => file_set fs f (match file_get fs f with Some old => old ++ carry | None => carry end)
                 | Emit _ _ => fs
                 end in
      expected_fs (sel ToNext s o e) l' fs1
  end.

Definition spec_ok (c : case) : bool :=
  match last_link (c_stages c) with
  | Semi =>
      let l := c_stages c in
      N.eqb (o_kind (c_obs c)) 0
      && bytes_eqb (o_out (c_obs c)) (collect ToOut [] l)
      && bytes_eqb (o_err (c_obs c)) (collect ToErr [] l)
      && files_eqb (o_files (c_obs c)) (expected_fs [] l (c_files c))
      && forallb (fun k => bytes_eqb (pipe_get (o_pipes (c_obs c)) k) (collect (ToPipe k) [] l)) pipe_ids
  | _ => true                          (* a block ending in a pipe: nothing is claimed *)
  end.

(* no known finding: the `<!out>` defect (F33) and the `<err>`-before-`?` defect (F33b) are fixed *)
Definition classify (c : case) : N := 0%N.

(* the observation the model predicts *)
Definition model_obs (l : list stage) (fs : files) : obs :=
  match run_block l fs with
  | Ok st => {| o_kind := 0; o_out := st_out st; o_err := st_err st; o_complaints := complaints l; o_files := st_fs st; o_pipes := st_pipes st |}
  | _ => {| o_kind := 1; o_out := []; o_err := []; o_complaints := O; o_files := fs; o_pipes := [] |}
  end.
