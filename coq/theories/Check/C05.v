(* C05 — try / trypipe stop on failure and honour `||`: case type,
   correspondence predicate and property predicate.  Depends on the model only. *)
From Murex Require Export Base.Outcome Base.Bytes Base.CheckLib Model.RunMode.

(* One generated block run under a run mode: `try { … }` (RmBlockTry),
   `trypipe { … }` (RmBlockTryPipe), or as the body of a function that starts
   with `runmode try function` / `runmode trypipe function` (RmFunctionTry /
   RmFunctionTryPipe).
   k_flags : (IsMethod, OperatorLogicAnd, OperatorLogicOr) of every process as
             the real block parser produced them;
   k_obs   : stdout and exit number of the try block / function call. *)
Record case := { k_mode : runmode; k_prog : program;
                 k_flags : list (bool * bool * bool); k_obs : obs }.

(* correspondence: run-mode selection (Fork.Execute), parser flags and the
   selected scheduler, as modelled, predict exactly what was observed *)
Definition agree (c : case) : bool :=
  list_eqb flag_eqb (flags_of (flatten (k_prog c))) (k_flags c) &&
  obs_eqb (run_program (k_mode c) (k_prog c)) (k_obs c).

(* the property: the observation is what the reference interpreter of the rule
   gives (spec_strict: a failed command ends the block with its exit number
   unless the next command is joined by `||`; a `||` alternative runs only if
   the command before it failed; a skipped alternative counts as succeeding;
   try checks the last command of a pipeline, trypipe every command in order) *)
Definition spec_ok (c : case) : bool := obs_eqb (spec_of (k_mode c) (k_prog c)) (k_obs c).

(* no known finding is listed for C05 (both defects are fixed) *)
Definition classify (c : case) : N := 0%N.
