(* C05 — try / trypipe stop on failure and honour `||`: case type,
   correspondence predicate and property predicate.  Depends on the model only. *)
From Murex Require Export Base.Outcome Base.Bytes Base.CheckLib Model.RunMode.

(* One generated block run under a run mode: `try { … }` (RmBlockTry),
   `trypipe { … }` (RmBlockTryPipe), `tryerr { … }`, `trypipeerr { … }`, or as
   the body of a function that starts with `runmode try|trypipe|tryerr|trypipeerr
   function` (RmFunctionTry …).
   k_flags : (IsMethod, OperatorLogicAnd, OperatorLogicOr) of every process as
             the real block parser produced them;
   k_obs   : stdout and exit number of the try block / function call. *)
Record case := { k_mode : runmode; k_prog : program;
                 k_flags : list (bool * bool * bool); k_obs : obs }.

(* correspondence: run-mode selection (Fork.Execute), parser flags and the
   selected scheduler, as modelled, predict exactly what was observed *)
Definition agree (c : case) : bool :=
  list_eqb flag_eqb (flags_of (flatten (k_prog c))) (k_flags c) &&
  obs_eqb (run_program (k_mode c) (k_prog c)) (k_obs c).

(* the property: the observation is what the reference interpreter of the rule
   gives (spec_strict: a failed command ends the block with its exit number
   unless the next command is joined by `||`; a `||` alternative runs only if
   the command before it failed; a skipped alternative counts as succeeding;
   try checks the last command of a pipeline, trypipe every command in order) *)
Definition spec_ok (c : case) : bool := obs_eqb (spec_of (k_mode c) (k_prog c)) (k_obs c).

(* Known finding 1 (tryerr / trypipeerr): checkTryErr compares the bytes written so
   far to the block's stderr with the bytes written so far to the process' stdout
   stream - cumulative totals - instead of the process' own output as documented.
   A failing case is that finding exactly when the run mode is an *err mode and
   the observation is what the cumulative reading (spec_cum_of) gives. *)
Definition is_err_mode (m : runmode) : bool :=
  match sched_of m with STryErr | STryPipeErr => true | _ => false end.

Definition classify (c : case) : N :=
  if is_err_mode (k_mode c) && obs_eqb (spec_cum_of (k_mode c) (k_prog c)) (k_obs c)
  then 1%N else 0%N.
