(* C22 — case type, correspondence predicate and the property predicate.

   The property predicate is written from the property text with no loop and no
   fuel: first match in the documented order; an alias is expanded exactly once
   and its target is then resolved with aliases ignored. *)
From Murex Require Export Base.Outcome Base.Bytes Base.CheckLib Model.Resolve.

(* first match among private (caller's module, not at shell scope), function,
   builtin, external -- the order with the alias step left out *)
Definition first_match_noalias (t : tables) (c : ctx) (n : name) (args : list arg) : Outcome resolved :=
  let e := lookup t n in
  if negb (shell_scope c) && e_private e then Ok (KPrivate, n, args)
  else if e_function e then Ok (KFunction, n, args)
  else if e_builtin e then Ok (KBuiltin, n, args)
  else if e_external e then Ok (KExternal, n, args)
  else Err not_found.

Definition spec_resolve (t : tables) (c : ctx) (n : name) (args : list arg) : Outcome resolved :=
  let e := lookup t n in
  if negb (shell_scope c) && e_private e then Ok (KPrivate, n, args)       (* 1. private *)
  else match e_alias e with
       | Some (tn, targs) =>
           if parent_alias c then first_match_noalias t c n args           (* inside `alias`: no expansion *)
           else first_match_noalias t c tn (targs ++ args)                 (* 2. alias, expanded ONCE *)
       | None => first_match_noalias t c n args                            (* 3-5. function, builtin, external *)
       end.

(* ---- observation ---- *)
Inductive obs :=
| ORan (k : kind) (n : name) (args : list arg)   (* the definition of that kind under that name ran with these parameters *)
| ONotFound                                      (* clean error, nothing ran *)
| OHang                                          (* did not finish *)
| OOther.                                        (* anything else (several definitions ran, ...) *)

Definition obs_of (r : Outcome resolved) : obs :=
  match r with
  | Ok (k, n, a) => ORan k n a
  | Err _ => ONotFound
  | Panic => OOther
  | OutOfFuel => OHang
  end.

Definition kind_eqb (a b : kind) : bool :=
  match a, b with
  | KPrivate, KPrivate | KFunction, KFunction | KBuiltin, KBuiltin | KExternal, KExternal => true
  | _, _ => false
  end.

Definition obs_eqb (a b : obs) : bool :=
  match a, b with
  | ORan k n x, ORan k' n' x' => kind_eqb k k' && N.eqb n n' && list_eqb N.eqb x x'
  | ONotFound, ONotFound | OHang, OHang | OOther, OOther => true
  | _, _ => false
  end.

Record case := { c_tables : tables; c_ctx : ctx; c_name : name; c_args : list arg; c_obs : obs }.

Definition agree (c : case) : bool :=
  obs_eqb (obs_of (resolve_cmd (c_tables c) (c_ctx c) (c_name c) (c_args c))) (c_obs c).

(* With auto-cd switched on (not part of the property text) only termination is required. *)
Definition spec_ok (c : case) : bool :=
  if autocd (c_ctx c) then negb (obs_eqb (c_obs c) OHang)
  else obs_eqb (obs_of (spec_resolve (c_tables c) (c_ctx c) (c_name c) (c_args c))) (c_obs c).

Definition classify (c : case) : N := 0%N.
