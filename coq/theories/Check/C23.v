(* C23 — case type, correspondence predicate and the property predicate evaluated on
   what the implementation did.  Depends on the model only. *)
From Murex Require Export Base.Outcome Base.Bytes Base.CheckLib Model.FuncParams.
Local Open Scope N_scope.

Record case := {
  c_sig    : list N;                                  (* the signature text, as runes *)
  c_expect : option (list param);                     (* what the generator meant (well-formed generated signatures only) *)
  c_parse  : option (list param);                     (* ParseMxFunctionParameters called directly; None = error *)
  c_panic  : bool;                                    (* ... it panicked *)
  c_args   : list (list N);                           (* arguments of the call *)
  c_conv   : list (list N * list N * option (list N));(* observed types.ConvertGoType results: (type, string) -> string form / failure *)
  c_call   : option call_obs                          (* `function f (sig) {...}; f args` ; None = not run *)
}.

(* ---------- equality on observations ---------- *)
Definition param_eqb (a b : param) : bool :=
  bytes_eqb (p_name a) (p_name b) && bytes_eqb (p_type a) (p_type b) &&
  bytes_eqb (p_desc a) (p_desc b) && bytes_eqb (p_default a) (p_default b) &&
  Bool.eqb (p_hasdef a) (p_hasdef b) && Bool.eqb (p_opt a) (p_opt b).

Definition params_eqb := list_eqb param_eqb.

Definition value_eqb (a b : value) : bool := bytes_eqb (fst a) (fst b) && bytes_eqb (snd a) (snd b).

Definition call_obs_eqb (a b : call_obs) : bool :=
  Bool.eqb (o_body a) (o_body b) && Bool.eqb (o_exit_zero a) (o_exit_zero b) &&
  list_eqb (option_eqb value_eqb) (o_vars a) (o_vars b).

Definition to_option {A} (o : Outcome A) : option A := match o with Ok a => Some a | _ => None end.

(* the conversion oracle of a case: a finite table *)
Fixpoint conv_of (tbl : list (list N * list N * option (list N))) (ty s : list N) : option (list N) :=
  match tbl with
  | [] => None
  | (t', s', r) :: tbl' => if bytes_eqb t' ty && bytes_eqb s' s then r else conv_of tbl' ty s
  end.

(* ---------- the model's prediction for a whole case ---------- *)
Definition undefined_call : call_obs := {| o_body := false; o_exit_zero := false; o_vars := [] |}.

(* None: the call would prompt for a mandatory argument (excluded from the runs) *)
Definition model_call (conv : list N -> list N -> option (list N)) (sig : list N) (args : list (list N))
  : option call_obs :=
  match parse_sig sig with
  | Ok ps => to_option (call conv ps args)
  | _ => Some undefined_call            (* `function` failed: f is not defined, the call fails *)
  end.

Definition agree (c : case) : bool :=
  option_eqb params_eqb (to_option (parse_sig (c_sig c))) (c_parse c) &&
  negb (c_panic c) &&
  match c_call c with
  | None => true
  | Some o => option_eqb call_obs_eqb (model_call (conv_of (c_conv c)) (c_sig c) (c_args c)) (Some o)
  end.

(* ---------- the property, on the observation ---------- *)

(* (1) "The signature parser accepts exactly the documented grammar": acceptance is decided by
   the automaton of the documented grammar, and a signature the generator built from a
   parameter list parses to that list. *)
Definition spec_parse (c : case) : bool :=
  negb (c_panic c) &&
  Bool.eqb (match c_parse c with Some _ => true | None => false end) (doc_accepts (c_sig c)) &&
  match c_expect c with
  | Some ps => option_eqb params_eqb (c_parse c) (Some ps)
  | None => true
  end.

(* (2) binding.  Written over the *observed* parameter list and the observed conversions. *)
Fixpoint sources (ps : list param) (args : list (list N)) : list (param * source) :=
  match ps with
  | [] => []
  | p :: ps' => (p, source_of p (hd_error args)) :: sources ps' (tl args)
  end.

Definition is_prompt (x : param * source) : bool := match snd x with Prompt => true | _ => false end.

Section Spec.
  Variable conv : list N -> list N -> option (list N).

  (* this parameter can be bound: its string converts and its name can be assigned *)
  Definition bindable (x : param * source) : bool :=
    match snd x with
    | Supplied s | FromDefault s =>
        match conv (p_type (fst x)) s with Some _ => negb (reserved (p_name (fst x))) | None => false end
    | _ => true
    end.

  (* the variable called n that the body must see: the last declared parameter of that name
     that has a value (supplied or default); none if every such parameter is unset *)
  Fixpoint expect_var (pss : list (param * source)) (n : list N) (acc : option value) : option value :=
    match pss with
    | [] => acc
    | (p, src) :: r =>
        expect_var r n
          (if bytes_eqb (p_name p) n then
             match src with
             | Supplied s | FromDefault s =>
                 match conv (p_type p) s with Some v => Some (p_type p, v) | None => acc end
             | _ => acc
             end
           else acc)
    end.

  Definition spec_call_ok (ps : list param) (args : list (list N)) (o : call_obs) : bool :=
    let pss := sources ps args in
    if existsb is_prompt pss then true            (* would prompt: outside the property *)
    else
      let ok := forallb bindable pss in
      Bool.eqb (o_body o) ok && Bool.eqb (o_exit_zero o) ok &&
      (if ok then list_eqb (option_eqb value_eqb) (o_vars o)
                           (map (fun p => expect_var pss (p_name p) None) ps)
       else true).
End Spec.

(* (3) an independent, partial statement of "converted to the declared type" for the plainest
   strings (no opinion = None): str keeps the string; a canonical decimal integer is itself as
   int and as num; a purely alphabetic word is not a number; "true"/"false" are themselves as bool. *)
Definition is_digit (r : N) : bool := (48 <=? r) && (r <=? 57).
Definition is_alpha (r : N) : bool := ((97 <=? r) && (r <=? 122)) || ((65 <=? r) && (r <=? 90)).
Definition canonical_nat (s : list N) : bool :=
  match s with
  | [] => false
  | [d] => is_digit d
  | d :: s' => is_digit d && negb (d =? 48) && forallb is_digit s' && (N.of_nat (length s) <=? 15)
  end.
Definition canonical_int (s : list N) : bool :=
  match s with
  | 45 :: (d :: _) as s' => canonical_nat s' && negb (d =? 48)
  | _ => canonical_nat s
  end.
Definition t_str := [115; 116; 114].
Definition t_int := [105; 110; 116].
Definition t_num := [110; 117; 109].
Definition t_bool := [98; 111; 111; 108].
Definition w_true := [116; 114; 117; 101].
Definition w_false := [102; 97; 108; 115; 101].
(* words ParseFloat does accept although alphabetic *)
Definition float_word (s : list N) : bool :=
  let l := map (fun r => if (65 <=? r) && (r <=? 90) then r + 32 else r) s in
  bytes_eqb l [105;110;102] || bytes_eqb l [110;97;110] || bytes_eqb l [105;110;102;105;110;105;116;121].

Definition plain_conv (ty s : list N) : option (option (list N)) :=
  if bytes_eqb ty t_str then Some (Some s)
  else if bytes_eqb ty t_int || bytes_eqb ty t_num then
    if canonical_int s then Some (Some s)
    else if nonempty s && forallb is_alpha s && negb (float_word s) then Some None
    else None
  else if bytes_eqb ty t_bool then
    if bytes_eqb s w_true || bytes_eqb s w_false then Some (Some s) else None
  else None.

Definition conv_plain_ok (tbl : list (list N * list N * option (list N))) : bool :=
  forallb (fun e => match e with (ty, s, r) =>
             match plain_conv ty s with Some r' => option_eqb bytes_eqb r r' | None => true end end) tbl.

Definition spec_ok (c : case) : bool :=
  spec_parse c &&
  conv_plain_ok (c_conv c) &&
  match c_call c with
  | None => true
  | Some o =>
      match c_parse c with
      | Some ps => spec_call_ok (conv_of (c_conv c)) ps (c_args c) o
      | None => call_obs_eqb o undefined_call
      end
  end.

(* no known findings: the four grammar defects found were fixed *)
Definition classify (c : case) : N := 0.
