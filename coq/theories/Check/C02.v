(* C02 — A pipe's data type is set once and never changes.
   Case type, correspondence predicate and the property predicate evaluated on
   what the implementation did.  Depends on the model only (Model/Streams.v, the
   same LTS of streams.Stdin as C01). *)
From Murex Require Export Base.Outcome Base.Bytes Base.CheckLib Model.Streams.
Open Scope N_scope.

(* Ctl:  a controlled run (see Check/C01.v): the harness replays the schedule on
         the real code one atomic action at a time through the yield hook.
   Free: real goroutines under the Go scheduler: getters call GetDataType before
         any type is declared; setter i then calls SetDataType on each element of
         (nth i sets) and closes.  gets = what the getters returned, final = the
         data type of the pipe at the end, hang = some GetDataType did not return
         within the deadline (the harness then cancels the pipe and gives up). *)
Inductive case :=
| Ctl (max : N) (progs : list (list op)) (sched : list nat) (obs : ctl_obs)
| Free (sets : list (list bytes)) (gets : list bytes) (final : bytes) (hang : bool).

(* ------------------------------------------------------------ equality of observations *)

Definition event_eqb (a b : event) : bool :=
  match a, b with
  | EvIdle, EvIdle | EvTau, EvTau | EvUnit, EvUnit => true
  | EvSetDT t, EvSetDT t' => bytes_eqb t t'
  | EvWrite p n e, EvWrite p' n' e' => bytes_eqb p p' && N.eqb n n' && N.eqb e e'
  | EvRead n b e, EvRead n' b' e' => N.eqb n n' && bytes_eqb b b' && N.eqb e e'
  | EvReadAll b, EvReadAll b' => bytes_eqb b b'
  | EvChunk b, EvChunk b' => bytes_eqb b b'
  | EvWriteTo t, EvWriteTo t' => N.eqb t t'
  | EvIn c, EvIn c' => bytes_eqb c c'
  | EvReadFrom t e, EvReadFrom t' e' => N.eqb t t' && N.eqb e e'
  | EvStats w r, EvStats w' r' => N.eqb w w' && N.eqb r r'
  | EvDT t, EvDT t' => bytes_eqb t t'
  | _, _ => false
  end.

Definition snap_eqb (a b : snap) : bool :=
  N.eqb (sn_w a) (sn_w b) && N.eqb (sn_r a) (sn_r b) && N.eqb (sn_len a) (sn_len b)
  && Z.eqb (sn_deps a) (sn_deps b) && Bool.eqb (sn_canc a) (sn_canc b)
  && N.eqb (sn_max a) (sn_max b) && bytes_eqb (sn_dt a) (sn_dt b).

Definition ostep_eqb (a b : ostep) : bool :=
  N.eqb (os_pt a) (os_pt b) && event_eqb (os_ev a) (os_ev b) && snap_eqb (os_sn a) (os_sn b).

Definition ctl_obs_eqb (a b : ctl_obs) : bool :=
  list_eqb ostep_eqb (co_steps a) (co_steps b) && bytes_eqb (co_buf a) (co_buf b).

(* ------------------------------------------------------------ the property, on an observation *)

(* the property text: "non-empty, non-null"; "the generic type `*`" *)
Definition lit_null : bytes := [110; 117; 108; 108].
Definition lit_generic : bytes := [42].

Definition valid_type (t : bytes) : bool := negb (is_nil t) && negb (bytes_eqb t lit_null).

(* the type declared by this step, if it declares a valid one *)
Definition declared (e : event) : bytes :=
  match e with
  | EvSetDT t => if valid_type t then t else []
  | _ => []
  end.

(* cur = the first valid type declared so far ([] = none yet).  After every step:
   - the pipe's data type is exactly cur'  (first declaration wins, never changes);
   - a GetDataType that returns at this step returns cur' if a type has been
     declared; otherwise it returns `*`, and only when all writers have closed
     (or the reader cancelled the pipe): it waited until then. *)
Fixpoint dt_ok (cur : bytes) (os : list ostep) : bool :=
  match os with
  | [] => true
  | o :: rest =>
      let cur' := if is_nil cur then declared (os_ev o) else cur in
      bytes_eqb (sn_dt (os_sn o)) cur'
      && match os_ev o with
         | EvDT t =>
             if is_nil cur' then
               bytes_eqb t lit_generic && ((sn_deps (os_sn o) <? 1)%Z || sn_canc (os_sn o))
             else bytes_eqb t cur'
         | EvPanic => false
         | EvHang => false
         | _ => true
         end
      && dt_ok cur' rest
  end.

(* "waits until a type is declared or all writers close" - and then it returns:
   a poll (yield point g.poll = 20) that finds a type declared or no writer open,
   and a context poll (g.sel = 19) after cancellation, is the step at which
   GetDataType returns. *)
Definition must_return (o : ostep) : bool :=
  if N.eqb (os_pt o) 20 then negb (is_nil (sn_dt (os_sn o))) || (sn_deps (os_sn o) <? 1)%Z
  else if N.eqb (os_pt o) 19 then sn_canc (os_sn o)
  else false.

Definition returns_ok (o : ostep) : bool :=
  if must_return o then match os_ev o with EvDT _ => true | _ => false end else true.

Definition spec_ctl (o : ctl_obs) : bool :=
  dt_ok [] (co_steps o) && forallb returns_ok (co_steps o).

(* first valid type of one setter *)
Fixpoint first_valid (l : list bytes) : bytes :=
  match l with
  | [] => []
  | t :: r => if valid_type t then t else first_valid r
  end.

Definition mem_bytes (x : bytes) (l : list bytes) : bool := existsb (bytes_eqb x) l.

(* free run: the final type is the first valid type of some setter (none: unset);
   every getter got the final type, or `*` if none was ever declared *)
Definition none_of (l : list bytes) : bool := match l with [] => true | _ => false end.

Definition spec_free (sets : list (list bytes)) (gets : list bytes) (final : bytes) (hang : bool) : bool :=
  let firsts := filter (fun t => negb (is_nil t)) (map first_valid sets) in
  negb hang
  && (if is_nil final then none_of firsts else mem_bytes final firsts)
  && forallb (fun g => bytes_eqb g (if is_nil final then lit_generic else final)) gets.

Definition spec_ok (c : case) : bool :=
  match c with
  | Ctl _ _ _ obs => spec_ctl obs
  | Free sets gets final hang => spec_free sets gets final hang
  end.

(* correspondence: the model predicts every step of a controlled run exactly;
   a free run's interleaving is unknown to the model: only that it did not hang
   (in the model GetDataType returns within two steps once a type is declared or
   all writers closed: C02_get_terminates_if) *)
Definition agree (c : case) : bool :=
  match c with
  | Ctl max progs sched obs => ctl_obs_eqb (run_ctl max progs sched) obs
  | Free _ _ _ hang => negb hang
  end.

(* known-finding classifier: none listed for C02. *)
Definition classify (c : case) : N := 0%N.
