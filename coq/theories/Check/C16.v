(* C16 — case type, correspondence predicate and the property's predicate
   evaluated on what the implementation did. Depends on the model only. *)
From Murex Require Export Base.Outcome Base.Bytes Base.CheckLib Model.Decimal Model.Index.
Open Scope Z_scope.

(* o_class: 0 ok (exit 0), 1 clean error (non-zero exit and a message),
   2 "panic caught" / crash, 3 timeout, 4 non-zero exit without a message *)
Record obs := { o_class : N; o_out : bytes; o_val : option jval }.

Record case := {
  c_fmt : fmt; c_op : op; c_legacy : bool; c_doc : jval; c_params : list bytes;
  c_obs : obs }.

(* ---------- correspondence: model's prediction = observation ---------- *)

Definition obs_matches (m : Outcome out) (o : obs) : bool :=
  match m with
  | Ok (OutScalar b) => (o_class o =? 0)%N && bytes_eqb (o_out o) b
  | Ok (OutVal v) => (o_class o =? 0)%N && option_eqb jval_eqb (o_val o) (Some v)
  | Ok OutUnmodelled => (o_class o =? 0)%N || (o_class o =? 1)%N
  | Err _ => (o_class o =? 1)%N
  | Panic => (o_class o =? 2)%N
  | OutOfFuel => (o_class o =? 3)%N
  end.

Definition agree (c : case) : bool :=
  obs_matches (run (c_fmt c) (c_op c) (c_legacy c) (c_doc c) (c_params c)) (c_obs c).

(* the observation the model predicts (used to state model_meets_spec) *)
Definition obs_of (m : Outcome out) : obs :=
  match m with
  | Ok (OutScalar b) => {| o_class := 0; o_out := b; o_val := None |}
  | Ok (OutVal v) => {| o_class := 0; o_out := []; o_val := Some v |}
  | Ok OutUnmodelled => {| o_class := 0; o_out := []; o_val := None |}
  | Err _ => {| o_class := 1; o_out := []; o_val := None |}
  | Panic => {| o_class := 2; o_out := []; o_val := None |}
  | OutOfFuel => {| o_class := 3; o_out := []; o_val := None |}
  end.

(* ---------- the property, written from its text ---------- *)

(* "element k (0-based; a negative k counts from the end) when -n <= k < n" *)
Definition spec_pick (xs : list jval) (k : Z) : option jval :=
  let n := zlen xs in
  if (- n <=? k) && (k <? n) then nth_error xs (Z.to_nat (if k <? 0 then k + n else k))
  else None.

(* the looked-up value is what was printed: scalars as their text, null as
   nothing (`[`) or as a null document (`[[`), containers as a document that
   parses back to the same value *)
Definition shows (o : obs) (v : jval) : bool :=
  (o_class o =? 0)%N &&
  match v with
  | JNull => match o_out o with [] => true | _ => option_eqb jval_eqb (o_val o) (Some JNull) end
  | JBool b => bytes_eqb (o_out o) (bool_text b)
  | JNum z => bytes_eqb (o_out o) (itoa z)
  | JStr s => bytes_eqb (o_out o) s
  | _ => option_eqb jval_eqb (o_val o) (Some v)
  end.

Definition clean_error (o : obs) : bool := (o_class o =? 1)%N.
Definition no_panic (o : obs) : bool := negb ((o_class o =? 2)%N || (o_class o =? 3)%N).

(* `[[/k]]`: one separator byte followed by an integer *)
Definition elem_single_int (path : bytes) : option Z :=
  match path with
  | sep :: r => if existsb (N.eqb sep) r then None else atoi r
  | [] => None
  end.

Definition array_clause (xs : list jval) (k : Z) (o : obs) : bool :=
  match spec_pick xs k with
  | Some v => shows o v
  | None => clean_error o
  end.

Definition exact_key (k : bytes) (kv : list (bytes * jval)) : option jval := assoc k kv.

Definition spec_obs (f : fmt) (p : op) (doc : jval) (params : list bytes) (o : obs) : bool :=
  no_panic o &&
  match f, p, doc, params with
  (* arrays: `[k]` *)
  | (FJson | FYaml), OpIndex, JArr xs, [key] =>
      match atoi key with Some k => array_clause xs k o | None => true end
  (* arrays: `[[/k]]` *)
  | (FJson | FYaml), OpElem, JArr xs, [path] =>
      match elem_single_int path with Some k => array_clause xs k o | None => true end
  (* maps: `[key]` returns that key's value *)
  | (FJson | FYaml), OpIndex, JObj kv, [key] =>
      match bracketed key, exact_key key kv with
      | None, Some v => shows o v
      | _, _ => true
      end
  (* jsonl: a list of n rows; `[k]` is row k *)
  | FJsonl, OpIndex, JArr rows, [key] =>
      match atoi key with
      | Some k =>
          if negb (bytes_eqb key (itoa k)) then true else
          match spec_pick rows k with
          | Some v => (o_class o =? 0)%N && option_eqb jval_eqb (o_val o) (Some (JArr [v]))
          | None => clean_error o
          end
      | None => true
      end
  | FJsonl, OpElem, JArr rows, [path] =>
      match elem_single_int path with
      | Some k => match spec_pick rows k with
                  | Some v => match v with
                              | JArr _ | JObj _ | JNull => (o_class o =? 0)%N
                              | _ => shows o v
                              end
                  | None => clean_error o
                  end
      | None => true
      end
  | _, _, _, _ => true
  end.

Definition spec_ok (c : case) : bool :=
  spec_obs (c_fmt c) (c_op c) (c_doc c) (c_params c) (c_obs c).

(* ---------- known findings (jsonlines is indexed as a stream / table) ---------- *)

(* 1: `[k]` with k >= number of rows prints nothing and exits 0
   2: `[-k]` (any non-digit parameter) is taken as a column name by the table indexer
   3: `[[/k]]` on rows that are all arrays ([][]string) is rejected for every k
   and one of the json marshaller:
   4: `[[/k]]` on a json array whose element k is null is an error ("no data returned") *)
Definition classify (c : case) : N :=
  match c_fmt c, c_doc c, c_params c with
  | FJson, JArr xs, [p] =>
      match c_op c, elem_single_int p with
      | OpElem, Some k =>
          match spec_pick xs k with
          | Some JNull => if (o_class (c_obs c) =? 1)%N then 4%N else 0%N
          | _ => 0%N
          end
      | _, _ => 0%N
      end
  | FJsonl, JArr rows, [p] =>
      if no_panic (c_obs c) then
        match c_op c with
        | OpIndex =>
            match atoi p with
            | Some k =>
                if all_digits p && (zlen rows <=? k) && (o_class (c_obs c) =? 0)%N then 1%N
                else if negb (all_digits p) && (k <? 0) then 2%N
                else 0%N
            | None => 0%N
            end
        | OpElem =>
            match rows, elem_single_int p with
            | _ :: _, Some k =>
                if forallb is_arr rows && (- zlen rows <=? k) && (k <? zlen rows)
                   && (o_class (c_obs c) =? 1)%N then 3%N else 0%N
            | _, _ => 0%N
            end
        | OpNot => 0%N
        end
      else 0%N
  | _, _, _ => 0%N
  end.
