(* C13 — case type, correspondence predicate and property predicate.
   Depends on the model only. *)
From Murex Require Export Base.Outcome Base.Bytes Base.CheckLib Model.Num.
Local Open Scope N_scope.

(* how a value travels through murex variables:
     T0  set <type> v = TEXT; out $v
     T1  set <type> v = TEXT; set <type> w = $v; out $w
     T2  set <type> v = TEXT; x = $v; out $x            (expression use)
     T3  set int v = TEXT; x = $v + 0; out $x           (integer only: arithmetic, in float64) *)
Inductive tmpl := T0 | T1 | T2 | T3.

Inductive case :=
(* ConvertGoType(int z, str) gave s; ConvertGoType(s, int) gave back *)
| CInt (z : Z) (s : bytes) (back : Outcome Z)
(* ConvertGoType(s, int) gave r, for s in decimal integer syntax with optional white space *)
| CStrInt (s : bytes) (r : Outcome Z)
| CBool (b : bool) (s : bytes) (back : bool)
| CStrBool (s : bytes) (r : bool)
(* ConvertGoType(float f, int) gave r  (int(f); not part of the property) *)
| CFloatInt (f : fbits) (r : Outcome Z)
(* ConvertGoType(float f, str) gave s; ConvertGoType(s, num|float) gave back;
   library: FormatFloat(f,'f',-1,64) = lib_fmt, ParseFloat(lib_arg) = lib_parse *)
| CNum (f : fbits) (s : bytes) (back : Outcome fbits) (lib_fmt lib_arg : bytes) (lib_parse : option fbits)
| CStrNum (s : bytes) (r : Outcome fbits) (lib_arg : bytes) (lib_parse : option fbits)
(* through murex variables; stdout of the block *)
(* text = the value's string form as written into the block by the harness (strconv.Itoa / true|false) *)
| CMxInt (t : tmpl) (z : Z) (text : bytes) (stdout : Outcome bytes)
| CMxBool (t : tmpl) (b : bool) (text : bytes) (stdout : Outcome bytes)
(* text = FormatFloat f (by the harness); lib_rt = FormatFloat(ParseFloat(text)) *)
| CMxNum (t : tmpl) (f : fbits) (text lib_rt : bytes) (stdout : Outcome bytes).

Definition oz_eqb (a b : Outcome Z) : bool :=
  match a, b with
  | Ok x, Ok y => Z.eqb x y
  | _, _ => N.eqb (oclass a) (oclass b) && negb (is_ok a)
  end.
Definition on_eqb (a b : Outcome N) : bool :=
  match a, b with
  | Ok x, Ok y => N.eqb x y
  | _, _ => N.eqb (oclass a) (oclass b) && negb (is_ok a)
  end.
Definition ob_eqb (a b : Outcome bytes) : bool :=
  match a, b with
  | Ok x, Ok y => bytes_eqb x y
  | _, _ => N.eqb (oclass a) (oclass b) && negb (is_ok a)
  end.

Definition line (s : bytes) : bytes := s ++ [10].

(* what `out` prints at the end of the templates, for an integer written as text *)
Definition mx_int (t : tmpl) (text : bytes) : Outcome bytes :=
  match int_of_string text with
  | Ok z =>
      match t with
      | T3 => (* float64 arithmetic then FormatFloat: exact digits only below 2^53 *)
              if (Z.leb (Z.abs z) (2 ^ 53))%Z then Ok (line (itoa (round53 z))) else Err 4
      | _ => Ok (line (itoa z))
      end
  | Err k => Err k
  | Panic => Panic
  | OutOfFuel => OutOfFuel
  end.

Definition mx_bool (t : tmpl) (text : bytes) : Outcome bytes :=
  Ok (line (string_of_bool (bool_of_string text))).

(* ---------- correspondence ---------- *)
Definition agree (c : case) : bool :=
  match c with
  | CInt z s back => bytes_eqb s (string_of_int z) && oz_eqb back (int_of_string s)
  | CStrInt s r => oz_eqb r (int_of_string s)
  | CBool b s back => bytes_eqb s (string_of_bool b) && Bool.eqb back (bool_of_string s)
  | CStrBool s r => Bool.eqb r (bool_of_string s)
  | CFloatInt f r => oz_eqb r (Ok (int_of_float_bits f))
  | CNum f s back lib_fmt lib_arg lib_parse =>
      bytes_eqb s (string_of_num (fun _ => lib_fmt) f)
      && bytes_eqb (num_parse_arg s) lib_arg
      && on_eqb back (num_of_string (fun _ => lib_parse) s)
  | CStrNum s r lib_arg lib_parse =>
      bytes_eqb (num_parse_arg s) lib_arg && on_eqb r (num_of_string (fun _ => lib_parse) s)
  | CMxInt t z text stdout => bytes_eqb text (itoa z) && ob_eqb stdout (mx_int t text)
  | CMxBool t b text stdout => bytes_eqb text (string_of_bool b) && ob_eqb stdout (mx_bool t text)
  | CMxNum t f text lib_rt stdout => ob_eqb stdout (Ok (line lib_rt))
  end.

(* ---------- the property, on what the implementation did ---------- *)
Definition below_2_53 (z : Z) : bool := (Z.ltb (Z.abs z) (2 ^ 53))%Z.

Definition spec_ok (c : case) : bool :=
  match c with
  | CInt z s back => if below_2_53 z then oz_eqb back (Ok z) else true
  | CStrInt _ _ => true
  | CBool b s back => Bool.eqb back b
  | CStrBool _ _ => true
  | CFloatInt _ _ => true
  | CNum f s back _ _ _ => if is_finite f then on_eqb back (Ok f) else true
  | CStrNum _ _ _ _ => true
  (* through variables the string form comes back unchanged *)
  | CMxInt t z text stdout => if below_2_53 z then ob_eqb stdout (Ok (line text)) else true
  | CMxBool t b text stdout => ob_eqb stdout (Ok (line text))
  | CMxNum t f text lib_rt stdout => if is_finite f then ob_eqb stdout (Ok (line text)) else true
  end.

(* no known finding for C13 *)
Definition classify (c : case) : N := 0%N.
