(* C10 -- Escaped command lines parse back to the original argv.
   Case type, correspondence predicate, property predicate. *)
From Murex Require Export Base.Outcome Base.Bytes Base.CheckLib Model.StmtParse.
From Murex Require Import Gen.AnsiConsts Gen.NoTokenise Gen.EscapeTable.
Open Scope N_scope.

Record obs := {
  o_cmdline : bytes;     (* escape.CommandLine + strings.Join, as argvToCmdLineStr does *)
  o_same : bool;         (* the real argvToCmdLineStr (murex binary) and esccli gave the same text (or not run) *)
  o_kind : N;            (* 0 parsed, 1 clean error, 2 panic, 3 taken as an expression *)
  o_nfuncs : N;
  o_rawlen : N;
  o_cmd : bytes;
  o_params : list bytes;
  o_e2e : bool           (* $PARAMS after `murex --execute ...` style execution agreed (or not run) *)
}.

Record case := { k_argv : list bytes; k_home : bytes; k_nocolour : bool; k_obs : obs }.

Definition mk_cfg (home : bytes) (nocolour : bool) : cfg :=
  {| c_home := home; c_ansi := ansi_table ansi_constants ansi_sgr nocolour;
     c_notok := no_tokenise_cmds |}.

Definition no_env : env := {| e_scalars := []; e_arrays := [] |}.
Definition cmdline (argv : list bytes) : bytes := escape_join escape_pairs cmdline_sep argv.
Definition params_eqb := list_eqb bytes_eqb.

Definition agree (c : case) : bool :=
  let o := k_obs c in
  let line := cmdline (k_argv c) in
  let n := N.of_nat (length line) in
  argv_shape_ok && bytes_eqb (o_cmdline o) line && o_same o &&
  (match block_first (mk_cfg (k_home c) (k_nocolour c)) no_env line with
   | Ok r =>
     if negb (Nat.eqb (r_rest r) 0) && (o_kind o =? 1) && (o_nfuncs o =? 0) then true else
     (o_kind o =? 0) && bytes_eqb (o_cmd o) (r_cmd r) && params_eqb (o_params o) (r_params r) &&
     (o_rawlen o =? n - N.of_nat (r_rest r)) &&
     (if Nat.eqb (r_rest r) 0 then o_nfuncs o =? 1 else true) && o_e2e o
   | Err k => if k =? 1 then (o_kind o =? 1) else true
   | _ => false
   end).

(* the property: one statement, its command and parameters are the argv *)
Definition spec_ok (c : case) : bool :=
  let o := k_obs c in
  match k_argv c with
  | [] => true
  | cmd :: args =>
    (o_kind o =? 0) && (o_nfuncs o =? 1) && (o_rawlen o =? N.of_nat (length (o_cmdline o))) &&
    bytes_eqb (o_cmd o) cmd && params_eqb (o_params o) args && o_e2e o && o_same o
  end.

(* ---- known findings (F10): what escape.CommandLine does not cover ---- *)
Fixpoint has_meta (s : bytes) : bool :=
  match s with
  | [] => false
  | c :: r =>
    (c =? 59) || (c =? 123) || (c =? 125) || (c =? 126) || (c =? 96) ||
    ((c =? 38) && (hd0 r =? 38)) ||
    ((c =? 37) && ((hd0 r =? 91) || (hd0 r =? 123))) ||
    has_meta r
  end.
Definition is_nil (s : bytes) : bool := match s with [] => true | _ => false end.

Definition classify (c : case) : N :=
  match k_argv c with
  | [] => 0
  | _ :: args =>
    if existsb has_meta args then 1          (* ; { } ~ ` && %[ %{ are not escaped *)
    else if existsb is_nil args then 2       (* an empty argument vanishes *)
    else match args with
         | a :: _ => if assign_start (escape_arg escape_pairs a) then 3 else 0
                     (* `cmd = x`: the line is taken by the expression parser *)
         | [] => 0
         end
  end.

Definition model_obs (cf : cfg) (argv : list bytes) : obs :=
  let line := cmdline argv in
  match block_first cf no_env line with
  | Ok r => {| o_cmdline := line; o_same := true; o_kind := 0; o_nfuncs := if Nat.eqb (r_rest r) 0 then 1 else 2;
               o_rawlen := N.of_nat (length line) - N.of_nat (r_rest r);
               o_cmd := r_cmd r; o_params := r_params r; o_e2e := true |}
  | _ => {| o_cmdline := line; o_same := true; o_kind := 1; o_nfuncs := 0; o_rawlen := 0;
            o_cmd := []; o_params := []; o_e2e := true |}
  end.
Definition model_case (argv : list bytes) (home : bytes) (nc : bool) : case :=
  {| k_argv := argv; k_home := home; k_nocolour := nc; k_obs := model_obs (mk_cfg home nc) argv |}.
