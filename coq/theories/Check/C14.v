(* C14 — format preserves structured data between formats.
   Case type, correspondence predicate and the property predicate evaluated on
   what the implementation printed. *)
From Murex Require Export Base.Outcome Base.Bytes Base.CheckLib Model.Alter Model.Format.

Record case := {
  c_fmt : fmt;
  c_doc : json;             (* the JSON value fed to  format X -> format json *)
  c_kind : N;               (* 0 both pipelines ran clean, 1 an error was reported, 2 crash / hang *)
  c_mid_ok : bool;          (* `format X` alone ran clean *)
  c_mid : bytes;            (* its output *)
  c_out : option json       (* output of the whole pipeline parsed as JSON *)
}.

Definition ojson_eqb := option_eqb json_eqb.

(* ---------- correspondence ---------- *)
Definition mid_agrees (c : case) : bool :=
  match c_fmt c, c_doc c with
  | FCsv, JArr ms => match maps_to_table ms with
                     | Some t => c_mid_ok c && bytes_eqb (c_mid c) (wtable t)
                     | None => true
                     end
  | _, _ => true
  end.

Definition agree (c : case) : bool :=
  match format_rt (c_fmt c) (c_doc c) with
  | Ok v => N.eqb (c_kind c) 0 && ojson_eqb (c_out c) (Some v) && mid_agrees c
  | Err _ => N.eqb (c_kind c) 1
  | _ => false
  end.

(* ---------- walking a document ---------- *)
(* does some string of the document (object keys if ks, string values if vs)
   satisfy P *)
Fixpoint any_str (P : bytes -> bool) (ks vs : bool) (v : json) : bool :=
  match v with
  | JStr s => vs && P s
  | JArr l => (fix go (l : list json) : bool :=
                 match l with [] => false | x :: l' => any_str P ks vs x || go l' end) l
  | JObj o => (fix go (o : list (bytes * json)) : bool :=
                 match o with
                 | [] => false
                 | (k, x) :: o' => (ks && P k) || any_str P ks vs x || go o'
                 end) o
  | _ => false
  end.

Fixpoint has_null (v : json) : bool :=
  match v with
  | JNull => true
  | JArr l => (fix go (l : list json) : bool :=
                 match l with [] => false | x :: l' => has_null x || go l' end) l
  | JObj o => (fix go (o : list (bytes * json)) : bool :=
                 match o with [] => false | (_, x) :: o' => has_null x || go o' end) o
  | _ => false
  end.

(* ---------- the values each format can represent ---------- *)
Definition is_str (v : json) : bool := match v with JStr _ => true | _ => false end.

(* a rectangular table of string cells with at least one column *)
Definition is_record (hdr : list bytes) (v : json) : bool :=
  match v with
  | JObj o => list_eqb bytes_eqb (map fst o) hdr && forallb (fun kv => is_str (snd kv)) o
  | _ => false
  end.

Definition is_table (ms : list json) : bool :=
  match ms with
  | [] => true
  | JObj o :: _ => negb (Nat.eqb (length o) 0) && forallb (is_record (map fst o)) ms
  | _ => false
  end.

Definition representable (f : fmt) (doc : json) : bool :=
  match f with
  | FYaml => true                                      (* any JSON value *)
  | FToml => match doc with JObj _ => negb (has_null doc) | _ => false end   (* maps; TOML has no null *)
  | FJsonl => is_arr doc                               (* arrays *)
  | FCsv => match doc with JArr ms => is_table ms | _ => false end
  end.

(* ---------- the property, on the observation ---------- *)
Definition spec_ok (c : case) : bool :=
  if representable (c_fmt c) (c_doc c)
  then N.eqb (c_kind c) 0 && ojson_eqb (c_out c) (Some (c_doc c))
  else true.

(* ---------- known findings (narrow predicates on the input) ---------- *)
Definition starts_with (b : N) (s : bytes) : bool :=
  match s with c :: _ => N.eqb c b | [] => false end.

Definition first_cells (ms : list json) : list bytes :=
  match ms with
  | JObj ((k, _) :: _) :: _ =>
      k :: map (fun m => match m with JObj ((_, JStr s) :: _) => s | _ => [] end) ms
  | _ => []
  end.

Definition one_column_with_empty (ms : list json) : bool :=
  match ms with
  | JObj [(k, _)] :: _ =>
      Nat.eqb (length k) 0 ||
      existsb (fun m => match m with JObj [(_, JStr [])] => true | _ => false end) ms
  | _ => false
  end.

Definition rows_with_nonstring (es : list json) : bool :=
  existsb (fun e => match e with JArr l => negb (forallb is_str l) | _ => false end)
          (fst (lead_rows es)).

Definition has_byte (b : N) (s : bytes) : bool := existsb (N.eqb b) s.

Definition yaml_fragile (s : bytes) : bool :=
  has_byte 10 s && (starts_with 10 s || starts_with 9 s || starts_with 32 s).

Definition toml_bad_key (k : bytes) : bool :=
  Nat.eqb (length k) 0 || existsb (fun c => (c =? 34) || (c =? 92) || (c =? 91) || (c =? 93) || (c <? 32) || (c =? 127))%N k.

Definition classify (c : case) : N :=
  match c_fmt c, c_doc c with
  | FCsv, JArr ms =>
      if existsb (starts_with 35) (first_cells ms) then 1      (* comment character *)
      else if one_column_with_empty ms then 2                  (* blank line *)
      else if any_str (has_byte 13) true true (c_doc c) then 3 (* \r\n read as \n *)
      else 0
  | FJsonl, JArr es =>
      if rows_with_nonstring es then 4                         (* table heuristic stringifies *)
      else match es with [] => 5 | _ => 0 end                  (* empty array: nothing written *)
  | FYaml, doc =>
      if is_null doc then 7                                    (* top-level null: "no data" *)
      else if any_str yaml_fragile true true doc then 6        (* yaml.v3 block scalar with leading blank line *)
      else 0
  | FToml, doc =>
      if any_str toml_bad_key true false doc then 8            (* toml encoder does not escape keys *)
      else 0
  | _, _ => 0
  end%N.
