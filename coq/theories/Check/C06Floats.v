(* Imported by the generated cases files of C06 after Check.C06: brings in
   Coq's primitive-float literals and constants, then re-exports Check.C06 so
   that its names (classify, ...) are the visible ones. *)
From Coq Require Export Floats.
From Murex Require Export Check.C06.
