(* C20 — Parsing any text terminates without panicking.
   Two kinds of cases: the tokenizer (utils/parser.Parse, any pos) and the block
   parser (lang/expressions ParseBlock) with the recorded results of its
   sub-parsers. Depends on the models only. *)
From Murex Require Export Base.Outcome Base.Bytes Base.CheckLib Model.Tokenizer Model.BlockParse.
Local Open Scope N_scope.

(* kind: 0 returned normally, 1 returned a (syntax) error, 2 panicked, 3 did not return *)
Inductive case :=
| TokCase (src : list N) (pos : Z) (kind : N) (hl : list N)
| BlkCase (src : list N) (orc : oracle) (kind : N) (nfn : N).

Definition agree (c : case) : bool :=
  match c with
  | TokCase src pos kind hl =>
      match parse src pos with
      | Ok r => (kind =? 0) && runes_eqb (render (r_hl r)) hl
      | o => oclass o =? kind
      end
  | BlkCase src orc kind nfn =>
      match parse_block src orc with
      | Ok n => (kind =? 0) && (n =? nfn)
      | o => oclass o =? kind
      end
      && contract_b src orc        (* the stop-set contract of the theorem holds on the recorded tables *)
  end.

Definition ores_returns (r : ores) : bool :=
  match r with OPanic | OHang => false | _ => true end.

(* every pre-parser call at a position where ParseBlock(src[p:]) would start with
   exactly that call returned (value or error) *)
Definition subparsers_return (src : list N) (orc : oracle) : bool :=
  forallb (fun p =>
    (negb (callable src p) || ores_returns (ores_at (o_pre orc) p)) &&
    (negb (known_site src p) || ores_returns (ores_at (o_known orc) p)))
    (positions (length src) 0%Z).

(* The property on the observation: the parser returned — a tree or an error —
   it did not panic and did not hang. *)
Definition spec_ok (c : case) : bool :=
  match c with
  | TokCase _ _ kind _ => kind =? 0
  | BlkCase src orc kind _ => ((kind =? 0) || (kind =? 1)) && subparsers_return src orc
  end.

(* known-finding classifier: none. *)
Definition classify (c : case) : N := 0%N.
