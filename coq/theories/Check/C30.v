(* C30 — case type, correspondence predicate and the property predicate evaluated on what
   the implementation returned.

   A case is a history of cache operations on a fresh temp database, each with the wall-clock
   second at which the harness performed it, and what the real package returned: for a Read
   whether a value came back and its JSON text; for Trim / Clear the reported keys per
   namespace and layer (compared as sets: Go map order and SQLite row order are not
   observables). *)
From Murex Require Export Base.Bytes Base.CheckLib Model.Cache.
Open Scope Z_scope.

Record step := { st_now : Z; st_op : op; st_obs : result }.
Record case := { c_ns : list bytes; c_steps : list step }.

Definition history (c : case) : list (Z * op) := map (fun s => (st_now s, st_op s)) (c_steps c).

Definition mem (x : bytes) (l : list bytes) : bool := existsb (bytes_eqb x) l.
Definition set_eqb (a b : list bytes) : bool :=
  Nat.eqb (length a) (length b) && forallb (fun x => mem x b) a && forallb (fun x => mem x a) b.

Definition result_eqb (a b : result) : bool :=
  match a, b with
  | RNone, RNone => true
  | RRead x, RRead y => option_eqb bytes_eqb x y
  | RKeys x, RKeys y =>
    list_eqb (fun p q => bytes_eqb (fst (fst p)) (fst (fst q))
                         && set_eqb (snd (fst p)) (snd (fst q)) && set_eqb (snd p) (snd q)) x y
  | _, _ => false
  end.

Definition agree (c : case) : bool :=
  list_eqb result_eqb (results list_db (c_ns c) (history c)) (map st_obs (c_steps c)).

(* ---- the property, written backwards from the read ----
   Walk from the read towards the past.  The first Write to the same namespace AND key decides:
   its value is returned iff its TTL has not expired (ttl > now), it was not cleared, and it
   was not trimmed after it had expired (a Trim at time t removes rows with ttl < t).  Writes
   to any other key or namespace are skipped.  No such write: nothing is returned. *)
Definition killed (tmax : option Z) (ttl : Z) : bool :=
  match tmax with Some m => ttl <? m | None => false end.
Definition bump (tmax : option Z) (t : Z) : option Z :=
  match tmax with Some m => Some (Z.max m t) | None => Some t end.

Fixpoint expect_rev (all_ns : list bytes) (hr : list (Z * op)) (k : key2)
         (dead : bool) (tmax : option Z) (now : Z) : option bytes :=
  match hr with
  | [] => None
  | (t, o) :: hr' =>
    match o with
    | Write k' v ttl =>
      if key2_eqb k' k
      then (if dead || killed tmax ttl || negb (now <? ttl) || is_empty v then None else Some v)
      else expect_rev all_ns hr' k dead tmax now
    | Read _ => expect_rev all_ns hr' k dead tmax now
    | Trim => expect_rev all_ns hr' k dead (if mem (fst k) all_ns then bump tmax t else tmax) now
    | Clear => expect_rev all_ns hr' k (dead || mem (fst k) all_ns) tmax now
    end
  end.

(* hr: the operations before the remaining steps, newest first *)
Fixpoint spec_steps (all_ns : list bytes) (hr : list (Z * op)) (steps : list step) : bool :=
  match steps with
  | [] => true
  | s :: ss =>
    (match st_op s, st_obs s with
     | Read k, RRead r => option_eqb bytes_eqb r (expect_rev all_ns hr k false None (st_now s))
     | Read _, _ => false
     | _, _ => true
     end) && spec_steps all_ns ((st_now s, st_op s) :: hr) ss
  end.

Definition spec_ok (c : case) : bool := spec_steps (c_ns c) [] (c_steps c).

Fixpoint zip_steps (h : list (Z * op)) (rs : list result) : list step :=
  match h, rs with
  | (t, o) :: h', r :: rs' => {| st_now := t; st_op := o; st_obs := r |} :: zip_steps h' rs'
  | _, _ => []
  end.

Definition mk_case (ns : list bytes) (h : list (Z * op)) (rs : list result) : case :=
  {| c_ns := ns; c_steps := zip_steps h rs |}.

Definition classify (c : case) : N := 0%N.
