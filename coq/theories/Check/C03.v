(* C03 — case type, correspondence predicate and property predicate.
   A case is one generated program together with the distinct observations made
   over all the perturbed in-process runs of it. *)
From Murex Require Export Base.Outcome Base.Bytes Base.CheckLib Model.Pipeline.

(* what one run of Fork.Execute showed *)
Record obs := mko { o_out : bytes; o_err : bytes; o_exit : Z; o_hang : bool }.

Record case := mkcase {
  c_prog : lprog;          (* the program, in the modelled vocabulary ([] when c_modelled = false) *)
  c_modelled : bool;       (* false: wider vocabulary (if/switch/functions/variables/try ...),
                              no byte-level prediction, only run-to-run equality is judged *)
  c_runs : list obs        (* the distinct observations over all runs, first run first *)
}.

Definition obs_eqb (a b : obs) : bool :=
  bytes_eqb (o_out a) (o_out b) && bytes_eqb (o_err a) (o_err b) &&
  Z.eqb (o_exit a) (o_exit b) && Bool.eqb (o_hang a) (o_hang b).

Definition obs_of (r : result) : obs :=
  match r with (o, e, x) => mko o e x false end.

(* canonical-scheduler fuel for the prediction: far above what generated programs need *)
Definition c03_fuel : nat := 200 * 200.

(* correspondence: every observed run equals the model's (schedule independent) prediction,
   and the program is inside the modelled domain *)
Definition agree (c : case) : bool :=
  if c_modelled c && lguard (c_prog c) then
    match lpredict c03_fuel (c_prog c) with
    | Ok r => forallb (obs_eqb (obs_of r)) (c_runs c)
    | _ => false
    end
  else true.    (* outside the model's domain there is no prediction; spec_ok still judges *)

(* The property, on the observations alone: the program finished in every run, and
   stdout bytes, stderr bytes and exit number were the same in every run. *)
Definition spec_ok (c : case) : bool :=
  match c_runs c with
  | [] => false
  | r :: rs => negb (o_hang r) && forallb (obs_eqb r) rs
  end.

(* known finding 1: two foreach stages of one pipeline iterate over the same variable name;
   the variable lives in the shared function scope, the stages run concurrently, so the
   bytes depend on the schedule.  A predicate on the input only. *)
Definition classify (c : case) : N :=
  if c_modelled c && shares_loop_var (c_prog c) then 1%N else 0%N.
