(* C37 — Syntax highlighting never changes the typed text.
   Case type, correspondence predicate and property predicate evaluated on what
   the implementation returned. Depends on the model only. *)
From Murex Require Export Base.Outcome Base.Bytes Base.CheckLib Model.Tokenizer.
Local Open Scope N_scope.

(* input: the typed line as runes.
   observation: the highlighted string returned by parser.Parse(line, 0) converted
   to runes ([]rune(s)); the same string with ANSI colour codes removed by the
   harness' own regexp (\x1b\[[0-9;]*m); whether the call panicked. *)
Record case := { c_src : list N; c_hl : list N; c_stripped : list N; c_panic : bool }.

(* correspondence: the model predicts the highlighted string rune for rune *)
Definition agree (c : case) : bool :=
  match highlight (c_src c) with
  | Ok h => negb (c_panic c) && runes_eqb h (c_hl c)
  | Panic => c_panic c
  | _ => false
  end.

(* The property speaks of command lines: text that is valid Unicode (Go's
   string(rune) replaces anything else by U+FFFD by definition) and that does not
   itself contain the ESC control character (otherwise "removing the colour codes"
   is not well defined: typed text would be removed too). *)
Definition typed_text (src : list N) : bool :=
  forallb valid_rune src && negb (existsb (N.eqb 27) src).

(* The property, on the implementation's output: removing the colour codes —
   with the Coq definition [strip] AND as done by the harness' regexp — gives the
   typed line back exactly. *)
Definition spec_hl (src hl stripped : list N) (panicked : bool) : bool :=
  if typed_text src
  then negb panicked && runes_eqb (strip hl) src && runes_eqb stripped src
  else true.

Definition spec_ok (c : case) : bool := spec_hl (c_src c) (c_hl c) (c_stripped c) (c_panic c).

(* known-finding classifier: none (the `\->` defect is fixed). *)
Definition classify (c : case) : N := 0%N.
