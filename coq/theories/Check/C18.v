(* C18 — case type, correspondence predicate and the property's predicate
   evaluated on what the implementation did. Depends on the model only. *)
From Murex Require Export Base.Outcome Base.Bytes Base.CheckLib Model.Decimal Model.MkArray Model.MkArrayParse.
Open Scope Z_scope.

(* o_class: 0 ok, 1 clean error, 2 panic / crash, 3 timeout, 4 exit 0 but
   stdout is not a list (lines for `a`, a JSON array for `ja`) *)
Record obs := { o_class : N; o_items : list bytes }.

(* c_ja: false = `a` (one element per line), true = `ja` (JSON array; numbers
   are compared by their literal text).
   c_raw: the parameter bytes handed to the builtin.
   c_expr: the expression the harness rendered c_raw from (None: the malformed stream). *)
Record case := { c_ja : bool; c_raw : bytes; c_expr : option expr; c_obs : obs }.

Definition items_eqb := list_eqb bytes_eqb.

Definition obs_matches (m : Outcome (list bytes)) (o : obs) : bool :=
  match m with
  | Ok l => (o_class o =? 0)%N && items_eqb (o_items o) l
  | Err _ => (o_class o =? 1)%N
  | Panic => (o_class o =? 2)%N
  | OutOfFuel => (o_class o =? 3)%N
  end.

Definition agree (c : case) : bool := obs_matches (run_expr (c_ja c) (c_raw c)) (c_obs c).

Definition obs_of (m : Outcome (list bytes)) : obs :=
  match m with
  | Ok l => {| o_class := 0; o_items := l |}
  | Err _ => {| o_class := 1; o_items := [] |}
  | Panic => {| o_class := 2; o_items := [] |}
  | OutOfFuel => {| o_class := 3; o_items := [] |}
  end.

(* ---------- the property, written from its text ---------- *)

(* every integer from m to n inclusive, ascending or descending *)
Definition zrange (m n : Z) : list Z :=
  if m <=? n then map (fun k => m + Z.of_nat k) (seq 0 (Z.to_nat (n - m + 1)))
  else map (fun k => m - Z.of_nat k) (seq 0 (Z.to_nat (m - n + 1))).

Definition zero_padded (s : bytes) : bool :=
  match s with 48%N :: _ :: _ => true | _ => false end.

(* the text of one number: padded with zeros to the width of the zero-padded
   lower bound; plain decimal when no bound is zero-padded; None when only the
   upper bound is zero-padded (the documentation does not say) *)
Definition spec_range (lo hi : bytes) : option (list bytes) :=
  match atoi lo, atoi hi with
  | Some m, Some n =>
      let low_text := if m <? n then lo else hi in
      let high_text := if m <? n then hi else lo in
      if zero_padded low_text then Some (map (pad (length low_text)) (zrange m n))
      else if zero_padded high_text then None
      else Some (map itoa (zrange m n))
  | _, _ => None
  end.

Fixpoint spec_block (es : list elem) : option (list bytes) :=
  match es with
  | [] => Some []
  | EStr s :: r => match spec_block r with Some vs => Some (s :: vs) | None => None end
  | ERange lo hi :: r =>
      match spec_range lo hi, spec_block r with
      | Some a, Some vs => Some (a ++ vs)
      | _, _ => None
      end
  | EBad _ :: _ => None
  end.

(* cartesian product in odometer order: the last block varies fastest *)
Fixpoint spec_group (g : group) : option (list bytes) :=
  match g with
  | [] => Some [[]]
  | SLit s :: r => match spec_group r with Some rest => Some (map (app s) rest) | None => None end
  | SBlock [] :: _ => None                 (* the parser never produces a block without an element *)
  | SBlock es :: r =>
      match spec_block es, spec_group r with
      | Some vals, Some rest => Some (flat_map (fun v => map (app v) rest) vals)
      | _, _ => None
      end
  end.

Fixpoint spec_expr (e : expr) : option (list bytes) :=
  match e with
  | [] => Some []
  | g :: r => match spec_group g, spec_expr r with
              | Some a, Some b => Some (a ++ b)
              | _, _ => None
              end
  end.

Definition no_panic (o : obs) : bool := negb ((o_class o =? 2)%N || (o_class o =? 3)%N).

(* The property speaks about expressions; the harness states which expression a
   byte string spells (checked here against print_expr, not against the parser).
   For byte strings that spell nothing (malformed stream) only "no panic, no hang". *)
Definition spec_ok (c : case) : bool :=
  no_panic (c_obs c) &&
  match c_expr c with
  | None => true
  | Some e =>
      bytes_eqb (print_expr e) (c_raw c) &&
      match spec_expr e with
      | Some l => (o_class (c_obs c) =? 0)%N && items_eqb (o_items (c_obs c)) l
      | None => true
      end
  end.

(* known finding 1: `ja` on a single [..] of digit strings / digit ranges writes
   numbers and drops empty elements (`ja [1,,2]` = [1,2]; `ja [,]` = "no data") *)
Definition is_empty_str (e : elem) : bool := match e with EStr [] => true | _ => false end.

Definition classify (c : case) : N :=
  match c_expr c with
  | Some [[SBlock es]] =>
      if c_ja c && is_number_expr (c_raw c) && existsb is_empty_str es then 1%N else 0%N
  | _ => 0%N
  end.
