(* C07 — case type, correspondence predicate and property predicate.
   Re-uses the observation type and the C06 operator specification of Check/C06.v
   (which depends on Model/ and Base/ only). *)
From Coq Require Import Floats.
From Murex Require Export Base.Outcome Base.Bytes Base.CheckLib Model.Expr Model.ExprSpec Model.ExprBuiltins Check.C06.

(* how one value fared in the five places that test truthiness *)
Record truth_obs := {
  t_ok : bool;      (* every probe produced a readable answer *)
  t_and : bool;     (* (v && true) *)
  t_or : bool;      (* (v || false) *)
  t_elvis : bool;   (* (v ?: 'ALT') returned v *)
  t_if : bool;      (* if { <v> } took the then-branch *)
  t_not : bool      (* <v> -> ! printed false *)
}.

Inductive case :=
| CaseExpr (ts : list ptok) (orc : oracles) (o : obs)
| CaseTruth (v : value) (t : truth_obs)
| CaseBuiltin (b : builtin) (neg : bool) (cs : list cond) (o : bobs).

Definition bobs_eqb (a b : bobs) : bool :=
  Bool.eqb (bo_ok a) (bo_ok b) && Bool.eqb (bo_flag a) (bo_flag b) &&
  Z.eqb (bo_exit a) (bo_exit b) && N.eqb (bo_count a) (bo_count b).

Definition agree (c : case) : bool :=
  match c with
  | CaseExpr ts orc o => obs_eqb (obs_of (eval_expr orc ts)) o
  | CaseTruth v t =>
    t_ok t &&
    Bool.eqb (t_and t) (truthy_logic v) && Bool.eqb (t_or t) (truthy_logic v) &&
    Bool.eqb (t_elvis t) (truthy_elvis v) &&
    Bool.eqb (t_if t) (truthy_logic v) && Bool.eqb (t_not t) (truthy_logic v)
  | CaseBuiltin b neg cs o => bobs_eqb (run_builtin b neg cs) o
  end.

(* ---- the property, written from its text ---- *)

(* "Empty, 0, null, false, no, off, fail, failed and disabled (trimmed,
   case-insensitive) are false" *)
Definition spec_false_words : list bytes :=
  [ [48]; [110;117;108;108]; [102;97;108;115;101]; [110;111]; [111;102;102];
    [102;97;105;108]; [102;97;105;108;101;100]; [100;105;115;97;98;108;101;100] ]%N.

Definition spec_truthy_str (s : bytes) : bool :=
  let w := map lower (trim s) in
  match w with
  | [] => false
  | _ => negb (existsb (bytes_eqb w) spec_false_words)
  end.

(* a value is tested through its text: a number is written the way murex
   prints it, which is "0" exactly for +0; null is empty *)
Definition spec_truthy (v : value) : bool :=
  match v with
  | VStr s => spec_truthy_str s
  | VBool b => b
  | VNull => false
  | VNum f => negb (is_pos_zero f)
  end.

Definition spec_apply07 (orc : oracles) (o : sym) (a b : value) : option value :=
  match o with
  | And => Some (VBool (spec_truthy a && spec_truthy b))
  | Or => Some (VBool (spec_truthy a || spec_truthy b))
  | Elvis => Some (if spec_truthy a then a else b)
  | NullCo => Some (match a with VNull => b | _ => a end)
  | _ => spec_apply orc o a b
  end.

Definition reference07 (orc : oracles) (ts : list ptok) : option value :=
  match parse_expr ts with
  | Some t => eval_top (spec_apply07 orc) t
  | None => None
  end.

(* ---- statement-level builtins: "truthiness is the same everywhere ... and so is
   any non-zero exit [false]". A condition holds when its block is truthy (its
   exit number is not positive and its output is not a false word), or the
   reverse for the !-forms. Negative exit numbers (murex's internal "and/or
   succeeded" marker) are outside the property. ---- *)
Definition spec_true (c : cond) : bool :=
  if (0 <? cd_exit c)%Z then false else spec_truthy_str (cd_out c).

Definition holds (neg : bool) (c : cond) : bool := xorb (spec_true c) neg.

Fixpoint prefix_len (p : cond -> bool) (cs : list cond) : N :=
  match cs with
  | [] => 0
  | c :: r => if p c then N.succ (prefix_len p r) else 0
  end%N.

Definition spec_builtin (b : builtin) (neg : bool) (cs : list cond) : bobs :=
  match b with
  | BIf =>      (* the then-block runs iff the condition holds *)
    match cs with
    | [c] => {| bo_ok := true; bo_flag := holds neg c; bo_exit := 0; bo_count := 1 |}
    | _ => {| bo_ok := false; bo_flag := false; bo_exit := 0; bo_count := 0 |}
    end
  | BAnd =>     (* succeeds iff every condition holds; stops at the first that does not *)
    let ok := forallb (holds neg) cs in
    {| bo_ok := true; bo_flag := ok; bo_exit := if ok then (-1) else 1;
       bo_count := if ok then N.of_nat (length cs) else N.succ (prefix_len (holds neg) cs) |}
  | BOr =>      (* succeeds iff some condition holds; stops at the first that does *)
    let ok := existsb (holds neg) cs in
    {| bo_ok := true; bo_flag := ok; bo_exit := if ok then (-1) else 1;
       bo_count := if ok then N.succ (prefix_len (fun c => negb (holds neg c)) cs)
                   else N.of_nat (length cs) |}
  | BWhile =>   (* the body runs once for every leading evaluation at which the condition holds *)
    if forallb (holds neg) cs
    then {| bo_ok := false; bo_flag := false; bo_exit := 0; bo_count := 0 |}
    else {| bo_ok := true; bo_flag := true; bo_exit := 0; bo_count := prefix_len (holds neg) cs |}
  | BNot =>     (* prints the negation *)
    match cs with
    | [c] => {| bo_ok := true; bo_flag := negb (spec_true c); bo_exit := 0; bo_count := 1 |}
    | _ => {| bo_ok := false; bo_flag := false; bo_exit := 0; bo_count := 0 |}
    end
  end.

Definition in_domain (cs : list cond) : bool := forallb (fun c => (0 <=? cd_exit c)%Z) cs.

Definition truth_all (t : truth_obs) (b : bool) : bool :=
  t_ok t && Bool.eqb (t_and t) b && Bool.eqb (t_or t) b && Bool.eqb (t_elvis t) b &&
  Bool.eqb (t_if t) b && Bool.eqb (t_not t) b.

Definition spec_ok (c : case) : bool :=
  match c with
  | CaseExpr ts orc o =>
    match reference07 orc ts with
    | Some v => obs_eqb {| o_kind := 0; o_val := v |} o
    | None => true
    end
  | CaseTruth v t => truth_all t (spec_truthy v)      (* truthiness is the same everywhere *)
  | CaseBuiltin b neg cs o =>
    if in_domain cs then bobs_eqb (spec_builtin b neg cs) o else true
  end.

(* ---- known finding 1: `?:` treats the number -0 as false (ConvertGoType(-0, bool):
   v == 0) while &&, ||, if and ! treat it as true (its text "-0" is not a false
   word). Shape: the left operand of a `?:` is negative zero. ---- *)
Definition is_neg_zero (v : value) : bool :=
  match v with
  | VNum f => match PrimFloat.classify f with NZero => true | _ => false end
  | _ => false
  end.

Fixpoint negzero_elvis (orc : oracles) (t : tree) : bool :=
  match t with
  | TLeaf _ => false
  | TParen t' => negzero_elvis orc t'
  | TNode o l r =>
    negzero_elvis orc l || negzero_elvis orc r ||
    match o, eval_tree (spec_apply07 orc) l with
    | Elvis, Some v => is_neg_zero v
    | _, _ => false
    end
  end.

Definition classify (c : case) : N :=
  match c with
  | CaseTruth v _ => if is_neg_zero v then 1 else 0
  | CaseBuiltin _ _ _ _ => 0
  | CaseExpr ts orc _ =>
    match parse_expr ts with
    | Some t => if negzero_elvis orc t then 1 else 0
    | None => 0
    end
  end%N.
