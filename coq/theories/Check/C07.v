(* C07 — case type, correspondence predicate and property predicate.
   Re-uses the observation type and the C06 operator specification of Check/C06.v
   (which depends on Model/ and Base/ only). *)
From Coq Require Import Floats.
From Murex Require Export Base.Outcome Base.Bytes Base.CheckLib Model.Expr Model.ExprSpec Check.C06.

(* how one value fared in the five places that test truthiness *)
Record truth_obs := {
  t_ok : bool;      (* every probe produced a readable answer *)
  t_and : bool;     (* (v && true) *)
  t_or : bool;      (* (v || false) *)
  t_elvis : bool;   (* (v ?: 'ALT') returned v *)
  t_if : bool;      (* if { <v> } took the then-branch *)
  t_not : bool      (* <v> -> ! printed false *)
}.

Inductive case :=
| CaseExpr (ts : list ptok) (o : obs)
| CaseTruth (v : value) (t : truth_obs).

Definition agree (c : case) : bool :=
  match c with
  | CaseExpr ts o => obs_eqb (obs_of (eval_expr ts)) o
  | CaseTruth v t =>
    t_ok t &&
    Bool.eqb (t_and t) (truthy_logic v) && Bool.eqb (t_or t) (truthy_logic v) &&
    Bool.eqb (t_elvis t) (truthy_elvis v) &&
    Bool.eqb (t_if t) (truthy_logic v) && Bool.eqb (t_not t) (truthy_logic v)
  end.

(* ---- the property, written from its text ---- *)

(* "Empty, 0, null, false, no, off, fail, failed and disabled (trimmed,
   case-insensitive) are false" *)
Definition spec_false_words : list bytes :=
  [ [48]; [110;117;108;108]; [102;97;108;115;101]; [110;111]; [111;102;102];
    [102;97;105;108]; [102;97;105;108;101;100]; [100;105;115;97;98;108;101;100] ]%N.

Definition spec_truthy_str (s : bytes) : bool :=
  let w := map lower (trim s) in
  match w with
  | [] => false
  | _ => negb (existsb (bytes_eqb w) spec_false_words)
  end.

(* a value is tested through its text: a number is written the way murex
   prints it, which is "0" exactly for +0; null is empty *)
Definition spec_truthy (v : value) : bool :=
  match v with
  | VStr s => spec_truthy_str s
  | VBool b => b
  | VNull => false
  | VNum f => negb (is_pos_zero f)
  end.

Definition spec_apply07 (o : sym) (a b : value) : option value :=
  match o with
  | And => Some (VBool (spec_truthy a && spec_truthy b))
  | Or => Some (VBool (spec_truthy a || spec_truthy b))
  | Elvis => Some (if spec_truthy a then a else b)
  | NullCo => Some (match a with VNull => b | _ => a end)
  | _ => spec_apply o a b
  end.

Definition reference07 (ts : list ptok) : option value :=
  match parse_expr ts with
  | Some t => eval_top spec_apply07 t
  | None => None
  end.

Definition truth_all (t : truth_obs) (b : bool) : bool :=
  t_ok t && Bool.eqb (t_and t) b && Bool.eqb (t_or t) b && Bool.eqb (t_elvis t) b &&
  Bool.eqb (t_if t) b && Bool.eqb (t_not t) b.

Definition spec_ok (c : case) : bool :=
  match c with
  | CaseExpr ts o =>
    match reference07 ts with
    | Some v => obs_eqb {| o_kind := 0; o_val := v |} o
    | None => true
    end
  | CaseTruth v t => truth_all t (spec_truthy v)      (* truthiness is the same everywhere *)
  end.

(* ---- known finding 1: `?:` treats the number -0 as false (ConvertGoType(-0, bool):
   v == 0) while &&, ||, if and ! treat it as true (its text "-0" is not a false
   word). Shape: the left operand of a `?:` is negative zero. ---- *)
Definition is_neg_zero (v : value) : bool :=
  match v with
  | VNum f => match PrimFloat.classify f with NZero => true | _ => false end
  | _ => false
  end.

Fixpoint negzero_elvis (t : tree) : bool :=
  match t with
  | TLeaf _ => false
  | TParen t' => negzero_elvis t'
  | TNode o l r =>
    negzero_elvis l || negzero_elvis r ||
    match o, eval_tree spec_apply07 l with
    | Elvis, Some v => is_neg_zero v
    | _, _ => false
    end
  end.

Definition classify (c : case) : N :=
  match c with
  | CaseTruth v _ => if is_neg_zero v then 1 else 0
  | CaseExpr ts _ =>
    match parse_expr ts with
    | Some t => if negzero_elvis t then 1 else 0
    | None => 0
    end
  end%N.
