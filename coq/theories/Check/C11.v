(* C11 — case type, correspondence predicate, and the property predicate.

   The property predicate is a one-page reference semantics written from the
   property text, with NO stack: a function call runs its body on an empty
   local table and its local table is thrown away; only the global table comes
   back.  A block runs on the caller's local table. *)
From Murex Require Export Base.Outcome Base.Bytes Base.CheckLib Model.Scope.

(* ---- abstract specification (property text) ---- *)
(* "reading it gives the own value, else the global one, else an undefined-variable error" *)
Definition spec_read (g l : table) (x : name) : option value :=
  match t_get l x with Some v => Some v | None => t_get g x end.

Definition gl := (table * table)%type.    (* (global, local) *)

Fixpoint spec_op (o : op) (s : gl) : gl * trace :=
  let '(g, l) := s in
  match o with
  | OSet x v => ((g, t_set l x v), [])                       (* local only *)
  | OSetGlobal x v => ((t_set g x v, l), [])                 (* one value seen in every scope *)
  | OUnset tag x =>                                          (* removes only that scope's binding *)
      match t_get l x with
      | Some _ => ((g, t_del l x), [(tag, Some 0%N)])
      | None => ((g, l), [(tag, None)])
      end
  | OUnsetGlobal tag x =>
      match t_get g x with
      | Some _ => ((t_del g x, l), [(tag, Some 0%N)])
      | None => ((g, l), [(tag, None)])
      end
  | ORead tag x => ((g, l), [(tag, spec_read g l x)])         (* local shadows global *)
  | OReadGlobal tag x => ((g, l), [(tag, t_get g x)])
  | OCall body =>                                            (* fresh locals; caller's locals untouched *)
      let '((g', _), tr) := @seq_ops gl spec_op body (g, t_empty) in ((g', l), tr)
  | OBlock body => @seq_ops gl spec_op body (g, l)               (* shares the enclosing function's variables *)
  | OForeach x vals body =>
      @seq_vals gl (fun v s0 => @seq_ops gl spec_op body (fst s0, t_set (snd s0) x v)) vals (g, l)
  end.

Definition spec_trace (ops : list op) : trace := snd (@seq_ops gl spec_op ops (t_empty, t_empty)).

(* ---- case ---- *)
Record case := { c_ops : list op; c_status : N (* 0 = ran to completion *); c_obs : trace }.

Definition event_eqb (a b : event) : bool :=
  N.eqb (fst a) (fst b) && option_eqb N.eqb (snd a) (snd b).
Definition trace_eqb : trace -> trace -> bool := list_eqb event_eqb.

(* correspondence: the stack machine predicts the observed tagged results *)
Definition agree (c : case) : bool :=
  N.eqb (c_status c) 0 && trace_eqb (run (c_ops c)) (c_obs c).

(* property: the observed results are those of the reference semantics *)
Definition spec_ok (c : case) : bool :=
  N.eqb (c_status c) 0 && trace_eqb (spec_trace (c_ops c)) (c_obs c).

Definition classify (c : case) : N := 0%N.
