(* C27 — case type, correspondence predicate and the property predicate
   evaluated on what the implementation did. Depends on the model only (for the
   types op / res / step_obs and for `trace` in `agree`); spec_ok is written
   from the property text and never calls the model's transition functions. *)
From Murex Require Export Base.Outcome Base.CheckLib Model.Jobs.

Record case := { c_ops : list op; c_obs : list step_obs }.

(* ---------- equality of observations ---------- *)
Definition onat_eqb (a b : option nat) : bool :=
  match a, b with
  | None, None => true
  | Some x, Some y => Nat.eqb x y
  | _, _ => false
  end.

Definition res_eqb (a b : res) : bool :=
  match a, b with
  | RNone, RNone => true
  | RGot x, RGot y => onat_eqb x y
  | RPanic, RPanic => true
  | _, _ => false
  end.

Definition pair_eqb (a b : nat * nat) : bool :=
  Nat.eqb (fst a) (fst b) && Nat.eqb (snd a) (snd b).

Fixpoint leqb {A} (eqb : A -> A -> bool) (a b : list A) : bool :=
  match a, b with
  | [], [] => true
  | x :: a', y :: b' => eqb x y && leqb eqb a' b'
  | _, _ => false
  end.

Definition obs_eqb (a b : step_obs) : bool :=
  res_eqb (so_res a) (so_res b) && leqb pair_eqb (so_list a) (so_list b)
  && leqb onat_eqb (so_raw a) (so_raw b).

(* correspondence: after every operation of the history the model predicts the
   result, Jobs.List() and the raw slice exactly *)
Definition agree (c : case) : bool := leqb obs_eqb (trace st0 (c_ops c)) (c_obs c).

(* ---------- the property, on the observations ---------- *)
Definition pair_mem (e : nat * nat) (l : list (nat * nat)) : bool := existsb (pair_eqb e) l.

(* what is known from the history alone *)
Record hist := {
  h_added : list nat;          (* processes handed to Add so far *)
  h_dead : list nat;           (* processes terminated so far *)
  h_prev : list (nat * nat);   (* Jobs.List() before this operation *)
  h_ever : list (nat * nat)    (* every (id, process) any earlier Jobs.List() showed *)
}.
Definition hist0 : hist := {| h_added := []; h_dead := []; h_prev := []; h_ever := [] |}.

(* job ids are >= 1 and strictly increasing along List() *)
Fixpoint ids_increasing (lo : nat) (l : list nat) : bool :=
  match l with
  | [] => true
  | k :: l' => Nat.ltb lo k && ids_increasing k l'
  end.

Definition last_entry (l : list (nat * nat)) : option (nat * nat) :=
  match rev l with [] => None | e :: _ => Some e end.

(* Get / GetLatest results against the List() taken right after *)
Definition res_ok (o : op) (r : res) (L : list (nat * nat)) : bool :=
  match o, r with
  | Get n, RGot (Some p) => existsb (fun e => Z.eqb (Z.of_nat (fst e)) n && Nat.eqb (snd e) p) L
  | Get n, RGot None => negb (existsb (fun e => Z.eqb (Z.of_nat (fst e)) n) L)
  | Latest, RGot (Some p) => match last_entry L with Some e => Nat.eqb (snd e) p | None => false end
  | Latest, RGot None => match L with [] => true | _ => false end
  | (Add _ | AddNil | Terminate _ | GC | ListJobs), RNone => true
  | _, _ => false
  end.

(* after GarbageCollect: no finished process is left in the table and the table
   does not end with a free slot *)
Definition gc_ok (deadl : list nat) (raw : list (option nat)) : bool :=
  forallb (fun x => match x with Some p => negb (mem p deadl) | None => true end) raw
  && match rev raw with
     | [] => true
     | None :: _ => false
     | Some _ :: _ => true
     end.

Definition added_after (h : hist) (o : op) : list nat :=
  match o with Add p => p :: h_added h | _ => h_added h end.
Definition dead_after (h : hist) (o : op) : list nat :=
  match o with Terminate p => p :: h_dead h | _ => h_dead h end.

Definition step_ok (h : hist) (o : op) (ob : step_obs) : bool :=
  let added := added_after h o in
  let deadl := dead_after h o in
  let L := so_list ob in
  (* `jobs` lists exactly the running jobs: only added, unfinished processes ... *)
  forallb (fun e => mem (snd e) added && negb (mem (snd e) deadl)) L
  (* ... and every added, unfinished process *)
  && forallb (fun p => mem p deadl || mem p (map snd L)) added
  && ids_increasing 0 (map fst L)
  (* a job keeps its id for as long as it runs *)
  && forallb (fun e => mem (snd e) deadl || pair_mem e L) (h_prev h)
  (* a newly listed (id, process) may use an id only if every job ever listed
     with that id or a higher one has finished *)
  && forallb (fun e => pair_mem e (h_prev h)
                       || forallb (fun e' => Nat.ltb (fst e') (fst e) || mem (snd e') deadl) (h_ever h)) L
  (* fg / bg (Get, GetLatest) never return a finished job, and agree with `jobs` *)
  && res_ok o (so_res ob) L
  && match o with GC => gc_ok deadl (so_raw ob) | _ => true end.

Definition hist_after (h : hist) (o : op) (ob : step_obs) : hist :=
  {| h_added := added_after h o; h_dead := dead_after h o;
     h_prev := so_list ob; h_ever := so_list ob ++ h_ever h |}.

Fixpoint trace_ok (h : hist) (ops : list op) (obs : list step_obs) : bool :=
  match ops, obs with
  | [], [] => true
  | o :: ops', ob :: obs' => step_ok h o ob && trace_ok (hist_after h o ob) ops' obs'
  | _, _ => false
  end.

Definition spec_ok (c : case) : bool := trace_ok hist0 (c_ops c) (c_obs c).

(* no known finding for C27 *)
Definition classify (c : case) : N := 0%N.
