(* C08 -- Variable arguments are passed verbatim, with no re-splitting.
   Case type, correspondence predicate, property predicate. *)
From Murex Require Export Base.Outcome Base.Bytes Base.CheckLib Model.StmtParse.
From Murex Require Import Gen.AnsiConsts Gen.NoTokenise.
Open Scope N_scope.

Record obs := {
  o_kind : N;            (* 0 parsed, 1 clean error, 2 panic, 3 taken as an expression *)
  o_nfuncs : N;          (* functions ParseBlock found in the source *)
  o_rawlen : N;          (* bytes of source text of the first function *)
  o_cmd : bytes;
  o_params : list bytes;
  o_e2e : bool           (* $PARAMS of a real call / `out` / external argv agreed (or not run) *)
}.

Record case := {
  k_src : bytes;
  k_env : env;
  k_home : bytes;
  k_nocolour : bool;
  k_tmpl : option (list pshape);   (* Some: the source is `f <args>` rendered from this template *)
  k_obs : obs
}.

Definition mk_cfg (home : bytes) (nocolour : bool) : cfg :=
  {| c_home := home; c_ansi := ansi_table ansi_constants ansi_sgr nocolour;
     c_notok := no_tokenise_cmds |}.

Definition params_eqb := list_eqb bytes_eqb.

Definition agree (c : case) : bool :=
  let o := k_obs c in
  let n := N.of_nat (length (k_src c)) in
  match block_first (mk_cfg (k_home c) (k_nocolour c)) (k_env c) (k_src c) with
  | Ok r =>
    (* a terminator was reached and the REST of the block does not parse: ParseBlock
       reports an error for the whole block, nothing to compare *)
    if negb (Nat.eqb (r_rest r) 0) && (o_kind o =? 1) && (o_nfuncs o =? 0) then true else
    (o_kind o =? 0) && bytes_eqb (o_cmd o) (r_cmd r) && params_eqb (o_params o) (r_params r) &&
    (o_rawlen o =? n - N.of_nat (r_rest r)) &&
    (if Nat.eqb (r_rest r) 0 then o_nfuncs o =? 1 else true) && o_e2e o
  | Err k => if k =? 1 then (o_kind o =? 1) else true
  | _ => false
  end
  (* a Go panic inside ParseBlock on raw token soup is not this property's business *)
  || (match k_tmpl c with None => o_kind o =? 2 | Some _ => false end).

(* ---- the property, written from its text ---- *)

Definition drop_last_if (x : N) (s : bytes) : bytes :=
  match rev s with
  | y :: r => if y =? x then rev r else s
  | [] => s
  end.
(* at most one trailing LF, then at most one trailing CR *)
Definition spec_trim (s : bytes) : bytes := drop_last_if 13 (drop_last_if 10 s).

Definition value_of (e : env) (n : bytes) : bytes :=
  match assoc n (e_scalars e) with Some v => v | None => [] end.
Definition elements_of (e : env) (n : bytes) : list bytes :=
  match assoc n (e_arrays e) with Some l => l | None => [] end.

Fixpoint fill (e : env) (sl : list slot) : bytes :=
  match sl with
  | [] => []
  | SLit c :: r => c :: fill e r
  | SVar n :: r => spec_trim (value_of e n) ++ fill e r
  end.

(* one argument per $name-bearing word, one argument per array element *)
Fixpoint expected (e : env) (sh : list pshape) : list bytes :=
  match sh with
  | [] => []
  | POne sl :: r => fill e sl :: expected e r
  | PArr n :: r => elements_of e n ++ expected e r
  end.

Definition spec_ok (c : case) : bool :=
  match k_tmpl c with
  | None => true
  | Some sh =>
    let o := k_obs c in
    (o_kind o =? 0) && (o_nfuncs o =? 1) && (o_rawlen o =? N.of_nat (length (k_src c))) &&
    bytes_eqb (o_cmd o) [102] && params_eqb (o_params o) (expected (k_env c) sh) && o_e2e o
  end.

(* known finding 1 (F08): an empty array element is dropped *)
Definition has_empty (l : list bytes) : bool := existsb (fun x => match x with [] => true | _ => false end) l.
Definition classify (c : case) : N :=
  match k_tmpl c with
  | Some sh =>
    if existsb (fun p => match p with PArr n => has_empty (elements_of (k_env c) n) | POne _ => false end) sh
    then 1 else 0
  | None => 0
  end.

(* the observation the model predicts (used by the theorems) *)
Definition model_obs (cf : cfg) (e : env) (src : bytes) : obs :=
  match block_first cf e src with
  | Ok r => {| o_kind := 0; o_nfuncs := 1;
               o_rawlen := N.of_nat (length src) - N.of_nat (r_rest r);
               o_cmd := r_cmd r; o_params := r_params r; o_e2e := true |}
  | _ => {| o_kind := 1; o_nfuncs := 0; o_rawlen := 0; o_cmd := []; o_params := []; o_e2e := true |}
  end.

Definition model_case (src : bytes) (e : env) (home : bytes) (nc : bool) (t : option (list pshape)) : case :=
  {| k_src := src; k_env := e; k_home := home; k_nocolour := nc; k_tmpl := t;
     k_obs := model_obs (mk_cfg home nc) e src |}.
