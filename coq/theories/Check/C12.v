(* C12 — Structured variables are values, and nested assignment is precise.
   Case type, correspondence predicate (agree) and the property predicate
   (spec_ok) evaluated on what the implementation did. *)
From Murex Require Export Base.Outcome Base.Bytes Base.CheckLib Model.Alter.

(* ---------- observations ---------- *)
(* direct call of alter.Alter(ctx, v, p, new) *)
Record aobs := {
  a_kind : N;        (* 0 returned a value, 1 returned an error, 2 panicked *)
  a_res : json       (* the returned value (JNull when none) *)
}.

(* one step of a history run through murex *)
Record sobs := {
  s_ok : bool;                          (* the command succeeded (exit number 0) *)
  s_vals : list (bytes * option json);  (* every variable: its stored Go value (Variables.GetValue) *)
  s_strs : list (bytes * option json);  (* every variable: its string form ($name) parsed as JSON *)
  s_text : bytes;                       (* stdout of the step (without the final newline) *)
  s_doc : option json                   (* stdout parsed as JSON, when it parses *)
}.

Inductive case :=
| CAlter (v : json) (p : path) (n : newval) (o : aobs)
| CHist (init : list (bytes * json)) (ops : list op) (o0 : sobs) (os : list sobs).

(* ---------- equality helpers ---------- *)
Definition ojson_eqb := option_eqb json_eqb.

Definition snap_eqb (a b : list (bytes * option json)) : bool :=
  list_eqb (fun x y => bytes_eqb (fst x) (fst y) && ojson_eqb (snd x) (snd y)) a b.

Fixpoint snap_get (x : bytes) (s : list (bytes * option json)) : option json :=
  match s with
  | [] => None
  | (y, v) :: s' => if bytes_eqb x y then v else snap_get x s'
  end.

(* ---------- correspondence ---------- *)
Definition agree_alter (v : json) (p : path) (n : newval) (o : aobs) : bool :=
  match alter v p n with
  | Ok r => N.eqb (a_kind o) 0 && json_eqb (a_res o) r
  | Err _ => N.eqb (a_kind o) 1
  | _ => false
  end.

(* the observation the model predicts for a step result *)
Definition out_agrees (r : out) (o : sobs) : bool :=
  match r with
  | ONone => s_ok o
  | OFail => negb (s_ok o)
  | OVal v =>
      s_ok o &&
      match scalar_text v with
      | Some t => bytes_eqb (s_text o) t
      | None => ojson_eqb (s_doc o) (Some v)
      end
  end.

Definition snap_agrees (s : state) (o : sobs) : bool :=
  snap_eqb (s_vals o) (snapshot s) && snap_eqb (s_strs o) (snapshot s).

Fixpoint agree_steps (rs : list (state * out)) (os : list sobs) : bool :=
  match rs, os with
  | [], [] => true
  | (s, r) :: rs', o :: os' => snap_agrees s o && out_agrees r o && agree_steps rs' os'
  | _, _ => false
  end.

Definition agree (c : case) : bool :=
  match c with
  | CAlter v p n o => agree_alter v p n o
  | CHist init ops o0 os =>
      let s0 := init_state (fun v => v) empty_state init in
      snap_agrees s0 o0 && s_ok o0 && agree_steps (run (fun v => v) s0 ops) os
  end.

(* ---------- the property, on observations ---------- *)
(* "converted to the existing leaf's type where the leaf already exists" *)
Definition ok_of (c : Outcome json) : option json :=
  match c with Ok x => Some x | _ => None end.

Definition want (old : option json) (n : newval) : option json :=
  match old with
  | Some (JStr _) => ok_of (nv_str n)
  | Some (JNum _) => ok_of (nv_num n)
  | Some (JBool _) => ok_of (nv_bool n)
  | _ => Some (nv n)
  end.

(* the conversion results handed in with the case are conversions: the result
   has the target type, and a value that already has the target type is kept *)
Definition conv_sane (n : newval) : bool :=
  match nv_str n with Ok (JStr _) | Err _ => true | _ => false end &&
  match nv_num n with Ok (JNum _) | Err _ => true | _ => false end &&
  match nv_bool n with Ok (JBool _) | Err _ => true | _ => false end &&
  match nv n with
  | JStr s => match nv_str n with Ok (JStr s') => bytes_eqb s s' | _ => false end
  | JNum t => match nv_num n with Ok (JNum t') => bytes_eqb t t' | _ => false end
  | JBool b => match nv_bool n with Ok (JBool b') => Bool.eqb b b' | _ => false end
  | _ => true
  end.

(* "every other path keeps its previous value": v and v' are identical outside
   the spine of p.  (JNull, JObj): a missing / null element was replaced by the
   freshly built path, which has no other member.) *)
Fixpoint eq_except (v v' : json) (p : path) : bool :=
  match p with
  | [] => true
  | k :: p' =>
      match v, v' with
      | JArr l, JArr l' =>
          match arr_index k l with
          | Some i => jlist_eqb (set_nth i JNull l) (set_nth i JNull l') &&
                      eq_except (nth i l JNull) (nth i l' JNull) p'
          | None => false
          end
      | JObj o, JObj o' =>
          jobj_eqb (obj_remove k o) (obj_remove k o') &&
          eq_except (obj_get k o) (obj_get k o') p'
      | JNull, JObj o' =>
          jobj_eqb (obj_remove k o') [] && eq_except JNull (obj_get k o') p'
      | _, _ => false
      end
  end.

(* after `$v.p = x` succeeded with v' : p reads back the wanted value and
   everything else is as before *)
Definition precise (v : json) (p : path) (n : newval) (v' : json) : bool :=
  ojson_eqb (lookup v' p) (want (lookup v p) n) && eq_except v v' p.

Definition spec_alter (v : json) (p : path) (n : newval) (o : aobs) : bool :=
  conv_sane n &&
  match a_kind o with
  | 0%N => precise v p n (a_res o)
  | 1%N => true            (* a reported error: the property speaks of successful assignments *)
  | _ => false             (* panic *)
  end.

(* all variables other than x have the same value in both snapshots; no
   variable disappears *)
Definition others_same (x : option bytes) (a b : list (bytes * option json)) : bool :=
  forallb (fun yv => match x with
                     | Some x' => bytes_eqb x' (fst yv)
                     | None => false
                     end || ojson_eqb (snap_get (fst yv) b) (snd yv)) a &&
  forallb (fun yv => match x with
                     | Some x' => bytes_eqb x' (fst yv)
                     | None => false
                     end || ojson_eqb (snap_get (fst yv) a) (snd yv)) b.

(* what `out $x.p` must print when the exact path holds a non-null value *)
Definition read_shows (v : json) (o : sobs) : bool :=
  match scalar_text v with
  | Some t => bytes_eqb (s_text o) t
  | None => ojson_eqb (s_doc o) (Some v)
  end.

Definition spec_step (prev : sobs) (o : op) (cur : sobs) : bool :=
  (* both representations of every variable agree *)
  snap_eqb (s_vals cur) (s_strs cur) &&
  match o with
  | OCopy dst src =>
      if s_ok cur
      then others_same (Some dst) (s_vals prev) (s_vals cur) &&
           match snap_get src (s_vals prev) with
           | Some v => ojson_eqb (snap_get dst (s_vals cur)) (Some v)
           | None => true
           end
      else others_same None (s_vals prev) (s_vals cur)
  | OSet x p n =>
      conv_sane n &&
      others_same (Some x) (s_vals prev) (s_vals cur) &&
      (if s_ok cur
       then match snap_get x (s_vals prev), snap_get x (s_vals cur) with
            | Some v, Some v' => precise v p n v'
            | _, _ => false
            end
       else true)
  | OCall src p n =>
      conv_sane n &&
      others_same None (s_vals prev) (s_vals cur) &&
      (if s_ok cur
       then match snap_get src (s_vals prev), s_doc cur with
            | Some v, Some v' => precise v p n v'
            | Some v, None => false
            | None, _ => true
            end
       else true)
  | ORead x p =>
      others_same None (s_vals prev) (s_vals cur) &&
      match snap_get x (s_vals prev) with
      | Some v => match lookup v p with
                  | Some r => if is_null r then true else s_ok cur && read_shows r cur
                  | None => true
                  end
      | None => true
      end
  end.

Fixpoint spec_steps (prev : sobs) (ops : list op) (os : list sobs) : bool :=
  match ops, os with
  | [], [] => true
  | o :: ops', cur :: os' => spec_step prev o cur && spec_steps cur ops' os'
  | _, _ => false
  end.

Definition init_snap (init : list (bytes * json)) : list (bytes * option json) :=
  map (fun xv => (fst xv, Some (snd xv))) init.

Definition spec_ok (c : case) : bool :=
  match c with
  | CAlter v p n o => spec_alter v p n o
  | CHist init ops o0 os =>
      snap_eqb (s_vals o0) (init_snap init) &&
      snap_eqb (s_vals o0) (s_strs o0) && spec_steps o0 ops os
  end.

(* known-finding classifier: none (both design-phase defects are fixed) *)
Definition classify (c : case) : N := 0%N.
