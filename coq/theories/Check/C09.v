(* C09 -- Quoted string literals evaluate to exactly their contents.
   Case type, correspondence predicate, property predicate. *)
From Murex Require Export Base.Outcome Base.Bytes Base.CheckLib Model.StmtParse.
From Murex Require Import Gen.AnsiConsts.
Open Scope N_scope.

Record case := {
  k_kind : qkind;
  k_str : bytes;          (* the intended contents (encoded cases) *)
  k_encoded : bool;       (* k_lit claims to be the encoder's image of k_str *)
  k_ws : bool;            (* double quotes: whitespace written as \s \t \r \n *)
  k_lit : bytes;          (* the literal handed to murex *)
  k_env : env;
  k_home : bytes;
  k_nocolour : bool;
  k_stmt : option (list bytes);   (* parameters of `f <lit>`: Some ps | None = error *)
  k_expr : option bytes;          (* value of v after `v = <lit>`: Some v | None = error *)
  k_e2e : bool                    (* $PARAMS of a real function call agreed with k_stmt (or not run) *)
}.

Definition mk_cfg (home : bytes) (nocolour : bool) : cfg :=
  {| c_home := home; c_ansi := ansi_table ansi_constants ansi_sgr nocolour; c_notok := [] |}.

Definition encode (k : qkind) (ws : bool) (s : bytes) : bytes :=
  match k with
  | QSingle => enc_single s
  | QDouble => enc_double ws s
  | QBrace => enc_brace s
  end.

Definition in_domain (k : qkind) (s : bytes) : bool :=
  match k with
  | QSingle => negb (existsb (N.eqb 39) s)
  | QDouble => true
  | QBrace => brace_dom s
  end.

Definition params_eqb := option_eqb (list_eqb bytes_eqb).
Definition value_eqb := option_eqb bytes_eqb.

(* does an observation match the model's prediction?  Err 97/98/99: no prediction *)
Definition pred_stmt (o : Outcome bytes) (obs : option (list bytes)) : bool :=
  match o with
  | Ok v => params_eqb obs (Some [v])
  | Err k => if k =? 1 then params_eqb obs None else true
  | _ => false
  end.
Definition pred_expr (o : Outcome bytes) (obs : option bytes) : bool :=
  match o with
  | Ok v => value_eqb obs (Some v)
  | Err k => if k =? 1 then value_eqb obs None else true
  | _ => false
  end.

Definition agree (c : case) : bool :=
  let cf := mk_cfg (k_home c) (k_nocolour c) in
  (if k_encoded c then bytes_eqb (k_lit c) (encode (k_kind c) (k_ws c) (k_str c)) else true) &&
  pred_stmt (lit_value cf (k_env c) (k_kind c) true (k_lit c)) (k_stmt c) &&
  pred_expr (lit_value cf (k_env c) (k_kind c) false (k_lit c)) (k_expr c) &&
  k_e2e c.

(* The property on what the implementation did: an encoded string of the
   encoder's domain comes back exactly, as a statement argument and as an
   expression value. *)
Definition spec_ok (c : case) : bool :=
  if k_encoded c && in_domain (k_kind c) (k_str c) then
    params_eqb (k_stmt c) (Some [k_str c]) && value_eqb (k_expr c) (Some (k_str c))
  else true.

(* known finding 1 (F09): a brace quote containing a {NAME} token with NAME an
   ANSI constant is expanded in statement position (and inside nested
   parentheses in every position) *)
Definition known_token (nocolour : bool) (s : bytes) : bool :=
  existsb (fun n => match assoc n (ansi_table ansi_constants ansi_sgr nocolour) with
                    | Some _ => true | None => false end) (ansi_matches 0 s).
Definition has_paren (s : bytes) : bool := existsb (N.eqb 40) s.

Definition classify (c : case) : N :=
  match k_kind c with
  | QBrace =>
    if known_token (k_nocolour c) (k_str c) &&
       (value_eqb (k_expr c) (Some (k_str c)) || has_paren (k_str c))
    then 1 else 0
  | _ => 0
  end.

(* the case the model itself produces for an encoded string (used by the
   theorems: model meets spec_ok) *)
Definition to_params (o : Outcome bytes) : option (list bytes) :=
  match o with Ok v => Some [v] | _ => None end.
Definition to_value (o : Outcome bytes) : option bytes :=
  match o with Ok v => Some v | _ => None end.

Definition model_case (k : qkind) (ws : bool) (s : bytes) (e : env) (home : bytes) (nc : bool) : case :=
  let cf := mk_cfg home nc in
  {| k_kind := k; k_str := s; k_encoded := true; k_ws := ws; k_lit := encode k ws s;
     k_env := e; k_home := home; k_nocolour := nc;
     k_stmt := to_params (lit_value cf e k true (encode k ws s));
     k_expr := to_value (lit_value cf e k false (encode k ws s));
     k_e2e := true |}.
