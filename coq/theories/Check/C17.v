(* C17 — case type, correspondence predicate and the property's predicate
   evaluated on what the implementation did. Depends on the model only. *)
From Murex Require Export Base.Outcome Base.Bytes Base.CheckLib Model.Decimal Model.Range.
Open Scope Z_scope.

(* o_class: 0 ok (exit 0), 1 clean error, 2 "panic caught" / crash, 3 timeout,
   4 exit 0 but stdout is not a list in the input's format *)
Record obs := { o_class : N; o_items : list bytes }.

(* c_kind: which matcher (default / `i`, `n` or `@[`, `s`, `r`); c_flags: `![`, `8`, `b`, `t` *)
Record case := {
  c_fmt : rfmt; c_kind : mkind; c_flags : rflags;
  c_start : bytes; c_end : bytes; c_excl : bool; c_items : list bytes;
  c_obs : obs }.

Definition no_flags : rflags := {| f_not := false; f_rmbs := false; f_blank := false; f_trim := false |}.
Definition plain_case (c : case) : bool :=
  match c_kind c with KIndex => true | _ => false end &&
  negb (f_not (c_flags c) || f_rmbs (c_flags c) || f_blank (c_flags c) || f_trim (c_flags c)).

Definition items_eqb := list_eqb bytes_eqb.

Definition params_of (c : case) : rparams :=
  {| rp_start := c_start c; rp_end := c_end c; rp_excl := c_excl c |}.

(* ---------- correspondence ---------- *)

Definition obs_matches (m : Outcome (list bytes)) (o : obs) : bool :=
  match m with
  | Ok l => (o_class o =? 0)%N && items_eqb (o_items o) l
  | Err _ => (o_class o =? 1)%N
  | Panic => (o_class o =? 2)%N
  | OutOfFuel => (o_class o =? 3)%N
  end.

Definition agree (c : case) : bool :=
  obs_matches (run_range2 simple_rx (c_fmt c) (c_kind c) (c_flags c) (params_of c) (c_items c)) (c_obs c).

Definition obs_of (m : Outcome (list bytes)) : obs :=
  match m with
  | Ok l => {| o_class := 0; o_items := l |}
  | Err _ => {| o_class := 1; o_items := [] |}
  | Panic => {| o_class := 2; o_items := [] |}
  | OutOfFuel => {| o_class := 3; o_items := [] |}
  end.

(* ---------- the property, written from its text ---------- *)

Definition zfirstn {A} (k : Z) (l : list A) : list A := firstn (Z.to_nat k) l.
Definition zskipn {A} (k : Z) (l : list A) : list A := skipn (Z.to_nat k) l.
Definition zlen {A} (l : list A) : Z := Z.of_nat (length l).

(* items a..b, 1-based, inclusive, clipped to the list *)
Definition slice1 {A} (a b : Z) (l : list A) : list A := zfirstn (b - a + 1) (zskipn (a - 1) l).

(* The slice the documentation promises; None where the property is silent. *)
Definition expected {A} (start end_ : bytes) (excl : bool) (xs : list A) : option (list A) :=
  let n := zlen xs in
  match start, end_ with
  | [], [] => None
  | [], _ =>                                               (* [..e] : items 1..e *)
      match atoi end_ with
      | Some e => if 1 <=? e then Some (if excl then zfirstn (e - 1) xs else zfirstn e xs) else None
      | None => None
      end
  | _, [] =>
      match atoi start with
      | Some s =>
          if 1 <=? s then Some (if excl then zskipn s xs else zskipn (s - 1) xs)     (* [s..] : items s..n *)
          else if (s <? 0) && negb excl then Some (zskipn (n + s) xs)                  (* [-k..] : last k *)
          else None
      | None => None
      end
  | _, _ =>                                                (* [s..e], 1 <= s <= e *)
      match atoi start, atoi end_ with
      | Some s, Some e =>
          if (1 <=? s) && (s <=? e)
          then Some (if excl then slice1 (s + 1) (e - 1) xs else slice1 s e xs)
          else None
      | _, _ => None
      end
  end.

(* "the output order is the input order": the output is a subsequence of the input *)
Fixpoint is_subseq (a b : list bytes) : bool :=
  match a, b with
  | [], _ => true
  | _ :: _, [] => false
  | x :: a', y :: b' => if bytes_eqb x y then is_subseq a' b' else is_subseq a b'
  end.

Definition no_panic (o : obs) : bool := negb ((o_class o =? 2)%N || (o_class o =? 3)%N).

Definition spec_obs (start end_ : bytes) (excl : bool) (xs : list bytes) (o : obs) : bool :=
  no_panic o &&
  (if (o_class o =? 0)%N then is_subseq (o_items o) xs else true) &&
  match expected start end_ excl xs with
  | Some l => (o_class o =? 0)%N && items_eqb (o_items o) l
  | None => true
  end.

(* The property speaks about the default (index) matcher without `![` and
   without the 8 / b / t flags: there the full predicate applies. For the other
   matchers, the inverse form and the flags the property is silent: no panic, no
   hang, and (unless 8 / t rewrite the items) the output is still a subsequence. *)
Definition spec_ok (c : case) : bool :=
  if plain_case c then spec_obs (c_start c) (c_end c) (c_excl c) (c_items c) (c_obs c)
  else no_panic (c_obs c) &&
       (if (o_class (c_obs c) =? 0)%N && negb (f_rmbs (c_flags c) || f_trim (c_flags c))
        then is_subseq (o_items (c_obs c)) (c_items c) else true).

(* ---------- known finding ---------- *)

(* 1: json input and an empty selection: the json array writer reports
      "no data returned" (exit 1) instead of writing an empty array *)
Definition classify (c : case) : N :=
  if plain_case c then
    match c_fmt c, expected (c_start c) (c_end c) (c_excl c) (c_items c) with
    | RJson, Some [] => if (o_class (c_obs c) =? 1)%N then 1%N else 0%N
    | _, _ => 0%N
    end
  else 0%N.
