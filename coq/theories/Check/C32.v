(* C32 — case type and predicates.  A case is one concurrent scenario executed in a
   race-detector build of the harness:
     KPair  methods c_a and c_b of one anchored struct run concurrently on a shared instance
     KProg  a generated concurrent murex program
   with the observation "did the race detector report a data race" and the innermost murex
   function of each of the two racing stacks. *)
From Murex Require Export Base.CheckLib Model.Lockset Gen.Lockset.

Inductive kind := KPair | KProg.

Record case := mkcase {
  c_kind : kind;
  c_a : string; c_b : string;      (* translator names of the two methods (KPair) *)
  c_race : bool;                   (* at least one DATA RACE report *)
  c_failed : bool;                 (* the scenario did not run to completion (crash / timeout) *)
  c_funcs : list string            (* racing functions named by the reports *)
}.

(* the methods that break the lock-set discipline on the tree under check (regenerated table) *)
Definition current_bad : list string := Eval vm_compute in bad_methods guard_table methods.
Definition disciplined (m : string) : bool := negb (in_names current_bad m).

(* Correspondence / cross-check of the translator: when the discipline holds for both methods,
   Proof.Lockset.lockset_sound predicts that no race can be reported. (When it does not hold
   the model predicts nothing: a race needs the right arguments and timing.) *)
Definition agree (c : case) : bool :=
  negb (c_failed c) &&
  match c_kind c with
  | KPair => if disciplined (c_a c) && disciplined (c_b c) then negb (c_race c) else true
  | KProg => true
  end.

(* the property on the observation: no data race was reported *)
Definition spec_ok (c : case) : bool := negb (c_race c).

(* known-finding number: by the racing function the detector names *)
Fixpoint first_known (l : list string) : N :=
  match l with
  | [] => 0%N
  | s :: l' => match known_id s with 0%N => first_known l' | k => k end
  end.

Definition classify (c : case) : N := first_known (c_funcs c).
