(* C01 — Pipes deliver every byte exactly once, in order.
   Case type, correspondence predicate and the property predicate evaluated on
   what the implementation did.  Depends on the model only. *)
From Murex Require Export Base.Outcome Base.Bytes Base.CheckLib Model.Streams.
Open Scope N_scope.

(* Two kinds of case.
   Ctl:  a controlled run.  The harness is the scheduler of the real code: it
         releases thread (nth sched) from the yield point it is parked at, waits
         until it parks again, and records the step (yield point, what was
         returned, copy of the counters / buffer length / dependents / cancelled
         / max / data type).  co_buf is the content of the buffer at the end.
   Free: real goroutines under the Go scheduler.  Writer w writes its payloads
         (run-length coded, bytes = w mod 8) then closes; one reader of kind rk
         (0 Read loop with rn-byte slices, 1 WriteTo, 2 ReadAll) collects `out`.
         fw, fr = Stats() at the end; err = an unexpected error was returned;
         hang = the run did not finish within its deadline (a writer or the reader
         made no progress; the harness then cancels the pipe and gives up). *)
Inductive case :=
| Ctl (max : N) (progs : list (list op)) (sched : list nat) (obs : ctl_obs)
| Free (max : N) (ws : list (list rle)) (rk rn : N) (out : rle) (fw fr : N) (err hang : bool).

(* ------------------------------------------------------------ equality of observations *)

Definition event_eqb (a b : event) : bool :=
  match a, b with
  | EvIdle, EvIdle | EvTau, EvTau | EvUnit, EvUnit => true
  | EvWrite p n e, EvWrite p' n' e' => bytes_eqb p p' && N.eqb n n' && N.eqb e e'
  | EvRead n b e, EvRead n' b' e' => N.eqb n n' && bytes_eqb b b' && N.eqb e e'
  | EvReadAll b, EvReadAll b' => bytes_eqb b b'
  | EvChunk b, EvChunk b' => bytes_eqb b b'
  | EvWriteTo t, EvWriteTo t' => N.eqb t t'
  | EvIn c, EvIn c' => bytes_eqb c c'
  | EvReadFrom t e, EvReadFrom t' e' => N.eqb t t' && N.eqb e e'
  | EvStats w r, EvStats w' r' => N.eqb w w' && N.eqb r r'
  | EvDT t, EvDT t' => bytes_eqb t t'
  | EvSetDT t, EvSetDT t' => bytes_eqb t t'
  | _, _ => false
  end.

Definition snap_eqb (a b : snap) : bool :=
  N.eqb (sn_w a) (sn_w b) && N.eqb (sn_r a) (sn_r b) && N.eqb (sn_len a) (sn_len b)
  && Z.eqb (sn_deps a) (sn_deps b) && Bool.eqb (sn_canc a) (sn_canc b)
  && N.eqb (sn_max a) (sn_max b) && bytes_eqb (sn_dt a) (sn_dt b).

Definition ostep_eqb (a b : ostep) : bool :=
  N.eqb (os_pt a) (os_pt b) && event_eqb (os_ev a) (os_ev b) && snap_eqb (os_sn a) (os_sn b).

Definition ctl_obs_eqb (a b : ctl_obs) : bool :=
  list_eqb ostep_eqb (co_steps a) (co_steps b) && bytes_eqb (co_buf a) (co_buf b).

Definition nonempty_payloads (ws : list (list rle)) : list (list rle) :=
  map (filter (fun p : rle => match p with [] => false | _ => true end)) ws.

(* correspondence: the model predicts every step of a controlled run exactly;
   for a free run (whose interleaving the model cannot know) it predicts the
   totals that do not depend on the interleaving *)
Definition agree (c : case) : bool :=
  match c with
  | Ctl max progs sched obs => ctl_obs_eqb (run_ctl max progs sched) obs
  | Free max ws rk rn out fw fr err hang =>
      (* the model has no blocking step (C01_never_stuck, C01_drain_unblocks): a hang disagrees *)
      N.eqb fw (total_len ws) && N.eqb fr (total_len ws) && N.eqb (rle_len out) (total_len ws)
      && negb err && negb hang
  end.

(* ------------------------------------------------------------ the property, on an observation *)

(* "reach the reading end exactly once, in write order, nothing lost, duplicated
   or reordered": everything handed to readers, in hand-out order, followed by
   what is still in the buffer, is exactly everything appended, in append order.
   After a ForceClose a Write empties the buffer and reports ErrClosedPipe (the
   reader has gone away): from then on bytes may be lost, but never duplicated
   or reordered. *)
Definition fifo_ok (o : ctl_obs) : bool :=
  let d := delivered (co_steps o) ++ co_buf o in
  let a := appended (co_steps o) in
  if closed_seen (co_steps o) then is_subseq d a else bytes_eqb d a.

(* "the byte counters report exactly the bytes written and read", after every
   step; and the buffer holds exactly the difference *)
Fixpoint counters_ok (w r : N) (cl : bool) (os : list ostep) : bool :=
  match os with
  | [] => true
  | o :: rest =>
      let w' := w + blen (ev_appended (os_ev o)) in
      let r' := r + blen (ev_delivered (os_ev o)) in
      let cl' := cl || ev_closed (os_ev o) in
      N.eqb (sn_w (os_sn o)) w' && N.eqb (sn_r (os_sn o)) r'
      && (cl' || N.eqb (sn_len (os_sn o) + r') w')
      && counters_ok w' r' cl' rest
  end.

(* "a reader sees end-of-stream only after every writer has closed and the buffer
   is drained" (or the reader side cancelled the pipe); results are well formed;
   Stats reports the counters *)
Definition drained (sn : snap) : bool :=
  (N.eqb (sn_len sn) 0 && (sn_deps sn <? 1)%Z) || sn_canc sn.

Definition step_ok (o : ostep) : bool :=
  match os_ev o with
  | EvRead n b e =>
      if N.eqb e e_eof then is_nil b && drained (os_sn o)
      else N.eqb e e_nil && N.leb (blen b) n
  | EvWriteTo _ => drained (os_sn o)
  | EvReadAll _ => N.eqb (sn_len (os_sn o)) 0
  | EvWrite p n e =>
      if N.eqb e e_nil then N.eqb n (blen p)
      else N.eqb e e_closed && N.eqb n 0
  | EvReadFrom _ e => N.eqb e e_nil || N.eqb e e_closed
  | EvStats w r => N.eqb w (sn_w (os_sn o)) && N.eqb r (sn_r (os_sn o))
  | EvPanic => false
  | EvHang => false
  | _ => true
  end.

(* "a writer blocked on a full pipe makes progress as soon as the reader drains
   it" (and likewise a reader waiting for data, and ReadAll waiting for the
   writers to close): a thread whose check step saw the condition it was waiting
   for must be released from the act step next, not from another poll.
     w.chk (7)  with  max = 0 or len < max   ->  w.app  (8)
     r.chk (11) with  len > 0                ->  r.take (12)
     ra.poll (15) with deps < 1              ->  ra.take (16)
   exp maps a thread number to the yield point its next step must start from. *)
Definition enabled_next (o : ostep) : option N :=
  let sn := os_sn o in
  if N.eqb (os_pt o) 7 then
    (if N.eqb (sn_max sn) 0 || N.ltb (sn_len sn) (sn_max sn) then Some 8 else None)
  else if N.eqb (os_pt o) 11 then
    (if N.eqb (sn_len sn) 0 then None else Some 12)
  else if N.eqb (os_pt o) 15 then
    (if (sn_deps sn <? 1)%Z then Some 16 else None)
  else None.

Fixpoint lookup_exp (i : nat) (l : list (nat * option N)) : option N :=
  match l with
  | [] => None
  | (j, v) :: r => if Nat.eqb i j then v else lookup_exp i r
  end.

Fixpoint progress_ok (exp : list (nat * option N)) (sched : list nat) (os : list ostep) : bool :=
  match sched, os with
  | i :: sr, o :: orest =>
      match lookup_exp i exp with
      | Some k => N.eqb (os_pt o) k
      | None => true
      end
      && progress_ok ((i, enabled_next o) :: exp) sr orest
  | _, _ => true
  end.

Definition spec_ctl (sched : list nat) (o : ctl_obs) : bool :=
  fifo_ok o && counters_ok 0 0 false (co_steps o) && forallb step_ok (co_steps o)
  && progress_ok [] sched (co_steps o).

(* a free run must finish (no hang: the blocked side made progress), without
   errors, and deliver an interleaving of whole payloads *)
Definition spec_free (ws : list (list rle)) (out : rle) (fw fr : N) (err hang : bool) : bool :=
  negb hang && negb err
  && merge_ok (count_payloads ws) (nonempty_payloads ws) out
  && N.eqb fw (total_len ws) && N.eqb fr (total_len ws).

Definition spec_ok (c : case) : bool :=
  match c with
  | Ctl _ _ sched obs => spec_ctl sched obs
  | Free _ ws _ _ out fw fr err hang => spec_free ws out fw fr err hang
  end.

(* known-finding classifier: none listed for C01 (the ReadAll defect is fixed). *)
Definition classify (c : case) : N := 0%N.
