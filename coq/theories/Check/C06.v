(* C06 — case type, correspondence predicate and property predicate.
   Depends on Model/ and Base/ only. *)
From Coq Require Import Floats.
From Murex Require Export Base.Outcome Base.Bytes Base.CheckLib Model.Expr Model.ExprSpec Model.ExprLex.

(* what the harness saw: kind 0 = a value, 1 = clean error, 2 = panic, 3 = hang,
   4 = a value of a type outside the model *)
Record obs := { o_kind : N; o_val : value }.
(* c_src: the source text handed to the real parser; c_toks: the token list it was printed from *)
Record case := { c_toks : list ptok; c_src : bytes; c_orc : oracles; c_obs : obs }.

(* floats are compared by bit pattern (Model.Expr.same_float: class + eqb, NaN as one
   class): the harness prints the float64 exactly, +0 and -0 differ, NaN = NaN *)
Definition value_eqb (a b : value) : bool :=
  match a, b with
  | VNum x, VNum y => same_float x y
  | VBool x, VBool y => Bool.eqb x y
  | VStr s, VStr t => bytes_eqb s t
  | VNull, VNull => true
  | _, _ => false
  end.

Definition obs_eqb (a b : obs) : bool :=
  N.eqb (o_kind a) (o_kind b) &&
  (negb (N.eqb (o_kind a) 0) || value_eqb (o_val a) (o_val b)).

Definition obs_of (r : Outcome value) : obs :=
  match r with
  | Ok v => {| o_kind := 0; o_val := v |}
  | Err _ => {| o_kind := 1; o_val := VNull |}
  | Panic => {| o_kind := 2; o_val := VNull |}
  | OutOfFuel => {| o_kind := 3; o_val := VNull |}
  end.

(* correspondence: the fold-pass machine with the tables regenerated from the Go
   source predicts value (exactly) or error kind — both from the token list and
   from the source text through the model of the reader (the `-` rule etc.) *)
Definition agree (c : case) : bool :=
  obs_eqb (obs_of (eval_expr (c_orc c) (c_toks c))) (c_obs c) &&
  match eval_src (c_orc c) (c_src c) with
  | Some r => obs_eqb (obs_of r) (c_obs c)
  | None => false
  end.

(* ---- the property, written from its text ----
   numbers: IEEE-754 binary64 + - * / ; comparisons yield booleans; equal numbers
   compare equal however they are written (they are the same float64); strings
   compare in byte order; booleans can be tested for equality.
   Mixed comparisons (murex's documented non-strict conversion): a number against
   a string that reads as a number (strconv.ParseFloat after trimming; observed
   table) compares numerically, against any other string it compares the
   number's printed text (FloatToString; observed table) with the string in
   byte order; a number against a boolean takes true = 1, false = 0.
   Everything else is outside C06 (None). *)
Open Scope float_scope.

Definition spec_pair (orc : oracles) (a b : value) : option cmp_pair :=
  match a, b with
  | VNum x, VNum y => Some (CF x y)
  | VStr s, VStr t => Some (CS s t)
  | VBool x, VBool y => Some (CB x y)
  | VNum x, VBool y => Some (CF x (if y then 1 else 0))
  | VBool x, VNum y => Some (CF (if x then 1 else 0) y)
  | VNum x, VStr s =>
    match lookup_parse (or_parse orc) s with
    | Some (Some y) => Some (CF x y)
    | Some None => match lookup_fmt (or_fmt orc) x with Some t => Some (CS t s) | None => None end
    | None => None
    end
  | VStr s, VNum y =>
    match lookup_parse (or_parse orc) s with
    | Some (Some x) => Some (CF x y)
    | Some None => match lookup_fmt (or_fmt orc) y with Some t => Some (CS s t) | None => None end
    | None => None
    end
  | _, _ => None
  end.

Definition spec_cmp (ff : float -> float -> bool) (fs : bytes -> bytes -> bool)
           (p : option cmp_pair) : option value :=
  match p with
  | Some (CF x y) => Some (VBool (ff x y))
  | Some (CS s t) => Some (VBool (fs s t))
  | _ => None
  end.

Definition spec_eq (neg : bool) (p : option cmp_pair) : option value :=
  match p with
  | Some (CF x y) => Some (VBool (if neg then negb (x =? y) else (x =? y)))
  | Some (CS s t) => Some (VBool (if neg then negb (bytes_eqb s t) else bytes_eqb s t))
  | Some (CB x y) => Some (VBool (if neg then negb (Bool.eqb x y) else Bool.eqb x y))
  | _ => None
  end.

Definition spec_arith (f : float -> float -> float) (a b : value) : option value :=
  match a, b with VNum x, VNum y => Some (VNum (f x y)) | _, _ => None end.

Definition spec_apply (orc : oracles) (o : sym) (a b : value) : option value :=
  match o with
  | Mul => spec_arith PrimFloat.mul a b | Div => spec_arith PrimFloat.div a b
  | Add => spec_arith PrimFloat.add a b | Sub => spec_arith PrimFloat.sub a b
  | Lt => spec_cmp PrimFloat.ltb bytes_ltb (spec_pair orc a b)
  | Le => spec_cmp PrimFloat.leb (fun s t => negb (bytes_ltb t s)) (spec_pair orc a b)
  | Gt => spec_cmp (fun x y => y <? x) (fun s t => bytes_ltb t s) (spec_pair orc a b)
  | Ge => spec_cmp (fun x y => y <=? x) (fun s t => negb (bytes_ltb s t)) (spec_pair orc a b)
  | Eq => spec_eq false (spec_pair orc a b)
  | Ne => spec_eq true (spec_pair orc a b)
  | _ => None
  end.

(* expected value of a token list under textbook precedence, if the property speaks about it *)
Definition reference (orc : oracles) (ts : list ptok) : option value :=
  match parse_expr ts with
  | Some t => eval_top (spec_apply orc) t
  | None => None
  end.

Definition spec_obs (orc : oracles) (ts : list ptok) (o : obs) : bool :=
  match reference orc ts with
  | Some v => obs_eqb {| o_kind := 0; o_val := v |} o
  | None => true
  end.

Definition spec_ok (c : case) : bool := spec_obs (c_orc c) (c_toks c) (c_obs c).

(* no known finding listed for C06 *)
Definition classify (c : case) : N := 0%N.
