(* C06 — case type, correspondence predicate and property predicate.
   Depends on Model/ and Base/ only. *)
From Coq Require Import Floats.
From Murex Require Export Base.Outcome Base.Bytes Base.CheckLib Model.Expr Model.ExprSpec.

(* what the harness saw: kind 0 = a value, 1 = clean error, 2 = panic, 3 = hang,
   4 = a value of a type outside the model *)
Record obs := { o_kind : N; o_val : value }.
Record case := { c_toks : list ptok; c_obs : obs }.

(* floats are compared by bit pattern (NaN as one class): the harness prints
   the float64 exactly, +0 and -0 are different, NaN = NaN *)
Definition class_code (f : float) : N :=
  match PrimFloat.classify f with
  | PNormal => 1 | NNormal => 2 | PSubn => 3 | NSubn => 4
  | PZero => 5 | NZero => 6 | PInf => 7 | NInf => 8 | NaN => 9
  end%N.

Definition same_float (a b : float) : bool :=
  N.eqb (class_code a) (class_code b) &&
  (N.eqb (class_code a) 9 || PrimFloat.eqb a b).

Definition value_eqb (a b : value) : bool :=
  match a, b with
  | VNum x, VNum y => same_float x y
  | VBool x, VBool y => Bool.eqb x y
  | VStr s, VStr t => bytes_eqb s t
  | VNull, VNull => true
  | _, _ => false
  end.

Definition obs_eqb (a b : obs) : bool :=
  N.eqb (o_kind a) (o_kind b) &&
  (negb (N.eqb (o_kind a) 0) || value_eqb (o_val a) (o_val b)).

Definition obs_of (r : Outcome value) : obs :=
  match r with
  | Ok v => {| o_kind := 0; o_val := v |}
  | Err _ => {| o_kind := 1; o_val := VNull |}
  | Panic => {| o_kind := 2; o_val := VNull |}
  | OutOfFuel => {| o_kind := 3; o_val := VNull |}
  end.

(* correspondence: the fold-pass machine with the tables regenerated from the
   Go source predicts value (exactly) or error kind *)
Definition agree (c : case) : bool := obs_eqb (obs_of (eval_expr (c_toks c))) (c_obs c).

(* ---- the property, written from its text ----
   numbers: IEEE-754 binary64 + - * / ; comparisons yield booleans; equal numbers
   compare equal however written (they are the same float64); strings compare
   in byte order; booleans can be tested for equality. Everything else is
   outside C06 (None). *)
Open Scope float_scope.

Definition spec_apply (o : sym) (a b : value) : option value :=
  match a, b with
  | VNum x, VNum y =>
    match o with
    | Mul => Some (VNum (x * y)) | Div => Some (VNum (x / y))
    | Add => Some (VNum (x + y)) | Sub => Some (VNum (x - y))
    | Lt => Some (VBool (x <? y)) | Le => Some (VBool (x <=? y))
    | Gt => Some (VBool (y <? x)) | Ge => Some (VBool (y <=? x))
    | Eq => Some (VBool (x =? y)) | Ne => Some (VBool (negb (x =? y)))
    | _ => None
    end
  | VStr s, VStr t =>
    match o with
    | Lt => Some (VBool (bytes_ltb s t)) | Le => Some (VBool (negb (bytes_ltb t s)))
    | Gt => Some (VBool (bytes_ltb t s)) | Ge => Some (VBool (negb (bytes_ltb s t)))
    | Eq => Some (VBool (bytes_eqb s t)) | Ne => Some (VBool (negb (bytes_eqb s t)))
    | _ => None
    end
  | VBool x, VBool y =>
    match o with
    | Eq => Some (VBool (Bool.eqb x y)) | Ne => Some (VBool (negb (Bool.eqb x y)))
    | _ => None
    end
  | _, _ => None
  end.

(* expected value of a token list under textbook precedence, if the property speaks about it *)
Definition reference (ts : list ptok) : option value :=
  match parse_expr ts with
  | Some t => eval_top spec_apply t
  | None => None
  end.

Definition spec_obs (ts : list ptok) (o : obs) : bool :=
  match reference ts with
  | Some v => obs_eqb {| o_kind := 0; o_val := v |} o
  | None => true
  end.

Definition spec_ok (c : case) : bool := spec_obs (c_toks c) (c_obs c).

(* no known finding listed for C06 *)
Definition classify (c : case) : N := 0%N.
