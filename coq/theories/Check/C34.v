(* C34 — Autocomplete never runs a line containing unsafe commands.
   Case type, correspondence predicate and property predicate evaluated on what
   the implementation did. Depends on the model only. *)
From Murex Require Export Base.Outcome Base.Bytes Base.CheckLib Model.Tokenizer Model.CmdLine.
From Murex Require Import Gen.SafeCmds.
Local Open Scope N_scope.

(* input: the command line typed so far (runes).
   observation, tokenizer side: the fields of parser.Parse(line, 0) that
   shell/autocomplete/dynamic.go uses for the gate `ExecCmdline && !Unsafe` and for
   the text it then executes, Source[:LastFlowToken].
   observation, real parser side (only meaningful when Unsafe = false): what
   lang/expressions.ParseBlock makes of that text. *)
Record case := {
  c_src : list N;
  c_unsafe : bool;            (* pt.Unsafe *)
  c_func : list N;            (* pt.FuncName, as runes *)
  c_expect_func : bool;       (* pt.ExpectFunc *)
  c_last_flow : Z;            (* pt.LastFlowToken *)
  c_perr : bool;              (* ParseBlock(Source[:LastFlowToken]) returned an error: nothing runs *)
  c_cmds : list (list N);     (* every command of the parsed tree, recursively through { } parameters;
                                 an expression statement appears as the command `expr` *)
  c_subshell : bool;          (* some parameter contains ${ or @{ outside single quotes / parenthesis quotes *)
  c_redirect : bool;          (* some function has a named-pipe redirection <name> *)
  (* cases generated from the grammar of Model/CmdLine.v carry their syntax tree and the
     command names of the real ParseBlock tree of the WHOLE line *)
  c_line : option line;
  c_all_cmds : list (list N);
  c_all_perr : bool
}.

Definition tok_fields (src : list N) : option (bool * list N * bool * Z) :=
  match parse src 0%Z with
  | Ok r => let t := r_tok r in Some (t_unsafe t, t_func t, t_expect_func t, t_last_flow t)
  | _ => None
  end.

(* the verdict of the model *)
Definition tok_unsafe (src : list N) : bool :=
  match tok_fields src with Some (u, _, _, _) => u | None => true end.

Fixpoint list_runes_eqb (a b : list (list N)) : bool :=
  match a, b with
  | [], [] => true
  | x :: a', y :: b' => runes_eqb x y && list_runes_eqb a' b'
  | _, _ => false
  end.

Fixpoint is_prefix (a b : list N) : bool :=
  match a, b with
  | [], _ => true
  | x :: a', y :: b' => (x =? y) && is_prefix a' b'
  | _ :: _, [] => false
  end.

Definition last_stmt (l : line) : stmt := last (map snd (snd l)) (fst l).
Definition has_block (s : stmt) : bool :=
  existsb (fun it => match it with IBlock _ _ => true | IArg _ => false end) (st_items s).
Definition prefix_line (l : line) : option line :=
  match snd l with [] => None | _ => Some (fst l, removelast (snd l)) end.

(* grammar cases: the tree is well formed, renders to the typed runes, the real block
   parser finds exactly [commands] in the whole line, and the structural prefix
   (everything before the last separator) is the text before LastFlowToken (up to
   the spaces / first `|` of `||` that precede the token) *)
Definition grammar_agree (c : case) : bool :=
  match c_line c with
  | None => true
  | Some l =>
      line_ok l && runes_eqb (render_line l) (c_src c) &&
      negb (c_all_perr c) && list_runes_eqb (commands l) (c_all_cmds c) &&
      (has_block (last_stmt l) ||
       match prefix_line l with
       | None => (c_last_flow c =? 0)%Z
       | Some pl =>
           let exe := firstn (Z.to_nat (c_last_flow c)) (c_src c) in
           is_prefix (render_line pl) exe &&
           forallb (fun r => (r =? 32) || (r =? 124)) (skipn (length (render_line pl)) exe)
       end)
  end.

(* correspondence: the model predicts the tokenizer's verdict and the three other
   fields the completion code reads; for grammar cases also [grammar_agree] *)
Definition agree (c : case) : bool :=
  match tok_fields (c_src c) with
  | Some (u, f, e, lf) =>
      Bool.eqb u (c_unsafe c) && runes_eqb f (c_func c) && Bool.eqb e (c_expect_func c) &&
      (lf =? c_last_flow c)%Z
  | None => false
  end && grammar_agree c.

Definition safe_name (c : list N) : bool := existsb (runes_eqb c) safe_cmds.

(* The property on the observation: if the tokenizer says "safe" then the text
   that would be executed is a valid slice, and — unless it does not even parse —
   every command the real parser finds in it is on the safe list, and there is no
   sub-shell and no redirection (assignments are expression statements: the
   command `expr`, which is not on the list). *)
Definition spec_ok (c : case) : bool :=
  if c_unsafe c then true
  else
    (0 <=? c_last_flow c)%Z && (c_last_flow c <=? Z.of_nat (length (c_src c)))%Z &&
    (c_perr c || (forallb safe_name (c_cmds c) && negb (c_subshell c) && negb (c_redirect c))).

(* ---- known findings ---- *)

Definition is_space (r : N) : bool := (r =? 32) || (r =? 9).
Definition is_flow_rune (r : N) : bool := (r =? 59) || (r =? 124) || (r =? 10) || (r =? 123) || (r =? 125).

(* Finding 1: a line in which a command word is followed (after white space) by an
   operator character: the real parser reads `name = value`, `name += 1`, `name ++`
   ... as an expression statement (an assignment to the variable `name`), the
   tokenizer as the command `name` with parameters.  Narrow shape: somewhere in the
   line, white space followed by one of  = + - * / < > ~ ! :  and white space or end
   or another operator rune. *)
Definition is_op_rune (r : N) : bool :=
  (r =? 61) || (r =? 43) || (r =? 45) || (r =? 42) || (r =? 47) || (r =? 60) || (r =? 62) ||
  (r =? 126) || (r =? 33) || (r =? 58) || (r =? 63) || (r =? 37) || (r =? 38).

Fixpoint has_spaced_operator (l : list N) : bool :=
  match l with
  | a :: ((b :: _) as tl) => (is_space a && is_op_rune b) || has_spaced_operator tl
  | _ => false
  end.

Definition expr_name : list N := [101; 120; 112; 114].   (* lang.ExpressionFunctionName = "expr" *)

Definition classify (c : case) : N :=
  if negb (spec_ok c) && existsb (runes_eqb expr_name) (c_cmds c)
     && forallb (fun x => safe_name x || runes_eqb expr_name x) (c_cmds c)
     && negb (c_subshell c) && negb (c_redirect c)
     && has_spaced_operator (c_src c)
  then 1 else 0.
