(* C26 — case type, correspondence predicate and the property predicate
   evaluated on what the implementation did.

   One case is a BATCH of independent registries run together in one child
   process (so the two-second grace period is waited out once per batch and a
   crash of the process is an observation). Each registry gets a list of phases
   of API calls; after every phase the harness waits until every delayed
   closePipe has fired and records Dump(). *)
From Murex Require Export Base.Outcome Base.CheckLib Model.NamedPipes.

Inductive run_obs :=
| Crashed                            (* the process died (or hung) while running this registry *)
| Survived (p : list phase_obs).

Record run_case := { r_phases : list (list op); r_obs : run_obs }.

(* A concurrent "storm" on ONE registry: s_pipes pipes are created and closed at
   once (their grace periods expire together) while s_workers goroutines keep
   running  Create n; Get n; Dump; Delete n  (every fifth round  Create n;
   Get n; Close n  on a fresh name) on names of their own, across the expiry;
   then everything is waited out and Dump() is recorded. Meanwhile s_races
   RACING ROUNDS run: in each, all workers are released together to CreatePipe
   the SAME absent name (pipe types std, file, and a type with a slow
   constructor); then Get, and one Delete (or Close) by the harness. It checks
   the atomicity assumption of the LTS: that API steps and Fire steps really
   exclude each other in the code. *)
Inductive storm_obs :=
| StormDied                                    (* the process died (Go runtime fatal error, panic) or hung *)
| StormSurvived (unexpected : bool)            (* some call returned what a sequential run could not *)
                (dup_rounds : N)               (* racing rounds in which not exactly one CreatePipe won
                                                  (or a second pipe was constructed, or Get/Delete failed) *)
                (final : list (N * N)).        (* Dump() after everything has been waited out *)

Record storm_case := { s_pipes : N; s_workers : N; s_races : N; s_obs : storm_obs }.

Record case := { c_runs : list run_case; c_storms : list storm_case }.

(* ---------- equality ---------- *)
Definition pair_eqb (a b : N * N) : bool := N.eqb (fst a) (fst b) && N.eqb (snd a) (snd b).

Fixpoint leqb {A} (eqb : A -> A -> bool) (a b : list A) : bool :=
  match a, b with
  | [], [] => true
  | x :: a', y :: b' => eqb x y && leqb eqb a' b'
  | _, _ => false
  end.

Definition res_eqb (a b : res) : bool :=
  match a, b with
  | ROk, ROk | RErr, RErr | RPanic, RPanic => true
  | RNames x, RNames y => leqb pair_eqb x y
  | _, _ => false
  end.

Definition phase_eqb (a b : phase_obs) : bool :=
  leqb res_eqb (po_res a) (po_res b) && leqb pair_eqb (po_dump a) (po_dump b).

Definition run_agree (r : run_case) : bool :=
  match r_obs r with
  | Crashed => false                 (* the model (of the fixed code) never crashes *)
  | Survived p => leqb phase_eqb (run_phases st0 (r_phases r)) p
  end.

(* every interleaving of the storm's steps leaves only the null pipe: each name
   is created and then deleted, or closed and fired (Proof: storm_round_restores),
   and of k racing Create n on an absent n exactly the first to take its step wins
   (Proof: create_race_one_winner) *)
Definition storm_agree (s : storm_case) : bool :=
  match s_obs s with
  | StormDied => false
  | StormSurvived unexpected dup d => negb unexpected && N.eqb dup 0 && leqb pair_eqb (reg st0) d
  end.

Definition agree (c : case) : bool :=
  forallb run_agree (c_runs c) && forallb storm_agree (c_storms c).

(* ---------- the property, on the observations ---------- *)
(* Bookkeeping from the history alone: L = names of live pipes, C = names closed
   successfully since the last wait. *)
Definition inb (n : N) (l : list N) : bool := existsb (N.eqb n) l.
Definition dropb (n : N) (l : list N) : list N := filter (fun x => negb (N.eqb x n)) l.

Fixpoint nodupb (l : list N) : bool :=
  match l with
  | [] => true
  | x :: r => negb (inb x r) && nodupb r
  end.

(* a Dump shows exactly the live names, each once, and the null pipe untouched *)
Definition names_match (L : list N) (d : list (N * N)) : bool :=
  nodupb (map fst d)
  && forallb (fun n => inb n (map fst d)) L
  && forallb (fun n => inb n L) (map fst d)
  && existsb (pair_eqb (0, 0)%N) d.

Definition usable (L : list N) (n : N) : bool := inb n L && negb (N.eqb n 0).

Fixpoint ops_ok (L C : list N) (ops : list op) (rs : list res) : option (list N * list N) :=
  match ops, rs with
  | [], [] => Some (L, C)
  | o :: ops', r :: rs' =>
      match o, r with
      (* names are unique among live pipes: a second create is refused *)
      | Create n, ROk | Expose n, ROk => if inb n L then None else ops_ok (n :: L) C ops' rs'
      | Create n, RErr | Expose n, RErr => if inb n L then ops_ok L C ops' rs' else None
      (* an operation on a missing pipe (or on null) returns an error, otherwise it works *)
      | Close n, ROk => if usable L n then ops_ok L (n :: C) ops' rs' else None
      | Close n, RErr => if usable L n then None else ops_ok L C ops' rs'
      | Delete n, ROk => if usable L n then ops_ok (dropb n L) C ops' rs' else None
      | Delete n, RErr => if usable L n then None else ops_ok L C ops' rs'
      | Get n, ROk => if inb n L then ops_ok L C ops' rs' else None
      | Get n, RErr => if inb n L then None else ops_ok L C ops' rs'
      | Dump, RNames d => if names_match L d then ops_ok L C ops' rs' else None
      | _, _ => None          (* a panic, or a Fire inside a phase (phases hold API calls only) *)
      end
  | _, _ => None
  end.

Fixpoint phases_ok (L : list N) (phases : list (list op)) (obs : list phase_obs) : bool :=
  match phases, obs with
  | [], [] => true
  | ops :: ps, ob :: obs' =>
      match ops_ok L [] ops (po_res ob) with
      | None => false
      | Some (L1, C) =>
          (* a closed pipe disappears after its grace period *)
          let L2 := filter (fun n => negb (inb n C)) L1 in
          names_match L2 (po_dump ob) && phases_ok L2 ps obs'
      end
  | _, _ => false
  end.

Definition run_ok (r : run_case) : bool :=
  match r_obs r with
  | Crashed => false                       (* never crashes the shell *)
  | Survived obs => phases_ok [0%N] (r_phases r) obs
  end.

(* never crashes the shell, whatever the schedule; operations on live / missing
   pipes answer as they must; afterwards exactly the null pipe is left *)
Definition storm_ok (s : storm_case) : bool :=
  match s_obs s with
  | StormDied => false
  | StormSurvived unexpected dup d =>
      (* names stay unique under contention: exactly one winner per racing round *)
      negb unexpected && N.eqb dup 0 && names_match [0%N] d
  end.

Definition spec_ok (c : case) : bool :=
  forallb run_ok (c_runs c) && forallb storm_ok (c_storms c).

(* no known finding for C26 (F26 is fixed) *)
Definition classify (c : case) : N := 0%N.
