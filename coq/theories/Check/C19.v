(* C19 — Murex code never crashes or hangs the shell.
   A case is a generated program (bytes) and the KIND of what happened when the
   real murex ran it in a child process:
     0 finished (success or a clean error with an exit number)
     1 an internal panic was reported ("panic caught" / "Murex has crashed")
     2 the shell process died
     3 the caller was left blocked (timeout). *)
From Murex Require Export Base.Outcome Base.Bytes Base.CheckLib.

Record case := { c_prog : bytes; c_kind : N }.

(* The property on an observation: the program finished without an internal panic. *)
Definition spec_ok (c : case) : bool := N.eqb (c_kind c) 0.

(* The model's prediction, for every program: kind 0. It is justified, for the
   modelled builtins, by the totality theorems collected in Properties/C19.v
   (no Panic / no OutOfFuel in their models); for the rest of the vocabulary the
   prediction is the property itself and the run is a failing-input search. *)
Definition model_kind (p : bytes) : N := 0.
Definition agree (c : case) : bool := N.eqb (model_kind (c_prog c)) (c_kind c).

(* ---- known findings: narrow classifiers on the program text ---- *)
Fixpoint prefix_of (p s : bytes) : bool :=
  match p, s with
  | [], _ => true
  | x :: p', y :: s' => N.eqb x y && prefix_of p' s'
  | _ :: _, [] => false
  end.
Fixpoint contains (p s : bytes) : bool :=
  prefix_of p s || match s with [] => false | _ :: s' => contains p s' end.

Definition classify (c : case) : N := 0.
