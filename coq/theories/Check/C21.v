(* C21 — case type, correspondence predicate and property predicate evaluated
   on what the implementation did. Depends on the model only. *)
From Murex Require Export Base.Outcome Base.CheckLib Model.ExecStatus.

Record case := { c_ctx : ctx; c_wait : wait_result; c_obs : obs }.

Definition obs_eqb (a b : obs) : bool :=
  Z.eqb (o_exit a) (o_exit b) && Bool.eqb (o_next a) (o_next b).

(* correspondence: the model predicts exactly the observed exit number of the
   external command and whether the follow-on command ran *)
Definition agree (c : case) : bool := obs_eqb (run (c_ctx c) (c_wait c)) (c_obs c).

(* The property, on an observation:
   - exited n  -> exit number n (so 0 -> 0)
   - signalled -> exit number non-zero
   - the follow-on command ran iff the documented rule says so for a process
     that failed iff (exit status <> 0 or signalled). *)
Definition really_failed (w : wait_result) : bool :=
  match w with Exited n => negb (Z.eqb n 0) | Signaled _ => true | NoChild => false end.

Definition expect_next (c : ctx) (w : wait_result) : bool :=
  match c with
  | Alone => true
  | AndThen | InTry | InTryPipe => negb (really_failed w)
  | OrElse => really_failed w
  end.

Definition spec_obs (c : ctx) (w : wait_result) (o : obs) : bool :=
  match w with
  | Exited n => Z.eqb (o_exit o) n
  | Signaled _ => negb (Z.eqb (o_exit o) 0)
  | NoChild => true
  end && Bool.eqb (o_next o) (expect_next c w).

Definition spec_ok (c : case) : bool := spec_obs (c_ctx c) (c_wait c) (c_obs c).

(* known-finding classifier: none listed for C21 (F21 is fixed). *)
Definition classify (c : case) : N := 0%N.
