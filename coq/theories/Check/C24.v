(* C24 — case type, correspondence predicate, the declarative reference parser
   and the property predicate evaluated on what the implementation did. *)
From Murex Require Export Base.Outcome Base.Bytes Base.CheckLib Model.Flags.

(* ---------- observations ---------- *)
Inductive pf_obs :=
| PfOk (f : list (bytes * fval)) (ad : list bytes)   (* flags sorted by name *)
| PfErr                                              (* a Go error was returned *)
| PfPanic
| PfHang.

Inductive ab_obs :=
| AbOk (o : args_obs)      (* `args` returned and the variable holds this *)
| AbFailed.                (* `args` itself crashed / hung / left no variable *)

Record case := {
  c_spec : argspec;
  c_args : list bytes;
  (* graph of types.ConvertGoType on the (type, argument) pairs of this case,
     measured by calling it directly *)
  c_oracle : list (bytes * bytes * option fval);
  c_pf : pf_obs;            (* parameters.ParseFlags called directly *)
  c_ab : ab_obs             (* the same arguments through `args` inside a function *)
}.

Fixpoint oracle_fn (o : list (bytes * bytes * option fval)) (ty raw : bytes) : option fval :=
  match o with
  | [] => None
  | (t, r, v) :: o' => if bytes_eqb t ty && bytes_eqb r raw then v else oracle_fn o' ty raw
  end.

(* ---------- equality ---------- *)
Definition fval_eqb (x y : fval) : bool :=
  N.eqb (fv_kind x) (fv_kind y) && bytes_eqb (fv_text x) (fv_text y).
Definition flag_eqb (x y : bytes * fval) : bool :=
  bytes_eqb (fst x) (fst y) && fval_eqb (snd x) (snd y).
Definition flags_eqb := list_eqb flag_eqb.
Definition strs_eqb := list_eqb bytes_eqb.

Definition pf_of (o : Outcome (list (bytes * fval) * list bytes)) : pf_obs :=
  match o with
  | Ok (f, ad) => PfOk f ad
  | Err _ => PfErr
  | Panic => PfPanic
  | OutOfFuel => PfHang
  end.

Definition pf_eqb (x y : pf_obs) : bool :=
  match x, y with
  | PfOk f ad, PfOk f' ad' => flags_eqb f f' && strs_eqb ad ad'
  | PfErr, PfErr | PfPanic, PfPanic | PfHang, PfHang => true
  | _, _ => false
  end.

Definition args_obs_eqb (x y : args_obs) : bool :=
  flags_eqb (ao_flags x) (ao_flags y) && strs_eqb (ao_additional x) (ao_additional y)
  && Bool.eqb (ao_error x) (ao_error y) && Z.eqb (ao_exit x) (ao_exit y).

Definition ab_of (o : Outcome args_obs) : ab_obs :=
  match o with Ok x => AbOk x | _ => AbFailed end.

Definition ab_eqb (x y : ab_obs) : bool :=
  match x, y with
  | AbOk a, AbOk b => args_obs_eqb a b
  | AbFailed, AbFailed => true
  | _, _ => false
  end.

(* correspondence: the model predicts both observations *)
Definition agree (c : case) : bool :=
  let conv := oracle_fn (c_oracle c) in
  pf_eqb (pf_of (parse_flags (c_spec c) conv (c_args c))) (c_pf c)
  && ab_eqb (ab_of (args_builtin (c_spec c) conv (c_args c))) (c_ab c).

(* ---------- the reference parser ---------- *)
(* Follow aliases from a flag to its target: at most one hop per table entry
   (a loop-free chain cannot be longer); None = the aliases loop. `--` ends the
   chain when additional parameters are allowed. *)
Fixpoint ref_chase (a : argspec) (fuel : nat) (p : bytes) : option bytes :=
  if allow_additional a && bytes_eqb p dd then Some p
  else if dash (lookup (table a) p) then
    match fuel with
    | O => None
    | S f => ref_chase a f (lookup (table a) p)
    end
  else Some p.

Definition ref_resolve (a : argspec) (p : bytes) : option bytes :=
  ref_chase a (length (table a)) p.

(* what an argument is, by the flag table alone *)
Inductive tok :=
| TkLoop                 (* alias loop *)
| TkRest                 (* `--` with additional parameters allowed *)
| TkBool (q : bytes)     (* declared boolean flag (after aliases) *)
| TkVal (q : bytes)      (* declared flag that takes a value *)
| TkUnknown (q : bytes)  (* looks like a flag, not declared *)
| TkPlain (p : bytes).   (* not a flag *)

Definition classify_tok (a : argspec) (p : bytes) : tok :=
  if dash p then
    match ref_resolve a p with
    | None => TkLoop
    | Some q =>
        if allow_additional a && bytes_eqb q dd then TkRest
        else if bytes_eqb (lookup (table a) q) ty_bool then TkBool q
        else if nonempty (lookup (table a) q) then TkVal q
        else TkUnknown q
    end
  else TkPlain p.

(* pend: a value flag waiting for its value. None = a clean error. *)
Fixpoint ref_go (a : argspec) (conv : conv_t) (pend : option bytes)
         (fl : list (bytes * fval)) (ad : list bytes) (args : list bytes)
  : option (list (bytes * fval) * list bytes) :=
  match args with
  | [] => match pend with Some _ => None | None => Some (fl, ad) end
  | p :: rest =>
      let value_for pr x :=
        match conv (lookup (table a) pr) x with
        | Some v => ref_go a conv None (set_flag fl pr v) ad rest
        | None => None
        end in
      match classify_tok a p with
      | TkLoop => None
      | TkRest => match pend with Some _ => None | None => Some (fl, ad ++ rest) end
      | TkBool q => ref_go a conv pend (set_flag fl q v_true) ad rest
      | TkVal q => ref_go a conv (Some q) fl ad rest
      | TkUnknown q =>
          match pend with
          | Some pr => value_for pr q
          | None => if ignore_invalid a && allow_additional a
                    then ref_go a conv None fl (ad ++ [q]) rest
                    else None
          end
      | TkPlain x =>
          match pend with
          | Some pr => value_for pr x
          | None => if allow_additional a
                    then if strict_placement a then Some (fl, ad ++ x :: rest)
                         else ref_go a conv None fl (ad ++ [x]) rest
                    else None
          end
      end
  end.

Definition ref_parse (a : argspec) (conv : conv_t) (args : list bytes) :=
  ref_go a conv None [] [] args.

(* ---------- the property, on the observations ---------- *)
Definition ty_str : bytes := [115; 116; 114]%N.
Definition ty_int : bytes := [105; 110; 116]%N.
Definition ty_num : bytes := [110; 117; 109]%N.
Definition ty_float : bytes := [102; 108; 111; 97; 116]%N.

(* canonical decimal integer: optional '-', 1..15 digits, no leading zero *)
Definition is_digit (c : N) : bool := N.leb 48 c && N.leb c 57.
Definition canonical_int (b : bytes) : bool :=
  let d := match b with 45 :: r => r | _ => b end%N in
  match d with
  | [] => false
  | [c] => is_digit c && negb (N.eqb c 48 && negb (bytes_eqb b d))   (* "-0" is not canonical *)
  | c :: _ => is_digit c && negb (N.eqb c 48) && forallb is_digit d && Nat.leb (length d) 15
  end.

(* a reported flag is declared, and its value has the declared type: str a Go
   string, int a Go int (canonical decimal text), num/float a float64, bool
   true; any other type name is a declared value flag (string passthrough) *)
Definition vt (ty : bytes) (v : fval) : bool :=
  if bytes_eqb ty ty_bool then N.eqb (fv_kind v) 3 && bytes_eqb (fv_text v) (fv_text v_true)
  else if bytes_eqb ty ty_str then N.eqb (fv_kind v) 0
  else if bytes_eqb ty ty_int then N.eqb (fv_kind v) 1 && canonical_int (fv_text v)
  else if bytes_eqb ty ty_num || bytes_eqb ty ty_float then N.eqb (fv_kind v) 2
  else nonempty ty && negb (dash ty).

Definition value_typed (a : argspec) (kv : bytes * fval) : bool :=
  vt (lookup (table a) (fst kv)) (snd kv).

Definition spec_ok (c : case) : bool :=
  let a := c_spec c in
  let conv := oracle_fn (c_oracle c) in
  (* flag parsing follows the table (= the reference parser), or reports a clean error *)
  match c_pf c, ref_parse a conv (c_args c) with
  | PfOk f ad, Some (f', ad') =>
      flags_eqb f f' && strs_eqb ad ad' && forallb (value_typed a) f
  | PfErr, None => true
  | _, _ => false
  end
  &&
  (* `args` exposes exactly this result, or the error text, without failing itself *)
  match c_ab c, c_pf c with
  | AbOk o, PfOk f ad =>
      negb (ao_error o) && Z.eqb (ao_exit o) 0
      && flags_eqb (ao_flags o) (map (fun kv => (fst kv, json_kind (snd kv))) f)
      && strs_eqb (ao_additional o) ad
  | AbOk o, PfErr =>
      ao_error o && Z.eqb (ao_exit o) 1
      && match ao_flags o with [] => true | _ => false end
      && match ao_additional o with [] => true | _ => false end
  | _, _ => false
  end.

(* no known finding for C24 (F24a and F24b are fixed) *)
Definition classify (c : case) : N := 0%N.
