(* C36 — case type, correspondence predicate and the property predicate
   evaluated on what the implementation did.  Depends on the model only. *)
From Murex Require Export Base.Outcome Base.Bytes Base.CheckLib Model.ByteStr Model.Literal.

Local Open Scope N_scope.

(* input: the literal's text (starting with %) and, for the number tokens of the
   generated document, their float64 bits according to strconv.ParseFloat.
   observation: did murex evaluate the literal (same result in expression and in
   statement position), the value it built, whether encoding/json accepts the
   text after the %, and the value encoding/json built. *)
Record obs := { o_ok : bool; o_val : jval; o_jok : bool; o_jval : jval }.
Record case := { c_text : bytes; c_nums : list (bytes * N); c_obs : obs }.

(* the property's domain: JSON text whose strings have no murex escapes *)
Definition in_domain (text : bytes) : bool :=
  negb (existsb (fun c => mem c [92; 36; 126; 40; 41]) text).

(* correspondence, part 1: the model of the literal parser predicts murex *)
Definition agree_lit (c : case) : bool :=
  match lit_parse (c_text c) with
  | Ok j =>
    match resolve (c_nums c) j with
    | Some v => o_ok (c_obs c) && jval_eqb v (o_val (c_obs c))
    | None => true                      (* a number token the table does not cover *)
    end
  | Err 8 | Err 9 => true               (* outside the modelled fragment *)
  | Err _ => negb (o_ok (c_obs c))
  | Panic | OutOfFuel => false
  end.

(* part 2: the plain JSON parser of the theorem predicts encoding/json on the
   same text (inside the property's domain) *)
Definition agree_json (c : case) : bool :=
  if in_domain (c_text c) then
    match c_text c with
    | 37 :: txt =>
      match json_parse txt with
      | Ok j =>
        match resolve (c_nums c) j with
        | Some v => o_jok (c_obs c) && jval_eqb v (o_jval (c_obs c))
        | None => true
        end
      | Err 9 => true
      | Err _ => negb (o_jok (c_obs c))
      | Panic | OutOfFuel => false
      end
    | _ => true
    end
  else true.

Definition agree (c : case) : bool := agree_lit c && agree_json c.

(* The property: a literal written in JSON syntax builds the value that parsing
   the same text as JSON gives. *)
Definition spec_ok (c : case) : bool :=
  if in_domain (c_text c) && o_jok (c_obs c)
  then o_ok (c_obs c) && jval_eqb (o_val (c_obs c)) (o_jval (c_obs c))
  else true.

(* known finding 1: a line break between an object key's colon and its value
   ( {"a":<newline>1} is JSON, but parseObject treats the newline as the end of
   the key/value pair and reports "object values cannot be undefined") *)
Fixpoint nl_after_colon (text : bytes) (after : bool) : bool :=
  match text with
  | [] => false
  | c :: r =>
    if c =? 58 then nl_after_colon r true
    else if after && (c =? 10) then true
    else if after && mem c [32; 9; 13] then nl_after_colon r true
    else nl_after_colon r false
  end.

Definition classify (c : case) : N :=
  if nl_after_colon (c_text c) false && negb (o_ok (c_obs c)) then 1 else 0.
