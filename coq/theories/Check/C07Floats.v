(* As Check/C06Floats.v, for the cases files of C07. *)
From Coq Require Export Floats.
From Murex Require Export Check.C07.
