(* C28 — Function IDs are unique and released when programs finish: case type,
   correspondence predicate and property predicate.  Depends on the model only. *)
From Murex Require Export Base.Outcome Base.Bytes Base.CheckLib Model.RunMode Model.Fid Model.FidTree.

(* One batch of programs run concurrently (one goroutine each) under a seeded
   perturbation of the schedulers' yield points.
   k_progs  : the programs of the batch that are chains of the C04/C05 grammar:
              run mode, program, registrations made by each process' command
              while it runs (function fork + body), registrations of the wrapper;
   k_trees  : the programs of the batch that are nested structures (if / foreach /
              sub-shell / function / try inside normal blocks) given as their fork
              tree (Model/FidTree.v), the root being the harness' own function fork;
   k_exact  : every program of the batch is a chain or a tree (so the number of
              registrations is predicted);
   k_issued : ids issued during the batch (difference of the FID counter);
   k_leaked : processes registered by the batch still in GlobalFIDs.ListAll()
              after quiescence (polled up to 3 s);
   k_dup    : an id was seen attached to two different processes (or one process
              under two ids) while sampling the table during the batch;
   k_regs, k_distinct, k_fresh : the ids collected during the case - for a
              "register race" case (W goroutines released through a barrier, each
              calling the real GlobalFIDs.Register on fresh processes) every returned
              id, for a batch the id of every process seen (root forks of the programs
              and every process sampled from the table): how many, how many distinct,
              and whether all are above the counter at the start of the case.  For a
              race case k_leaked is the growth of the table after everything was
              deregistered. *)
Record case := { k_progs : list (runmode * program * list N * N); k_trees : list ftree;
                 k_exact : bool;
                 k_issued : N; k_leaked : N; k_dup : bool;
                 k_regs : N; k_distinct : N; k_fresh : bool }.

Definition predicted (c : case) : N :=
  fold_right (fun (x : runmode * program * list N * N) acc =>
                let '(m, prog, cost, base) := x in (base + predict_issued m prog cost + acc)%N)
             0%N (k_progs c)
  + fold_right (fun t acc => (N.of_nat (tree_count t) + acc)%N) 0%N (k_trees c).

(* correspondence: the model says nothing leaks, ids are never shared, and - for
   chains - exactly which processes get registered (one per compiled process,
   plus the fork and body of every function that actually ran) *)
Definition agree (c : case) : bool :=
  N.eqb (k_leaked c) 0 && negb (k_dup c) &&
  (* Proof/Fid.v fid_unique: the ids of any schedule are pairwise distinct and fresh *)
  N.eqb (k_distinct c) (k_regs c) && k_fresh c &&
  (if k_exact c then N.eqb (k_issued c) (predicted c) else true).

(* the property, on the observation alone *)
Definition spec_ok (c : case) : bool :=
  N.eqb (k_leaked c) 0 && negb (k_dup c) && N.eqb (k_distinct c) (k_regs c) && k_fresh c.

Definition classify (c : case) : N := 0%N.
