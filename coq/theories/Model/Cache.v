(* C30 — model of utils/cache (cache.go, internal.go, with_db.go) and utils/cache/cachedb.

   State = the in-memory layer (a Go map per namespace) x the cache.db layer (one SQLite
   table per namespace, here ONE keyed table with key = (namespace, key)).  Time is whole
   seconds (`now : Z`), supplied with every operation.

     Write  internal: stored only when ttl >= now + 59 min;  db: INSERT OR REPLACE (key,value,ttl)
     Read   internal: found AND NOT ttl.After(now)  (the comparison is the wrong way round) -> "hit",
            but the value is stored with atomic.StorePointer into a LOCAL copy of the pointer, so
            the caller's buffer stays empty, json.Unmarshal fails and Read falls through to
            db: SELECT value WHERE key == ? AND ttl > unixepoch()  (empty value = nothing)
     Trim   every namespace: internal delete ttl < now;  db DELETE WHERE ttl < unixepoch()
     Clear  every namespace: delete everything
   Trim and Clear report the deleted keys per namespace and layer.

   SQLite is not modelled: the database is any implementation `dbops` of a keyed table; the
   theorems assume the keyed-table laws (Proof/Cache.v, `db_laws`); the executable instance
   used by the correspondence check is the association list `list_db`.  No proofs here. *)
From Murex Require Import Base.Bytes.
Open Scope Z_scope.

Definition key2 := (bytes * bytes)%type.          (* (namespace, key) *)
Definition key2_eqb (a b : key2) : bool := bytes_eqb (fst a) (fst b) && bytes_eqb (snd a) (snd b).
Definition is_empty (b : bytes) : bool := match b with [] => true | _ :: _ => false end.

Record dbops (D : Type) := {
  d_empty : D;
  d_row : D -> key2 -> option (bytes * Z);      (* the (value, ttl) stored under a key *)
  d_insert : D -> key2 -> bytes -> Z -> D;      (* INSERT OR REPLACE *)
  d_trim : D -> bytes -> Z -> D;                (* DELETE FROM ns WHERE ttl < now *)
  d_trim_keys : D -> bytes -> Z -> list bytes;  (* SELECT key FROM ns WHERE ttl < now *)
  d_clear : D -> bytes -> D;                    (* DELETE FROM ns *)
  d_clear_keys : D -> bytes -> list bytes       (* SELECT key FROM ns *)
}.
Arguments d_empty {D}. Arguments d_row {D}. Arguments d_insert {D}. Arguments d_trim {D}.
Arguments d_trim_keys {D}. Arguments d_clear {D}. Arguments d_clear_keys {D}.

(* ---- association-list table: used for the in-memory layer and as the executable db ---- *)
Definition table := list (key2 * (bytes * Z)).

Fixpoint t_row (t : table) (k : key2) : option (bytes * Z) :=
  match t with
  | [] => None
  | (k', r) :: t' => if key2_eqb k' k then Some r else t_row t' k
  end.
Definition t_insert (t : table) (k : key2) (v : bytes) (ttl : Z) : table :=
  (k, (v, ttl)) :: filter (fun e => negb (key2_eqb (fst e) k)) t.
(* a key is stale when the row visible under it lies in namespace ns with ttl < now; Trim removes
   the key (every binding of it), so the laws of a keyed table hold for every list *)
Definition t_in_ns (ns : bytes) (k : key2) : bool := bytes_eqb (fst k) ns.
Definition t_stale (t : table) (ns : bytes) (now : Z) (k : key2) : bool :=
  match t_row t k with
  | Some (_, ttl) => t_in_ns ns k && (ttl <? now)
  | None => false
  end.
Definition t_trim (t : table) (ns : bytes) (now : Z) : table :=
  filter (fun e => negb (t_stale t ns now (fst e))) t.
Definition t_trim_keys (t : table) (ns : bytes) (now : Z) : list bytes :=
  map (fun e => snd (fst e)) (filter (fun e => t_stale t ns now (fst e)) t).
Definition t_clear (t : table) (ns : bytes) : table := filter (fun e => negb (t_in_ns ns (fst e))) t.
Definition t_clear_keys (t : table) (ns : bytes) : list bytes :=
  map (fun e => snd (fst e)) (filter (fun e => t_in_ns ns (fst e)) t).

Definition list_db : dbops table :=
  {| d_empty := []; d_row := t_row; d_insert := t_insert; d_trim := t_trim;
     d_trim_keys := t_trim_keys; d_clear := t_clear; d_clear_keys := t_clear_keys |}.

(* ---- the cache ---- *)
Inductive op :=
| Write (k : key2) (v : bytes) (ttl : Z)
| Read (k : key2)
| Trim
| Clear.

Inductive result :=
| RNone                                             (* Write *)
| RRead (v : option bytes)                          (* Read: value (JSON text) or nothing *)
| RKeys (l : list (bytes * list bytes * list bytes)). (* Trim/Clear: ns, internal keys, db keys *)

Section Cache.
  Context {D : Type} (ops : dbops D).
  Variable all_ns : list bytes.          (* the initialised namespaces (keys of Go's `cache` map) *)

  Record state := { internal : table; db : D }.
  Definition init : state := {| internal := []; db := d_empty ops |}.

  (* internalCacheT.Read: a "hit" hands the caller an EMPTY buffer *)
  Definition internal_read (st : state) (now : Z) (k : key2) : option bytes :=
    match t_row (internal st) k with
    | Some (_, ttl) => if now <? ttl then None else Some []
    | None => None
    end.

  (* json.Unmarshal fails on empty input (stored values are JSON texts, never empty) *)
  Definition json_decodes (b : bytes) : bool := negb (is_empty b).

  Definition db_read (st : state) (now : Z) (k : key2) : option bytes :=
    match d_row ops (db st) k with
    | Some (v, ttl) => if (now <? ttl) && negb (is_empty v) then Some v else None
    | None => None
    end.

  Definition c_read (st : state) (now : Z) (k : key2) : option bytes :=
    match internal_read st now k with
    | Some b => if json_decodes b then Some b else db_read st now k
    | None => db_read st now k
    end.

  Definition c_write (st : state) (now : Z) (k : key2) (v : bytes) (ttl : Z) : state :=
    {| internal := if ttl <? now + 3540 then internal st else t_insert (internal st) k v ttl;
       db := d_insert ops (db st) k v ttl |}.

  Definition c_trim (st : state) (now : Z) : state :=
    {| internal := fold_left (fun t ns => t_trim t ns now) all_ns (internal st);
       db := fold_left (fun d ns => d_trim ops d ns now) all_ns (db st) |}.
  Definition c_trim_keys (st : state) (now : Z) : list (bytes * list bytes * list bytes) :=
    map (fun ns => (ns, t_trim_keys (internal st) ns now, d_trim_keys ops (db st) ns now)) all_ns.

  Definition c_clear (st : state) : state :=
    {| internal := fold_left t_clear all_ns (internal st);
       db := fold_left (d_clear ops) all_ns (db st) |}.
  Definition c_clear_keys (st : state) : list (bytes * list bytes * list bytes) :=
    map (fun ns => (ns, t_clear_keys (internal st) ns, d_clear_keys ops (db st) ns)) all_ns.

  Definition apply (st : state) (now : Z) (o : op) : state * result :=
    match o with
    | Write k v ttl => (c_write st now k v ttl, RNone)
    | Read k => (st, RRead (c_read st now k))
    | Trim => (c_trim st now, RKeys (c_trim_keys st now))
    | Clear => (c_clear st, RKeys (c_clear_keys st))
    end.

  (* a history: operations with the time each was performed, oldest first *)
  Fixpoint run_from (st : state) (h : list (Z * op)) : state * list result :=
    match h with
    | [] => (st, [])
    | (now, o) :: h' =>
      let '(st1, r) := apply st now o in
      let '(st2, rs) := run_from st1 h' in
      (st2, r :: rs)
    end.
  Definition run (h : list (Z * op)) : state := fst (run_from init h).
  Definition results (h : list (Z * op)) : list result := snd (run_from init h).
End Cache.
