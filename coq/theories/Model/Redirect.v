(* C33 — executable model of how murex wires a command's stdout / stderr:

     lang/redirection.go  parseRedirection   (first <name> wins for stdout, first <!name> for stderr,
                                              a second one is an "Invalid usage" complaint)
     lang/interpreter.go  compile            (Previous/Next, default Stdout/Stderr of every process of a block)
     lang/process.go      createProcess      (the two `switch`es that apply <err> <!out> <null> <!null>)
     builtins/core/io/write.go  writeFile / truncateFile / appendFile   (`|> file`, `>> file`)

   The model is shaped like the code: streams are identities (the block's own
   stdout / stderr / stdin, the stdin of process i, the null device), every
   process gets its Stdout and Stderr by the same sequence of assignments as in
   compile and createProcess, and a block is run by letting every process write
   its bytes to whatever its Stdout / Stderr point at.

   createProcess after "fix: <!out> on a command that is not piped":
       case "out": p.Stderr = p.Stdout          (was: p.Next.Stdin)

   Also modelled: the deprecated `?` pipe (compile: Stdout = Parent.Stderr, Stderr = Next.Stdin)
   and user-named pipes created with `pipe name` as redirection targets (`<name>`, `<!name>`:
   GlobalPipes.Get(name), the default: branch of both switches).
   Not modelled: named pipes that do not exist, <test_*> <state_*> <env:*> <fid:*> <pid:*>,
   `name:type` temporary pipes, tee for tests.
   No proofs in this file. *)
From Murex Require Import Base.Outcome Base.Bytes.
Local Open Scope N_scope.

(* what follows a command in the block: `|` / `->`,  the stderr pipe ` ? `,  or  `;` / newline / end of block *)
Inductive link := Pipe | QPipe | Semi.

(* the named pipes in angle brackets that this property is about *)
Inductive rname := R_out | R_err | R_null         (* <out> <err> <null>    : about stdout *)
                 | R_bout | R_berr | R_bnull      (* <!out> <!err> <!null> : about stderr *)
                 | R_pipe (k : N)                 (* <name_k>  : stdout into the user-named pipe k *)
                 | R_bpipe (k : N).               (* <!name_k> : stderr into the user-named pipe k *)

Definition is_bang (r : rname) : bool :=
  match r with R_bout | R_berr | R_bnull | R_bpipe _ => true | _ => false end.

(* what a process does.  Emit: the harness command — copies its stdin (when it is
   a method) to its stdout, then writes o to stdout and e to stderr.
   Trunc f / Append f: the builtins `>` and `>>` on file f. *)
Inductive action := Emit (o e : bytes) | Trunc (f : N) | Append (f : N).

Record stage := { s_act : action; s_redirs : list rname; s_link : link }.

(* ---------- parseRedirection ---------- *)
(* p.NamedPipeOut / p.NamedPipeErr as options (None = ""), and the number of complaints *)
Record named := { n_out : option rname; n_err : option rname; n_complaints : nat }.

Fixpoint parse_redirection (l : list rname) (acc : named) : named :=
  match l with
  | [] => acc
  | r :: l' =>
      parse_redirection l'
        (if is_bang r then
           match n_err acc with
           | None => {| n_out := n_out acc; n_err := Some r; n_complaints := n_complaints acc |}
           | Some _ => {| n_out := n_out acc; n_err := n_err acc; n_complaints := S (n_complaints acc) |}
           end
         else
           match n_out acc with
           | None => {| n_out := Some r; n_err := n_err acc; n_complaints := n_complaints acc |}
           | Some _ => {| n_out := n_out acc; n_err := n_err acc; n_complaints := S (n_complaints acc) |}
           end)
  end.

Definition parse_redirs (l : list rname) : named :=
  parse_redirection l {| n_out := None; n_err := None; n_complaints := O |}.

(* ---------- streams ---------- *)
Inductive stream :=
| SParentOut            (* the block's stdout  (Parent.Stdout) *)
| SParentErr            (* the block's stderr  (Parent.Stderr) *)
| SParentIn             (* the block's stdin   (Parent.Stdin): nobody reads what is written there *)
| SStdin (i : nat)      (* stdin of process i of the block *)
| SPipe (k : N)         (* the user-named pipe k (GlobalPipes) *)
| SNull.                (* the null device *)

(* compile: procs[i].Next is procs[i+1], or the parent for the last process *)
Definition next_stdin (n i : nat) : stream :=
  if Nat.eqb (S i) n then SParentIn else SStdin (S i).

(* compile: default stdout / stderr *)
Definition default_stdout (n i : nat) (l : link) : stream :=
  match l with Pipe => next_stdin n i | QPipe => SParentErr | Semi => SParentOut end.
Definition default_stderr (n i : nat) (l : link) : stream :=
  match l with QPipe => next_stdin n i | _ => SParentErr end.

(* createProcess: stderr first, then stdout.
   `<err>`: p.Stdout = p.Parent.Stderr   (after "fix: <err> ... ? pipe"; was p.Next.Stderr, which is
   the NEXT command's compile-time stderr: its own `?` pipe when it has one) *)
Definition wire (n i : nat) (s : stage) : stream * stream :=
  let nm := parse_redirs (s_redirs s) in
  let stdout0 := default_stdout n i (s_link s) in
  let stderr0 := default_stderr n i (s_link s) in
  let stderr1 := match n_err nm with
                 | None => stderr0
                 | Some R_bout => stdout0          (* p.Stderr = p.Stdout *)
                 | Some R_bnull => SNull
                 | Some (R_bpipe k) => SPipe k     (* GlobalPipes.Get *)
                 | Some _ => stderr0               (* <!err> *)
                 end in
  let stdout1 := match n_out nm with
                 | None => stdout0
                 | Some R_err => SParentErr        (* p.Stdout = p.Parent.Stderr *)
                 | Some R_null => SNull
                 | Some (R_pipe k) => SPipe k      (* GlobalPipes.Get *)
                 | Some _ => stdout0               (* <out> *)
                 end in
  (stdout1, stderr1).

(* the wiring before that fix, kept for the refutation lemma: nl = link of the next command *)
Definition old_err_target (n i : nat) (nl : option link) : stream :=
  match nl with
  | Some QPipe => next_stdin n (S i)
  | _ => SParentErr
  end.

(* ---------- running a block ---------- *)
Definition files := list (N * bytes).

Fixpoint file_get (fs : files) (f : N) : option bytes :=
  match fs with
  | [] => None
  | (g, d) :: fs' => if N.eqb f g then Some d else file_get fs' f
  end.

Fixpoint file_set (fs : files) (f : N) (d : bytes) : files :=
  match fs with
  | [] => [(f, d)]
  | (g, d') :: fs' => if N.eqb f g then (g, d) :: fs' else (g, d') :: file_set fs' f d
  end.

(* os.Create + io.Copy *)
Definition truncate_file (fs : files) (f : N) (d : bytes) : files := file_set fs f d.
(* O_APPEND|O_CREATE + io.Copy *)
Definition append_file (fs : files) (f : N) (d : bytes) : files :=
  file_set fs f (match file_get fs f with Some old => old ++ d | None => d end).

Record state := {
  st_out : bytes;            (* written to the block's stdout *)
  st_err : bytes;            (* written to the block's stderr *)
  st_pin : bytes;            (* written into the block's own stdin: lost *)
  st_null : bytes;           (* discarded by the null device *)
  st_ins : list bytes;       (* stdin buffer of every process of the block *)
  st_fs : files;
  st_pipes : files           (* buffer of every user-named pipe, by number *)
}.

Fixpoint app_nth (l : list bytes) (i : nat) (d : bytes) : list bytes :=
  match l, i with
  | [], _ => []
  | x :: l', O => (x ++ d) :: l'
  | x :: l', S i' => x :: app_nth l' i' d
  end.

Definition upd (o e p nl : bytes) (ins : list bytes) (fs ps : files) : state :=
  {| st_out := o; st_err := e; st_pin := p; st_null := nl; st_ins := ins; st_fs := fs; st_pipes := ps |}.

Definition pipe_get (ps : files) (k : N) : bytes :=
  match file_get ps k with Some d => d | None => [] end.

Definition write (s : stream) (d : bytes) (st : state) : state :=
  let '(o, e, p, nl, ins, fs, ps) := (st_out st, st_err st, st_pin st, st_null st, st_ins st, st_fs st, st_pipes st) in
  match s with
  | SParentOut => upd (o ++ d) e p nl ins fs ps
  | SParentErr => upd o (e ++ d) p nl ins fs ps
  | SParentIn => upd o e (p ++ d) nl ins fs ps
  | SNull => upd o e p (nl ++ d) ins fs ps
  | SStdin i => upd o e p nl (app_nth ins i d) fs ps
  | SPipe k => upd o e p nl ins fs (file_set ps k (pipe_get ps k ++ d))
  end.

Definition set_fs (fs : files) (st : state) : state :=
  upd (st_out st) (st_err st) (st_pin st) (st_null st) (st_ins st) fs (st_pipes st).

(* process i is a method when the previous command is linked to it by a pipe *)
Definition is_method (prev : option link) : bool :=
  match prev with Some Pipe | Some QPipe => true | _ => false end.

(* one process runs to completion: what it read, then its writes *)
Definition run_stage (n i : nat) (prev : option link) (s : stage) (st : state) : state :=
  let input := if is_method prev then nth i (st_ins st) [] else [] in
  let '(so, se) := wire n i s in
  match s_act s with
  | Emit o e => write se e (write so (input ++ o) st)
  | Trunc f => set_fs (truncate_file (st_fs st) f input) st
  | Append f => set_fs (append_file (st_fs st) f input) st
  end.

Fixpoint run_from (n i : nat) (prev : option link) (l : list stage) (st : state) : state :=
  match l with
  | [] => st
  | s :: l' => run_from n (S i) (Some (s_link s)) l' (run_stage n i prev s st)
  end.

Definition init_state (n : nat) (fs : files) : state :=
  upd [] [] [] [] (repeat [] n) fs [].

(* compile refuses a block whose last command pipes into nothing (ErrPipingToNothing) *)
Definition last_link (l : list stage) : link :=
  match rev l with s :: _ => s_link s | [] => Semi end.

Definition run_block (l : list stage) (fs : files) : Outcome state :=
  match last_link l with
  | Pipe | QPipe => Err 1
  | Semi => Ok (run_from (length l) O None l (init_state (length l) fs))
  end.

(* complaints ("Invalid usage of named pipes: you specified ... multiple times"),
   written to the block's stderr by createProcess before anything runs *)
Definition complaints (l : list stage) : nat :=
  fold_right (fun s a => (n_complaints (parse_redirs (s_redirs s)) + a)%nat) O l.
