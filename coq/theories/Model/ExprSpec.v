(* C06 / C07 — the reference ("textbook") reading of an expression: trees built
   by precedence climbing, evaluated recursively. Executable; used by
   Check/C06.v and Check/C07.v as the property side and by Proof/Expr.v as the
   right-hand side of the flat-equals-tree theorem. No proofs in this file.

   Nothing here looks at Gen/: the precedence levels below are the ones the
   property text states (C: * / over + - over < <= > >= over == != over && over
   || over the conditional operators), all left-associative. *)
From Coq Require Import List NArith ZArith Bool Floats.
From Murex Require Import Base.Outcome Base.Bytes Model.Expr.
Import ListNotations.

(* higher binds tighter *)
Definition spec_prec (o : sym) : nat :=
  match o with
  | Mul | Div => 9
  | Add | Sub => 8
  | Gt | Ge | Lt | Le => 6
  | Eq | Ne => 5
  | And => 4
  | Or => 3
  | Elvis | NullCo => 2
  end.

Inductive tree :=
| TLeaf (v : value)
| TNode (o : sym) (l r : tree)
| TParen (t : tree).

(* Precedence climbing (the loop of compute_expr in the usual presentation):

     compute_expr(min_prec):
        lhs = atom
        while next token is a binary operator op with prec(op) >= min_prec:
            rhs = compute_expr(prec(op) + 1)        -- + 1: left associative
            lhs = node(op, lhs, rhs)
        return lhs

   `climb fuel lhs minp rest` is that loop with the atom already read; `rest`
   is the remaining input as (operator, atom) pairs; it returns the tree and
   the unread input. fuel >= length rest always suffices. Generic in the node
   constructor so that the same function builds trees or computes values. *)
Section Climb.
  Context {A : Type}.
  Variable mk : sym -> A -> A -> A.
  Variable prec : sym -> nat.

  Fixpoint climb (fuel : nat) (lhs : A) (minp : nat) (rest : list (sym * A))
    : A * list (sym * A) :=
    match fuel with
    | O => (lhs, rest)
    | S f =>
      match rest with
      | [] => (lhs, [])
      | (o, a) :: r =>
        if (minp <=? prec o)%nat then
          let '(rhs, r1) := climb f a (S (prec o)) r in
          climb f (mk o lhs rhs) minp r1
        else (lhs, rest)
      end
    end.

  (* a whole expression: everything must be consumed *)
  Definition climb_all (a0 : A) (rest : list (sym * A)) : option A :=
    match climb (length rest) a0 1 rest with
    | (t, []) => Some t
    | _ => None
    end.
End Climb.

(* atom, (operator, atom)* out of a token list *)
Section Structure.
  Context {X A : Type}.
  Variable operand : X -> option A.
  Variable oper : X -> option sym.

  Fixpoint struct_rest (l : list X) : option (list (sym * A)) :=
    match l with
    | [] => Some []
    | xo :: l1 =>
      match l1 with
      | [] => None
      | xv :: r =>
        match oper xo, operand xv, struct_rest r with
        | Some o, Some a, Some t => Some ((o, a) :: t)
        | _, _, _ => None
        end
      end
    end.

  Definition structure (l : list X) : option (A * list (sym * A)) :=
    match l with
    | [] => None
    | x :: r =>
      match operand x, struct_rest r with
      | Some a, Some t => Some (a, t)
      | _, _ => None
      end
    end.
End Structure.

Definition ptok_oper (t : ptok) : option sym :=
  match t with PO o => Some o | _ => None end.

(* the parser: literals are leaves, a parenthesised group is parsed on its own *)
Fixpoint parse_operand (t : ptok) : option tree :=
  match t with
  | PV v => Some (TLeaf v)
  | PO _ => None
  | PP sub =>
    match structure parse_operand ptok_oper sub with
    | Some (t0, rest) => option_map TParen (climb_all TNode spec_prec t0 rest)
    | None => None
    end
  end.

Definition parse_expr (ts : list ptok) : option tree :=
  match structure parse_operand ptok_oper ts with
  | Some (t0, rest) => climb_all TNode spec_prec t0 rest
  | None => None
  end.

(* evaluation of a tree under an operator semantics `ap` (None: no value).
   One rule of murex is kept on the reference side as well: an expression (or
   parenthesised group) that consists of nothing but a string is "not an
   expression" and has no value. *)
Definition is_single (t : tree) : bool :=
  match t with TNode _ _ _ => false | _ => true end.

Definition group_val (t : tree) (r : option value) : option value :=
  match r with
  | Some (VStr _) => if is_single t then None else r
  | _ => r
  end.

Section EvalTree.
  Variable ap : sym -> value -> value -> option value.

  Definition lift_ap (o : sym) (a b : option value) : option value :=
    match a, b with
    | Some x, Some y => ap o x y
    | _, _ => None
    end.

  Fixpoint eval_tree (t : tree) : option value :=
    match t with
    | TLeaf v => Some v
    | TNode o l r => lift_ap o (eval_tree l) (eval_tree r)
    | TParen t' => group_val t' (eval_tree t')
    end.

  Definition eval_top (t : tree) : option value := group_val t (eval_tree t).
End EvalTree.

(* Outcome view used when comparing with the machine: every error is one kind *)
Definition to_outcome (r : option value) : Outcome value :=
  match r with Some v => Ok v | None => Err 1 end.
