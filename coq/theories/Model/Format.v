(* C14 — model of `format`: builtins/core/typemgmt/format.go cmdFormat
   (unmarshal with the source type, marshal with the target type), applied
   twice: json -> X -> json.

   csv   builtins/types/csv/marshal.go: marshal = types.MapToTable_Any +
         encoding/csv Writer (Comma ','); unmarshal = encoding/csv Reader with
         TrimLeadingSpace, Comment '#', errors ignored (a nil record is
         appended); then builtins/types/json/marshal.go: [][]string from a table
         type -> types.Table2Map.
   jsonl builtins/types/jsonlines: marshal = one compact JSON text per element
         and line; unmarshal = per line, with the "table" heuristic: while
         every line so far is a JSON array the lines are rows and their members
         are turned into strings with fmt.Sprint.
   yaml, toml: the codecs are library code and are not modelled; see
         format_via and the hypothesis of format_glue_preserves.

   The model follows the code after
     "fix: json marshaller: an empty table crashed the shell"
     "fix: jsonlines marshaller: null elements could not be written"
   No proofs in this file. *)
From Murex Require Import Base.Outcome Base.Bytes Model.Alter.

Inductive fmt := FCsv | FJsonl | FYaml | FToml.

Definition row := list bytes.
Definition table := list row.

(* ---------- list of maps -> table (types.MapToTable_Any) ---------- *)
(* types.ConvertGoType(val, String) of a cell; containers (JSON text) are not modelled *)
Definition cell_text (v : json) : option bytes := scalar_text v.

Fixpoint cells (hdr : list bytes) (o : list (bytes * json)) : option row :=
  match hdr with
  | [] => Some []
  | h :: hdr' =>
      match obj_find h o with
      | Some v => match cell_text v, cells hdr' o with
                  | Some c, Some r => Some (c :: r)
                  | _, _ => None
                  end
      | None => None
      end
  end.

Fixpoint rows_of (hdr : list bytes) (ms : list json) : option table :=
  match ms with
  | [] => Some []
  | JObj o :: ms' =>
      if Nat.eqb (length o) (length hdr)
      then match cells hdr o, rows_of hdr ms' with
           | Some r, Some t => Some (r :: t)
           | _, _ => None
           end
      else None
  | _ :: _ => None
  end.

(* None: the marshaller reports an error (or the shape is not modelled) *)
Definition maps_to_table (ms : list json) : option table :=
  match ms with
  | [] => Some []
  | JObj o :: _ => let hdr := map fst o in   (* getMapKeys: sorted keys *)
                   match rows_of hdr ms with
                   | Some t => Some (hdr :: t)
                   | None => None
                   end
  | _ :: _ => None
  end.

(* ---------- encoding/csv Writer ---------- *)
Definition is_space (c : N) : bool :=
  ((9 <=? c) && (c <=? 13) || (c =? 32))%N.

(* unicode.IsSpace of the first rune, on its UTF-8 bytes *)
Definition starts_with_space (f : bytes) : bool :=
  match f with
  | c :: r =>
      is_space c ||
      match c, r with
      | 194%N, d :: _ => (d =? 133)%N || (d =? 160)%N
      | 225%N, 154%N :: 128%N :: _ => true
      | 226%N, 128%N :: d :: _ => (128 <=? d)%N && (d <=? 138)%N || (d =? 168)%N || (d =? 169)%N || (d =? 175)%N
      | 226%N, 129%N :: 159%N :: _ => true
      | 227%N, 128%N :: 128%N :: _ => true
      | _, _ => false
      end
  | [] => false
  end.

Definition special (c : N) : bool := ((c =? 10) || (c =? 13) || (c =? 34) || (c =? 44))%N.

Definition needs_quotes (f : bytes) : bool :=
  match f with
  | [] => false
  | _ => bytes_eqb f [92; 46]%N || existsb special f || starts_with_space f
  end.

Fixpoint esc (f : bytes) : bytes :=
  match f with
  | [] => []
  | c :: f' => if (c =? 34)%N then 34%N :: 34%N :: esc f' else c :: esc f'
  end.

Definition wfield (f : bytes) : bytes :=
  if needs_quotes f then 34%N :: esc f ++ [34%N] else f.

Fixpoint wrow (r : row) : bytes :=
  match r with
  | [] => [10%N]
  | [f] => wfield f ++ [10%N]
  | f :: r' => wfield f ++ 44%N :: wrow r'
  end.

Definition wtable (t : table) : bytes := concat (map wrow t).

(* ---------- encoding/csv Reader (TrimLeadingSpace, Comment '#') ---------- *)
(* a record, or a parse error (murex appends the nil record and goes on) *)
Inductive rrow := RRow (fs : row) | RBad.

Definition fin (fs : list bytes) (cur : bytes) : rrow := RRow (rev (rev cur :: fs)).

(* "\r\n" at the end of a line is read as "\n" *)
Definition drop_cr (cur : bytes) : bytes :=
  match cur with 13%N :: cur' => cur' | _ => cur end.

(* st: at the start of a record line.  fs: fields so far (reversed).
   cur: bytes of the field so far (reversed). *)
Fixpoint rd_f (st : bool) (fs : list bytes) (s : bytes) {struct s} : list rrow :=
  match s with
  | [] => if st then [] else [fin fs []]
  | c :: s' =>
      if st && (c =? 35)%N then rd_skip s'
      else if (c =? 10)%N then (if st then rd_f true [] s' else fin fs [] :: rd_f true [] s')
      else if is_space c then rd_f false fs s'
      else if (c =? 34)%N then rd_q fs [] s'
      else if (c =? 44)%N then rd_f false ([] :: fs) s'
      else rd_u fs [c] s'
  end
with rd_u (fs : list bytes) (cur : bytes) (s : bytes) {struct s} : list rrow :=
  match s with
  | [] => [fin fs cur]
  | c :: s' =>
      if (c =? 10)%N then fin fs (drop_cr cur) :: rd_f true [] s'
      else if (c =? 44)%N then rd_f false (rev cur :: fs) s'
      else if (c =? 34)%N then RBad :: rd_skip s'
      else rd_u fs (c :: cur) s'
  end
with rd_q (fs : list bytes) (cur : bytes) (s : bytes) {struct s} : list rrow :=
  match s with
  | [] => [RBad]
  | c :: s' =>
      if (c =? 34)%N then rd_qq fs cur s'
      else if (c =? 10)%N then rd_q fs (10%N :: drop_cr cur) s'
      else rd_q fs (c :: cur) s'
  end
with rd_qq (fs : list bytes) (cur : bytes) (s : bytes) {struct s} : list rrow :=
  match s with
  | [] => [fin fs cur]
  | c :: s' =>
      if (c =? 34)%N then rd_q fs (34%N :: cur) s'
      else if (c =? 44)%N then rd_f false (rev cur :: fs) s'
      else if (c =? 10)%N then fin fs cur :: rd_f true [] s'
      else RBad :: rd_skip s'
  end
with rd_skip (s : bytes) {struct s} : list rrow :=
  match s with
  | [] => []
  | c :: s' => if (c =? 10)%N then rd_f true [] s' else rd_skip s'
  end.

Definition csv_read (s : bytes) : list rrow := rd_f true [] s.

(* ---------- table -> list of maps (json marshaller, types.Table2Map) ---------- *)
Fixpoint t2m_rows (hdr : row) (rs : list rrow) : option (list json) :=
  match rs with
  | [] => Some []
  | RRow r :: rs' =>
      if Nat.eqb (length r) (length hdr)
      then match t2m_rows hdr rs' with
           | Some ms => Some (JObj (combine hdr (map JStr r)) :: ms)
           | None => None
           end
      else None
  | RBad :: _ => None     (* nil record: 0 fields *)
  end.

Definition table_to_maps (rs : list rrow) : Outcome json :=
  match rs with
  | [] => Ok (JArr [])                       (* after the fix: empty table = empty list *)
  | RRow hdr :: rs' => match t2m_rows hdr rs' with
                       | Some ms => Ok (JArr ms)
                       | None => Err 1
                       end
  | RBad :: rs' => match rs' with [] => Ok (JArr []) | _ => Err 1 end
  end.

Definition csv_rt (ms : list json) : Outcome json :=
  match maps_to_table ms with
  | Some t => table_to_maps (csv_read (wtable t))
  | None => Err 1
  end.

(* ---------- jsonlines ---------- *)
Definition is_arr (v : json) : bool := match v with JArr _ => true | _ => false end.

Fixpoint join_sp (l : list bytes) : bytes :=
  match l with
  | [] => []
  | [x] => x
  | x :: l' => x ++ 32%N :: join_sp l'
  end.

(* fmt.Sprint of a decoded JSON value (numbers: %v of a float64 equals the
   canonical text for the magnitudes the generator uses) *)
Fixpoint sprint (v : json) : bytes :=
  match v with
  | JNull => [60; 110; 105; 108; 62]%N
  | JBool true => [116; 114; 117; 101]%N
  | JBool false => [102; 97; 108; 115; 101]%N
  | JNum t => t
  | JStr s => s
  | JArr l => 91%N :: join_sp ((fix go (l : list json) : list bytes :=
                                  match l with [] => [] | x :: l' => sprint x :: go l' end) l) ++ [93%N]
  | JObj o => [109; 97; 112; 91]%N ++
              join_sp ((fix go (o : list (bytes * json)) : list bytes :=
                          match o with [] => [] | (k, x) :: o' => (k ++ 58%N :: sprint x) :: go o' end) o)
              ++ [93%N]
  end.

(* a row of the "table" heuristic: every member becomes a string *)
Definition strow (v : json) : json :=
  match v with
  | JArr l => JArr (map (fun x => JStr (sprint x)) l)
  | _ => v
  end.

Fixpoint lead_rows (es : list json) : list json * list json :=
  match es with
  | e :: es' => if is_arr e then let '(a, b) := lead_rows es' in (e :: a, b) else ([], es)
  | [] => ([], [])
  end.

Definition jsonl_rt (es : list json) : Outcome json :=
  match es with
  | [] => Err 2            (* nothing is written; reading nothing back is an error *)
  | _ => let '(a, b) := lead_rows es in Ok (JArr (map strow a ++ b))
  end.

(* the line structure of the jsonlines text, for any JSON printer *)
Section Lines.
  Variable pj : json -> bytes.
  Definition jsonl_text (es : list json) : bytes := concat (map (fun e => pj e ++ [10%N]) es).

  Fixpoint split_lines (cur : bytes) (s : bytes) : list bytes :=
    match s with
    | [] => match cur with [] => [] | _ => [rev cur] end
    | c :: s' => if (c =? 10)%N then rev cur :: split_lines [] s' else split_lines (c :: cur) s'
    end.
End Lines.

(* ---------- yaml / toml: only murex's glue ---------- *)
(* cmdFormat twice, for codecs enc (marshal target) / dec (unmarshal target) *)
Definition format_via (enc : json -> option bytes) (dec : bytes -> option json) (v : json) : Outcome json :=
  match enc v with
  | Some b => match dec b with Some v' => Ok v' | None => Err 1 end
  | None => Err 1
  end.

(* ---------- format: json -> X -> json ---------- *)
Definition format_rt (f : fmt) (doc : json) : Outcome json :=
  match f with
  | FCsv => match doc with JArr ms => csv_rt ms | _ => Err 1 end
  | FJsonl => match doc with JArr es => jsonl_rt es | _ => Err 1 end
  | FYaml | FToml => Ok doc
  end.
