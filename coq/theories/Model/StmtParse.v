(* Executable model of murex's statement parser for the sub-language used by
   C08 / C09 / C10 (no proofs in this file).

   Go code modelled (lang/expressions, exec == true unless stated):
     parse_statement.go  parseStatement, processStatementArrays
     statement.go        nextParameter (canHaveZeroLenStr, possibleGlob)
     parse_quotes.go     parseString (single quote), parseStringInfix (double
                         and brace quote), parseParenthesis (+ ansi.ExpandConsts)
     parse_vars.go       parseVarScalar, parseVarParenthesis, parseVarArray,
                         parseVarTilde
     variables.go        getVar (utils.CrLfTrimString), getArray
     utils/ansi/ansi.go  expandConsts
     utils/escape        CommandLine (ordered strings.Replace pairs)
     main.go             argvToCmdLineStr
     parse_block.go      preParser (expression first, then statement)

   Strings are byte lists.  All syntax-significant characters are ASCII, so on
   valid UTF-8 the byte-level parser and Go's rune-level parser agree.

   Error kinds:  Err 1  clean error (syntax error / unset variable)
                 Err 97 the line may be taken by the expression parser (no prediction)
                 Err 98 structure would depend on a value (shape parser only) or
                        array in command position
                 Err 99 construct outside the modelled sub-language        *)
From Murex Require Export Base.Outcome Base.Bytes.
Open Scope N_scope.

(* ------------------------------------------------------------------ *)
(* characters                                                          *)

Definition is_bare (c : N) : bool :=
  (c =? 95) || (c =? 46) || ((97 <=? c) && (c <=? 122)) ||
  ((65 <=? c) && (c <=? 90)) || ((48 <=? c) && (c <=? 57)).

Definition is_lower_name (c : N) : bool :=
  (c =? 95) || ((97 <=? c) && (c <=? 122)) || ((48 <=? c) && (c <=? 57)).
Definition is_digit (c : N) : bool := (48 <=? c) && (c <=? 57).

(* variable names the model understands: [a-z_][a-z0-9_]*   (upper case and
   numeric names are reserved / environment variables in murex) *)
Definition name_ok (n : bytes) : bool :=
  match n with
  | [] => false
  | c :: _ => negb (is_digit c) && forallb is_lower_name n
  end.

Definition is_user_char (c : N) : bool := is_bare c || (c =? 45).

Definition hd0 (l : bytes) : N := match l with [] => 0 | c :: _ => c end.

Fixpoint span (p : N -> bool) (l : bytes) : bytes * bytes :=
  match l with
  | [] => ([], [])
  | c :: r => if p c then let '(a, b) := span p r in (c :: a, b) else ([], l)
  end.

Fixpoint prefix_of (p l : bytes) : bool :=
  match p, l with
  | [], _ => true
  | a :: p', b :: l' => (a =? b) && prefix_of p' l'
  | _ :: _, [] => false
  end.

Fixpoint assoc {A} (k : bytes) (t : list (bytes * A)) : option A :=
  match t with
  | [] => None
  | (k', v) :: t' => if bytes_eqb k k' then Some v else assoc k t'
  end.

(* utils.CrLfTrimString: at most one trailing LF, then at most one trailing CR *)
Definition crlf_trim (s : bytes) : bytes :=
  match rev s with
  | 10 :: 13 :: r => rev r
  | 10 :: r => rev r
  | 13 :: r => rev r
  | _ => s
  end.

(* ------------------------------------------------------------------ *)
(* utils/ansi expandConsts                                             *)

Definition ansi_class (c : N) : bool :=
  (c =? 45) || (c =? 94) || ((65 <=? c) && (c <=? 90)) || ((48 <=? c) && (c <=? 57)).

(* names of all non-overlapping matches of \{([-\^A-Z0-9]+)\}, left to right *)
Fixpoint ansi_matches (skip : nat) (l : bytes) : list bytes :=
  match l with
  | [] => []
  | c :: r =>
    match skip with
    | S k => ansi_matches k r
    | O =>
      if c =? 123 then
        let '(name, after) := span ansi_class r in
        match name, after with
        | _ :: _, 125 :: _ => name :: ansi_matches (S (length name)) r
        | _, _ => ansi_matches 0 r
        end
      else ansi_matches 0 r
    end
  end.

(* strings.ReplaceAll for a non-empty token *)
Fixpoint replace_all (tok rep : bytes) (skip : nat) (l : bytes) : bytes :=
  match l with
  | [] => []
  | c :: r =>
    match skip with
    | S k => replace_all tok rep k r
    | O => if prefix_of tok l then rep ++ replace_all tok rep (pred (length tok)) r
           else c :: replace_all tok rep 0 r
    end
  end.

(* effective table: name -> bytes.  Built by [ansi_table] from the two Go maps. *)
Definition ansi_tbl := list (bytes * bytes).

Definition nonempty_entries (t : ansi_tbl) : ansi_tbl :=
  filter (fun kv => match snd kv with [] => false | _ => true end) t.

(* constants first; then sgr (blanked when colour is off) *)
Definition ansi_table (consts sgr : ansi_tbl) (nocolour : bool) : ansi_tbl :=
  nonempty_entries consts ++
  map (fun kv => (fst kv, if nocolour then [] else snd kv)) (nonempty_entries sgr).

Definition ansi_token (name : bytes) : bytes := 123 :: name ++ [125].

Definition expand_consts (tbl : ansi_tbl) (s : bytes) : bytes :=
  fold_left (fun acc name =>
               match assoc name tbl with
               | Some b => replace_all (ansi_token name) b 0 acc
               | None => acc
               end) (ansi_matches 0 s) s.

(* ------------------------------------------------------------------ *)
(* configuration and environment                                       *)

Record cfg := { c_home : bytes; c_ansi : ansi_tbl; c_notok : list bytes }.
(* c_notok: commands for which tokeniseScalar can return false
   (statement_rules.go) -- not modelled, Err 99 *)

Record env := { e_scalars : list (bytes * bytes); e_arrays : list (bytes * list bytes) }.

(* slots: what a double-quoted string or a bare parameter is made of *)
Inductive slot := SLit (c : N) | SVar (name : bytes).

Definition lits (b : bytes) : list slot := map SLit b.

Definition lookup_scalar (e : env) (n : bytes) : Outcome bytes :=
  match assoc n (e_scalars e) with Some v => Ok (crlf_trim v) | None => Err 1 end.

Fixpoint inst (e : env) (sl : list slot) : Outcome bytes :=
  match sl with
  | [] => Ok []
  | SLit c :: r => obind (inst e r) (fun v => Ok (c :: v))
  | SVar n :: r => obind (lookup_scalar e n) (fun x => obind (inst e r) (fun v => Ok (x ++ v)))
  end.

(* ------------------------------------------------------------------ *)
(* $variable syntax (parseVarScalar / parseVarParenthesis)             *)

Inductive varref :=
| VLit                               (* not a variable: literal '$' *)
| VName (name : bytes) (n : nat)     (* name, chars consumed after '$' *)
| VUnsup
| VErr.

Fixpoint until_rp (l : bytes) : option bytes :=
  match l with
  | [] => None
  | c :: r => if c =? 41 then Some []
              else match until_rp r with Some n => Some (c :: n) | None => None end
  end.

Definition scan_scalar (tl : bytes) : varref :=
  match tl with
  | [] => VLit
  | c :: r =>
    if c =? 123 then VUnsup
    else if c =? 40 then
      match until_rp r with
      | None => VErr
      | Some name => if name_ok name then VName name (2 + length name) else VUnsup
      end
    else if is_bare c then
      let '(name, after) := span is_bare tl in
      if name_ok name then
        match after with
        | 91 :: _ => VUnsup
        | _ => VName name (length name)
        end
      else VUnsup
    else VLit
  end.

(* parseVarTilde: user name characters following '~' *)
Definition scan_tilde (tl : bytes) : bytes := fst (span is_user_char tl).

(* ------------------------------------------------------------------ *)
(* quote decoders.  Input: the text after the opening quote.           *)
(* Output: value and number of characters consumed (closing quote      *)
(* included).                                                          *)

Definition cnt {A} (o : Outcome (A * nat)) : Outcome (A * nat) :=
  match o with
  | Ok (v, n) => Ok (v, S n)
  | Err k => Err k
  | Panic => Panic
  | OutOfFuel => OutOfFuel
  end.

(* parseString, qStart = qEnd = '\'' *)
Fixpoint dec_single (acc : bytes) (l : bytes) : Outcome (bytes * nat) :=
  match l with
  | [] => Err 1
  | c :: r => if c =? 39 then Ok (acc, 1%nat) else cnt (dec_single (acc ++ [c]) r)
  end.

Definition unescape (c : N) : N :=
  if c =? 115 then 32 else if c =? 116 then 9 else if c =? 114 then 13
  else if c =? 110 then 10 else c.

(* parseStringInfix, qEnd = double quote.  Produces slots: literal bytes and $variables *)
Fixpoint dec_double (home : bytes) (esc : bool) (acc : list slot) (skip : nat) (l : bytes)
  : Outcome (list slot * nat) :=
  match l with
  | [] => Err 1
  | c :: r =>
    match skip with
    | S k => cnt (dec_double home esc acc k r)
    | O =>
      if esc then cnt (dec_double home false (acc ++ [SLit (unescape c)]) 0 r)
      else if c =? 92 then cnt (dec_double home true acc 0 r)
      else if c =? 36 then
        match scan_scalar r with
        | VLit => cnt (dec_double home false (acc ++ [SLit 36]) 0 r)
        | VName n k => cnt (dec_double home false (acc ++ [SVar n]) k r)
        | VUnsup => Err 99
        | VErr => Err 1
        end
      else if c =? 126 then
        match scan_tilde r with
        | [] => cnt (dec_double home false (acc ++ lits home) 0 r)
        | _ :: _ => Err 99     (* ~user: os/user lookup not modelled *)
        end
      else if c =? 34 then Ok (acc, 1%nat)
      else cnt (dec_double home false (acc ++ [SLit c]) 0 r)
    end
  end.

(* parseStringInfix, qEnd = ')' with nesting through parseParenthesis (which
   applies ExpandConsts to every nested group).  [lk] resolves $variables. *)
Fixpoint dec_brace (home : bytes) (tbl : ansi_tbl) (lk : bytes -> Outcome bytes)
         (stack : list bytes) (cur : bytes) (skip : nat) (l : bytes)
  : Outcome (bytes * nat) :=
  match l with
  | [] => Err 1
  | c :: r =>
    match skip with
    | S k => cnt (dec_brace home tbl lk stack cur k r)
    | O =>
      if c =? 36 then
        match scan_scalar r with
        | VLit => cnt (dec_brace home tbl lk stack (cur ++ [36]) 0 r)
        | VName n k =>
          match lk n with
          | Ok v => cnt (dec_brace home tbl lk stack (cur ++ v) k r)
          | Err e => Err e
          | Panic => Panic
          | OutOfFuel => OutOfFuel
          end
        | VUnsup => Err 99
        | VErr => Err 1
        end
      else if c =? 126 then
        match scan_tilde r with
        | [] => cnt (dec_brace home tbl lk stack (cur ++ home) 0 r)
        | _ :: _ => Err 99
        end
      else if c =? 40 then cnt (dec_brace home tbl lk (cur :: stack) [] 0 r)
      else if c =? 41 then
        match stack with
        | [] => Ok (cur, 1%nat)
        | p :: st' =>
          cnt (dec_brace home tbl lk st' (p ++ [40] ++ expand_consts tbl cur ++ [41]) 0 r)
        end
      else cnt (dec_brace home tbl lk stack (cur ++ [c]) 0 r)
    end
  end.

(* ---- exec == false scanners used by ParseBlock (how far a literal extends) ---- *)

(* parseString generic loop for the single quote (and, since the fix, for the double quote with backslash pairs) *)
Fixpoint scan_single (l : bytes) : option nat :=
  match l with
  | [] => None
  | c :: r => if c =? 39 then Some 1%nat else option_map S (scan_single r)
  end.

Fixpoint scan_double (esc : bool) (l : bytes) : option nat :=
  match l with
  | [] => None
  | c :: r => if esc then option_map S (scan_double false r)
              else if c =? 92 then option_map S (scan_double true r)
              else if c =? 34 then Some 1%nat
              else option_map S (scan_double false r)
  end.

Fixpoint scan_brace (depth : nat) (l : bytes) : option nat :=
  match l with
  | [] => None
  | c :: r => if c =? 40 then option_map S (scan_brace (S depth) r)
              else if c =? 41 then
                match depth with O => Some 1%nat | S d => option_map S (scan_brace d r) end
              else option_map S (scan_brace depth r)
  end.

(* ------------------------------------------------------------------ *)
(* C09: one quoted literal in statement / expression position          *)

Inductive qkind := QSingle | QDouble | QBrace.

Definition scalar_lookup (e : env) : bytes -> Outcome bytes := lookup_scalar e.

(* body of the literal = text after the opening delimiter *)
Definition lit_body (k : qkind) (lit : bytes) : option bytes :=
  match k, lit with
  | QSingle, 39 :: b => Some b
  | QDouble, 34 :: b => Some b
  | QBrace, 37 :: 40 :: b => Some b
  | _, _ => None
  end.

(* how many characters of the body the block-level (exec == false) parser takes *)
Definition noexec_len (k : qkind) (body : bytes) : option nat :=
  match k with
  | QSingle => scan_single body
  | QDouble => scan_double false body
  | QBrace => scan_brace 0 body
  end.

(* exec == true decoding; [stmt] = statement position (top-level ExpandConsts for
   brace quotes) *)
Definition dec_lit (c : cfg) (e : env) (k : qkind) (stmt : bool) (body : bytes)
  : Outcome (bytes * nat) :=
  match k with
  | QSingle => dec_single [] body
  | QDouble =>
    match dec_double (c_home c) false [] 0 body with
    | Ok (sl, n) => obind (inst e sl) (fun v => Ok (v, n))
    | Err k => Err k | Panic => Panic | OutOfFuel => OutOfFuel
    end
  | QBrace =>
    match dec_brace (c_home c) (c_ansi c) (scalar_lookup e) [] [] 0 body with
    | Ok (v, n) => Ok (if stmt then expand_consts (c_ansi c) v else v, n)
    | Err k => Err k | Panic => Panic | OutOfFuel => OutOfFuel
    end
  end.

(* value of a whole literal [lit] (nothing may follow it): Some v, None = error,
   Err 99/97 = no prediction *)
Definition lit_value (c : cfg) (e : env) (k : qkind) (stmt : bool) (lit : bytes)
  : Outcome bytes :=
  match lit_body k lit with
  | None => Err 99
  | Some body =>
    match noexec_len k body with
    | None => Err 1
    | Some n0 =>
      if Nat.eqb n0 (length body) then
        match dec_lit c e k stmt body with
        | Ok (v, n) => if Nat.eqb n (length body) then Ok v else Err 97
        | Err k => Err k | Panic => Panic | OutOfFuel => OutOfFuel
        end
      else Err 97
    end
  end.

(* encoders (the property quantifies over their images) *)
Definition enc_single (s : bytes) : bytes := 39 :: s ++ [39].

Definition enc_double_char (ws : bool) (c : N) : bytes :=
  if (c =? 92) || (c =? 34) || (c =? 36) || (c =? 126) then [92; c]
  else if ws && (c =? 32) then [92; 115]
  else if ws && (c =? 9) then [92; 116]
  else if ws && (c =? 13) then [92; 114]
  else if ws && (c =? 10) then [92; 110]
  else [c].
Definition enc_double_body (ws : bool) (s : bytes) : bytes := flat_map (enc_double_char ws) s.
Definition enc_double (ws : bool) (s : bytes) : bytes := 34 :: enc_double_body ws s ++ [34].

Definition enc_brace (s : bytes) : bytes := 37 :: 40 :: s ++ [41].

(* domain of enc_brace: parentheses balance, no '$', no '~' *)
Fixpoint balanced (d : nat) (s : bytes) : bool :=
  match s with
  | [] => Nat.eqb d 0
  | c :: r => if c =? 40 then balanced (S d) r
              else if c =? 41 then match d with O => false | S d' => balanced d' r end
              else balanced d r
  end.
Definition no_expansion_char (c : N) : bool := negb ((c =? 36) || (c =? 126)).
Definition brace_dom (s : bytes) : bool := balanced 0 s && forallb no_expansion_char s.

(* ------------------------------------------------------------------ *)
(* the statement parser, generic in the representation of parameters   *)

Section Parser.
  Variable T : Type.                    (* a parameter under construction *)
  Variable P : Type.                    (* the parameter list *)
  Variable t_nil : T.
  Variable t_app : T -> list slot -> Outcome T.
  Variable t_empty : T -> Outcome bool.
  Variable t_lookup : bytes -> Outcome bytes.   (* for $x inside %( ) *)
  Variable p_nil : P.
  Variable p_snoc : P -> T -> P.
  Variable p_arr : P -> bytes -> Outcome P.     (* @name: one parameter per element *)

  Record pst := { p_cmd : T; p_params : P; p_tmp : T; p_zl : bool; p_glob : bool; p_esc : bool }.

  Definition pst0 : pst :=
    {| p_cmd := t_nil; p_params := p_nil; p_tmp := t_nil; p_zl := false; p_glob := false; p_esc := false |}.

  (* statement.go nextParameter; ExpandGlob() = false (not the interactive shell) *)
  Definition next_param (s : pst) : Outcome pst :=
    obind (t_empty (p_cmd s)) (fun ce =>
    if ce then
      Ok {| p_cmd := p_tmp s; p_params := p_params s; p_tmp := t_nil;
            p_zl := p_zl s; p_glob := false; p_esc := p_esc s |}
    else if p_glob s then
      Ok {| p_cmd := p_cmd s; p_params := p_snoc (p_params s) (p_tmp s); p_tmp := t_nil;
            p_zl := false; p_glob := false; p_esc := p_esc s |}
    else if p_zl s then
      Ok {| p_cmd := p_cmd s; p_params := p_snoc (p_params s) (p_tmp s); p_tmp := t_nil;
            p_zl := false; p_glob := false; p_esc := p_esc s |}
    else
      obind (t_empty (p_tmp s)) (fun te =>
      if te then Ok s
      else Ok {| p_cmd := p_cmd s; p_params := p_snoc (p_params s) (p_tmp s); p_tmp := t_nil;
                 p_zl := false; p_glob := false; p_esc := p_esc s |})).

  Definition set_esc (s : pst) (b : bool) : pst :=
    {| p_cmd := p_cmd s; p_params := p_params s; p_tmp := p_tmp s; p_zl := p_zl s;
       p_glob := p_glob s; p_esc := b |}.
  Definition set_tmp (s : pst) (t : T) : pst :=
    {| p_cmd := p_cmd s; p_params := p_params s; p_tmp := t; p_zl := p_zl s;
       p_glob := p_glob s; p_esc := p_esc s |}.
  Definition set_zl (s : pst) : pst :=
    {| p_cmd := p_cmd s; p_params := p_params s; p_tmp := p_tmp s; p_zl := true;
       p_glob := p_glob s; p_esc := p_esc s |}.
  Definition set_glob (s : pst) : pst :=
    {| p_cmd := p_cmd s; p_params := p_params s; p_tmp := p_tmp s; p_zl := p_zl s;
       p_glob := true; p_esc := p_esc s |}.
  Definition set_params (s : pst) (p : P) : pst :=
    {| p_cmd := p_cmd s; p_params := p; p_tmp := p_tmp s; p_zl := p_zl s;
       p_glob := p_glob s; p_esc := p_esc s |}.

  Inductive action := Cont (s : pst) (skip : nat) | Stop (s : pst).

  Definition app (s : pst) (sl : list slot) (skip : nat) : Outcome action :=
    obind (t_app (p_tmp s) sl) (fun t => Ok (Cont (set_tmp s t) skip)).
  Definition app_zl (s : pst) (sl : list slot) (skip : nat) : Outcome action :=
    obind (t_app (p_tmp s) sl) (fun t => Ok (Cont (set_zl (set_tmp s t)) skip)).
  Definition lit1 (s : pst) (c : N) : Outcome action := app s [SLit c] 0.
  Definition flush_cont (s : pst) : Outcome action :=
    obind (next_param s) (fun s' => Ok (Cont s' 0)).
  Definition flush_stop (s : pst) : Outcome action :=
    obind (next_param s) (fun s' => Ok (Stop s')).

  Definition is_ws (c : N) : bool := (c =? 32) || (c =? 9).

  (* one iteration of parseStatement's loop at character c (prev: previous source
     character or 0, tl: the characters after c) *)
  Definition step (cf : cfg) (s : pst) (prev c : N) (tl : bytes) : Outcome action :=
    let next := hd0 tl in
    if p_esc s then
      if c =? 10 then flush_cont (set_esc s false)
      else if is_ws c then
        if next =? 35 then Err 99 else app (set_esc s false) [SLit c] 0
      else if c =? 13 then Ok (Cont s 0)                    (* stays escaped *)
      else app (set_esc s false) [SLit (unescape c)] 0
    else if c =? 35 then Err 99                             (* comment *)
    else if c =? 47 then (if next =? 35 then Err 99 else lit1 s c)
    else if c =? 92 then Ok (Cont (set_esc s true) 0)
    else if (c =? 32) || (c =? 9) || (c =? 13) then flush_cont s
    else if c =? 10 then
      obind (t_empty (p_cmd s)) (fun ce =>
      obind (t_empty (p_tmp s)) (fun te =>
      if negb ce || negb te then flush_stop s else Ok (Cont s 0)))
    else if c =? 42 then app (set_glob s) [SLit c] 0
    else if c =? 63 then
      if negb (is_ws prev) && negb (is_ws next) then app (set_glob s) [SLit c] 0
      else flush_stop s
    else if (c =? 59) || (c =? 124) then flush_stop s
    else if c =? 38 then (if next =? 38 then flush_stop s else lit1 s c)
    else if c =? 58 then
      obind (t_empty (p_cmd s)) (fun ce =>
      if ce then
        obind (t_empty (p_tmp s)) (fun te => if te then Err 99 else flush_cont s)
      else lit1 s c)
    else if c =? 61 then (if next =? 62 then flush_stop s else lit1 s c)
    else if c =? 126 then
      if next =? 62 then Err 99
      else match scan_tilde tl with
           | [] => app s (lits (c_home cf)) 0
           | _ :: _ => Err 99
           end
    else if c =? 60 then Err 99
    else if c =? 62 then (if next =? 62 then Err 99 else lit1 s c)
    else if c =? 40 then Err 99
    else if c =? 37 then
      if (next =? 91) || (next =? 123) then Err 99
      else if next =? 40 then
        match dec_brace (c_home cf) (c_ansi cf) t_lookup [] [] 0 (List.tl tl) with
        | Ok (v, n) => app_zl s (lits (expand_consts (c_ansi cf) v)) (S n)   (* zl: fix 636e723 *)
        | Err k => Err k | Panic => Panic | OutOfFuel => OutOfFuel
        end
      else lit1 s c
    else if c =? 123 then Err 99
    else if c =? 91 then
      obind (t_empty (p_cmd s)) (fun ce =>
      obind (t_empty (p_tmp s)) (fun te =>
      if negb ce || negb te then lit1 s c else Err 99))
    else if c =? 125 then Err 1
    else if c =? 39 then
      match dec_single [] tl with
      | Ok (v, n) => app_zl s (lits v) n
      | Err k => Err k | Panic => Panic | OutOfFuel => OutOfFuel
      end
    else if c =? 34 then
      match dec_double (c_home cf) false [] 0 tl with
      | Ok (sl, n) => app_zl s sl n
      | Err k => Err k | Panic => Panic | OutOfFuel => OutOfFuel
      end
    else if c =? 96 then Err 99
    else if c =? 36 then
      match scan_scalar tl with
      | VLit => app_zl s [SLit 36] 0
      | VName n k => app_zl s [SVar n] k
      | VUnsup => Err 99
      | VErr => Err 1
      end
    else if c =? 64 then
      if negb ((prev =? 32) || (prev =? 9) || (prev =? 0)) then lit1 s c
      else if next =? 123 then Err 99
      else if is_bare next then
        let '(name, after) := span is_bare tl in
        if negb (name_ok name) then Err 99
        else match after with
             | 91 :: _ => Err 99
             | _ =>
               obind (next_param s) (fun s1 =>
               obind (t_empty (p_cmd s1)) (fun ce =>
               if ce then Err 98
               else obind (p_arr (p_params s1) name) (fun p' =>
                    Ok (Cont (set_params s1 p') (length name)))))
             end
      else if next =? 91 then
        obind (t_empty (p_cmd s)) (fun ce =>
        obind (t_empty (p_tmp s)) (fun te => if ce && te then Err 99 else lit1 s c))
      else lit1 s c
    else if c =? 45 then (if next =? 62 then flush_stop s else lit1 s c)
    else lit1 s c.

  Record result := { r_cmd : T; r_params : P; r_rest : nat }.

  Definition mk_result (s : pst) (rest : nat) : result :=
    {| r_cmd := p_cmd s; r_params := p_params s; r_rest := rest |}.

  Fixpoint run (cf : cfg) (s : pst) (skip : nat) (prev : N) (src : bytes) : Outcome result :=
    match src with
    | [] => obind (next_param s) (fun s' => Ok (mk_result s' 0))
    | c :: tl =>
      match skip with
      | S k => run cf s k c tl
      | O =>
        match step cf s prev c tl with
        | Ok (Cont s' k) => run cf s' k c tl
        | Ok (Stop s') => Ok (mk_result s' (length src))
        | Err e => Err e
        | Panic => Panic
        | OutOfFuel => OutOfFuel
        end
      end
    end.
End Parser.

Arguments Cont {T P} s skip.
Arguments Stop {T P} s.
Arguments r_cmd {T P} r.
Arguments r_params {T P} r.
Arguments r_rest {T P} r.

(* ------------------------------------------------------------------ *)
(* instance 1: the concrete parser (parameters are byte strings, values *)
(* are appended as the Go code does)                                    *)

Definition c_app (e : env) (t : bytes) (sl : list slot) : Outcome bytes :=
  obind (inst e sl) (fun v => Ok (t ++ v)).
Definition c_empty (t : bytes) : Outcome bool := Ok (match t with [] => true | _ => false end).
Definition nonempty (b : bytes) : bool := match b with [] => false | _ => true end.
(* getArray + processStatementArrays: strict-arrays => an empty array is an error;
   every element goes through appendToParam + nextParameter, which drops the empty string *)
Definition c_arr (e : env) (p : list bytes) (name : bytes) : Outcome (list bytes) :=
  match assoc name (e_arrays e) with
  | None => match assoc name (e_scalars e) with Some _ => Err 99 | None => Err 1 end
  | Some [] => Err 1
  | Some els => Ok (p ++ filter nonempty els)
  end.

Definition cresult := result bytes (list bytes).

Definition parse_stmt_raw (cf : cfg) (e : env) (src : bytes) : Outcome cresult :=
  run bytes (list bytes) [] (c_app e) c_empty (lookup_scalar e) (fun p t => p ++ [t]) (c_arr e)
      cf (pst0 bytes (list bytes) [] []) 0 0 src.

Definition in_list (x : bytes) (l : list bytes) : bool := existsb (bytes_eqb x) l.

(* tokeniseScalar() can be false for these commands: not modelled *)
Definition parse_stmt (cf : cfg) (e : env) (src : bytes) : Outcome cresult :=
  obind (parse_stmt_raw cf e src) (fun r =>
  if in_list (r_cmd r) (c_notok cf) then Err 99 else Ok r).

(* ------------------------------------------------------------------ *)
(* instance 2: the shape parser (never looks at a value)               *)

Inductive pshape := POne (sl : list slot) | PArr (name : bytes).

Definition s_app (t : list slot) (sl : list slot) : Outcome (list slot) := Ok (t ++ sl).
Definition is_slit (x : slot) : bool := match x with SLit _ => true | SVar _ => false end.
(* empty for certain / non-empty for certain / depends on a value (Err 98) *)
Definition s_empty (t : list slot) : Outcome bool :=
  match t with
  | [] => Ok true
  | _ => if existsb is_slit t then Ok false else Err 98
  end.
Definition s_arr (p : list pshape) (name : bytes) : Outcome (list pshape) := Ok (p ++ [PArr name]).

Definition sresult := result (list slot) (list pshape).

Definition parse_shape (cf : cfg) (src : bytes) : Outcome sresult :=
  run (list slot) (list pshape) [] s_app s_empty (fun _ => Err 98)
      (fun p t => p ++ [POne t]) s_arr
      cf (pst0 (list slot) (list pshape) [] []) 0 0 src.

(* filling the slots *)
Fixpoint inst_params (e : env) (ps : list pshape) : Outcome (list bytes) :=
  match ps with
  | [] => Ok []
  | POne sl :: r => obind (inst e sl) (fun v => obind (inst_params e r) (fun vs => Ok (v :: vs)))
  | PArr n :: r => obind (c_arr e [] n) (fun els => obind (inst_params e r) (fun vs => Ok (els ++ vs)))
  end.

Definition instantiate (e : env) (r : sresult) : Outcome cresult :=
  obind (inst e (r_cmd r)) (fun c =>
  obind (inst_params e (r_params r)) (fun ps =>
  Ok {| r_cmd := c; r_params := ps; r_rest := r_rest r |})).

(* ------------------------------------------------------------------ *)
(* C10: utils/escape CommandLine, main.go argvToCmdLineStr, preParser  *)

Definition esc_tbl := list (bytes * bytes).     (* (old, new) in source order *)

Definition escape_arg (tbl : esc_tbl) (s : bytes) : bytes :=
  fold_left (fun acc kr => replace_all (fst kr) (snd kr) 0 acc) tbl s.

Fixpoint join (sep : bytes) (l : list bytes) : bytes :=
  match l with
  | [] => []
  | [x] => x
  | x :: r => x ++ sep ++ join sep r
  end.

Definition escape_join (tbl : esc_tbl) (sep : bytes) (argv : list bytes) : bytes :=
  join sep (map (escape_arg tbl) argv).

(* preParser: would parseExpression(false) + validateExpression certainly be
   rejected?  Sound for lines that start with a plain bare word: the AST starts
   with Bareword, and the second token is not an assignment operator. *)
Definition is_alpha (c : N) : bool := ((97 <=? c) && (c <=? 122)) || ((65 <=? c) && (c <=? 90)) || (c =? 95).
Definition plain_cmd (c : bytes) : bool :=
  match c with
  | [] => false
  | x :: _ => is_alpha x && forallb is_bare c &&
              negb (in_list c [[116;114;117;101]; [102;97;108;115;101]; [110;117;108;108]])
  end.

Fixpoint skip_ws (l : bytes) : bytes :=
  match l with
  | c :: r => if (c =? 32) || (c =? 9) || (c =? 13) then skip_ws r else l
  | [] => []
  end.

Definition assign_start (l : bytes) : bool :=
  match l with
  | [] => false
  | c :: r =>
    let d := hd0 r in
    ((c =? 61) && negb ((d =? 61) || (d =? 126) || (d =? 62))) ||     (* =  but not == =~ => *)
    (((c =? 58) || (c =? 43) || (c =? 45) || (c =? 47) || (c =? 42)) && (d =? 61)) ||  (* := += -= /= *= *)
    ((c =? 47) && (d =? 35)) ||                                       (* /# comment: not modelled *)
    ((c =? 60) && (d =? 126))                                         (* <~ *)
  end.

Definition expr_rejected (src : bytes) : bool :=
  let '(w, after) := span is_bare src in
  plain_cmd w &&
  match after with
  | 40 :: _ => false                       (* function call *)
  | _ => negb (assign_start (skip_ws after))
  end.

(* first function of ParseBlock(src) and its exec-time parameters *)
Definition block_first (cf : cfg) (e : env) (src : bytes) : Outcome cresult :=
  if expr_rejected src then parse_stmt cf e src else Err 97.
