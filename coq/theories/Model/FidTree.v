(* Model of the Fork / Execute pairing for builtins that fork internally
   (lang/fork.go).  Executable definitions only - no proofs in this file.

     p.Fork(flags):   F_FUNCTION, F_NEW_VARTABLE or neither of the two VARTABLE
                      flags -> GlobalFIDs.Register(fork.Process), fidRegistered = true;
                      F_PARENT_VARTABLE -> fork.Id = p.Id, fidRegistered = false
                      (if, foreach, switch, try, while, sub-shells ${} @{} use this)
     fork.Execute:    if fidRegistered { defer deregisterProcess(fork.Process) }
                      ParseBlock; compile (registers every process of the block);
                      run the processes under the fork's run mode: each process is
                      disposed of exactly once (Model/Fid.v disposals); a process
                      that runs may itself fork any number of times (one fork per
                      foreach iteration, condition + branch of an if, every
                      sub-shell of its parameters, the body of a function ...).

   A program is therefore a tree: *)
From Murex Require Import Base.Outcome Base.Bytes Model.RunMode Model.Fid.

Inductive ftree :=
| FNode (reg : bool)            (* fidRegistered *)
        (m : runmode)           (* run mode of the fork's block *)
        (ps : list proc)        (* the processes compile() creates *)
        (kids : list ftree)     (* the forks made by those processes, in order *)
        (owner : list nat).     (* owner[k] = index in ps of the process that makes kids[k] *)

(* The operations of a tree in one admissible (sequential) order; handles are
   allocated from h upwards; returns the operations and the next free handle.
   A fork made by a process that did not run (skipped / aborted) never exists. *)
Fixpoint tree_ops (h : nat) (t : ftree) : list op * nat :=
  match t with
  | FNode reg m ps kids owner =>
      let h1 := if reg then S h else h in
      let n := length ps in
      let ran := fst (execute m ps) in
      let kids_ops :=
        (fix kids_ops (h : nat) (ks : list ftree) (ow : list nat) {struct ks} : list op * nat :=
           match ks with
           | [] => ([], h)
           | k :: ks' =>
               if nth (hd 0 ow) ran false
               then let '(o1, h') := tree_ops h k in
                    let '(o2, h'') := kids_ops h' ks' (tl ow) in (o1 ++ o2, h'')
               else kids_ops h ks' (tl ow)
           end) in
      let '(ko, h2) := kids_ops (h1 + n) kids owner in
      ((if reg then [OReg h] else []) ++ map OReg (seq h1 n) ++ ko ++
       map ODereg (seq h1 (length (disposals m ps))) ++ (if reg then [ODereg h] else []), h2)
  end.

Definition regs_of (ops : list op) : list nat :=
  flat_map (fun o => match o with OReg h => [h] | ODereg _ => [] end) ops.
Definition deregs_of (ops : list op) : list nat :=
  flat_map (fun o => match o with ODereg h => [h] | OReg _ => [] end) ops.

(* number of ids a tree registers (correspondence: FID counter difference) *)
Fixpoint tree_count (t : ftree) : nat :=
  match t with
  | FNode reg m ps kids owner =>
      let ran := fst (execute m ps) in
      (if reg then 1 else 0) + length ps +
      (fix go (ks : list ftree) (ow : list nat) {struct ks} : nat :=
         match ks with
         | [] => 0
         | k :: ks' => (if nth (hd 0 ow) ran false then tree_count k else 0) + go ks' (tl ow)
         end) kids owner
  end.
