(* C29 — model of shell/history/history.go (after the two `fix:` commits):

     History.Write   block := strings.TrimSpace(s); in-memory list gets the item unless it
                     equals the last one; ONE record  json.Marshal({datetime,block}) ++ "\n"
                     is appended to the file — preceded by "\n" when the file is not empty and
                     does not end in "\n" (fix F29b: a torn tail must not swallow the record).
     openHist        split the file in lines (no length limit, fix F29a), json.Unmarshal each
                     line, skip lines that fail or whose block is empty.
     New             list := openHist(file).

   A file is a list of bytes.  The record is the concrete byte string Go's
   encoding/json produces: fixed frame {"datetime":"<ts>","block":"<esc>"} where <ts> is the
   time stamp (opaque: any bytes that need no escaping) and <esc> is encoding/json's string
   escaper (appendString with escapeHTML) modelled byte for byte, including what it does with
   bytes that are not UTF-8.

   Domain of the loader model: lines that are records in that frame, byte prefixes of such
   records, or arbitrary bytes that are not a JSON object at all.  (json.Unmarshal also accepts
   other spellings of the same object — extra spaces, other key order — which History.Write
   never produces; they are outside the model.)  No proofs in this file. *)
From Murex Require Import Base.Bytes.
Open Scope N_scope.

Definition in_rng (lo hi b : N) : bool := (lo <=? b) && (b <=? hi).
Definition is_cont (b : N) : bool := in_rng 128 191 b.

(* ---- unicode/utf8.DecodeRune, reduced to "how many bytes does the well-formed sequence
        at the head of s have" (0: Go returns (RuneError,1)) ---- *)
Definition utf8_len (s : bytes) : nat :=
  match s with
  | [] => 0%nat
  | b0 :: t =>
    if b0 <? 128 then 1%nat
    else if in_rng 194 223 b0 then
      match t with b1 :: _ => if is_cont b1 then 2%nat else 0%nat | _ => 0%nat end
    else if in_rng 224 239 b0 then
      match t with
      | b1 :: b2 :: _ =>
        if in_rng (if b0 =? 224 then 160 else 128) (if b0 =? 237 then 159 else 191) b1 && is_cont b2
        then 3%nat else 0%nat
      | _ => 0%nat end
    else if in_rng 240 244 b0 then
      match t with
      | b1 :: b2 :: b3 :: _ =>
        if in_rng (if b0 =? 240 then 144 else 128) (if b0 =? 244 then 143 else 191) b1
           && is_cont b2 && is_cont b3
        then 4%nat else 0%nat
      | _ => 0%nat end
    else 0%nat
  end.

(* ---- encoding/json appendString (escapeHTML = true) ---- *)
Definition hexd (n : N) : N := if n <? 10 then 48 + n else 87 + n.   (* "0123456789abcdef" *)

Definition html_safe (b : N) : bool :=
  (32 <=? b) && (b <? 128) &&
  negb ((b =? 34) || (b =? 92) || (b =? 60) || (b =? 62) || (b =? 38)).

Definition esc_ascii (b : N) : bytes :=
  if html_safe b then [b]
  else if (b =? 92) || (b =? 34) then [92; b]
  else if b =? 8 then [92; 98]
  else if b =? 12 then [92; 102]
  else if b =? 10 then [92; 110]
  else if b =? 13 then [92; 114]
  else if b =? 9 then [92; 116]
  else [92; 117; 48; 48; hexd (b / 16); hexd (b mod 16)].

Definition esc_fffd : bytes := [92; 117; 102; 102; 102; 100].        (* backslash ufffd *)
Definition utf_fffd : bytes := [239; 191; 189].                      (* U+FFFD in UTF-8 *)

(* U+2028 / U+2029 = E2 80 A8 / E2 80 A9 *)
Definition is_ls_ps (b0 b1 b2 : N) : bool :=
  (b0 =? 226) && (b1 =? 128) && ((b2 =? 168) || (b2 =? 169)).

Fixpoint esc (s : bytes) : bytes :=
  match s with
  | [] => []
  | b0 :: t =>
    if b0 <? 128 then esc_ascii b0 ++ esc t
    else
      match utf8_len s, t with
      | 2%nat, b1 :: t2 => b0 :: b1 :: esc t2
      | 3%nat, b1 :: b2 :: t3 =>
        if is_ls_ps b0 b1 b2 then [92; 117; 50; 48; 50; hexd (b2 - 160)] ++ esc t3
        else b0 :: b1 :: b2 :: esc t3
      | 4%nat, b1 :: b2 :: b3 :: t4 => b0 :: b1 :: b2 :: b3 :: esc t4
      | _, _ => esc_fffd ++ esc t
      end
  end.

(* What a string becomes by being stored as JSON: every byte that is not part of a
   well-formed UTF-8 sequence is replaced by U+FFFD (= strings.ToValidUTF8 without merging).
   The identity on valid UTF-8. *)
Fixpoint coerce (s : bytes) : bytes :=
  match s with
  | [] => []
  | b0 :: t =>
    if b0 <? 128 then b0 :: coerce t
    else
      match utf8_len s, t with
      | 2%nat, b1 :: t2 => b0 :: b1 :: coerce t2
      | 3%nat, b1 :: b2 :: t3 => b0 :: b1 :: b2 :: coerce t3
      | 4%nat, b1 :: b2 :: b3 :: t4 => b0 :: b1 :: b2 :: b3 :: coerce t4
      | _, _ => utf_fffd ++ coerce t
      end
  end.

Fixpoint utf8_valid (s : bytes) : bool :=
  match s with
  | [] => true
  | b0 :: t =>
    if b0 <? 128 then utf8_valid t
    else
      match utf8_len s, t with
      | 2%nat, b1 :: t2 => utf8_valid t2
      | 3%nat, b1 :: b2 :: t3 => utf8_valid t3
      | 4%nat, b1 :: b2 :: b3 :: t4 => utf8_valid t4
      | _, _ => false
      end
  end.

(* ---- the record ---- *)
Definition rec_pre : bytes := [123;34;100;97;116;101;116;105;109;101;34;58;34]. (* {"datetime":"" without the last quote *)
Definition rec_mid : bytes := [44;34;98;108;111;99;107;34;58;34].               (* ,"block":"" without the last quote *)

Definition encode_record (ts blk : bytes) : bytes :=
  rec_pre ++ ts ++ 34 :: rec_mid ++ esc blk ++ [34; 125].

(* bytes a time stamp may consist of: printable ASCII needing no escape *)
Definition ts_byte (c : N) : bool := (32 <=? c) && (c <? 128) && negb (c =? 34) && negb (c =? 92).
Definition ts_ok (ts : bytes) : bool := forallb ts_byte ts.

(* ---- encoding/json: scanner (validity) + unquote, for the string after its opening quote.
        Result: decoded bytes and what follows the closing quote. ---- *)
Definition hexval (c : N) : option N :=
  if in_rng 48 57 c then Some (c - 48)
  else if in_rng 97 102 c then Some (c - 87)
  else if in_rng 65 70 c then Some (c - 55)
  else None.

Definition getu4 (a b c d : N) : option N :=
  match hexval a, hexval b, hexval c, hexval d with
  | Some a, Some b, Some c, Some d => Some (a * 4096 + b * 256 + c * 16 + d)
  | _, _, _, _ => None
  end.

(* utf8.EncodeRune *)
Definition enc_rune (r : N) : bytes :=
  if r <? 128 then [r]
  else if r <? 2048 then [192 + r / 64; 128 + r mod 64]
  else if in_rng 55296 57343 r then utf_fffd
  else if r <? 65536 then [224 + r / 4096; 128 + (r / 64) mod 64; 128 + r mod 64]
  else if r <? 1114112 then
    [240 + r / 262144; 128 + (r / 4096) mod 64; 128 + (r / 64) mod 64; 128 + r mod 64]
  else utf_fffd.

Definition prepend (p : bytes) (o : option (bytes * bytes)) : option (bytes * bytes) :=
  match o with Some (d, r) => Some (p ++ d, r) | None => None end.

Definition simple_escape (e : N) : option N :=
  if (e =? 34) || (e =? 92) || (e =? 47) then Some e
  else if e =? 98 then Some 8
  else if e =? 102 then Some 12
  else if e =? 110 then Some 10
  else if e =? 114 then Some 13
  else if e =? 116 then Some 9
  else None.

Fixpoint unquote (s : bytes) : option (bytes * bytes) :=
  match s with
  | [] => None
  | c :: t =>
    if c =? 34 then Some ([], t)
    else if c <? 32 then None
    else if c =? 92 then
      match t with
      | [] => None
      | e :: t1 =>
        if e =? 117 then
          match t1 with
          | h1 :: h2 :: h3 :: h4 :: t2 =>
            match getu4 h1 h2 h3 h4 with
            | None => None
            | Some r =>
              if in_rng 55296 57343 r then
                (* a surrogate: valid only as the first half of a \uD8xx\uDCxx pair *)
                match t2 with
                | a :: b :: k1 :: k2 :: k3 :: k4 :: t3 =>
                  match (if (a =? 92) && (b =? 117) then getu4 k1 k2 k3 k4 else None) with
                  | Some r2 =>
                    if in_rng 55296 56319 r && in_rng 56320 57343 r2
                    then prepend (enc_rune (65536 + (r - 55296) * 1024 + (r2 - 56320))) (unquote t3)
                    else prepend utf_fffd (unquote t2)
                  | None => prepend utf_fffd (unquote t2)
                  end
                | _ => prepend utf_fffd (unquote t2)
                end
              else prepend (enc_rune r) (unquote t2)
            end
          | _ => None
          end
        else
          match simple_escape e with
          | Some x => prepend [x] (unquote t1)
          | None => None
          end
      end
    else prepend [c] (unquote t)     (* bytes >= 0x80 are copied: the line is valid UTF-8 *)
  end.

Fixpoint strip_prefix (p s : bytes) : option bytes :=
  match p, s with
  | [], _ => Some s
  | x :: p', y :: s' => if x =? y then strip_prefix p' s' else None
  | _ :: _, [] => None
  end.

(* read the time stamp up to its closing quote *)
Fixpoint span_ts (s : bytes) : option (bytes * bytes) :=
  match s with
  | [] => None
  | c :: t =>
    if c =? 34 then Some ([], t)
    else if ts_byte c then
      match span_ts t with Some (a, r) => Some (c :: a, r) | None => None end
    else None
  end.

Definition json_ws (c : N) : bool := (c =? 32) || (c =? 9) || (c =? 13) || (c =? 10).

(* json.Unmarshal(line, &item) restricted to the frame; Some block / None = error *)
Definition decode_line (l : bytes) : option bytes :=
  match strip_prefix rec_pre l with
  | None => None
  | Some l1 =>
    match span_ts l1 with
    | None => None
    | Some (_, l2) =>
      match strip_prefix rec_mid l2 with
      | None => None
      | Some l3 =>
        match unquote l3 with
        | Some (blk, c :: rest) => if (c =? 125) && forallb json_ws rest then Some blk else None
        | _ => None
        end
      end
    end
  end.

(* ---- bufio.Scanner / ScanLines: split at "\n"; a final line without "\n" is a line too;
        nothing after the last "\n" is not a line ---- *)
Fixpoint lines (f : bytes) : list bytes :=
  match f with
  | [] => []
  | c :: f' =>
    if c =? 10 then [] :: lines f'
    else match lines f' with
         | [] => [[c]]
         | l :: ls => (c :: l) :: ls
         end
  end.

(* one line's contribution to the list: nothing when it does not decode or the block is empty *)
Definition dec_entry (l : bytes) : list bytes :=
  match decode_line l with
  | Some (b :: blk) => [b :: blk]
  | _ => []
  end.

Definition load (f : bytes) : list bytes := flat_map dec_entry (lines f).

(* ---- strings.TrimSpace: strip every leading and trailing Unicode White_Space code point.
        sp3 lists the three-byte ones: U+1680, U+2000..U+200A, U+2028, U+2029, U+202F,
        U+205F, U+3000; two-byte: U+0085, U+00A0. ---- *)
Definition sp1 (a : N) : bool := in_rng 9 13 a || (a =? 32).
Definition sp2 (a b : N) : bool := (a =? 194) && ((b =? 133) || (b =? 160)).
Definition sp3 (a b c : N) : bool :=
  ((a =? 225) && (b =? 154) && (c =? 128)) ||
  ((a =? 226) && (b =? 128) && (in_rng 128 138 c || (c =? 168) || (c =? 169) || (c =? 175))) ||
  ((a =? 226) && (b =? 129) && (c =? 159)) ||
  ((a =? 227) && (b =? 128) && (c =? 128)).

(* back = true: s is the reversed string, so the patterns are matched backwards *)
Fixpoint trim_head (back : bool) (s : bytes) : bytes :=
  match s with
  | [] => []
  | a :: t =>
    if sp1 a then trim_head back t
    else match t with
         | b :: t' =>
           if (if back then sp2 b a else sp2 a b) then trim_head back t'
           else match t' with
                | c :: t'' => if (if back then sp3 c b a else sp3 a b c) then trim_head back t'' else s
                | [] => s
                end
         | [] => s
         end
  end.

(* rev_append _ [] is list reversal (the library's rev is quadratic) *)
Definition trim (s : bytes) : bytes :=
  rev_append (trim_head true (rev_append (trim_head false s) [])) [].

(* ---- History.Write ---- *)
Record wr := { w_ts : bytes; w_cmd : bytes }.

(* the file is empty or its last byte is "\n" *)
Fixpoint ends_nl (f : bytes) : bool :=
  match f with
  | [] => true
  | c :: f' => match f' with [] => c =? 10 | _ :: _ => ends_nl f' end
  end.

(* "\n" first when the file has a torn tail (fix F29b) *)
Definition sep (f : bytes) : bytes := if ends_nl f then [] else [10].

Definition record_of (w : wr) : bytes := encode_record (w_ts w) (trim (w_cmd w)).

(* the bytes one Write appends *)
Definition delta (f : bytes) (w : wr) : bytes := sep f ++ record_of w ++ [10].

Definition write1 (f : bytes) (w : wr) : bytes := f ++ delta f w.

(* the in-memory list: consecutive duplicates are one entry (compared untrimmed-after-trim,
   i.e. on the block); note an empty block IS appended in memory *)
Fixpoint last_opt (m : list bytes) : option bytes :=
  match m with
  | [] => None
  | x :: m' => match m' with [] => Some x | _ :: _ => last_opt m' end
  end.

Definition mem_write (m : list bytes) (blk : bytes) : list bytes :=
  match last_opt m with
  | Some x => if bytes_eqb x blk then m else m ++ [blk]
  | None => [blk]
  end.

Definition mem_write1 (m : list bytes) (w : wr) : list bytes := mem_write m (trim (w_cmd w)).

(* A session: history.New on the file, some complete Writes, then possibly one Write during
   which the process dies after `keep` bytes of what it was appending reached the file. *)
Record session := { s_writes : list wr; s_torn : option (wr * N) }.

Definition session_file (f : bytes) (s : session) : bytes :=
  let f1 := fold_left write1 (s_writes s) f in
  match s_torn s with
  | None => f1
  | Some (w, keep) => f1 ++ firstn (N.to_nat keep) (delta f1 w)
  end.

(* list held in memory after the complete writes of the session *)
Definition session_mem (f : bytes) (s : session) : list bytes :=
  fold_left mem_write1 (s_writes s) (load f).

Fixpoint run_sessions (f : bytes) (ss : list session) : bytes * list (list bytes) :=
  match ss with
  | [] => (f, [])
  | s :: ss' =>
    let '(f', ms) := run_sessions (session_file f s) ss' in
    (f', session_mem f s :: ms)
  end.

(* what the session contributes to a later reload when everything it wrote is intact *)
Definition entry_of (w : wr) : list bytes :=
  match coerce (trim (w_cmd w)) with [] => [] | b :: blk => [b :: blk] end.

Definition entries (ws : list wr) : list bytes := flat_map entry_of ws.
