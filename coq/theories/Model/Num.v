(* C13 — executable model of lang/types/convert.go for scalars and strings:

     ConvertGoType dispatch on (Go type of the value, murex data type)
     goIntegerRecast  int     -> str : strconv.Itoa
     goStringRecast   string  -> int : TrimSpace, "" -> "0", strconv.ParseFloat, int(f)
                      string  -> num / float : TrimSpace, "" -> "0", strconv.ParseFloat
                      string  -> bool : IsTrue
     goFloatRecast    float64 -> str : FloatToString = strconv.FormatFloat(f, 'f', -1, 64)
     goBooleanRecast  bool    -> str : "true" / "false"

   Integers: the string -> int path goes through float64 (ParseFloat then int(f)).
   The model parses the decimal integer syntax exactly (a value in Z), rounds it to
   the nearest binary64 with ties to even (round53: executable over Z, no reals), and
   truncates (int(f), with amd64's result outside int64).  Other float syntax (fractions, exponents, hex, inf, nan, underscores) is
   outside the integer model: Err 2.

   Floats: a float64 is its 64 bits (N).  strconv.FormatFloat / ParseFloat are not
   modelled: Section variables.

   No proofs in this file. *)
From Murex Require Import Base.Outcome Base.Bytes.
Local Open Scope N_scope.

(* ---------- strconv.Itoa ---------- *)
Fixpoint dec_digits (fuel : nat) (n : N) (acc : bytes) : bytes :=
  match fuel with
  | O => acc
  | S f => let acc' := (48 + n mod 10) :: acc in
           if N.eqb (n / 10) 0 then acc' else dec_digits f (n / 10) acc'
  end.

(* enough fuel: one unit per binary digit *)
Definition dec_of_N (n : N) : bytes := dec_digits (S (N.to_nat (N.log2 n))) n [].

Definition itoa (z : Z) : bytes :=
  if Z.ltb z 0 then 45 :: dec_of_N (Z.to_N (- z)) else dec_of_N (Z.to_N z).

(* ---------- strings.TrimSpace (ASCII white space: \t \n \v \f \r and space) ---------- *)
Definition is_space (c : N) : bool := (N.leb 9 c && N.leb c 13) || N.eqb c 32.

Fixpoint trim_left (s : bytes) : bytes :=
  match s with
  | c :: r => if is_space c then trim_left r else s
  | [] => []
  end.

Definition trim_space (s : bytes) : bytes := rev (trim_left (rev (trim_left s))).

(* `if v == "" { v = "0" }` *)
Definition default_zero (s : bytes) : bytes := match s with [] => [48] | _ => s end.

(* ---------- decimal integer syntax of ParseFloat: [+-]? digit+ ---------- *)
Definition is_digit (c : N) : bool := N.leb 48 c && N.leb c 57.

Fixpoint parse_digits (s : bytes) (acc : N) : option N :=
  match s with
  | [] => Some acc
  | c :: r => if is_digit c then parse_digits r (acc * 10 + (c - 48)) else None
  end.

Definition parse_dec_int (s : bytes) : option Z :=
  match s with
  | [] => None
  | c :: r =>
      if N.eqb c 45 then
        match r with [] => None | _ => option_map (fun n => (- Z.of_N n)%Z) (parse_digits r 0) end
      else if N.eqb c 43 then
        match r with [] => None | _ => option_map Z.of_N (parse_digits r 0) end
      else option_map Z.of_N (parse_digits s 0)
  end.

(* ---------- decimal integer -> nearest binary64, ties to even ---------- *)
(* A binary64 has a 53-bit significand: an integer m is representable iff m = q * 2^e with
   q < 2^53.  For |z| >= 2^53 drop e = log2|z| - 52 low bits and round half to even. *)
Definition round53 (z : Z) : Z :=
  let a := Z.abs z in
  let e := Z.max 0 (Z.log2 a - 52) in
  let p := (2 ^ e)%Z in
  let q := (a / p)%Z in
  let r := (a mod p)%Z in
  let q' := if (Z.ltb (2 * r) p)%Z then q
            else if (Z.ltb p (2 * r))%Z then (q + 1)%Z
            else if Z.even q then q else (q + 1)%Z in
  (Z.sgn z * (q' * p))%Z.

(* Go's int is 64 bits.  int(f) for a float outside the int64 range is implementation
   specific; on amd64 (CVTTSD2SQ) it is the "integer indefinite" value -2^63, also for NaN/Inf *)
Definition in_int64 (z : Z) : bool := (Z.leb (- 2 ^ 63) z && Z.ltb z (2 ^ 63))%Z.
Definition go_int_of_float (f : Z) : Z := if in_int64 f then f else (- 2 ^ 63)%Z.

(* ParseFloat returns +-Inf and ErrRange when the correctly rounded value does not fit binary64 *)
Definition float_overflow (f : Z) : bool := (Z.leb (2 ^ 1024) (Z.abs f))%Z.

(* goStringRecast(v, Integer).  Err 2: not decimal integer syntax (outside the model, or a
   ParseFloat syntax error); Err 1: ParseFloat range error *)
Definition int_of_string (s : bytes) : Outcome Z :=
  match parse_dec_int (default_zero (trim_space s)) with
  | Some z => let f := round53 z in if float_overflow f then Err 1 else Ok (go_int_of_float f)
  | None => Err 2
  end.

(* goFloatRecast(v, Integer) = int(v): truncation toward zero of the float with bits f *)
Definition trunc_of_bits (f : N) : option Z :=
  let e := Z.of_N ((f / 2 ^ 52) mod 2 ^ 11) in
  let m := Z.of_N (f mod 2 ^ 52) in
  let neg := N.eqb ((f / 2 ^ 63) mod 2) 1 in
  if Z.eqb e 2047 then None
  else
    let mant := if Z.eqb e 0 then m else (m + 2 ^ 52)%Z in
    let ex := ((if Z.eqb e 0 then 1 else e) - 1075)%Z in
    let mag := if Z.leb 0 ex then (mant * 2 ^ ex)%Z else (mant / 2 ^ (- ex))%Z in
    Some (if neg then (- mag)%Z else mag).

Definition int_of_float_bits (f : N) : Z :=
  match trunc_of_bits f with
  | Some z => go_int_of_float z
  | None => (- 2 ^ 63)%Z
  end.

(* goIntegerRecast(v, String) *)
Definition string_of_int (z : Z) : bytes := itoa z.

(* ---------- booleans ---------- *)
Definition string_of_bool (b : bool) : bytes :=
  if b then [116;114;117;101] else [102;97;108;115;101].

Definition to_lower (c : N) : N := if N.leb 65 c && N.leb c 90 then c + 32 else c.

Definition false_words : list bytes :=
  [ []; [110;117;108;108]; [48]; [102;97;108;115;101]; [110;111]; [111;102;102]; [102;97;105;108];
    [102;97;105;108;101;100]; [100;105;115;97;98;108;101;100] ].

(* types.IsTrue(b, 0) on ASCII text *)
Definition bool_of_string (s : bytes) : bool :=
  let t := map to_lower (trim_space s) in
  negb (existsb (bytes_eqb t) false_words).

(* ---------- floats ---------- *)
Definition fbits := N.
Definition is_finite (f : fbits) : bool := negb (N.eqb ((f / 2 ^ 52) mod 2 ^ 11) 2047) && N.ltb f (2 ^ 64).

Section Floats.
  (* strconv.FormatFloat(f, 'f', -1, 64)  and  strconv.ParseFloat(s, 64) (None = error) *)
  Variable format : fbits -> bytes.
  Variable parse : bytes -> option fbits.

  (* goFloatRecast(v, String) = FloatToString(v) *)
  Definition string_of_num (f : fbits) : bytes := format f.

  (* the string handed to ParseFloat by goStringRecast(v, Float|Number) *)
  Definition num_parse_arg (s : bytes) : bytes := default_zero (trim_space s).

  (* goStringRecast(v, Float|Number) *)
  Definition num_of_string (s : bytes) : Outcome fbits :=
    match parse (num_parse_arg s) with
    | Some f => Ok f
    | None => Err 1
    end.
End Floats.
