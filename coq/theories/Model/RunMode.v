(* Model of murex's three schedulers (lang/interpreter_pc.go: runModeNormal,
   runModeTry, runModeTryPipe), of the run-mode selection in Fork.Execute
   (lang/fork.go) and of the flags the block parser attaches to each process
   (lang/expressions/parse_block.go: `;`/newline -> P_NEW_CHAIN, `&&` ->
   P_NEW_CHAIN|P_LOGIC_AND, `||` -> P_NEW_CHAIN|P_LOGIC_OR, `|` -> P_METHOD;
   lang/interpreter.go compile + lang/process.go createProcess: IsMethod =
   not NewChain).   Executable definitions only - no proofs in this file.

   Used by C04 (normal mode), C05 (try / trypipe) and C28 (function ids).

   The Go being modelled is the tree AFTER the two repairs
     fix: try/trypipe keep skipping `||` alternatives after a success
     fix: the remaining stages of a skipped pipeline are skipped too
   The schedulers as they were before are kept as *_old (used only to state
   what was wrong: Proof/RunMode.v old_*_refuted). *)
From Murex Require Import Base.Outcome Base.Bytes.

(* ------------------------------------------------------------------ *)
(* Programs                                                            *)

(* What a command does when it is run: its exit number, the bytes it writes
   to its stdout, whether it first copies its stdin to its stdout (c_fwd; only
   meaningful for a pipeline stage that is not the first), and the bytes it
   writes to stderr (c_err; only tryerr / trypipeerr look at them). *)
Record cmd := { c_exit : Z; c_tok : bytes; c_fwd : bool; c_err : bytes }.

Inductive joiner := JSemi | JAnd | JOr.      (* `;` or newline, `&&`, `||` *)

(* a pipeline: first stage and the stages joined to it by `|` *)
Definition pipeline := (cmd * list cmd)%type.

(* a block: pipelines, each with the operator written before it (the joiner of
   the first pipeline is not written and is ignored by every definition) *)
Definition program := list (joiner * pipeline).

(* ------------------------------------------------------------------ *)
(* Processes as compile() builds them                                  *)

Record proc := { p_method : bool; p_and : bool; p_or : bool; p_cmd : cmd }.

Definition is_and (j : joiner) : bool := match j with JAnd => true | _ => false end.
Definition is_or (j : joiner) : bool := match j with JOr => true | _ => false end.

Definition head_proc (j : joiner) (c : cmd) : proc :=
  {| p_method := false; p_and := is_and j; p_or := is_or j; p_cmd := c |}.
Definition stage_proc (c : cmd) : proc :=
  {| p_method := true; p_and := false; p_or := false; p_cmd := c |}.

Definition flatten_pl (j : joiner) (pl : pipeline) : list proc :=
  head_proc j (fst pl) :: map stage_proc (snd pl).

Fixpoint flatten_rest (prog : program) : list proc :=
  match prog with
  | [] => []
  | (j, pl) :: rest => flatten_pl j pl ++ flatten_rest rest
  end.

(* the first process of a block never carries `&&` / `||` *)
Definition flatten (prog : program) : list proc :=
  match prog with
  | [] => []
  | (_, pl) :: rest => flatten_pl JSemi pl ++ flatten_rest rest
  end.

Definition pexit (p : proc) : Z := c_exit (p_cmd p).

Definition flags_of (ps : list proc) : list (bool * bool * bool) :=
  map (fun p => (p_method p, p_and p, p_or p)) ps.

(* ------------------------------------------------------------------ *)
(* runModeNormal
     for i := range procs {
       if i > 0 {
         wait(prev)            // in a goroutine when procs[i].IsMethod
         if (and_i && prev.ExitNum != 0) || (or_i && prev.ExitNum == 0) ||
            (skipPipeline && (and_i || or_i || method_i)) {
              procs[i] terminated; procs[i].ExitNum = prev.ExitNum; skipPipeline = true
         } else { skipPipeline = false }
       }
       go executeProcess(procs[i])     // a terminated process is only destroyed
     }
     wait(last); return last.ExitNum
   Result: for each process whether it ran, and the exit number. *)

Definition normal_skips (fx : bool) (prev : Z) (skip : bool) (p : proc) : bool :=
  (p_and p && negb (Z.eqb prev 0)) || (p_or p && Z.eqb prev 0) ||
  (skip && (p_and p || p_or p || (fx && p_method p))).

Fixpoint normal_loop (fx : bool) (prev : Z) (skip : bool) (ps : list proc) : list bool * Z :=
  match ps with
  | [] => ([], prev)
  | p :: ps' =>
      if normal_skips fx prev skip p
      then let '(r, e) := normal_loop fx prev true ps' in (false :: r, e)
      else let '(r, e) := normal_loop fx (pexit p) false ps' in (true :: r, e)
  end.

Definition run_normal_gen (fx : bool) (ps : list proc) : list bool * Z :=
  match ps with
  | [] => ([], 1%Z)
  | p :: ps' => let '(r, e) := normal_loop fx (pexit p) false ps' in (true :: r, e)
  end.

Definition run_normal := run_normal_gen true.
Definition run_normal_old := run_normal_gen false.

(* ------------------------------------------------------------------ *)
(* runModeTry (tryErr = false)
     for i := 0; i < len; i++ {
       go executeProcess(procs[i]); next := i+1
       if next == len || !procs[next].IsMethod {
         wait(i); exitNum = procs[i].ExitNum
         if next < len {
           if exitNum < 1 && procs[next].Or {
             for ; next < len && (procs[next].Or || procs[next].IsMethod); next++ { i = next; skip(i) }
             continue }
           if exitNum > 0 && !procs[next].Or { abort all that follow; return }
         }
       } else { go wait(i) }
     }
     return exitNum
   The state machine below is that loop: `skipping` is "inside the inner for". *)

Definition falses {A} (l : list A) : list bool := map (fun _ => false) l.

(* what a process writes to its stdout (declared here, used by stdout_of below
   and by the tryerr loops) *)
Definition produced (p : proc) (ran : bool) (carry : bytes) : bytes :=
  if ran
  then (if c_fwd (p_cmd p) then carry else []) ++ c_tok (p_cmd p)
  else [].

Fixpoint try_loop (exitNum : Z) (skipping : bool) (ps : list proc) : list bool * Z :=
  match ps with
  | [] => ([], exitNum)
  | p :: rest =>
      if skipping && (p_or p || p_method p)
      then let '(r, e) := try_loop exitNum true rest in (false :: r, e)
      else
        match rest with
        | [] => ([true], pexit p)
        | q :: _ =>
            if p_method q
            then let '(r, e) := try_loop exitNum false rest in (true :: r, e)
            else
              let e := pexit p in
              if Z.ltb e 1 && p_or q
              then let '(r, e') := try_loop e true rest in (true :: r, e')
              else if Z.ltb 0 e && negb (p_or q)
              then (true :: falses rest, e)
              else let '(r, e') := try_loop e false rest in (true :: r, e')
        end
  end.

(* runModeTryPipe: the same with every process waited for and checked *)
Fixpoint trypipe_loop (exitNum : Z) (skipping : bool) (ps : list proc) : list bool * Z :=
  match ps with
  | [] => ([], exitNum)
  | p :: rest =>
      if skipping && (p_or p || p_method p)
      then let '(r, e) := trypipe_loop exitNum true rest in (false :: r, e)
      else
        let e := pexit p in
        match rest with
        | [] => ([true], e)
        | q :: _ =>
            if Z.ltb e 1 && p_or q
            then let '(r, e') := trypipe_loop e true rest in (true :: r, e')
            else if Z.ltb 0 e && negb (p_or q)
            then (true :: falses rest, e)
            else let '(r, e') := trypipe_loop e false rest in (true :: r, e')
        end
  end.

Definition run_try (ps : list proc) : list bool * Z :=
  match ps with [] => ([], 1%Z) | _ => try_loop 0 false ps end.
Definition run_trypipe (ps : list proc) : list bool * Z :=
  match ps with [] => ([], 1%Z) | _ => trypipe_loop 0 false ps end.

(* The schedulers before the repairs: after a success exactly ONE process
   joined by `||` is skipped (`i++ ; skip(i) ; continue`). *)
Fixpoint try_loop_old (exitNum : Z) (ps : list proc) : list bool * Z :=
  match ps with
  | [] => ([], exitNum)
  | p :: rest =>
      match rest with
      | [] => ([true], pexit p)
      | q :: rest' =>
          if p_method q
          then let '(r, e) := try_loop_old exitNum rest in (true :: r, e)
          else
            let e := pexit p in
            if Z.ltb e 1 && p_or q
            then let '(r, e') := try_loop_old e rest' in (true :: false :: r, e')
            else if Z.ltb 0 e && negb (p_or q)
            then (true :: falses rest, e)
            else let '(r, e') := try_loop_old e rest in (true :: r, e')
      end
  end.

Fixpoint trypipe_loop_old (exitNum : Z) (ps : list proc) : list bool * Z :=
  match ps with
  | [] => ([], exitNum)
  | p :: rest =>
      let e := pexit p in
      match rest with
      | [] => ([true], e)
      | q :: rest' =>
          if Z.ltb e 1 && p_or q
          then let '(r, e') := trypipe_loop_old e rest' in (true :: false :: r, e')
          else if Z.ltb 0 e && negb (p_or q)
          then (true :: falses rest, e)
          else let '(r, e') := trypipe_loop_old e rest in (true :: r, e')
      end
  end.

Definition run_try_old (ps : list proc) : list bool * Z :=
  match ps with [] => ([], 1%Z) | _ => try_loop_old 0 ps end.
Definition run_trypipe_old (ps : list proc) : list bool * Z :=
  match ps with [] => ([], 1%Z) | _ => trypipe_loop_old 0 ps end.

(* ------------------------------------------------------------------ *)
(* tryerr / trypipeerr: runModeTry / runModeTryPipe with tryErr = true.  After a
   process has been waited for, checkTryErr (lang/interpreter.go) runs:
       outSize, _ := p.Stdout.Stats();  errSize, _ := p.Stderr.Stats()
       if *exitNum < 1 && errSize > outSize { *exitNum = 1 }
   Stats() is the number of bytes written to the *stream object* so far.
   p.Stderr is the block's stderr, shared by every process of the block (and of
   the blocks nested in it), p.Stdout is the block's stdout (shared) unless the
   next process is a method, in which case it is the fresh pipe to that method.
   So the test compares CUMULATIVE totals.  strict_loop is one loop for the four
   strict schedulers: chk = tryErr, every = trypipe (every process is waited
   for and checked); outT / errT are the totals, carry is the content of the
   pipe into the next method (as in stdout_of). With chk = false it is
   try_loop / trypipe_loop. *)
Definition blen (b : bytes) : N := N.of_nat (length b).

Definition check_err (chk : bool) (e : Z) (outSize errSize : N) : Z :=
  if chk && Z.ltb e 1 && N.ltb outSize errSize then 1%Z else e.

Definition perr (p : proc) : N := blen (c_err (p_cmd p)).

Fixpoint strict_loop (chk every : bool) (outT errT : N) (carry : bytes) (exitNum : Z)
         (skipping : bool) (ps : list proc) : list bool * Z :=
  match ps with
  | [] => ([], exitNum)
  | p :: rest =>
      if skipping && (p_or p || p_method p)
      then let '(r, e) := strict_loop chk every outT errT [] exitNum true rest in (false :: r, e)
      else
        let out := produced p true carry in
        let errT' := (errT + perr p)%N in
        match rest with
        | [] => ([true], check_err chk (pexit p) (outT + blen out)%N errT')
        | q :: _ =>
            if p_method q && negb every
            then let '(r, e) := strict_loop chk every outT errT' out exitNum false rest in (true :: r, e)
            else
              let osz := if p_method q then blen out else (outT + blen out)%N in
              let outT' := if p_method q then outT else (outT + blen out)%N in
              let carry' := if p_method q then out else [] in
              let e := check_err chk (pexit p) osz errT' in
              if Z.ltb e 1 && p_or q
              then let '(r, e') := strict_loop chk every outT' errT' carry' e true rest in (true :: r, e')
              else if Z.ltb 0 e && negb (p_or q)
              then (true :: falses rest, e)
              else let '(r, e') := strict_loop chk every outT' errT' carry' e false rest in (true :: r, e')
        end
  end.

Definition run_strict (chk every : bool) (ps : list proc) : list bool * Z :=
  match ps with [] => ([], 1%Z) | _ => strict_loop chk every 0 0 [] 0 false ps end.

(* ------------------------------------------------------------------ *)
(* Run-mode selection: lang/runmode (enum order) and the switch in
   Fork.Execute.  try {} sets BlockTry, `runmode try function` FunctionTry,
   `runmode try module` ModuleTry, ... *)
Inductive runmode :=
| RmDefault | RmNormal
| RmBlockUnsafe | RmFunctionUnsafe | RmModuleUnsafe
| RmBlockTry | RmBlockTryPipe | RmBlockTryErr | RmBlockTryPipeErr
| RmFunctionTry | RmFunctionTryPipe | RmFunctionTryErr | RmFunctionTryPipeErr
| RmModuleTry | RmModuleTryPipe | RmModuleTryErr | RmModuleTryPipeErr.

Inductive sched := SNormal | SUnsafe | STry | STryPipe | STryErr | STryPipeErr.

Definition sched_of (m : runmode) : sched :=
  match m with
  | RmDefault | RmNormal => SNormal
  | RmBlockUnsafe | RmFunctionUnsafe | RmModuleUnsafe => SUnsafe
  | RmBlockTry | RmFunctionTry | RmModuleTry => STry
  | RmBlockTryPipe | RmFunctionTryPipe | RmModuleTryPipe => STryPipe
  | RmBlockTryErr | RmFunctionTryErr | RmModuleTryErr => STryErr
  | RmBlockTryPipeErr | RmFunctionTryPipeErr | RmModuleTryPipeErr => STryPipeErr
  end.

(* Fork.Execute after compile: an empty block returns 0 before any scheduler
   is entered. *)
Definition execute (m : runmode) (ps : list proc) : list bool * Z :=
  match ps with
  | [] => ([], 0%Z)
  | _ =>
      match sched_of m with
      | SNormal => run_normal ps
      | SUnsafe => (fst (run_normal ps), 0%Z)
      | STry => run_try ps
      | STryPipe => run_trypipe ps
      | STryErr => run_strict true false ps
      | STryPipeErr => run_strict true true ps
      end
  end.

Definition execute_old (m : runmode) (ps : list proc) : list bool * Z :=
  match ps with
  | [] => ([], 0%Z)
  | _ =>
      match sched_of m with
      | SNormal => run_normal_old ps
      | SUnsafe => (fst (run_normal_old ps), 0%Z)
      | STry | STryErr => run_try_old ps
      | STryPipe | STryPipeErr => run_trypipe_old ps
      end
  end.

(* ------------------------------------------------------------------ *)
(* What reaches the block's stdout: a process writes to the stdin of the next
   process when that one is a method, otherwise to the block's stdout
   (compile(): PipeOut).  A process that did not run writes nothing. *)

Fixpoint stdout_of (carry : bytes) (ps : list proc) (ran : list bool) : bytes :=
  match ps, ran with
  | p :: ps', r :: ran' =>
      let out := produced p r carry in
      match ps' with
      | q :: _ => if p_method q then stdout_of out ps' ran'
                  else out ++ stdout_of [] ps' ran'
      | [] => out
      end
  | _, _ => []
  end.

Record obs := { o_out : bytes; o_exit : Z }.

Definition observe (ps : list proc) (r : list bool * Z) : obs :=
  {| o_out := stdout_of [] ps (fst r); o_exit := snd r |}.

(* the model's prediction for a program run under a run mode *)
Definition run_program (m : runmode) (prog : program) : obs :=
  let ps := flatten prog in observe ps (execute m ps).
Definition run_program_old (m : runmode) (prog : program) : obs :=
  let ps := flatten prog in observe ps (execute_old m ps).

(* ------------------------------------------------------------------ *)
(* Reference interpreters: the rules of properties C04 and C05 read directly
   on the structured program (pipelines as units).  Spec, not code. *)

(* a whole pipeline runs: data flows left to right *)
Definition stage_out (data : bytes) (c : cmd) : bytes :=
  (if c_fwd c then data else []) ++ c_tok c.
Definition pl_out (pl : pipeline) : bytes := fold_left stage_out (snd pl) (c_tok (fst pl)).
Definition pl_exit (pl : pipeline) : Z := c_exit (last (snd pl) (fst pl)).

(* C04: `;` always runs; `&&` runs iff the command before succeeded; `||` runs
   iff it failed; after a skip the rest of the `&&`/`||` chain is skipped; a
   skipped command takes the exit number of the command before it; the block's
   exit number is that of its last command. *)
Fixpoint spec_normal_go (prev : Z) (skipping : bool) (prog : program) : bytes * Z :=
  match prog with
  | [] => ([], prev)
  | (j, pl) :: rest =>
      let runs := match j with
                  | JSemi => true
                  | JAnd => negb skipping && Z.eqb prev 0
                  | JOr => negb skipping && negb (Z.eqb prev 0)
                  end in
      if runs
      then let '(o, e) := spec_normal_go (pl_exit pl) false rest in (pl_out pl ++ o, e)
      else spec_normal_go prev true rest
  end.

Definition spec_normal (prog : program) : obs :=
  match prog with
  | [] => {| o_out := []; o_exit := 0 |}
  | (_, pl) :: rest =>
      let '(o, e) := spec_normal_go (pl_exit pl) false rest in
      {| o_out := pl_out pl ++ o; o_exit := e |}
  end.

(* C05.  One pipeline under try: every stage runs, the last one is checked.
   Under trypipe: stages run one after the other and the first one that fails
   stops the pipeline; if it is not the last stage, the command after it is
   joined by `|`, not `||`, so the block ends there (nothing of this pipeline
   reaches the block's stdout). *)
Inductive pl_result := PlDone (out : bytes) (e : Z) | PlAbort (e : Z).

Fixpoint trypipe_stages (data : bytes) (c : cmd) (cs : list cmd) : pl_result :=
  let data' := stage_out data c in
  match cs with
  | [] => PlDone data' (c_exit c)
  | c' :: cs' => if negb (Z.eqb (c_exit c) 0) then PlAbort (c_exit c)
                 else trypipe_stages data' c' cs'
  end.

Definition run_pl (tp : bool) (pl : pipeline) : pl_result :=
  if tp then trypipe_stages [] (fst pl) (snd pl)
  else PlDone (pl_out pl) (pl_exit pl).

(* a failed command ends the block with its exit number unless the next command
   is joined by `||`; a `||` alternative runs only if the command before it
   failed; a skipped alternative counts as succeeding. *)
Fixpoint spec_strict_go (tp : bool) (prev_failed : bool) (prev : Z) (prog : program) : bytes * Z :=
  match prog with
  | [] => ([], prev)
  | (j, pl) :: rest =>
      let run_it :=
        match run_pl tp pl with
        | PlAbort e => ([], e)
        | PlDone o e => let '(o', e') := spec_strict_go tp (negb (Z.eqb e 0)) e rest in (o ++ o', e')
        end in
      match j with
      | JOr => if prev_failed then run_it else spec_strict_go tp false prev rest
      | _ => if prev_failed then ([], prev) else run_it
      end
  end.

Definition spec_strict (tp : bool) (prog : program) : obs :=
  match prog with
  | [] => {| o_out := []; o_exit := 0 |}
  | (_, pl) :: rest =>
      let '(o, e) := spec_strict_go tp false 0 ((JSemi, pl) :: rest) in
      {| o_out := o; o_exit := e |}
  end.

Definition cmds_of (prog : program) : list cmd :=
  flat_map (fun jp => fst (snd jp) :: snd (snd jp)) prog.

Definition exits_nonneg (prog : program) : bool :=
  forallb (fun c => Z.leb 0 (c_exit c)) (cmds_of prog).

(* tryerr / trypipeerr.  One reference interpreter with two readings of "wrote
   more to stderr than to stdout":
     cum = false : the documented rule (docs/commands/tryerr.md: "any process that
                   returns more output via stderr than it does via stdout"): the
                   checked process' own stderr bytes against its own stdout bytes;
     cum = true  : what checkTryErr computes: bytes written so far to the block's
                   stderr against bytes written so far to the stream that is the
                   process' stdout (the block's stdout for the last stage of a
                   pipeline, the pipe for an earlier stage).
   chk = false gives spec_strict again (stderr is ignored). *)
Inductive plr := RDone (out : bytes) (e : Z) (outT errT : N) | RAbort (e : Z).

Definition verdict (cum chk : bool) (e : Z) (own_out own_err cum_out cum_err : N) : Z :=
  if cum then check_err chk e cum_out cum_err else check_err chk e own_out own_err.

Fixpoint stages_ref (cum chk every : bool) (outT errT : N) (data : bytes) (c : cmd) (cs : list cmd) : plr :=
  let data' := stage_out data c in
  let errT' := (errT + blen (c_err c))%N in
  match cs with
  | [] =>
      let outT' := (outT + blen data')%N in
      RDone data' (verdict cum chk (c_exit c) (blen data') (blen (c_err c)) outT' errT') outT' errT'
  | c' :: cs' =>
      if every
      then let e := verdict cum chk (c_exit c) (blen data') (blen (c_err c)) (blen data') errT' in
           if negb (Z.eqb e 0) then RAbort e else stages_ref cum chk every outT errT' data' c' cs'
      else stages_ref cum chk every outT errT' data' c' cs'
  end.

Fixpoint spec_ref_go (cum chk every : bool) (prev_failed : bool) (prev : Z) (outT errT : N)
         (prog : program) : bytes * Z :=
  match prog with
  | [] => ([], prev)
  | (j, pl) :: rest =>
      let run_it :=
        match stages_ref cum chk every outT errT [] (fst pl) (snd pl) with
        | RAbort e => ([], e)
        | RDone o e outT' errT' =>
            let '(o', e') := spec_ref_go cum chk every (negb (Z.eqb e 0)) e outT' errT' rest in (o ++ o', e')
        end in
      match j with
      | JOr => if prev_failed then run_it else spec_ref_go cum chk every false prev outT errT rest
      | _ => if prev_failed then ([], prev) else run_it
      end
  end.

Definition spec_ref (cum chk every : bool) (prog : program) : obs :=
  match prog with
  | [] => {| o_out := []; o_exit := 0 |}
  | (_, pl) :: rest =>
      let '(o, e) := spec_ref_go cum chk every false 0 0 0 ((JSemi, pl) :: rest) in
      {| o_out := o; o_exit := e |}
  end.

(* the property's reference for every run mode; for the *err modes it is the
   documented per-process rule *)
Definition spec_of (m : runmode) (prog : program) : obs :=
  match sched_of m with
  | SNormal => spec_normal prog
  | SUnsafe => {| o_out := o_out (spec_normal prog); o_exit := 0 |}
  | STry => spec_strict false prog
  | STryPipe => spec_strict true prog
  | STryErr => spec_ref false true false prog
  | STryPipeErr => spec_ref false true true prog
  end.

(* what the code computes for the *err modes (cumulative totals) *)
Definition spec_cum_of (m : runmode) (prog : program) : obs :=
  match sched_of m with
  | STryErr => spec_ref true true false prog
  | STryPipeErr => spec_ref true true true prog
  | _ => spec_of m prog
  end.

Definition no_stderr (prog : program) : bool :=
  forallb (fun c => match c_err c with [] => true | _ => false end) (cmds_of prog).

(* ------------------------------------------------------------------ *)
(* comparisons *)
Definition obs_eqb (a b : obs) : bool :=
  bytes_eqb (o_out a) (o_out b) && Z.eqb (o_exit a) (o_exit b).

Definition flag_eqb (a b : bool * bool * bool) : bool :=
  let '(a1, a2, a3) := a in let '(b1, b2, b3) := b in
  Bool.eqb a1 b1 && Bool.eqb a2 b2 && Bool.eqb a3 b3.

