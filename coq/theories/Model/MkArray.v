(* C18 — executable model of murex's mkarray (`a`, `ja`) for integer ranges and
   expansion blocks.

   Go code modelled (paths relative to /repo):
     builtins/core/mkarray/range.go      rangeToArrayString, integer branch: ascending / descending /
                                         equal, zero padding keyed on the leading '0' of the lower
                                         bound's text (fmt "%0<len>d")
     builtins/core/mkarray/array_str.go  writeArrayString: template + variable lists per group, the
                                         odometer over `counter` (last block fastest, carry to the left)
     builtins/core/mkarray/mkarray.go    groups (top level commas) are expanded one after the other

   Input is the parsed expression (groups of literal segments and [..] blocks);
   the byte-level parseExpression is not modelled (see docs/C18.md).
   `variable[t][c]` is [slice_nth], Panic outside the block. No proofs here. *)
From Murex Require Export Base.Outcome Base.Bytes Model.Decimal.
Open Scope Z_scope.

(* comma separated, inside [ ]. EBad: a node with `..` that does not split into
   exactly two parts ("1..2..3"): rangeToArrayString rejects it *)
Inductive elem := EStr (s : bytes) | ERange (lo hi : bytes) | EBad (d : bytes).
Inductive seg := SLit (s : bytes) | SBlock (es : list elem).
Definition group := list seg.
Definition expr := list group.                                    (* top level commas *)

Definition E_RANGE_KIND : N := 1%N.    (* not an integer range: other matchers, not modelled *)

(* fmt.Sprintf("%0<w>d", z) *)
Definition zeros (n : nat) : bytes := repeat 48%N n.
Definition pad (w : nat) (z : Z) : bytes :=
  match z with
  | Zneg q => let d := n_to_dec (Npos q) in 45%N :: zeros (w - 1 - length d) ++ d
  | _ => let d := itoa z in zeros (w - length d) ++ d
  end.

(* the `if split[k][0] != '0'` choice *)
Definition fmtnum (key : bytes) (z : Z) : bytes :=
  match key with
  | 48%N :: _ => pad (length key) z
  | _ => itoa z
  end.

Definition int_range (s0 s1 : bytes) : Outcome (list bytes) :=
  match atoi s0, atoi s1 with
  | Some i1, Some i2 =>
      if i1 <? i2 then
        Ok (map (fun k => fmtnum s0 (i1 + Z.of_nat k)) (seq 0 (Z.to_nat (i2 - i1 + 1))))
      else if i2 <? i1 then
        Ok (map (fun k => fmtnum s1 (i1 - Z.of_nat k)) (seq 0 (Z.to_nat (i1 - i2 + 1))))
      else Ok [fmtnum s1 i1]
  | _, _ => Err E_RANGE_KIND
  end.

(* the values of one [..] block: `variable[l] = append(variable[l], ...)` *)
Fixpoint block_values (es : list elem) : Outcome (list bytes) :=
  match es with
  | [] => Ok []
  | EStr s :: r => obind (block_values r) (fun vs => Ok (s :: vs))
  | ERange lo hi :: r =>
      obind (int_range lo hi) (fun a => obind (block_values r) (fun vs => Ok (a ++ vs)))
  | EBad _ :: _ => Err E_RANGE_KIND
  end.

(* template with the blocks evaluated *)
Inductive tseg := TLit (s : bytes) | TVar (vals : list bytes).

Fixpoint eval_group (g : group) : Outcome (list tseg) :=
  match g with
  | [] => Ok []
  | SLit s :: r => obind (eval_group r) (fun t => Ok (TLit s :: t))
  | SBlock es :: r =>
      obind (block_values es) (fun vs => obind (eval_group r) (fun t => Ok (TVar vs :: t)))
  end.

Definition slice_nth {A} (l : list A) (i : nat) : Outcome A :=
  match nth_error l i with Some v => Ok v | None => Panic end.

(* `s = strings.Replace(s, marker, variable[t][counter[t]], 1)` for t = 0, 1, ... *)
Fixpoint render (t : list tseg) (c : list nat) : Outcome bytes :=
  match t with
  | [] => Ok []
  | TLit s :: r => obind (render r c) (fun x => Ok (s ++ x))
  | TVar vals :: r =>
      match c with
      | i :: c' => obind (slice_nth vals i) (fun v => obind (render r c') (fun x => Ok (v ++ x)))
      | [] => Panic
      end
  end.

Fixpoint var_lens (t : list tseg) : list nat :=
  match t with
  | [] => []
  | TLit _ :: r => var_lens r
  | TVar vals :: r => length vals :: var_lens r
  end.

(* counter[i]++ on the last block; on reaching the block's length reset it and
   carry into the block on its left; None = the leftmost block overflowed *)
Fixpoint incr (lens c : list nat) : option (list nat) :=
  match lens, c with
  | l :: ls, x :: xs =>
      match incr ls xs with
      | Some xs' => Some (x :: xs')
      | None => if (S x <? l)%nat then Some (S x :: map (fun _ => O) xs) else None
      end
  | _, _ => None
  end.

(* the `for { ... }` loop: write the current combination, advance the counter *)
Fixpoint odo (fuel : nat) (t : list tseg) (lens c : list nat) : Outcome (list bytes) :=
  match fuel with
  | O => OutOfFuel
  | S f =>
      obind (render t c) (fun s =>
        match incr lens c with
        | None => Ok [s]
        | Some c' => obind (odo f t lens c') (fun r => Ok (s :: r))
        end)
  end.

Definition expand_template (t : list tseg) : Outcome (list bytes) :=
  let lens := var_lens t in
  odo (S (fold_right Nat.mul 1%nat lens)) t lens (map (fun _ => O) lens).

Definition expand_group (g : group) : Outcome (list bytes) :=
  obind (eval_group g) expand_template.

Fixpoint expand (e : expr) : Outcome (list bytes) :=
  match e with
  | [] => Ok []
  | g :: r => obind (expand_group g) (fun a => obind (expand r) (fun b => Ok (a ++ b)))
  end.
