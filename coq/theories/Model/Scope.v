(* C11 — model of murex variable scoping.

   Go being modelled:

   lang/fork.go  Process.Fork
       if flags&F_FUNCTION != 0 { fork.Variables = NewVariables(fork.Process) ... }   -- a call: new empty table
       else { ... fork.Variables = p.Variables ... }     -- all three branches share the caller table: a block
   lang/interpreter.go:108   procs[i].Variables = parent.Variables   (every command of a block uses the block's table)
   lang/process.go executeProcess: private / function calls use p.Fork(F_FUNCTION);
       `source {}` and `fexec function` (builtins/core/management) use F_FUNCTION too.
   builtins/core/structs: if / switch / foreach / try / unsafe ... use F_PARENT_VARTABLE;
       lang/expressions/parse_subshell.go: `${ }` uses F_PARENT_VARTABLE.
   lang/variables.go
       getString : local table -> GlobalVariables -> (environment) -> "does not exist" error (strict-vars)
       set       : v.vars[name] = ...          (the table the process points at)
       set GLOBAL: setGlobalVar -> GlobalVariables.Set
       Unset     : error if the name is not in *this* table, else delete from this table only
   builtins/core/typemgmt/variables.go: set / !set use p.Variables, global / !global use GlobalVariables
   builtins/core/structs/foreach.go forEachInnerLoop: p.Variables.Set(p, varName, value) before each iteration.

   State: the global table and a stack of per-call tables (head = the running
   call).  A block does not push.  Names and values are abstract numbers: the
   harness renders name i as a murex identifier and value n as a decimal string.
   Names are assumed not reserved and not environment variables (harness choice). *)
From Murex Require Import Base.Outcome.

Definition name := N.
Definition value := N.
Definition table := list (name * value).

Fixpoint t_get (t : table) (x : name) : option value :=
  match t with
  | [] => None
  | (y, v) :: t' => if N.eqb x y then Some v else t_get t' x
  end.

Fixpoint t_del (t : table) (x : name) : table :=
  match t with
  | [] => []
  | (y, v) :: t' => if N.eqb x y then t_del t' x else (y, v) :: t_del t' x
  end.

(* Go map assignment: one binding per key *)
Definition t_set (t : table) (x : name) (v : value) : table := (x, v) :: t_del t x.

Definition t_empty : table := [].

(* One observable event: the tag of the operation that produced it, and
   Some v (a read that yielded v / an unset that succeeded, v = 0) or None (error). *)
Definition event := (N * option value)%type.
Definition trace := list event.

Inductive op :=
| OSet (x : name) (v : value)             (* set x=v | x = v | $x = v | out v -> set x *)
| OSetGlobal (x : name) (v : value)       (* $GLOBAL.x = v | global x=v *)
| OUnset (tag : N) (x : name)             (* !set x *)
| OUnsetGlobal (tag : N) (x : name)       (* !global x *)
| ORead (tag : N) (x : name)              (* out "tag=$x" *)
| OReadGlobal (tag : N) (x : name)        (* out "tag=$GLOBAL.x" *)
| OCall (body : list op)                  (* function / private / source {} / fexec function *)
| OBlock (body : list op)                 (* if / !if / else / switch / ${} / unsafe / try *)
| OForeach (x : name) (vals : list value) (body : list op).   (* %[vals] -> foreach x { body } *)

(* sequencing of a list of operations with any single-op semantics *)
Definition seq_ops {S : Type} (f : op -> S -> S * trace) : list op -> S -> S * trace :=
  fix go (l : list op) (s : S) : S * trace :=
    match l with
    | [] => (s, [])
    | o :: l' => let '(s1, t1) := f o s in
                 let '(s2, t2) := go l' s1 in (s2, t1 ++ t2)
    end.

Definition seq_vals {S : Type} (f : value -> S -> S * trace) : list value -> S -> S * trace :=
  fix go (l : list value) (s : S) : S * trace :=
    match l with
    | [] => (s, [])
    | v :: l' => let '(s1, t1) := f v s in
                 let '(s2, t2) := go l' s1 in (s2, t1 ++ t2)
    end.

(* ---- the machine: global table + stack of call frames ---- *)
Record state := { globals : table; cur : table; callers : list table }.

Definition lookup (s : state) (x : name) : option value :=
  match t_get (cur s) x with
  | Some v => Some v                       (* v.getStringValue(name) *)
  | None => t_get (globals s) x            (* GlobalVariables.getStringValue(name) *)
  end.                                     (* else errVarNotExist (strict-vars) *)

Definition set_cur (s : state) (t : table) : state :=
  {| globals := globals s; cur := t; callers := callers s |}.
Definition set_globals (s : state) (g : table) : state :=
  {| globals := g; cur := cur s; callers := callers s |}.

(* Fork(F_FUNCTION): NewVariables *)
Definition push (s : state) : state :=
  {| globals := globals s; cur := t_empty; callers := cur s :: callers s |}.
(* return from the call: the caller's process still points at its own table *)
Definition pop (s : state) : state :=
  match callers s with
  | c :: r => {| globals := globals s; cur := c; callers := r |}
  | [] => {| globals := globals s; cur := []; callers := [] |}
  end.

Definition unset_in (tag : N) (t : table) (x : name) : table * trace :=
  match t_get t x with
  | Some _ => (t_del t x, [(tag, Some 0%N)])
  | None => (t, [(tag, None)])             (* errVarNotExist; nothing deleted *)
  end.

Fixpoint step (o : op) (s : state) : state * trace :=
  match o with
  | OSet x v => (set_cur s (t_set (cur s) x v), [])
  | OSetGlobal x v => (set_globals s (t_set (globals s) x v), [])
  | OUnset tag x => let '(t, tr) := unset_in tag (cur s) x in (set_cur s t, tr)
  | OUnsetGlobal tag x => let '(t, tr) := unset_in tag (globals s) x in (set_globals s t, tr)
  | ORead tag x => (s, [(tag, lookup s x)])
  | OReadGlobal tag x => (s, [(tag, t_get (globals s) x)])
  | OCall body => let '(s', tr) := seq_ops step body (push s) in (pop s', tr)
  | OBlock body => seq_ops step body s
  | OForeach x vals body =>
      seq_vals (fun v s0 => seq_ops step body (set_cur s0 (t_set (cur s0) x v))) vals s
  end.

Definition run_state (ops : list op) (s : state) : state * trace := seq_ops step ops s.

Definition init_state : state := {| globals := t_empty; cur := t_empty; callers := [] |}.

(* what the harness observes: the sequence of tagged results on stdout *)
Definition run (ops : list op) : trace := snd (run_state ops init_state).
