(* C03 — executable model of murex's pipeline execution discipline.

   Go code modelled
     lang/interpreter_pc.go:14  runModeNormal   stages of one pipeline (methods) are started
                                                concurrently; a new chain is started only after
                                                waitProcess(previous process); && / || skip logic
     lang/process.go:218        executeProcess  a stage terminates only after its predecessor
     lang/interpreter.go:147    compile         stage i's stdout is stage i+1's stdin, the last
                                                stage writes the block's stdout, every stage's
                                                stderr is the block's stderr
     builtins/pipes/streams     Stdin.Read / Write   FIFO byte buffer between two stages; a read
                                                blocks while the buffer is empty and the writer has
                                                not closed; EOF once empty and closed

   A stage is a deterministic stream transducer: a state machine whose next action
   (read one byte / EOF, write bytes to stdout, write bytes to stderr, exit n) is a
   function of its state only.  A schedule is a list of stage ids: the goroutine
   scheduler's choices.  No proofs in this file. *)
From Murex Require Export Base.Outcome Base.Bytes.

Inductive action (S : Type) : Type :=
| ARead (k : option N -> S)      (* blocking read of one byte; None = EOF *)
| AOut (b : bytes) (s : S)       (* write b to the stage's stdout *)
| AErr (b : bytes) (s : S)       (* write b to the block's stderr *)
| AExit (n : Z).                 (* terminate with exit number n *)
Arguments ARead {S} k.
Arguments AOut {S} b s.
Arguments AErr {S} b s.
Arguments AExit {S} n.

(* apply f at index i (no-op when out of range) *)
Fixpoint upd {A} (l : list A) (i : nat) (f : A -> A) : list A :=
  match l, i with
  | [], _ => []
  | x :: l', O => f x :: l'
  | x :: l', S i' => x :: upd l' i' f
  end.

Definition is_some {A} (o : option A) : bool := match o with Some _ => true | None => false end.

Inductive conn := Seq | AndThen | OrElse.     (* `;`  `&&`  `||` in front of a pipeline *)

Section Net.
  Variable St : Type.
  Variable step : St -> action St.

  (* One pipeline of n stages.  bufs has n+1 entries: bufs[j] is the FIFO feeding
     stage j (bufs[0] is the closed, empty stdin of the block: F_NO_STDIN); bufs[n] is
     the block's stdout, which only the last stage writes.  serr is the block's stderr,
     shared by every stage. *)
  Record config := mkc {
    sts : list St;                 (* current state of each stage *)
    exs : list (option Z);        (* Some n once the stage has exited with n *)
    bufs : list bytes;
    serr : bytes }.

  Definition nstages (c : config) : nat := length (sts c).
  Definition sout (c : config) : bytes := nth (nstages c) (bufs c) [].

  Definition exited (j : nat) (c : config) : bool :=
    match nth_error (exs c) j with Some (Some _) => true | _ => false end.

  (* the writer side of stage j's input is closed *)
  Definition upstream_closed (j : nat) (c : config) : bool :=
    match j with O => true | S i => exited i c end.

  (* What stage j does next: new state, exit, pop own input?, bytes pushed
     downstream, bytes appended to stderr. *)
  Record effect := mke {
    e_st : St; e_exit : option Z; e_pop : bool; e_push : bytes; e_err : bytes }.

  Definition effect_of (j : nat) (c : config) : option effect :=
    match nth_error (sts c) j, nth_error (exs c) j, nth_error (bufs c) j with
    | Some s, Some None, Some buf =>
        match step s with
        | ARead k =>
            match buf with
            | x :: _ => Some (mke (k (Some x)) None true [] [])
            | [] => if upstream_closed j c then Some (mke (k None) None false [] []) else None
            end
        | AOut b s' => Some (mke s' None false b [])
        | AErr b s' => Some (mke s' None false [] b)
        | AExit n => Some (mke s (Some n) false [] [])
        end
    | _, _, _ => None
    end.

  Definition apply_effect (j : nat) (e : effect) (c : config) : config :=
    mkc (upd (sts c) j (fun _ => e_st e))
        (upd (exs c) j (fun x => match e_exit e with Some n => Some n | None => x end))
        (upd (upd (bufs c) j (fun q => if e_pop e then tl q else q))
             (S j) (fun q => q ++ e_push e))
        (serr c ++ e_err e).

  (* one scheduling step: stage j runs one action, if it can *)
  Definition fire (j : nat) (c : config) : option config :=
    match effect_of j c with
    | Some e => Some (apply_effect j e c)
    | None => None
    end.

  (* a schedule is a list of stage ids; entries naming a blocked or exited stage are skipped *)
  Fixpoint run (sched : list nat) (c : config) : config :=
    match sched with
    | [] => c
    | j :: sched' => run sched' (match fire j c with Some c' => c' | None => c end)
    end.

  Definition finished (c : config) : bool := forallb is_some (exs c).

  Definition last_exit (c : config) : Z :=
    match last (exs c) None with Some n => n | None => 0%Z end.

  (* canonical scheduler: always the lowest-numbered stage that can move *)
  Fixpoint first_fire (k j : nat) (c : config) : option config :=
    match k with
    | O => None
    | S k' => match fire j c with Some c' => Some c' | None => first_fire k' (S j) c end
    end.

  Fixpoint exec (fuel : nat) (c : config) : Outcome config :=
    if finished c then Ok c else
    match fuel with
    | O => OutOfFuel
    | S f =>
        match first_fire (nstages c) 0 c with
        | Some c' => exec f c'
        | None => Err 1%N            (* deadlock: cannot happen, see Proof/Pipeline.v progress *)
        end
    end.

  Definition init_config (inits : list St) (out0 err0 : bytes) : config :=
    mkc inits (map (fun _ => None) inits) (map (fun _ => []) inits ++ [out0]) err0.

  (* ---- programs: pipelines separated by ; && || ---- *)

  (* a pipeline of a program: connector, initial stage states, and the state a stage
     takes when runModeNormal skips the pipeline (it terminates at once with the
     previous exit number and writes nothing) *)
  Record item := mki { i_conn : conn; i_inits : list St; i_skip : Z -> St }.

  Record gconfig := mkg {
    g_cur : config;               (* the pipeline that is running *)
    g_skip : bool;                (* runModeNormal's skipPipeline *)
    g_rest : list item }.         (* pipelines not started yet *)

  Definition skipped (sk : bool) (prev : Z) (c : conn) : bool :=
    match c with
    | Seq => false
    | AndThen => negb (Z.eqb prev 0) || sk
    | OrElse => Z.eqb prev 0 || sk
    end.

  (* /repo b8e2cf9: when the head of a pipeline is skipped, its remaining stages (methods) are
     skipped too: every stage terminates at once with the previous exit number, and
     skipPipeline stays set *)
  Definition load_inits (sk : bool) (prev : Z) (it : item) : list St :=
    if skipped sk prev (i_conn it)
    then map (fun _ => i_skip it prev) (i_inits it)
    else i_inits it.

  Definition load_skip (sk : bool) (prev : Z) (it : item) : bool :=
    skipped sk prev (i_conn it).

  (* start the next pipeline: only once the running one has finished; the sinks carry over *)
  Fixpoint advance (c : config) (sk : bool) (rest : list item) : gconfig :=
    if finished c then
      match rest with
      | [] => mkg c sk []
      | it :: rest' =>
          advance (init_config (load_inits sk (last_exit c) it) (sout c) (serr c))
                  (load_skip sk (last_exit c) it) rest'
      end
    else mkg c sk rest.

  Definition ginit (prog : list item) : gconfig := advance (init_config [] [] []) false prog.

  Definition gfire (j : nat) (g : gconfig) : option gconfig :=
    match fire j (g_cur g) with
    | Some c' => Some (advance c' (g_skip g) (g_rest g))
    | None => None
    end.

  Fixpoint grun (sched : list nat) (g : gconfig) : gconfig :=
    match sched with
    | [] => g
    | j :: sched' => grun sched' (match gfire j g with Some g' => g' | None => g end)
    end.

  Definition gfinished (g : gconfig) : bool :=
    finished (g_cur g) && match g_rest g with [] => true | _ => false end.

  (* the three observables of a block *)
  Definition result : Type := (bytes * bytes * Z)%type.
  Definition gresult (g : gconfig) : result := (sout (g_cur g), serr (g_cur g), last_exit (g_cur g)).

  (* sequential prediction: every pipeline run alone, from empty sinks, by the
     canonical scheduler; outputs concatenated in program order *)
  Fixpoint predict (fuel : nat) (sk : bool) (prev : Z) (prog : list item) : Outcome result :=
    match prog with
    | [] => Ok ([], [], prev)
    | it :: rest =>
        match exec fuel (init_config (load_inits sk prev it) [] []) with
        | Ok c =>
            match predict fuel (load_skip sk prev it) (last_exit c) rest with
            | Ok (o, e, x) => Ok (sout c ++ o, serr c ++ e, x)
            | other => other
            end
        | Err k => Err k
        | Panic => Panic
        | OutOfFuel => OutOfFuel
        end
    end.
End Net.

Arguments mkc {St}.
Arguments sts {St}.
Arguments exs {St}.
Arguments bufs {St}.
Arguments serr {St}.
Arguments sout {St}.
Arguments nstages {St}.
Arguments finished {St}.
Arguments last_exit {St}.
Arguments init_config {St}.
Arguments mki {St}.
Arguments i_conn {St}.
Arguments i_inits {St}.
Arguments i_skip {St}.
Arguments mkg {St}.
Arguments g_cur {St}.
Arguments g_skip {St}.
Arguments g_rest {St}.
Arguments gfinished {St}.
Arguments gresult {St}.
Arguments load_inits {St}.
Arguments load_skip {St}.

(* ------------------------------------------------------------------ *)
(* The library of transducers that mirrors the builtins the generated
   programs use (observed behaviour on '\n'-separated str data).        *)

Definition nl : N := 10%N.

(* split into lines; a last line without '\n' counts; no empty trailing line *)
Fixpoint lines_aux (cur : bytes) (b : bytes) : list bytes :=
  match b with
  | [] => match cur with [] => [] | _ => [rev cur] end
  | x :: b' => if N.eqb x nl then rev cur :: lines_aux [] b' else lines_aux (x :: cur) b'
  end.
Definition lines (b : bytes) : list bytes := lines_aux [] b.
Definition unlines (l : list bytes) : bytes := flat_map (fun x => x ++ [nl]) l.

Fixpoint bytes_leb (a b : bytes) : bool :=
  match a, b with
  | [], _ => true
  | _ :: _, [] => false
  | x :: a', y :: b' => if N.ltb x y then true else if N.ltb y x then false else bytes_leb a' b'
  end.
Fixpoint insert_line (x : bytes) (l : list bytes) : list bytes :=
  match l with
  | [] => [x]
  | y :: l' => if bytes_leb x y then x :: l else y :: insert_line x l'
  end.
Definition sort_lines (l : list bytes) : list bytes := fold_right insert_line [] l.

Fixpoint is_prefix (p b : bytes) : bool :=
  match p, b with
  | [], _ => true
  | _ :: _, [] => false
  | x :: p', y :: b' => N.eqb x y && is_prefix p' b'
  end.
Fixpoint contains (p b : bytes) : bool :=
  is_prefix p b || match b with [] => false | _ :: b' => contains p b' end.

Inductive allfn :=
| FId        (* cast str: copy *)
| FRev       (* mtac: lines reversed *)
| FSort      (* msort: lines sorted bytewise *)
| FNull.     (* null: swallow *)
Definition apply_all (f : allfn) (b : bytes) : bytes :=
  match f with
  | FId => b
  | FRev => unlines (rev (lines b))
  | FSort => unlines (sort_lines (lines b))
  | FNull => []
  end.

Inductive linefn :=
| LWrap (p q : bytes)     (* prefix p / suffix q *)
| LEach (v p q : bytes)   (* foreach v { out "p$(v)q" }: v is the iteration variable, which
                             lives in the enclosing function's variable table *)
| LTryEach (v pre : bytes) (* foreach v { try { ...; <fails>; never }; out $v }: a try / tryerr / trypipe
                             block that aborts emits exactly what ran before (and at) the failure: pre *)
| LMatch (p : bytes).     (* match p: keep the lines that contain p *)
Definition apply_line (f : linefn) (l : bytes) : bytes :=
  match f with
  | LWrap p q => p ++ l ++ q ++ [nl]
  | LEach _ p q => p ++ l ++ q ++ [nl]
  | LTryEach _ pre => pre ++ l ++ [nl]
  | LMatch p => if contains p l then l ++ [nl] else []
  end.

(* static description of a stage, as the harness emits it *)
Inductive lspec :=
| SOut (b : bytes)        (* out w (b = w ++ "\n") / tout str w: write b, exit 0; never reads *)
| SErr (b : bytes)        (* err w: write b to stderr, exit 1; never reads *)
| SAll (f : allfn)        (* read everything, then write f(input), exit 0 *)
| SLines (f : linefn).    (* streaming: for every input line write f(line), exit 0 *)

Inductive lstate :=
| LWrite (to_out : bool) (b : bytes) (ex : Z)   (* one write left, then exit *)
| LExit (ex : Z)
| LAll (f : allfn) (acc : bytes)                (* acc: input so far, reversed *)
| LLine (f : linefn) (cur : bytes)              (* cur: current line so far, reversed *)
| LEmit (f : linefn) (b : bytes).               (* write b, then go on reading lines *)

Definition lstep (s : lstate) : action lstate :=
  match s with
  | LWrite true b ex => AOut b (LExit ex)
  | LWrite false b ex => AErr b (LExit ex)
  | LExit ex => AExit ex
  | LAll f acc => ARead (fun o => match o with
                                  | Some x => LAll f (x :: acc)
                                  | None => LWrite true (apply_all f (rev acc)) 0%Z
                                  end)
  | LLine f cur => ARead (fun o => match o with
                                   | Some x => if N.eqb x nl then LEmit f (apply_line f (rev cur))
                                               else LLine f (x :: cur)
                                   | None => match cur with
                                             | [] => LExit 0%Z
                                             | _ => LWrite true (apply_line f (rev cur)) 0%Z
                                             end
                                   end)
  | LEmit f b => AOut b (LLine f [])
  end.

Definition linit (s : lspec) : lstate :=
  match s with
  | SOut b => LWrite true b 0%Z
  | SErr b => LWrite false b 1%Z
  | SAll f => LAll f []
  | SLines f => LLine f []
  end.

(* a stage that can never write to stderr *)
Definition lquiet (s : lstate) : bool :=
  match s with LWrite false _ _ => false | _ => true end.

(* a program as the harness emits it *)
Definition lprog := list (conn * list lspec).
Definition litem (p : conn * list lspec) : item lstate :=
  mki (fst p) (map linit (snd p)) LExit.
Definition lpredict (fuel : nat) (p : lprog) : Outcome (result) :=
  predict lstate lstep fuel false 0%Z (map litem p).

(* at most one stage of every pipeline may write stderr: the domain of the property *)
Definition single_err_writer (inits : list lstate) : bool :=
  (length (filter (fun s => negb (lquiet s)) inits) <=? 1)%nat.
(* stages of one pipeline run concurrently and must share nothing but their pipes: two
   foreach stages of one pipeline must not use the same iteration variable (the variable
   is function scoped, so they would race on it: known finding C03#1) *)
Fixpoint each_vars (l : list lspec) : list bytes :=
  match l with
  | [] => []
  | SLines (LEach v _ _) :: l' => v :: each_vars l'
  | SLines (LTryEach v _) :: l' => v :: each_vars l'
  | _ :: l' => each_vars l'
  end.
Fixpoint nodup_bytes (l : list bytes) : bool :=
  match l with
  | [] => true
  | x :: l' => negb (existsb (bytes_eqb x) l') && nodup_bytes l'
  end.
Definition shares_loop_var (p : lprog) : bool :=
  existsb (fun it => negb (nodup_bytes (each_vars (snd it)))) p.
Definition lguard (p : lprog) : bool :=
  forallb (fun it => single_err_writer (map linit (snd it))) p && negb (shares_loop_var p).
