(* C22 — model of command resolution in lang/process.go executeProcess.

   Go being modelled (lang/process.go:291-360):

     var parsedAlias bool
   executeProcess:
     switch {
     case p.Scope.Id != ShellProcess.Id && PrivateFunctions.Exists(name, p.FileRef):   run the private
     case GlobalAliases.Exists(name) && p.Parent.Name.String() != "alias" && !parsedAlias:
         alias := GlobalAliases.Get(name); name = alias[0]
         p.Parameters.Prepend(alias[1:]); parsedAlias = true
         goto executeProcess
     case MxFunctions.Exists(name):   run the function
     case GoFunctions[name] != nil:   run the builtin
     default:
         if p.Parameters.Len() == 0 && <config shell auto-cd> && os.Stat(name) is a directory {
             p.Parameters.Prepend([]string{name}); name = "cd"; goto executeProcess }
         exec name params...           ("executable file not found" when no such program)
     }

   The goto loop is a fuelled function; the theorems show that fuel 3 is always
   enough, on any tables. *)
From Murex Require Import Base.Outcome.

Definition name := N.
Definition arg := N.

Inductive kind := KPrivate | KFunction | KBuiltin | KExternal.

(* what is defined under one command name *)
Record entry := {
  e_private : bool;                        (* a private of the caller's module *)
  e_alias : option (name * list arg);      (* alias[0], alias[1:] *)
  e_function : bool;
  e_builtin : bool;
  e_external : bool;                       (* an executable of that name in $PATH *)
  e_isdir : bool                           (* a directory of that name (auto-cd) *)
}.

Definition no_entry : entry :=
  {| e_private := false; e_alias := None; e_function := false; e_builtin := false;
     e_external := false; e_isdir := false |}.

Definition tables := list (name * entry).

Fixpoint lookup (t : tables) (n : name) : entry :=
  match t with
  | [] => no_entry
  | (m, e) :: t' => if N.eqb n m then e else lookup t' n
  end.

Record ctx := {
  shell_scope : bool;       (* p.Scope.Id == ShellProcess.Id: privates are not considered *)
  parent_alias : bool;      (* p.Parent.Name == "alias": aliases are not expanded *)
  autocd : bool             (* config shell auto-cd *)
}.

(* the command name "cd" and the parameter that stands for a directory name *)
Definition cd_name : name := 3%N.
Definition dir_arg (n : name) : arg := (n + 1048576)%N.

Definition resolved := (kind * name * list arg)%type.
Definition not_found : N := 1%N.

Definition is_nil {A} (l : list A) : bool := match l with [] => true | _ => false end.

Fixpoint resolve (fuel : nat) (t : tables) (c : ctx) (parsed : bool) (n : name) (args : list arg)
  : Outcome resolved :=
  match fuel with
  | O => OutOfFuel
  | S f =>
      let e := lookup t n in
      let rest :=
        if e_function e then Ok (KFunction, n, args)
        else if e_builtin e then Ok (KBuiltin, n, args)
        else if is_nil args && autocd c && e_isdir e then resolve f t c parsed cd_name [dir_arg n]
        else if e_external e then Ok (KExternal, n, args)
        else Err not_found in
      if negb (shell_scope c) && e_private e then Ok (KPrivate, n, args)
      else match e_alias e with
           | Some (tn, targs) =>
               if negb (parent_alias c) && negb parsed
               then resolve f t c true tn (targs ++ args)
               else rest
           | None => rest
           end
  end.

(* what executeProcess does with the command `n args...` *)
Definition resolve_cmd (t : tables) (c : ctx) (n : name) (args : list arg) : Outcome resolved :=
  resolve 3 t c false n args.
