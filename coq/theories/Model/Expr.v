(* C06 / C07 — executable model of lang/expressions: executeExpr,
   orderOfOperations, executeExpression, foldAst, the exp* operator functions,
   compareTypes, and lang/types IsTrueString / ConvertGoType for scalars.

   Go being modelled (lang/expressions/expression.go):

     func (tree) executeExpr() (result, error) {
         err := tree.validateExpression()
         for i := range orderOfOperations {
             err = executeExpression(tree, orderOfOperations[i]) ... }
         if len(tree.ast) > 1 { return error }
         return tree.ast[0].dt, nil }

     func executeExpression(tree, order symbols.Exp) (err error) {
         for tree.astPos = 0; tree.astPos < len(tree.ast); tree.astPos++ {
             node := tree.ast[tree.astPos]
             if node.key < order { continue }
             switch node.key { case symbols.Add: err = expAdd(tree) ... }   // folds 3 nodes into 1
             if err != nil { return err }
             tree.astPos = 0 } }

   Operator ranks (the symbols.Exp enum) and the pass thresholds (the
   orderOfOperations slice) are NOT written here: they come from
   Gen/ExprTables.v, regenerated from the Go source on every run. The words
   that are false come from Gen/Truthy.v.

   No proofs in this file. *)
From Coq Require Import List NArith ZArith Bool Floats.
From Murex Require Import Base.Outcome Base.Bytes Gen.ExprTables Gen.Truthy.
Import ListNotations.

(* ---- operators and values ---- *)

Inductive sym :=
| Mul | Div | Add | Sub | Gt | Ge | Lt | Le | Eq | Ne | And | Or | Elvis | NullCo.

Definition sym_eqb (a b : sym) : bool :=
  match a, b with
  | Mul, Mul | Div, Div | Add, Add | Sub, Sub | Gt, Gt | Ge, Ge | Lt, Lt | Le, Le
  | Eq, Eq | Ne, Ne | And, And | Or, Or | Elvis, Elvis | NullCo, NullCo => true
  | _, _ => false
  end.

Definition all_syms : list sym :=
  [Mul; Div; Add; Sub; Gt; Ge; Lt; Le; Eq; Ne; And; Or; Elvis; NullCo].

(* node.key of an operator node: its position in the symbols.Exp enum *)
Definition rank (o : sym) : N :=
  match o with
  | Mul => sym_Multiply | Div => sym_Divide
  | Add => sym_Add | Sub => sym_Subtract
  | Gt => sym_GreaterThan | Ge => sym_GreaterThanOrEqual
  | Lt => sym_LessThan | Le => sym_LessThanOrEqual
  | Eq => sym_EqualTo | Ne => sym_NotEqualTo
  | And => sym_LogicalAnd | Or => sym_LogicalOr
  | Elvis => sym_Elvis | NullCo => sym_NullCoalescing
  end.

(* the pass thresholds, in pass order *)
Definition groups : list N := order_of_operations.

(* keys a value node can carry (literal, or Exp(val.Primitive) for a
   sub-expression / comparison result, or Calculated) *)
Definition value_keys : list N :=
  [sym_QuoteSingle; sym_QuoteDouble; sym_Number; sym_Boolean; sym_Null; sym_Calculated].

(* primitives.Value for scalars: Number (float64), Boolean, String, Null *)
Inductive value :=
| VNum (f : float)
| VBool (b : bool)
| VStr (s : bytes)
| VNull.

(* tree.ast after parsing: value nodes and operator nodes *)
Inductive node := NV (v : value) | NO (o : sym).

(* ---- the fold-pass machine, generic in the operator semantics ---- *)

Section Machine.
  Variable apply : sym -> value -> value -> option value.   (* None: the exp* function returns an error *)
  Variable gs : list N.                                     (* orderOfOperations *)

  (* `if node.key < order { continue }`: value keys are below every threshold
     (checked on the generated table: table_ok) *)
  Definition node_ge (order : N) (n : node) : bool :=
    match n with NV _ => false | NO o => (order <=? rank o)%N end.

  Inductive scan_res := Done | Hit (lrev : list node) (n : node) (r : list node).

  (* walk right from astPos = length lrev to the first node with key >= order *)
  Fixpoint scan (order : N) (lrev r : list node) : scan_res :=
    match r with
    | [] => Done
    | n :: r' => if node_ge order n then Hit lrev n r' else scan order (n :: lrev) r'
    end.

  (* executeExpression from position astPos = length lrev; one unit of fuel per fold *)
  Fixpoint pass_from (fuel : nat) (order : N) (lrev r : list node) : Outcome (list node) :=
    match fuel with
    | O => OutOfFuel
    | S f =>
      match scan order lrev r with
      | Done => Ok (rev lrev ++ r)
      | Hit l (NV _) _ => Err 1                       (* default: "no code written to handle symbol" *)
      | Hit l (NO o) r' =>
        match l, r' with
        | NV a :: l', NV b :: r'' =>                  (* getLeftAndRightSymbols *)
          match apply o a b with
          | Some c =>
            match rev l' ++ NV c :: r'' with          (* foldAst *)
            | x :: t => pass_from f order [x] t       (* tree.astPos = 0, then astPos++ *)
            | [] => Ok []
            end
          | None => Err 1
          end
        | _, _ => Err 1                               (* missing value left / right of operation *)
        end
      end
    end.

  Definition pass (order : N) (ast : list node) : Outcome (list node) :=
    pass_from (S (length ast)) order [] ast.

  Fixpoint run_passes (l : list N) (ast : list node) : Outcome (list node) :=
    match l with
    | [] => Ok ast
    | g :: l' => obind (pass g ast) (run_passes l')
    end.

  (* validateExpression: value, operation, value, ... value; a lone quoted
     string is "not an expression". (Its other rule — arithmetic operators need
     number-keyed neighbours — coincides with `apply` failing on non-numbers,
     see docs/C06.md.) *)
  Fixpoint alternating (expect_value : bool) (l : list node) : bool :=
    match l with
    | [] => negb expect_value
    | NV _ :: r => expect_value && alternating false r
    | NO _ :: r => negb expect_value && alternating true r
    end.

  Definition lone_string (ast : list node) : bool :=
    match ast with [NV (VStr _)] => true | _ => false end.

  Definition validate (ast : list node) : bool :=
    alternating true ast && negb (lone_string ast).

  Definition eval_nodes (ast : list node) : Outcome value :=
    if validate ast then
      obind (run_passes gs ast)
            (fun a => match a with [NV v] => Ok v | _ => Err 1 end)   (* AST results > 1 *)
    else Err 1.
End Machine.

(* ---- expressions with parentheses: parseExpression evaluates a
   sub-expression as soon as it is parsed and appends its value as one node ---- *)

Inductive ptok := PV (v : value) | PO (o : sym) | PP (sub : list ptok).

Definition omapM {A B} (f : A -> Outcome B) : list A -> Outcome (list B) :=
  fix go (l : list A) : Outcome (list B) :=
    match l with
    | [] => Ok []
    | x :: r => obind (f x) (fun y => omap (cons y) (go r))
    end.

Section Groups.
  Variable apply : sym -> value -> value -> option value.
  Variable gs : list N.

  Fixpoint eval_tok (t : ptok) : Outcome node :=
    match t with
    | PV v => Ok (NV v)
    | PO o => Ok (NO o)
    | PP sub => obind (omapM eval_tok sub) (fun ns => omap NV (eval_nodes apply gs ns))
    end.

  Definition eval_group (ts : list ptok) : Outcome value :=
    obind (omapM eval_tok ts) (eval_nodes apply gs).
End Groups.

(* ---- operator semantics of the Go code ---- *)

Open Scope float_scope.

Definition is_pos_zero (f : float) : bool :=
  match PrimFloat.classify f with PZero => true | _ => false end.

(* Go's < on strings: lexicographic on bytes *)
Fixpoint bytes_ltb (a b : bytes) : bool :=
  match a, b with
  | [], [] => false
  | [], _ :: _ => true
  | _ :: _, [] => false
  | x :: a', y :: b' =>
    if (x <? y)%N then true else if (y <? x)%N then false else bytes_ltb a' b'
  end.
Definition bytes_leb (a b : bytes) : bool := negb (bytes_ltb b a).

Definition s_true : bytes := [116; 114; 117; 101]%N.
Definition s_false : bytes := [102; 97; 108; 115; 101]%N.
Definition s_zero : bytes := [48]%N.

(* types.IsTrueString (ASCII strings): TrimSpace, ToLower, word list from Gen/Truthy.v *)
Definition is_space (c : N) : bool :=
  ((c =? 9) || (c =? 10) || (c =? 11) || (c =? 12) || (c =? 13) || (c =? 32))%N.
Fixpoint trim_left (s : bytes) : bytes :=
  match s with
  | c :: r => if is_space c then trim_left r else s
  | [] => []
  end.
Definition trim (s : bytes) : bytes := rev (trim_left (rev (trim_left s))).
Definition lower (c : N) : N := if ((65 <=? c) && (c <=? 90))%N then (c + 32)%N else c.

Definition is_true_string (s : bytes) (exitnum : Z) : bool :=
  if (0 <? exitnum)%Z then false
  else if (exitnum <? 0)%Z then true
  else
    let w := map lower (trim s) in
    match w with
    | [] => false
    | _ => negb (existsb (bytes_eqb w) false_words)
    end.

(* floats as table keys / observations: compared by bit-pattern class (NaN as one class) *)
Definition class_code (f : float) : N :=
  match PrimFloat.classify f with
  | PNormal => 1 | NNormal => 2 | PSubn => 3 | NSubn => 4
  | PZero => 5 | NZero => 6 | PInf => 7 | NInf => 8 | NaN => 9
  end%N.

Definition same_float (a b : float) : bool :=
  N.eqb (class_code a) (class_code b) &&
  (N.eqb (class_code a) 9 || PrimFloat.eqb a b).

(* Library behaviour that is not modelled enters as tables observed on the real
   code for the strings / numbers of the case at hand:
     or_parse s = types.ConvertGoType(s, Number)   (TrimSpace, "" -> "0", strconv.ParseFloat; None inside = error)
     or_fmt f   = types.FloatToString(f)           (strconv.FormatFloat(f,'f',-1,64))
   A key missing from a table makes the model give up (no value). *)
Record oracles := { or_parse : list (bytes * option float); or_fmt : list (float * bytes) }.

Definition no_oracles : oracles := {| or_parse := []; or_fmt := [] |}.

Fixpoint lookup_parse (t : list (bytes * option float)) (s : bytes) : option (option float) :=
  match t with
  | [] => None
  | (k, v) :: t' => if bytes_eqb k s then Some v else lookup_parse t' s
  end.

Fixpoint lookup_fmt (t : list (float * bytes)) (f : float) : option bytes :=
  match t with
  | [] => None
  | (k, v) :: t' => if same_float k f then Some v else lookup_fmt t' f
  end.

(* ConvertGoType(v, Number): outer None = not in the table, inner None = Go returns an error *)
Definition to_num (orc : oracles) (v : value) : option (option float) :=
  match v with
  | VNum f => Some (Some f)
  | VBool b => Some (Some (if b then 1 else 0))
  | VNull => Some (Some 0)
  | VStr s => lookup_parse (or_parse orc) s
  end.

(* ConvertGoType(v, String) *)
Definition to_str (orc : oracles) (v : value) : option bytes :=
  match v with
  | VStr s => Some s
  | VBool b => Some (if b then s_true else s_false)
  | VNull => Some []
  | VNum f => lookup_fmt (or_fmt orc) f
  end.

Definition is_num (v : value) : bool := match v with VNum _ => true | _ => false end.

Inductive cmp_pair :=
| CF (x y : float) | CS (a b : bytes) | CB (a b : bool) | CNil.

Definition compare_as_string (orc : oracles) (a b : value) : option cmp_pair :=
  match to_str orc a, to_str orc b with
  | Some s, Some t => Some (CS s t)
  | _, _ => None
  end.

(* compareTypes, non-strict branch: same data type -> as is; a number on either
   side -> both to numbers, and if either conversion fails ("goto compareAsString")
   both to strings; otherwise both to strings *)
Definition compare_types (orc : oracles) (a b : value) : option cmp_pair :=
  match a, b with
  | VNum x, VNum y => Some (CF x y)
  | VStr s, VStr t => Some (CS s t)
  | VBool x, VBool y => Some (CB x y)
  | VNull, VNull => Some CNil
  | _, _ =>
    if is_num a || is_num b then
      match to_num orc a with
      | None => None
      | Some None => compare_as_string orc a b
      | Some (Some x) =>
        match to_num orc b with
        | None => None
        | Some None => compare_as_string orc a b
        | Some (Some y) => Some (CF x y)
        end
      end
    else compare_as_string orc a b
  end.

(* expEqualFunc: lv == rv on interface values *)
Definition equal_values (orc : oracles) (a b : value) : option bool :=
  match compare_types orc a b with
  | Some (CF x y) => Some (PrimFloat.eqb x y)
  | Some (CS s t) => Some (bytes_eqb s t)
  | Some (CB x y) => Some (Bool.eqb x y)
  | Some CNil => Some true
  | None => None
  end.

(* expGtLt: float or string comparison, anything else is an error *)
Definition order_values (ff : float -> float -> bool) (fs : bytes -> bytes -> bool)
           (orc : oracles) (a b : value) : option bool :=
  match compare_types orc a b with
  | Some (CF x y) => Some (ff x y)
  | Some (CS s t) => Some (fs s t)
  | _ => None
  end.

(* truthiness as expLogicalAnd / expLogicalOr see it (after the fix that passes
   nv.Value): ConvertGoType(v, String) then IsTrueString(s, ExitNum = 0).
   FloatToString(f) is "0" exactly for +0; every other rendering ("-0", digits
   with a non-zero digit, "NaN", "+Inf", "-Inf") is not a false word. *)
Definition truthy_logic (v : value) : bool :=
  match v with
  | VNum f => if is_pos_zero f then is_true_string s_zero 0 else true
  | VBool b => is_true_string (if b then s_true else s_false) 0
  | VStr s => is_true_string s 0
  | VNull => is_true_string [] 0
  end.

(* truthiness as expElvis sees it: ConvertGoType(v, Boolean) *)
Definition truthy_elvis (v : value) : bool :=
  match v with
  | VNum f => negb (PrimFloat.eqb f 0)
  | VBool b => b
  | VStr s => is_true_string s 0
  | VNull => false
  end.

Definition arith (f : float -> float -> float) (a b : value) : option value :=
  match a, b with
  | VNum x, VNum y => Some (VNum (f x y))
  | _, _ => None               (* validateExpression: cannot Add non-numeric data types *)
  end.

Definition apply_go (orc : oracles) (o : sym) (a b : value) : option value :=
  match o with
  | Mul => arith PrimFloat.mul a b
  | Div => arith PrimFloat.div a b
  | Add => arith PrimFloat.add a b
  | Sub => arith PrimFloat.sub a b
  | Gt => option_map VBool (order_values (fun x y => PrimFloat.ltb y x) (fun s t => bytes_ltb t s) orc a b)
  | Ge => option_map VBool (order_values (fun x y => PrimFloat.leb y x) (fun s t => bytes_leb t s) orc a b)
  | Lt => option_map VBool (order_values PrimFloat.ltb bytes_ltb orc a b)
  | Le => option_map VBool (order_values PrimFloat.leb bytes_leb orc a b)
  | Eq => option_map VBool (equal_values orc a b)
  | Ne => option_map (fun x => VBool (negb x)) (equal_values orc a b)
  | And => Some (VBool (truthy_logic a && truthy_logic b))
  | Or => Some (VBool (truthy_logic a || truthy_logic b))
  | Elvis => Some (if truthy_elvis a then a else b)
  | NullCo => Some (match a with VNull => b | _ => a end)
  end.

(* the expression evaluator of the Go code, tables from Gen *)
Definition eval_expr (orc : oracles) (ts : list ptok) : Outcome value :=
  eval_group (apply_go orc) groups ts.
