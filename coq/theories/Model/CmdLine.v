(* C34 — a small command-line grammar, what the block parser executes in it
   ([commands]), how it is typed ([render_line]) and an abstract view of how the
   tokenizer of Model/Tokenizer.v walks such text ([astep] / [arun]: the mode it is
   in and the command names it looks up in the safe list).

   Grammar (one level of blocks):
     line   ::= stmt (sep stmt)*
     stmt   ::= name (' ' item)*
     item   ::= arg | '{' [' '] sline [' '] '}'
     sline  ::= sstmt (sep sstmt)*          sstmt ::= name (' ' arg)*
     arg    ::= word | ''' qtext ''' | '"' qtext '"'
     sep    ::= [' '] ( ';' | '|' | '->' | '&&' | '||' ) [' ']
     name, word : non-empty lower-case letters;  qtext : letters, spaces, ';', '|'
   [commands]: every statement runs its name; a block argument runs its statements
   (this is what lang/expressions.ParseBlock makes of such text — compared with the
   real ParseBlock tree on generated lines by the C34 check). *)
From Murex Require Import Base.Outcome Base.Bytes Model.Tokenizer.
Local Open Scope N_scope.

Definition is_alpha (c : N) : bool := (97 <=? c) && (c <=? 122).
Definition is_qchar (c : N) : bool := is_alpha c || (c =? 32) || (c =? 59) || (c =? 124).

Inductive quote := QNone | QSingle | QDouble.
Record arg := mk_arg { a_quote : quote; a_text : list N }.

Inductive sepk := SSemi | SPipe | SArrow | SAnd | SOr.
Record sep := mk_sep { s_k : sepk; s_before : bool; s_after : bool }.

Record sstmt := mk_sstmt { ss_name : list N; ss_args : list arg }.
Definition sline := (sstmt * list (sep * sstmt))%type.

Inductive item := IArg (a : arg) | IBlock (pad : bool) (body : sline).
Record stmt := mk_stmt { st_name : list N; st_items : list item }.
Definition line := (stmt * list (sep * stmt))%type.

(* ---- rendering ---- *)
Definition render_arg (a : arg) : list N :=
  match a_quote a with
  | QNone => a_text a
  | QSingle => 39 :: a_text a ++ [39]
  | QDouble => 34 :: a_text a ++ [34]
  end.

Definition sep_token (k : sepk) : list N :=
  match k with
  | SSemi => [59] | SPipe => [124] | SArrow => [45; 62] | SAnd => [38; 38] | SOr => [124; 124]
  end.
Definition sp (b : bool) : list N := if b then [32] else [].
Definition render_sep (s : sep) : list N := sp (s_before s) ++ sep_token (s_k s) ++ sp (s_after s).

Definition render_sstmt (s : sstmt) : list N :=
  ss_name s ++ concat (map (fun a => 32 :: render_arg a) (ss_args s)).

Fixpoint render_tail {A} (f : A -> list N) (l : list (sep * A)) : list N :=
  match l with
  | [] => []
  | (s, x) :: l' => render_sep s ++ f x ++ render_tail f l'
  end.

Definition render_sline (l : sline) : list N :=
  render_sstmt (fst l) ++ render_tail render_sstmt (snd l).

Definition render_item (it : item) : list N :=
  match it with
  | IArg a => render_arg a
  | IBlock pad body => 123 :: sp pad ++ render_sline body ++ sp pad ++ [125]
  end.

Definition render_stmt (s : stmt) : list N :=
  st_name s ++ concat (map (fun it => 32 :: render_item it) (st_items s)).

Definition render_line (l : line) : list N :=
  render_stmt (fst l) ++ render_tail render_stmt (snd l).

(* ---- what is executed ---- *)
Definition sline_cmds (l : sline) : list (list N) :=
  ss_name (fst l) :: map (fun p => ss_name (snd p)) (snd l).

Definition item_cmds (it : item) : list (list N) :=
  match it with IArg _ => [] | IBlock _ body => sline_cmds body end.

Definition stmt_cmds (s : stmt) : list (list N) :=
  st_name s :: concat (map item_cmds (st_items s)).

Definition commands_of (l : list stmt) : list (list N) := concat (map stmt_cmds l).

Definition stmts (l : line) : list stmt := fst l :: map snd (snd l).
Definition commands (l : line) : list (list N) := commands_of (stmts l).

(* the text completion would run: everything before the last separator *)
Definition prefix_to_last_flow (l : line) : list stmt := removelast (stmts l).

(* ---- well-formedness ---- *)
Definition word_ok (w : list N) : bool := negb (match w with [] => true | _ => false end) && forallb is_alpha w.
Definition literal_word (w : list N) : bool :=
  runes_eqb w [116;114;117;101] || runes_eqb w [102;97;108;115;101] || runes_eqb w [110;117;108;108].
(* true / false / null alone are expression literals for the block parser, not commands *)
Definition name_ok (w : list N) : bool := word_ok w && negb (literal_word w).
Definition arg_ok (a : arg) : bool :=
  match a_quote a with QNone => word_ok (a_text a) | _ => forallb is_qchar (a_text a) end.
Definition sstmt_ok (s : sstmt) : bool := name_ok (ss_name s) && forallb arg_ok (ss_args s).
Definition sline_ok (l : sline) : bool := sstmt_ok (fst l) && forallb (fun p => sstmt_ok (snd p)) (snd l).
Definition item_ok (it : item) : bool :=
  match it with IArg a => arg_ok a | IBlock _ body => sline_ok body end.
Definition stmt_ok (s : stmt) : bool := name_ok (st_name s) && forallb item_ok (st_items s).
Definition line_ok (l : line) : bool := stmt_ok (fst l) && forallb (fun p => stmt_ok (snd p)) (snd l).

(* ---- the tokenizer seen from above ---- *)
Inductive mode :=
| MCmd                 (* a command name is expected *)
| MName (n : list N)   (* reading the command name n *)
| MArgs                (* after the name: parameters *)
| MSq | MDq.           (* inside '...' / "..." *)

(* one rune: next mode, names looked up in the safe list, extra runes consumed *)
Definition astep (m : mode) (prev : option N) (c : N) (tl : list N)
  : option (mode * list (list N) * nat) :=
  let pipe := (c =? 124) && negb (next_is tl 62) in
  let andand := (c =? 38) && next_is tl 38 in
  let arrow_end := (c =? 62) && prev_is prev 45 in
  match m with
  | MCmd =>
      if is_alpha c then Some (MName [c], [], 0%nat)
      else if c =? 32 then Some (MCmd, [], 0%nat)
      else if pipe then Some (MCmd, [], 0%nat)
      else None
  | MName n =>
      if is_alpha c then Some (MName (n ++ [c]), [], 0%nat)
      else if c =? 32 then Some (MArgs, [n], 0%nat)
      else if c =? 59 then Some (MCmd, [n], 0%nat)
      else if pipe then Some (MCmd, [n], 0%nat)
      else if andand then Some (MCmd, [n], 1%nat)
      else if c =? 45 then Some (MName (n ++ [45]), [], 0%nat)
      else if arrow_end then Some (MCmd, [n], 0%nat)
      else if c =? 125 then Some (MName n, [], 0%nat)
      else None
  | MArgs =>
      if is_alpha c then Some (MArgs, [], 0%nat)
      else if c =? 32 then Some (MArgs, [], 0%nat)
      else if c =? 59 then Some (MCmd, [], 0%nat)
      else if pipe then Some (MCmd, [], 0%nat)
      else if andand then Some (MCmd, [], 1%nat)
      else if c =? 45 then Some (MArgs, [], 0%nat)
      else if arrow_end then Some (MCmd, [], 0%nat)
      else if c =? 123 then Some (MCmd, [], 0%nat)
      else if c =? 125 then Some (MArgs, [], 0%nat)
      else if c =? 39 then Some (MSq, [], 0%nat)
      else if c =? 34 then Some (MDq, [], 0%nat)
      else None
  | MSq => if c =? 39 then Some (MArgs, [], 0%nat) else if is_qchar c then Some (MSq, [], 0%nat) else None
  | MDq => if c =? 34 then Some (MArgs, [], 0%nat) else if is_qchar c then Some (MDq, [], 0%nat) else None
  end.

(* the whole text: final mode and every name looked up, in order; None if the text
   leaves the modelled sub-language *)
Fixpoint arun (m : mode) (prev : option N) (l : list N) (acc : list (list N))
  : option (mode * list (list N)) :=
  match l with
  | [] => Some (m, acc)
  | c :: tl =>
      match astep m prev c tl with
      | None => None
      | Some (m', j, O) => arun m' (Some c) tl (acc ++ j)
      | Some (m', j, S _) =>
          match tl with
          | c1 :: tl1 => arun m' (Some c1) tl1 (acc ++ j)
          | [] => None
          end
      end
  end.

(* the token half of Model/Tokenizer.tok_go alone (pos = 0): the ParsedTokens state
   after the loop, before the final Loc++ *)
Fixpoint tgo (prev : option N) (i : Z) (t : tok) (l : list N) : tok :=
  match l with
  | [] => t
  | c :: tl =>
      let r := step 0%Z prev i c tl t in
      match s_kind r with
      | KCont 0 => tgo (Some c) (i + 1)%Z (s_tok r) tl
      | KCont 1 => match tl with c1 :: tl1 => tgo (Some c1) (i + 2)%Z (s_tok r) tl1 | [] => s_tok r end
      | KCont _ => match tl with _ :: c2 :: tl2 => tgo (Some c2) (i + 3)%Z (s_tok r) tl2 | _ => s_tok r end
      | _ => s_tok r
      end
  end.
