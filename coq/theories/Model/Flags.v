(* C24 — model of lang/parameters/flags.go: ParseFlags, and of the `args`
   builtin (builtins/core/management/shell.go: cmdArgs).

   Go being modelled (after the two fixes "fix: args builtin ..." and
   "fix: flag alias loop ..."):

     for i = range params {
         aliases := 0
     scanFlags:
         switch {
         case ignoreFlags:                         additional = append(additional, params[i])
         case HasPrefix(params[i], "-"):
             switch {
             case AllowAdditional && params[i] == "--":   ignoreFlags = true
             case HasPrefix(Flags[params[i]], "-"):       aliases++
                                                          if aliases > len(Flags) { return error }   // alias loop
                                                          params[i] = Flags[params[i]]; goto scanFlags
             case Flags[params[i]] == "bool":             flags.set(params[i], true, "bool")
             case Flags[params[i]] != "":                 previous = params[i]
             case previous != "":                         flags.set(previous, params[i], Flags[previous]) or return error
                                                          previous = ""
             case IgnoreInvalidFlags && AllowAdditional:  additional = append(additional, params[i])
             default:                                     return error            // flag not recognized
             }
         case previous != "":                      flags.set(previous, params[i], Flags[previous]) or return error
                                                   previous = ""
         default:                                  if !AllowAdditional { return error }
                                                   additional = append(additional, params[i])
                                                   if StrictFlagPlacement { ignoreFlags = true }
         }
     }
     if previous != "" { return error }             // flag found without value
     return flags, additional, nil

   The conversion types.ConvertGoType(string, type) (strconv.ParseFloat etc.) is
   NOT modelled: it is a parameter `conv` of every function here. *)
From Murex Require Import Base.Outcome Base.Bytes.

Record argspec := {
  allow_additional : bool;
  ignore_invalid : bool;
  strict_placement : bool;
  table : list (bytes * bytes)      (* Arguments.Flags: flag -> type name or alias target; keys distinct *)
}.

(* Go map lookup: "" when the key is missing *)
Fixpoint lookup (t : list (bytes * bytes)) (p : bytes) : bytes :=
  match t with
  | [] => []
  | (k, v) :: r => if bytes_eqb k p then v else lookup r p
  end.

(* strings.HasPrefix(p, "-") *)
Definition dash (p : bytes) : bool :=
  match p with c :: _ => N.eqb c 45 | [] => false end.

Definition dd : bytes := [45; 45]%N.                    (* "--" *)
Definition ty_bool : bytes := [98; 111; 111; 108]%N.    (* "bool" *)
Definition nonempty (b : bytes) : bool := match b with [] => false | _ :: _ => true end.

(* a converted flag value: Go dynamic type (0 string, 1 int, 2 float64, 3 bool)
   and its canonical text *)
Record fval := { fv_kind : N; fv_text : bytes }.
Definition v_true : fval := {| fv_kind := 3; fv_text := [116; 114; 117; 101]%N |}.  (* true *)

(* types.ConvertGoType(raw string, type name): None = it returned an error *)
Definition conv_t := bytes -> bytes -> option fval.

(* FlagsT.flags as a map kept sorted by key (canonical form of the Go map) *)
Fixpoint bytes_ltb (a b : bytes) : bool :=
  match a, b with
  | [], [] => false
  | [], _ :: _ => true
  | _ :: _, [] => false
  | x :: a', y :: b' => if N.ltb x y then true else if N.ltb y x then false else bytes_ltb a' b'
  end.

Fixpoint set_flag (m : list (bytes * fval)) (k : bytes) (v : fval) : list (bytes * fval) :=
  match m with
  | [] => [(k, v)]
  | (k', v') :: r => if bytes_eqb k' k then (k, v) :: r
                     else if bytes_ltb k k' then (k, v) :: m
                     else (k', v') :: set_flag r k v
  end.

Record pstate := {
  prev : option bytes;                 (* `previous` ("" = None) *)
  flags : list (bytes * fval);
  additional : list bytes;
  ignore : bool                        (* ignoreFlags *)
}.

Definition st_init : pstate := {| prev := None; flags := []; additional := []; ignore := false |}.

Inductive sres := Cont (s : pstate) | Fail (kind : N).
(* error kinds: 1 conversion failed, 2 flag not recognized, 3 parameter without
   a flag, 4 flag without value, 5 alias loop *)

Definition push_additional (s : pstate) (p : bytes) : pstate :=
  {| prev := prev s; flags := flags s; additional := additional s ++ [p]; ignore := ignore s |}.

(* flags.set(previous, p, Flags[previous]); previous = "" *)
Definition give_value (a : argspec) (conv : conv_t) (s : pstate) (pr p : bytes) : sres :=
  match conv (lookup (table a) pr) p with
  | Some v => Cont {| prev := None; flags := set_flag (flags s) pr v;
                      additional := additional s; ignore := ignore s |}
  | None => Fail 1
  end.

(* one iteration of the loop body on parameter p; the `goto scanFlags` is the
   recursive call; fuel = the alias hops still allowed (len(Flags) - aliases) *)
Fixpoint scan (a : argspec) (conv : conv_t) (fuel : nat) (s : pstate) (p : bytes) : sres :=
  if ignore s then Cont (push_additional s p)
  else if dash p then
    if allow_additional a && bytes_eqb p dd then
      Cont {| prev := prev s; flags := flags s; additional := additional s; ignore := true |}
    else if dash (lookup (table a) p) then
      match fuel with
      | O => Fail 5
      | S f => scan a conv f s (lookup (table a) p)
      end
    else if bytes_eqb (lookup (table a) p) ty_bool then
      Cont {| prev := prev s; flags := set_flag (flags s) p v_true;
              additional := additional s; ignore := ignore s |}
    else if nonempty (lookup (table a) p) then
      Cont {| prev := Some p; flags := flags s; additional := additional s; ignore := ignore s |}
    else match prev s with
         | Some pr => give_value a conv s pr p
         | None => if ignore_invalid a && allow_additional a then Cont (push_additional s p)
                   else Fail 2
         end
  else match prev s with
       | Some pr => give_value a conv s pr p
       | None => if allow_additional a then
                   Cont {| prev := None; flags := flags s; additional := additional s ++ [p];
                           ignore := strict_placement a |}
                 else Fail 3
       end.

Fixpoint parse_loop (a : argspec) (conv : conv_t) (s : pstate) (params : list bytes)
  : Outcome (list (bytes * fval) * list bytes) :=
  match params with
  | [] => match prev s with
          | Some _ => Err 4
          | None => Ok (flags s, additional s)
          end
  | p :: rest => match scan a conv (length (table a)) s p with
                 | Cont s' => parse_loop a conv s' rest
                 | Fail k => Err k
                 end
  end.

Definition parse_flags (a : argspec) (conv : conv_t) (params : list bytes) :=
  parse_loop a conv st_init params.

(* ---- the `args` builtin: what ends up in the JSON variable ---- *)
Record args_obs := {
  ao_flags : list (bytes * fval);     (* kind here is the JSON kind: 0 string, 1 number, 2 bool *)
  ao_additional : list bytes;
  ao_error : bool;                    (* Error field non-empty *)
  ao_exit : Z
}.

Definition json_kind (v : fval) : fval :=
  {| fv_kind := match fv_kind v with 0 => 0 | 1 => 1 | 2 => 1 | _ => 2 end%N; fv_text := fv_text v |}.

(*   flagsT, jObj.Additional, err = ParseFlags(params, &args)
     if err != nil { jObj.Error = err.Error(); p.ExitNum = 1 }
     if flagsT != nil { jObj.Flags = flagsT.GetMap() } else { jObj.Flags = {} }     (the fix)   *)
Definition args_builtin (a : argspec) (conv : conv_t) (params : list bytes) : Outcome args_obs :=
  match parse_flags a conv params with
  | Ok (f, ad) => Ok {| ao_flags := map (fun kv => (fst kv, json_kind (snd kv))) f;
                        ao_additional := ad; ao_error := false; ao_exit := 0 |}
  | Err _ => Ok {| ao_flags := []; ao_additional := []; ao_error := true; ao_exit := 1 |}
  | Panic => Panic
  | OutOfFuel => OutOfFuel
  end.
