(* C06 — model of the character-level reader lang/expressions/parse_expression.go
   (parseExpression) for the sub-language the C06/C07 cases are written in:
   blanks, number literals (parse_number.go: digits and '.'), the '-' rule,
   + * / < <= > >= == != && || ?: ??, ( ), 'single quoted strings', true / false / null.

     case '-':
         c := tree.nextChar()
         switch {
         case c >= '0' && '9' >= c:
             if len(tree.ast) == 0 || tree.ast[len(tree.ast)-1].key > symbols.Operations {
                 number (the '-' is the sign of a literal)
             } else { subtract }
         case c == '-' && !(the character after is a digit): MinusMinus
         default: subtract }

   Anything outside the sub-language makes the reader give up (None). No proofs here. *)
From Coq Require Import List NArith ZArith Bool Floats.
From Murex Require Import Base.Outcome Base.Bytes Model.Expr.
Import ListNotations.
Open Scope N_scope.

Inductive ltok :=
| LNum (text : bytes)
| LStr (s : bytes)
| LBool (b : bool)
| LNull
| LOp (o : sym)
| LGroup (sub : list ltok).

Definition is_digit (c : N) : bool := (48 <=? c) && (c <=? 57).
Definition is_blank (c : N) : bool := (c =? 32) || (c =? 9) || (c =? 13).
Definition is_bare (c : N) : bool :=
  (c =? 95) || (c =? 46) || ((97 <=? c) && (c <=? 122)) || ((65 <=? c) && (c <=? 90)) || is_digit c.

(* parseNumber: the first character is taken as is, then digits and '.' *)
Fixpoint span_while (p : N -> bool) (s : bytes) : bytes * bytes :=
  match s with
  | c :: r => if p c then let '(a, b) := span_while p r in (c :: a, b) else ([], s)
  | [] => ([], [])
  end.
Definition num_char (c : N) : bool := is_digit c || (c =? 46).

Fixpoint span_until (q : N) (s : bytes) : option (bytes * bytes) :=
  match s with
  | c :: r => if c =? q then Some ([], r)
              else match span_until q r with Some (a, b) => Some (c :: a, b) | None => None end
  | [] => None
  end.

(* `len(tree.ast) == 0 || last.key > Operations`: nothing yet, or an operator *)
Definition sign_position (acc : list ltok) : bool :=
  match acc with
  | [] => true
  | LOp _ :: _ => true
  | _ => false
  end.

Definition s_true_w : bytes := [116; 114; 117; 101].
Definition s_false_w : bytes := [102; 97; 108; 115; 101].
Definition s_null_w : bytes := [110; 117; 108; 108].

(* acc: tokens read so far, most recent first; sub: inside ( ) *)
Fixpoint lex (fuel : nat) (s : bytes) (acc : list ltok) (sub : bool) : option (list ltok * bytes) :=
  match fuel with
  | O => None
  | S f =>
    match s with
    | [] => if sub then None else Some (rev acc, [])
    | c :: r =>
      if is_blank c then lex f r acc sub
      else if c =? 40 (* ( *) then
        match lex f r [] true with
        | Some (g, r') => lex f r' (LGroup g :: acc) sub
        | None => None
        end
      else if c =? 41 (* ) *) then (if sub then Some (rev acc, r) else None)
      else if is_digit c then
        let '(t, r') := span_while num_char r in lex f r' (LNum (c :: t) :: acc) sub
      else if c =? 45 (* - *) then
        match r with
        | d :: r1 =>
          if is_digit d then
            if sign_position acc then
              let '(t, r') := span_while num_char r1 in lex f r' (LNum (c :: d :: t) :: acc) sub
            else lex f r (LOp Sub :: acc) sub
          else if (d =? 61) || (d =? 62) then None            (* -= and -> : outside *)
          else if d =? 45 then
            match r1 with
            | e :: _ => if is_digit e then lex f r (LOp Sub :: acc) sub else None   (* -- : outside *)
            | [] => None
            end
          else lex f r (LOp Sub :: acc) sub
        | [] => lex f r (LOp Sub :: acc) sub
        end
      else if c =? 43 (* + *) then
        match r with
        | d :: _ => if (d =? 61) || (d =? 43) then None else lex f r (LOp Add :: acc) sub
        | [] => lex f r (LOp Add :: acc) sub
        end
      else if c =? 42 (* * *) then
        match r with
        | d :: _ => if d =? 61 then None else lex f r (LOp Mul :: acc) sub
        | [] => lex f r (LOp Mul :: acc) sub
        end
      else if c =? 47 (* / *) then
        match r with
        | d :: _ => if (d =? 61) || (d =? 35) then None else lex f r (LOp Div :: acc) sub
        | [] => lex f r (LOp Div :: acc) sub
        end
      else if c =? 60 (* < *) then
        match r with
        | d :: r1 => if d =? 61 then lex f r1 (LOp Le :: acc) sub
                     else if d =? 126 then None else lex f r (LOp Lt :: acc) sub
        | [] => lex f r (LOp Lt :: acc) sub
        end
      else if c =? 62 (* > *) then
        match r with
        | d :: r1 => if d =? 61 then lex f r1 (LOp Ge :: acc) sub
                     else if d =? 62 then None else lex f r (LOp Gt :: acc) sub
        | [] => lex f r (LOp Gt :: acc) sub
        end
      else if c =? 61 (* = *) then
        match r with
        | d :: r1 => if d =? 61 then lex f r1 (LOp Eq :: acc) sub else None
        | [] => None
        end
      else if c =? 33 (* ! *) then
        match r with
        | d :: r1 => if d =? 61 then lex f r1 (LOp Ne :: acc) sub else None
        | [] => None
        end
      else if c =? 38 (* & *) then
        match r with
        | d :: r1 => if d =? 38 then lex f r1 (LOp And :: acc) sub else None
        | [] => None
        end
      else if c =? 124 (* | *) then
        match r with
        | d :: r1 => if d =? 124 then lex f r1 (LOp Or :: acc) sub else None
        | [] => None
        end
      else if c =? 63 (* ? *) then
        match r with
        | d :: r1 => if d =? 63 then lex f r1 (LOp NullCo :: acc) sub
                     else if d =? 58 then lex f r1 (LOp Elvis :: acc) sub else None
        | [] => None
        end
      else if c =? 39 (* ' *) then
        match span_until 39 r with
        | Some (str, r') => lex f r' (LStr str :: acc) sub
        | None => None
        end
      else if is_bare c then
        let '(w, r') := span_while is_bare (c :: r) in
        if bytes_eqb w s_true_w then lex f r' (LBool true :: acc) sub
        else if bytes_eqb w s_false_w then lex f r' (LBool false :: acc) sub
        else if bytes_eqb w s_null_w then lex f r' (LNull :: acc) sub
        else None
      else None
    end
  end.

Definition lex_expr (s : bytes) : option (list ltok) :=
  match lex (S (length s)) s [] false with
  | Some (ts, _) => Some ts
  | None => None
  end.

(* tokens -> the machine's input; a number literal's value is strconv.ParseFloat
   of its text (observed table). Result: None = outside the model / table gap,
   Some None = the literal does not parse (Go: error), Some (Some ts). *)
Definition lit_value (orc : oracles) (text : bytes) : option (option float) :=
  lookup_parse (or_parse orc) text.

Fixpoint ltok_to_ptok (orc : oracles) (t : ltok) : option (option ptok) :=
  match t with
  | LNum text => match lit_value orc text with
                 | Some (Some f) => Some (Some (PV (VNum f)))
                 | Some None => Some None
                 | None => None
                 end
  | LStr s => Some (Some (PV (VStr s)))
  | LBool b => Some (Some (PV (VBool b)))
  | LNull => Some (Some (PV VNull))
  | LOp o => Some (Some (PO o))
  | LGroup sub =>
    match (fix go (l : list ltok) : option (option (list ptok)) :=
             match l with
             | [] => Some (Some [])
             | x :: r =>
               match ltok_to_ptok orc x, go r with
               | Some (Some p), Some (Some ps) => Some (Some (p :: ps))
               | None, _ => None
               | _, None => None
               | _, _ => Some None
               end
             end) sub with
    | Some (Some ps) => Some (Some (PP ps))
    | Some None => Some None
    | None => None
    end
  end.

Definition ltoks_to_ptoks (orc : oracles) (l : list ltok) : option (option (list ptok)) :=
  match ltok_to_ptok orc (LGroup l) with
  | Some (Some (PP ps)) => Some (Some ps)
  | Some _ => Some None
  | None => None
  end.

(* evaluation from source text: kind 0 value / 1 error as in obs_of; None = outside the model *)
Definition eval_src (orc : oracles) (src : bytes) : option (Outcome value) :=
  match lex_expr src with
  | None => None
  | Some lt =>
    match ltoks_to_ptoks orc lt with
    | None => None
    | Some None => Some (Err 1)
    | Some (Some ts) => Some (eval_expr orc ts)
    end
  end.
