(* C15 — model of the array codecs (stdio.WriteArray / ReadArray /
   ReadArrayWithType) of the data types str, generic (`*`), json and jsonl, and
   of foreach's iteration over ReadArrayWithType.

   Go being modelled:
     str     writer  builtins/types/string/array_write.go   Writeln(b)  per element
             reader  builtins/types/string/array_read.go    bufio.Scanner lines, bytes.TrimSpace
     jsonl   writer/reader builtins/types/jsonlines/array.go  same shape as str
     generic writer  builtins/types/generic/array_write.go  fmt.Fprintln into a text/tabwriter
             reader  builtins/types/generic/array_read.go   bufio.Scanner lines, verbatim
     json    writer  builtins/types/json/array_write.go     collect strings, utils/json.Marshal on Close
             reader  builtins/types/json/array_read.go      lang.ArrayTemplate: ReadAll, Unmarshal, callback per string
     foreach builtins/core/structs/foreach.go  cmdForEachDefault / forEachInnerLoop

   bufio.Scanner (ScanLines): tokens are the text between newlines, one trailing
   \r dropped; a final line without newline is a token if non-empty; a line of
   65536 bytes or more ends the scan with ErrTooLong (bufio.MaxScanTokenSize),
   the tokens before it having been delivered.

   Executable definitions only. *)
From Murex Require Import Base.Outcome Base.Bytes Model.ByteStr.

Local Open Scope N_scope.

Inductive ty :=
| TStr | TGeneric | TJson | TJsonl
| TYaml | TPaths
| TOther (id : N).   (* path (file-system dependent: os.Stat, path.Clean) and xml: correspondence only *)

(* ---- line writers ---- *)
Fixpoint write_lines (xs : list bytes) : bytes :=
  match xs with
  | [] => []
  | x :: r => x ++ 10 :: write_lines r
  end.

(* ---- bufio.Scanner with ScanLines ---- *)
Fixpoint split_lines (b : bytes) : list bytes :=
  match b with
  | [] => []
  | c :: b' =>
    if c =? 10 then [] :: split_lines b'
    else match split_lines b' with
         | [] => [[c]]
         | l :: ls => (c :: l) :: ls
         end
  end.

Definition drop_cr (l : bytes) : bytes :=
  match frev l with
  | 13 :: r => frev r
  | _ => l
  end.

Definition max_token : N := 65536.
Definition too_long (l : bytes) : bool := max_token <=? N.of_nat (length l).

(* tokens delivered to the callback, and whether the scan ended with an error *)
Fixpoint scan_deliver (ls : list bytes) : list bytes * bool :=
  match ls with
  | [] => ([], false)
  | l :: r =>
    if too_long l then ([], true)
    else let '(d, e) := scan_deliver r in (drop_cr l :: d, e)
  end.
Definition scan_lines (b : bytes) : list bytes * bool := scan_deliver (split_lines b).

(* ---- readers of the line types: callback sequence, error flag ---- *)
Definition read_generic (b : bytes) : list bytes * bool := scan_lines b.
Definition read_str (b : bytes) : list bytes * bool :=
  let '(d, e) := scan_lines b in (map trim_space d, e).
Definition read_jsonl (b : bytes) : list bytes * bool := read_str b.

(* ---- json ---- *)
(* encoding/json writes every byte that is not part of a valid UTF-8 encoding
   as �, which reads back as EF BF BD *)
Definition sanitize_char (ch : bytes) : bytes :=
  match ch with
  | [c] => if c <? 128 then ch else [239; 191; 189]
  | _ => ch
  end.
Definition sanitize (b : bytes) : bytes := concat (map sanitize_char (chars b)).

(* utils.CrLfTrim: one trailing \n, then one trailing \r *)
Definition crlf_trim (b : bytes) : bytes :=
  let b1 := match frev b with 10 :: r => frev r | _ => b end in
  match frev b1 with 13 :: r => frev r | _ => b1 end.

Section Json.
  (* encoding/json on []string, as used through utils/json.Marshal / Unmarshal *)
  Variable jenc : list bytes -> bytes.
  Variable jdec : bytes -> option (list bytes).

  (* json arrayWriter.Close: a nil slice marshals to `null`, which utils/json
     turns into the error "no data returned"; nothing is written *)
  Definition write_json (xs : list bytes) : bytes * bool :=
    match xs with [] => ([], true) | _ => (jenc xs, false) end.

  (* lang.ArrayTemplate *)
  Definition read_json (b : bytes) : list bytes * bool :=
    match crlf_trim b with
    | [] => ([], false)
    | _ => match jdec b with Some xs => (xs, false) | None => ([], true) end
    end.
End Json.

(* ---- the tabwriter of the generic writer ---- *)
(* text/tabwriter (flags 0, padding 2) passes text through unchanged except for
   its controls: \t and \v end a cell (the byte is replaced by padding: outside
   the model), \f ends the line like \n (written as \n), and 0xff opens an
   escaped segment in which nothing is interpreted (bytes unchanged; never closed
   by the writer, so it lasts to the end of the stream). *)
Definition tab_special (c : N) : bool := (c =? 9) || (c =? 11).
Definition tab_free (x : bytes) : bool := negb (existsb tab_special x).
Definition has_byte (c : N) (x : bytes) : bool := existsb (N.eqb c) x.
Definition ff_to_nl (x : bytes) : bytes := map (fun c => if c =? 12 then 10 else c) x.

(* Some bytes, or None where the model does not follow the tabwriter *)
Definition write_generic (xs : list bytes) : option bytes :=
  if negb (forallb tab_free xs) then None
  else if existsb (has_byte 255) xs && existsb (has_byte 12) xs then None
  else if existsb (has_byte 255) xs then Some (write_lines xs)
  else Some (write_lines (map ff_to_nl xs)).

(* ---- paths (PATH-like lists): builtins/types/paths ---- *)
(* writer: strings.Join(elements, ":") on Close; reader: bytes.Split(all, ":") *)
Fixpoint join_colon (xs : list bytes) : bytes :=
  match xs with
  | [] => []
  | [x] => x
  | x :: r => x ++ 58 :: join_colon r
  end.
Fixpoint split_colon (b : bytes) : list bytes :=
  match b with
  | [] => [[]]
  | c :: b' =>
    if c =? 58 then [] :: split_colon b'
    else match split_colon b' with
         | l :: ls => (c :: l) :: ls
         | [] => [[c]]
         end
  end.

(* ---- yaml (after the fix: every element is written as `- ` + the YAML
   encoder's string scalar) ---- *)
Section Yaml.
  Variable yscalar : bytes -> bytes.                 (* yaml.Marshal(string), ends with \n *)
  Variable ydec : bytes -> option (list bytes).      (* yaml.Unmarshal into any -> []any of strings *)
  Fixpoint write_yaml (xs : list bytes) : bytes :=
    match xs with [] => [] | x :: r => 45 :: 32 :: yscalar x ++ write_yaml r end.
  Definition read_yaml (b : bytes) : list bytes * bool :=
    match crlf_trim b with
    | [] => ([], false)
    | _ => match ydec b with Some xs => (xs, false) | None => ([], true) end
    end.
End Yaml.

(* ---- write then read, per type: Some (callback sequence, writer error, reader error) ---- *)
Definition roundtrip (t : ty) (xs : list bytes) : option (list bytes * bool * bool) :=
  match t with
  | TStr | TJsonl => let '(d, e) := read_str (write_lines xs) in Some (d, false, e)
  | TGeneric =>
    match write_generic xs with
    | Some b => let '(d, e) := read_generic b in Some (d, false, e)
    | None => None
    end
  | TJson => Some (map sanitize xs, match xs with [] => true | _ => false end, false)
  | TYaml => Some (xs, false, false)
  | TPaths => Some (split_colon (join_colon xs), false, false)
  | TOther _ => None
  end.

(* ---- foreach ---- *)
(* cmdForEachDefault calls forEachInnerLoop once per element delivered by
   ReadArrayWithType; forEachInnerLoop returns before running the block when the
   element converted to bytes is empty.  foreach_bound: the values the variable
   is bound to, one per run of the block. *)
Definition foreach_bound (delivered : list bytes) : list bytes :=
  filter (fun x => match x with [] => false | _ => true end) delivered.

(* What the block `{ out "[$e]" }` prints between the brackets for a bound
   value: expanding $e into a string parameter drops one trailing \n and one
   trailing \r (utils.CrLfTrimString in lang/expressions/variables.go) and goes
   through []rune, which turns bytes that are not valid UTF-8 into U+FFFD. *)
Definition expand_var (x : bytes) : bytes := sanitize (crlf_trim x).
Definition foreach_seen (delivered : list bytes) : list bytes :=
  map expand_var (foreach_bound delivered).

(* ---- compact element literals of the cases files ---- *)
Inductive chunk := Lit (b : bytes) | Rep (c n : N).
Definition expand_chunk (k : chunk) : bytes :=
  match k with Lit b => b | Rep c n => N.iter n (cons c) [] end.
Definition expand (e : list chunk) : bytes := concat (map expand_chunk e).
