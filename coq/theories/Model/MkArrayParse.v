(* C18 — executable model of mkarray's byte-level front end.

   Go code modelled (paths relative to /repo):
     builtins/core/mkarray/mkarray.go   parseExpression: the byte loop (escape, `,`, `[`, `]`, `.`,
                                        default) building `nodes`, the bracket errors, the final
                                        "missing closing bracket" test, and the grouping loop
     builtins/core/mkarray/array_str.go writeArrayString's reading of a group's nodes (template /
                                        variable[l]) = [to_expr]
     builtins/core/mkarray/range.go     strings.Split(data, "..") and the "too many / too few" tests
     builtins/core/mkarray/array_num.go rxIsNumberArray (as a DFA), isNumberArray, writeArrayNumber,
                                        rangeToArrayNumber: `ja` writes numbers when the whole
                                        expression is one [..] of digit strings and digit ranges

   No slice is indexed by the parser: nodes are only appended to. No proofs here. *)
From Murex Require Export Base.Outcome Base.Bytes Model.Decimal Model.MkArray.
Open Scope Z_scope.

Inductive ntype := NString | NOpen | NClose | NSep | NRange.
Record node := { n_data : bytes; n_type : ntype }.

Definition E_NESTED_OPEN : N := 10%N.
Definition E_CLOSE_WITHOUT_OPEN : N := 11%N.
Definition E_MISSING_CLOSE : N := 12%N.
Definition E_NUM : N := 13%N.
Definition E_NODATA : N := 14%N.

(* the loop variables of parseExpression; ps_done = nodes[:len-1] reversed,
   ps_cur / ps_rng = data (reversed) and type of the node being filled *)
Record pstate := {
  ps_esc : bool; ps_open : bool; ps_dots : bool;
  ps_done : list node; ps_cur : bytes; ps_rng : bool }.

Definition fin (cur : bytes) (rng : bool) : node :=
  {| n_data := rev cur; n_type := if rng then NRange else NString |}.

Definition marker (b : N) (t : ntype) : node := {| n_data := [b]; n_type := t |}.

(* append b to the current node *)
Definition put (st : pstate) (b : N) (esc dots : bool) : pstate :=
  {| ps_esc := esc; ps_open := ps_open st; ps_dots := dots;
     ps_done := ps_done st; ps_cur := b :: ps_cur st; ps_rng := ps_rng st |}.

(* nodes = append(nodes, ast{marker}, ast{}) *)
Definition push (st : pstate) (b : N) (t : ntype) (open : bool) : pstate :=
  {| ps_esc := false; ps_open := open; ps_dots := false;
     ps_done := marker b t :: fin (ps_cur st) (ps_rng st) :: ps_done st;
     ps_cur := []; ps_rng := false |}.

Definition parse_step (st : pstate) (b : N) : Outcome pstate :=
  if (b =? 92)%N then                                   (* '\\' *)
    Ok (if ps_esc st then put st b false false
        else {| ps_esc := true; ps_open := ps_open st; ps_dots := false;
                ps_done := ps_done st; ps_cur := ps_cur st; ps_rng := ps_rng st |})
  else if (b =? 44)%N then                              (* ',' *)
    Ok (if ps_esc st then put st b false false else push st b NSep (ps_open st))
  else if (b =? 91)%N then                              (* '[' *)
    if ps_esc st then Ok (put st b false false)
    else if ps_open st then Err E_NESTED_OPEN
    else Ok (push st b NOpen true)
  else if (b =? 93)%N then                              (* ']' *)
    if ps_esc st then Ok (put st b false false)
    else if ps_open st then Ok (push st b NClose false)
    else Err E_CLOSE_WITHOUT_OPEN
  else if (b =? 46)%N then                              (* '.': escaped and dots are NOT reset *)
    if ps_open st then
      Ok {| ps_esc := ps_esc st; ps_open := true; ps_dots := negb (ps_dots st);
            ps_done := ps_done st; ps_cur := b :: ps_cur st;
            ps_rng := ps_rng st || ps_dots st |}
    else Ok (put st b (ps_esc st) (ps_dots st))
  else Ok (put st b false false).

Fixpoint feed (st : pstate) (s : bytes) : Outcome pstate :=
  match s with
  | [] => Ok st
  | b :: r => obind (parse_step st b) (fun st' => feed st' r)
  end.

Definition pstart : pstate :=
  {| ps_esc := false; ps_open := false; ps_dots := false; ps_done := []; ps_cur := []; ps_rng := false |}.

Definition parse_nodes (raw : bytes) : Outcome (list node) :=
  obind (feed pstart raw) (fun st =>
    if ps_open st then Err E_MISSING_CLOSE
    else Ok (rev (fin (ps_cur st) (ps_rng st) :: ps_done st))).

(* strings.Split(s, "..") *)
Fixpoint split_dd_go (cur : bytes) (s : bytes) : list bytes :=
  match s with
  | [] => [rev cur]
  | b :: r =>
      match r with
      | c :: r' => if (b =? 46)%N && (c =? 46)%N then rev cur :: split_dd_go [] r'
                   else split_dd_go (b :: cur) r
      | [] => split_dd_go (b :: cur) r
      end
  end.
Definition split_dd (s : bytes) : list bytes := split_dd_go [] s.

Definition range_elem (d : bytes) : elem :=
  match split_dd d with
  | [lo; hi] => ERange lo hi
  | _ => EBad d
  end.

(* the grouping loop of parseExpression fused with writeArrayString's reading of
   a group: strings outside brackets are template text, strings and ranges inside
   are appended to the block's variable list, separators outside start a new group.
   t_blk, t_grp, t_groups are kept reversed. *)
Record tstate := { t_open : bool; t_blk : list elem; t_grp : list seg; t_groups : list group }.

Definition tstep (st : tstate) (n : node) : tstate :=
  match n_type n with
  | NString =>
      if t_open st then
        {| t_open := true; t_blk := EStr (n_data n) :: t_blk st; t_grp := t_grp st; t_groups := t_groups st |}
      else match n_data n with
           | [] => st
           | d => {| t_open := false; t_blk := t_blk st; t_grp := SLit d :: t_grp st; t_groups := t_groups st |}
           end
  | NRange =>
      {| t_open := t_open st; t_blk := range_elem (n_data n) :: t_blk st; t_grp := t_grp st; t_groups := t_groups st |}
  | NOpen => {| t_open := true; t_blk := []; t_grp := t_grp st; t_groups := t_groups st |}
  | NClose => {| t_open := false; t_blk := []; t_grp := SBlock (rev (t_blk st)) :: t_grp st; t_groups := t_groups st |}
  | NSep =>
      if t_open st then st
      else {| t_open := false; t_blk := t_blk st; t_grp := []; t_groups := rev (t_grp st) :: t_groups st |}
  end.

Definition tinit : tstate := {| t_open := false; t_blk := []; t_grp := []; t_groups := [] |}.

Definition tfinish (st : tstate) : expr := rev (rev (t_grp st) :: t_groups st).

Definition to_expr (ns : list node) : expr := tfinish (fold_left tstep ns tinit).

Definition parse_expr (raw : bytes) : Outcome expr :=
  obind (parse_nodes raw) (fun ns => Ok (to_expr ns)).

(* ---------- the canonical spelling ---------- *)

Definition print_elem (e : elem) : bytes :=
  match e with
  | EStr s => s
  | ERange lo hi => lo ++ [46; 46]%N ++ hi
  | EBad d => d
  end.

Fixpoint print_elems (es : list elem) : bytes :=
  match es with
  | [] => []
  | [e] => print_elem e
  | e :: r => print_elem e ++ 44%N :: print_elems r
  end.

Definition print_seg (s : seg) : bytes :=
  match s with
  | SLit s => s
  | SBlock es => 91%N :: print_elems es ++ [93%N]
  end.

Definition print_group (g : group) : bytes := flat_map print_seg g.

Fixpoint print_expr (e : expr) : bytes :=
  match e with
  | [] => []
  | [g] => print_group g
  | g :: r => print_group g ++ 44%N :: print_expr r
  end.

(* ---------- `ja`: the number array ---------- *)

(* rxIsNumberArray = ^\[([0-9]+\.\.[0-9]+|[0-9]+|,)+\]$ as a DFA over the body *)
Inductive rxs := RStart | RSep | RDig | RDot1 | RDot2 | RB1 | RB2 | RFail.

Definition rx_step (s : rxs) (b : N) : rxs :=
  if is_digit b then
    match s with
    | RStart | RSep | RDig => RDig
    | RDot2 => RB1
    | RB1 | RB2 => RB2
    | _ => RFail
    end
  else if (b =? 44)%N then
    match s with
    | RStart | RSep | RDig | RB1 | RB2 => RSep
    | _ => RFail
    end
  else if (b =? 46)%N then
    match s with
    | RDig | RB2 => RDot1
    | RDot1 => RDot2
    | _ => RFail
    end
  else RFail.

Definition rx_accept (s : rxs) : bool :=
  match s with RSep | RDig | RB1 | RB2 => true | _ => false end.

Definition is_number_expr (raw : bytes) : bool :=
  match raw with
  | 91%N :: r =>
      match rev r with
      | 93%N :: body_rev => rx_accept (fold_left rx_step (rev body_rev) RStart)
      | _ => false
      end
  | _ => false
  end.

Definition lead_zero (s : bytes) : bool :=
  match s with 48%N :: _ :: _ => true | _ => false end.

(* writeArrayNumber over the block's elements. Ok None = "not a number array
   after all": mkArray falls back to the string array. *)
Fixpoint number_elems (es : list elem) (acc : list bytes) : Outcome (option (list bytes)) :=
  match es with
  | [] => match acc with
          | [] => Err E_NODATA                (* json marshaller on a nil []int *)
          | _ => Ok (Some (rev acc))
          end
  | EStr [] :: r => number_elems r acc        (* len(Data) == 0: continue *)
  | EStr s :: r =>
      if lead_zero s then Ok None
      else match atoi s with
           | Some z => number_elems r (itoa z :: acc)
           | None => Err E_NUM
           end
  | ERange lo hi :: r =>
      if lead_zero lo || lead_zero hi then Ok None
      else match atoi lo, atoi hi with
           | Some m, Some n =>
               let l := if m <? n then map (fun k => itoa (m + Z.of_nat k)) (seq 0 (Z.to_nat (n - m + 1)))
                        else map (fun k => itoa (m - Z.of_nat k)) (seq 0 (Z.to_nat (m - n + 1))) in
               number_elems r (rev l ++ acc)
           | _, _ => Ok None
           end
  | EBad _ :: _ => Err E_RANGE_KIND
  end.

(* mkArray *)
Definition run_expr (ja : bool) (raw : bytes) : Outcome (list bytes) :=
  if ja && is_number_expr raw then
    obind (parse_expr raw) (fun e =>
      match e with
      | [[SBlock es]] =>
          match number_elems es [] with
          | Ok (Some l) => Ok l
          | Ok None => expand e
          | Err k => Err k
          | Panic => Panic
          | OutOfFuel => OutOfFuel
          end
      | _ => expand e
      end)
  else obind (parse_expr raw) expand.
