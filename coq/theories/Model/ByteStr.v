(* Byte-string helpers shared by the models of C15 (array codecs), C38 (list
   builtins) and C36 (literals): Go's ASCII white space, bytes.TrimSpace,
   bytes.Contains, join, and UTF-8 character boundaries as seen by
   unicode/utf8.DecodeRune.  Executable definitions only. *)
From Murex Require Import Base.Outcome Base.Bytes.

Local Open Scope N_scope.

(* ---- white space ------------------------------------------------------ *)
(* bytes.TrimSpace / strings.TrimSpace remove leading and trailing runes with
   unicode.IsSpace: \t \n \v \f \r space, U+0085, U+00A0 and the other
   White_Space code points U+1680, U+2000..U+200A, U+2028, U+2029, U+202F,
   U+205F, U+3000.  A byte string starts (ends) with such a rune exactly when
   it starts (ends) with the rune's UTF-8 encoding (utf8.DecodeRune /
   DecodeLastRune reject every other byte sequence for it). *)
Definition is_space (c : N) : bool :=
  (c =? 9) || (c =? 10) || (c =? 11) || (c =? 12) || (c =? 13) || (c =? 32).

Definition space_pats : list bytes :=
  [[9]; [10]; [11]; [12]; [13]; [32]; [194; 133]; [194; 160]; [225; 154; 128];
   [226; 128; 128]; [226; 128; 129]; [226; 128; 130]; [226; 128; 131]; [226; 128; 132];
   [226; 128; 133]; [226; 128; 134]; [226; 128; 135]; [226; 128; 136]; [226; 128; 137];
   [226; 128; 138]; [226; 128; 168]; [226; 128; 169]; [226; 128; 175]; [226; 129; 159];
   [227; 128; 128]].

Fixpoint is_prefix (p b : bytes) : bool :=
  match p, b with
  | [], _ => true
  | x :: p', y :: b' => (x =? y) && is_prefix p' b'
  | _ :: _, [] => false
  end.

(* remove one leading pattern, if any *)
Fixpoint strip_any (pats : list bytes) (b : bytes) : option bytes :=
  match pats with
  | [] => None
  | p :: pats' => if is_prefix p b then Some (skipn (length p) b) else strip_any pats' b
  end.

Fixpoint trim_left_fuel (pats : list bytes) (fuel : nat) (b : bytes) : bytes :=
  match fuel with
  | O => b
  | S f => match strip_any pats b with Some b' => trim_left_fuel pats f b' | None => b end
  end.
Definition trim_left_with (pats : list bytes) (b : bytes) : bytes := trim_left_fuel pats (length b) b.

(* linear-time list reversal (List.rev is quadratic); frev l = rev l *)
Definition frev {A} (l : list A) : list A := rev_append l [].

Definition trim_left (b : bytes) : bytes := trim_left_with space_pats b.
Definition trim_right (b : bytes) : bytes := frev (trim_left_with (map (@rev N) space_pats) (frev b)).
Definition trim_space (b : bytes) : bytes := trim_right (trim_left b).

(* ---- searching / joining ---------------------------------------------- *)
(* bytes.Contains(b, p) *)
Fixpoint contains (p b : bytes) : bool :=
  is_prefix p b || match b with [] => false | _ :: b' => contains p b' end.

(* strings.Join(ps, " ") *)
Fixpoint join_sp (ps : list bytes) : bytes :=
  match ps with
  | [] => []
  | [p] => p
  | p :: ps' => p ++ 32 :: join_sp ps'
  end.

(* ---- Go string order: byte-wise lexicographic, a proper prefix first -- *)
Fixpoint bytes_leb (a b : bytes) : bool :=
  match a, b with
  | [], _ => true
  | _ :: _, [] => false
  | x :: a', y :: b' => if x <? y then true else if x =? y then bytes_leb a' b' else false
  end.

(* ---- UTF-8 ------------------------------------------------------------ *)
Definition in_rng (lo hi c : N) : bool := (lo <=? c) && (c <=? hi).

(* size in bytes of the first character of b as utf8.DecodeRune reports it:
   1..4 for a valid encoding, 1 for an invalid or truncated one, 0 for "" *)
Definition rune_size (b : bytes) : nat :=
  match b with
  | [] => 0%nat
  | c :: r =>
    if c <? 128 then 1%nat
    else if in_rng 194 223 c then
      match r with c1 :: _ => if in_rng 128 191 c1 then 2%nat else 1%nat | _ => 1%nat end
    else if in_rng 224 239 c then
      let lo := if c =? 224 then 160 else 128 in
      let hi := if c =? 237 then 159 else 191 in
      match r with
      | c1 :: c2 :: _ => if in_rng lo hi c1 && in_rng 128 191 c2 then 3%nat else 1%nat
      | _ => 1%nat
      end
    else if in_rng 240 244 c then
      let lo := if c =? 240 then 144 else 128 in
      let hi := if c =? 244 then 143 else 191 in
      match r with
      | c1 :: c2 :: c3 :: _ =>
        if in_rng lo hi c1 && in_rng 128 191 c2 && in_rng 128 191 c3 then 4%nat else 1%nat
      | _ => 1%nat
      end
    else 1%nat
  end.

(* b cut into characters (invalid bytes are characters of one byte) *)
Fixpoint chars_fuel (fuel : nat) (b : bytes) : list bytes :=
  match fuel with
  | O => []
  | S f =>
    match b with
    | [] => []
    | _ :: _ => let n := rune_size b in firstn n b :: chars_fuel f (skipn n b)
    end
  end.
Definition chars (b : bytes) : list bytes := chars_fuel (length b) b.
