(* C23 — model of lang/functions.go:
     ParseMxFunctionParameters  (the character machine over 9 contexts)
     murexFuncDetails.castParameters (supplied / default / unset / conversion failure)
   and of the MxFunctions branch of lang/process.go:executeProcess (the body is
   only executed when castParameters returned nil).

   The text is a list of runes (Go: `for i, r := range parameters`), the fields of
   a parameter are lists of runes as well (the harness compares []rune(field)).

   The model is of the code AFTER the four `fix:` commits of C23 (see docs/C23.md):
     D1 a new line directly after a data type ends the type (was: error)
     D2 whitespace between a data type and the comma is allowed (was: error)
     D3 an open bracket outside a default / description is an error (was: silently dropped)
     D4 a second default / description is an error (was: concatenated)          *)
From Murex Require Import Base.Outcome Base.Bytes.
Local Open Scope N_scope.

Record param := {
  p_name : list N; p_type : list N; p_desc : list N; p_default : list N;
  p_hasdef : bool; p_opt : bool }.

Definition empty_param : param :=
  {| p_name := []; p_type := []; p_desc := []; p_default := []; p_hasdef := false; p_opt := false |}.

(* const fpcNameStart .. fpcDefaultEnd *)
Inductive ctx := NameStart | NameRead | TypeStart | TypeRead | DescStart | DescRead
               | DescEnd | DefaultRead | DefaultEnd.

(* s_done: finished parameters, most recent first.  s_hasdesc: local `hasDesc`. *)
Record st := { s_ctx : ctx; s_cur : param; s_done : list param; s_hasdesc : bool }.

Definition init_st : st :=
  {| s_ctx := NameStart; s_cur := empty_param; s_done := []; s_hasdesc := false |}.

Definition set_ctx (s : st) (c : ctx) : st :=
  {| s_ctx := c; s_cur := s_cur s; s_done := s_done s; s_hasdesc := s_hasdesc s |}.
Definition set_cur (s : st) (c : ctx) (p : param) : st :=
  {| s_ctx := c; s_cur := p; s_done := s_done s; s_hasdesc := s_hasdesc s |}.

Definition add_name (p : param) (r : N) : param :=
  {| p_name := p_name p ++ [r]; p_type := p_type p; p_desc := p_desc p; p_default := p_default p;
     p_hasdef := p_hasdef p; p_opt := p_opt p |}.
Definition add_type (p : param) (r : N) : param :=
  {| p_name := p_name p; p_type := p_type p ++ [r]; p_desc := p_desc p; p_default := p_default p;
     p_hasdef := p_hasdef p; p_opt := p_opt p |}.
Definition add_desc (p : param) (r : N) : param :=
  {| p_name := p_name p; p_type := p_type p; p_desc := p_desc p ++ [r]; p_default := p_default p;
     p_hasdef := p_hasdef p; p_opt := p_opt p |}.
Definition add_default (p : param) (r : N) : param :=
  {| p_name := p_name p; p_type := p_type p; p_desc := p_desc p; p_default := p_default p ++ [r];
     p_hasdef := p_hasdef p; p_opt := p_opt p |}.
Definition set_hasdef (p : param) : param :=
  {| p_name := p_name p; p_type := p_type p; p_desc := p_desc p; p_default := p_default p;
     p_hasdef := true; p_opt := p_opt p |}.
Definition set_opt (p : param) : param :=
  {| p_name := p_name p; p_type := p_type p; p_desc := p_desc p; p_default := p_default p;
     p_hasdef := p_hasdef p; p_opt := true |}.
Definition set_type (p : param) (t : list N) : param :=
  {| p_name := p_name p; p_type := t; p_desc := p_desc p; p_default := p_default p;
     p_hasdef := p_hasdef p; p_opt := p_opt p |}.

(* types.String = "str" *)
Definition ty_str : list N := [115; 116; 114].

(* the character classes of the outer `switch r` *)
Inductive cls := CCr | CNl | CWs | CColon | CQuote | COpen | CClose | CComma | CBang | CIdent | COther.

Definition is_ident (r : N) : bool :=
  ((97 <=? r) && (r <=? 122)) || ((65 <=? r) && (r <=? 90)) || ((48 <=? r) && (r <=? 57))
  || (r =? 95) || (r =? 45).

Definition classify_rune (r : N) : cls :=
  if r =? 13 then CCr else if r =? 10 then CNl else
  if (r =? 32) || (r =? 9) then CWs else
  if r =? 58 then CColon else if r =? 34 then CQuote else
  if r =? 91 then COpen else if r =? 93 then CClose else
  if r =? 44 then CComma else if r =? 33 then CBang else
  if is_ident r then CIdent else COther.

(* append to the field the context is reading; None when the context reads no field *)
Definition append_free (s : st) (r : N) : option st :=
  match s_ctx s with
  | DescRead => Some (set_cur s DescRead (add_desc (s_cur s) r))
  | DefaultRead => Some (set_cur s DefaultRead (add_default (s_cur s) r))
  | _ => None
  end.

Definition or_err (o : option st) (k : N) : Outcome st :=
  match o with Some s => Ok s | None => Err k end.

(* mfp = append(mfp, MurexFuncParam{}); counter++; hasDesc = false; context = fpcNameStart *)
Definition push (s : st) (p : param) : st :=
  {| s_ctx := NameStart; s_cur := empty_param; s_done := p :: s_done s; s_hasdesc := false |}.

(* one iteration of the loop. Error kinds: 1 new line, 2 whitespace, 3 colon, 4 quotation mark,
   5 open bracket / other character, 6 close bracket, 7 comma, 12 duplicate description, 13 duplicate default *)
Definition step (s : st) (r : N) : Outcome st :=
  let c := s_ctx s in
  let p := s_cur s in
  match classify_rune r with
  | CCr => Ok s
  | CNl =>
      match c with
      | NameStart | DescStart | DescEnd | DefaultEnd => Ok s
      | TypeRead => Ok (set_ctx s DescStart)
      | _ => Err 1
      end
  | CWs =>
      match c with
      | NameRead => Err 2
      | TypeRead => Ok (set_ctx s DescStart)
      | DescRead => Ok (set_cur s DescRead (add_desc p 32))
      | DefaultRead => Ok (set_cur s DefaultRead (add_default p 32))
      | _ => Ok s
      end
  | CColon =>
      match c with
      | NameRead => Ok (set_ctx s TypeStart)
      | _ => or_err (append_free s r) 3
      end
  | CQuote =>
      match c with
      | DefaultRead => Ok (set_cur s DefaultRead (add_default p r))
      | DescStart => Ok {| s_ctx := DescRead; s_cur := p; s_done := s_done s; s_hasdesc := true |}
      | DescRead => Ok (set_ctx s DescEnd)
      | DefaultEnd =>
          if s_hasdesc s then Err 12
          else Ok {| s_ctx := DescRead; s_cur := p; s_done := s_done s; s_hasdesc := true |}
      | _ => Err 4
      end
  | COpen =>
      match c with
      | DescStart | DescEnd =>
          if p_hasdef p then Err 13 else Ok (set_cur s DefaultRead (set_hasdef p))
      | _ => or_err (append_free s r) 5
      end
  | CClose =>
      match c with
      | DefaultRead => Ok (set_ctx s DefaultEnd)
      | DescRead => Ok (set_cur s DescRead (add_desc p r))
      | _ => Err 6
      end
  | CComma =>
      match c with
      | NameRead => Ok (push s (set_type p ty_str))
      | TypeRead | DescStart | DescEnd | DefaultEnd => Ok (push s p)
      | _ => or_err (append_free s r) 7
      end
  | CBang =>
      match c with
      | NameStart => Ok (set_cur s NameRead (set_opt p))
      | _ => or_err (append_free s r) 5
      end
  | CIdent =>
      match c with
      | NameStart | NameRead => Ok (set_cur s NameRead (add_name p r))
      | TypeStart | TypeRead => Ok (set_cur s TypeRead (add_type p r))
      | _ => or_err (append_free s r) 5
      end
  | COther => or_err (append_free s r) 5
  end.

Fixpoint run (s : st) (t : list N) : Outcome st :=
  match t with
  | [] => Ok s
  | r :: t' => obind (step s r) (fun s' => run s' t')
  end.

(* the `switch context` after the loop: 8 = the text ended where it may not *)
Definition finish (s : st) : Outcome (list param) :=
  match s_ctx s with
  | NameStart | TypeStart | DescRead | DefaultRead => Err 8
  | NameRead => Ok (rev (set_type (s_cur s) ty_str :: s_done s))
  | _ => Ok (rev (s_cur s :: s_done s))
  end.

Definition nonempty (l : list N) : bool := match l with [] => false | _ => true end.

(* mandatory parameters cannot follow optional parameters *)
Fixpoint order_ok_from (seen_opt : bool) (ps : list param) : bool :=
  match ps with
  | [] => true
  | p :: ps' => (p_opt p || negb seen_opt) && order_ok_from (seen_opt || p_opt p) ps'
  end.
Definition order_ok := order_ok_from false.

(* the final `for i := range mfp`: 9 = some check failed *)
Definition validate (ps : list param) : Outcome (list param) :=
  if forallb (fun p => nonempty (p_name p)) ps && forallb (fun p => nonempty (p_type p)) ps && order_ok ps
  then Ok ps else Err 9.

Definition parse_sig (t : list N) : Outcome (list param) :=
  obind (run init_st t) (fun s => obind (finish s) validate).

(* ---- canonical printer:  [!]name: type [default] 'description', ...  (with double quotes) *)
Definition print_param (p : param) : list N :=
  (if p_opt p then [33] else []) ++ p_name p ++ [58; 32] ++ p_type p
  ++ (if p_hasdef p then [32; 91] ++ p_default p ++ [93] else [])
  ++ (if nonempty (p_desc p) then [32; 34] ++ p_desc p ++ [34] else []).

Fixpoint print_sig (ps : list param) : list N :=
  match ps with
  | [] => []
  | [p] => print_param p
  | p :: ps' => print_param p ++ [44; 32] ++ print_sig ps'
  end.

(* ---- the documented grammar as a deterministic automaton over character classes.
   sig     ::= param (COMMA param)*            mandatory parameters before optional ones
   param   ::= S* BANG? NAME ( COLON B* TYPE ( S+ extras )? )?
   extras  ::= e | default S* | desc S* | default S* desc S* | desc S* default S*
   default ::= OPEN (any rune but CLOSE, new line)* CLOSE
   desc    ::= QUOTE (any rune but QUOTE, new line)* QUOTE
   S = space | tab | new line      B = space | tab       CR is ignored everywhere *)
Inductive dstate :=
| QStart          (* before a parameter *)
| QBang           (* after '!' *)
| QName           (* in NAME *)
| QColon          (* after ':' *)
| QType           (* in TYPE *)
| QExtras         (* after TYPE S+ : nothing seen yet *)
| QDef1           (* in the default, no description yet *)
| QDefEnd1        (* after the default, no description yet *)
| QDesc1          (* in the description, no default yet *)
| QDescEnd1       (* after the description, no default yet *)
| QDesc2          (* in the description that follows a default *)
| QDef2           (* in the default that follows a description *)
| QBoth.          (* after both *)

(* second component: an optional parameter has been declared *)
Definition dstep (q : dstate * bool) (c : cls) : option (dstate * bool) :=
  let '(d, so) := q in
  match c with
  | CCr => Some q
  | _ =>
    match d with
    | QStart =>
        match c with
        | CNl | CWs => Some q
        | CBang => Some (QBang, true)
        | CIdent => if so then None else Some (QName, so)
        | _ => None
        end
    | QBang => match c with CIdent => Some (QName, so) | _ => None end
    | QName =>
        match c with
        | CIdent => Some q | CColon => Some (QColon, so) | CComma => Some (QStart, so) | _ => None
        end
    | QColon => match c with CWs => Some q | CIdent => Some (QType, so) | _ => None end
    | QType =>
        match c with
        | CIdent => Some q | CWs | CNl => Some (QExtras, so) | CComma => Some (QStart, so) | _ => None
        end
    | QExtras =>
        match c with
        | CWs | CNl => Some q | COpen => Some (QDef1, so) | CQuote => Some (QDesc1, so)
        | CComma => Some (QStart, so) | _ => None
        end
    | QDef1 => match c with CNl => None | CClose => Some (QDefEnd1, so) | _ => Some q end
    | QDefEnd1 =>
        match c with
        | CWs | CNl => Some q | CQuote => Some (QDesc2, so) | CComma => Some (QStart, so) | _ => None
        end
    | QDesc1 => match c with CNl => None | CQuote => Some (QDescEnd1, so) | _ => Some q end
    | QDescEnd1 =>
        match c with
        | CWs | CNl => Some q | COpen => Some (QDef2, so) | CComma => Some (QStart, so) | _ => None
        end
    | QDesc2 => match c with CNl => None | CQuote => Some (QBoth, so) | _ => Some q end
    | QDef2 => match c with CNl => None | CClose => Some (QBoth, so) | _ => Some q end
    | QBoth => match c with CWs | CNl => Some q | CComma => Some (QStart, so) | _ => None end
    end
  end.

Fixpoint drun (q : dstate * bool) (t : list N) : option (dstate * bool) :=
  match t with
  | [] => Some q
  | r :: t' => match dstep q (classify_rune r) with Some q' => drun q' t' | None => None end
  end.

Definition daccepting (d : dstate) : bool :=
  match d with QName | QType | QExtras | QDefEnd1 | QDescEnd1 | QBoth => true | _ => false end.

Definition doc_accepts (t : list N) : bool :=
  match drun (QStart, false) t with Some (d, _) => daccepting d | None => false end.

(* ---- castParameters ---- *)
(* what is stored for a variable: its data type and its string form *)
Definition value := (list N * list N)%type.
Definition env := list (list N * value).   (* most recent binding first *)

Fixpoint lookup (e : env) (n : list N) : option value :=
  match e with
  | [] => None
  | (k, v) :: e' => if bytes_eqb k n then Some v else lookup e' n
  end.

Definition all_digits (n : list N) : bool := forallb (fun r => (48 <=? r) && (r <=? 57)) n.

(* Variables.set: names that cannot be assigned: all digits (incl. the empty name) and underscore.
   The reserved upper-case words (SELF, ARGS, ENV, ...) are outside the guard of the theorems. *)
Definition reserved (n : list N) : bool := all_digits n || bytes_eqb n [95].

(* where the string of parameter i comes from *)
Inductive source := Supplied (s : list N) | FromDefault (s : list N) | Unset | Prompt.

Definition source_of (p : param) (a : option (list N)) : source :=
  match a with
  | Some s => Supplied s
  | None => if p_opt p then (if p_hasdef p then FromDefault (p_default p) else Unset) else Prompt
  end.

Section Bind.
  (* types.ConvertGoType(s, dataType) followed by the conversion to the variable's string
     form: None = conversion error.  Library behaviour (strconv.ParseFloat ...): a parameter. *)
  Variable conv : list N -> list N -> option (list N).

  (* error kinds: 20 would prompt (mandatory argument missing), 21 cannot convert, 22 cannot set *)
  Fixpoint bind_from (ps : list param) (args : list (list N)) (e : env) : Outcome env :=
    match ps with
    | [] => Ok e
    | p :: ps' =>
        let rest := tl args in
        match source_of p (hd_error args) with
        | Unset => bind_from ps' rest e
        | Prompt => Err 20
        | Supplied s | FromDefault s =>
            match conv (p_type p) s with
            | None => Err 21
            | Some v =>
                if reserved (p_name p) then Err 22
                else bind_from ps' rest ((p_name p, (p_type p, v)) :: e)
            end
        end
    end.

  Definition bind (ps : list param) (args : list (list N)) : Outcome env := bind_from ps args [].

  (* what a call `f args` of `function f (sig) { out BODY; runtime --variables }` shows *)
  Record call_obs := {
    o_body : bool;                          (* the body ran *)
    o_exit_zero : bool;                     (* exit number = 0 *)
    o_vars : list (option value) }.         (* per declared parameter: its variable in the body *)

  Definition call (ps : list param) (args : list (list N)) : Outcome call_obs :=
    match bind ps args with
    | Ok e => Ok {| o_body := true; o_exit_zero := true;
                    o_vars := map (fun p => lookup e (p_name p)) ps |}
    | Err 20 => Err 20
    | _ => Ok {| o_body := false; o_exit_zero := false; o_vars := [] |}
    end.
End Bind.
