(* C31 — model of lang/test_units.go: runTest's verdict, following the code's control flow
   (a `passed` flag that every failing step clears, early `return false` when the function
   itself cannot be run), with testIsArray / testIsMap / testIsGreaterThanOrEqualTo from
   lang/test_compare.go and utBlock / utReadAllErr from lang/test_units_stdio.go.

   Library behaviour enters as functions the verdict is parametric in:
     rx        regexp.Compile(pattern) followed by Match(subject)
     unmarshal lang.UnmarshalData(data, data type), reduced to what the three tests look at.
   Results of running murex code (the function under test, PreBlock, PostBlock, StdoutBlock,
   StderrBlock) are inputs (`actual`).  No proofs in this file. *)
From Murex Require Import Base.Bytes.

Inductive rx_result := RxCompileErr | RxMatch | RxNoMatch.

(* UnmarshalData's answer: error, or a value that is / is not one of the array types
   ([]string, []any), is / is not one of the map types (map[string]string, map[string]any,
   map[any]string, map[any]any), and has / has not a length testIsGreaterThanOrEqualTo knows *)
Inductive shape := ShErr | ShVal (is_arr is_map : bool) (len : option Z).

(* running an auxiliary block: does not compile, or ran with an exit number and some stderr *)
Inductive blk_result := BlkCompileErr | BlkRan (exit : Z) (stderr_empty : bool).

Record plan := {
  p_exit : Z;
  p_out_match : bytes;  p_out_regex : bytes;  p_out_type : bytes;  p_out_block : bytes;
  p_out_is_array : bool; p_out_is_map : bool;  p_out_gt : Z;
  p_err_match : bytes;  p_err_regex : bytes;  p_err_type : bytes;  p_err_block : bytes;
  p_err_is_array : bool; p_err_is_map : bool;
  p_pre : bytes; p_post : bytes
}.

Record actual := {
  a_fn_ran : bool;            (* false: function missing or its block does not compile *)
  a_exit : Z;
  a_stdout : bytes; a_out_type : bytes;
  a_stderr : bytes; a_err_type : bytes;
  a_pre : blk_result; a_post : blk_result;
  a_out_block : blk_result; a_err_block : blk_result
}.

Definition is_empty (b : bytes) : bool := match b with [] => true | _ :: _ => false end.

Section Verdict.
  Variable rx : bytes -> bytes -> rx_result.
  Variable unmarshal : bytes -> bytes -> shape.

  (* lang/test_compare.go *)
  Definition test_is_array (b dt : bytes) : bool :=
    match unmarshal b dt with ShVal a _ _ => a | ShErr => false end.
  Definition test_is_map (b dt : bytes) : bool :=
    match unmarshal b dt with ShVal _ m _ => m | ShErr => false end.
  Definition test_gte (b dt : bytes) (n : Z) : bool :=
    match unmarshal b dt with ShVal _ _ (Some l) => Z.leb n l | _ => false end.

  (* PreBlock / PostBlock: a compile error fails the test; a non-zero exit number is only
     reported; anything on the block's stderr fails the test (utReadAllErr) *)
  Definition aux_block (code : bytes) (r : blk_result) (passed : bool) : bool :=
    if is_empty code then passed
    else match r with
         | BlkCompileErr => false
         | BlkRan _ se => if se then passed else false
         end.

  (* StdoutBlock / StderrBlock (utBlock): compile error, non-zero exit or stderr output fail *)
  Definition check_block (code : bytes) (r : blk_result) (passed : bool) : bool :=
    if is_empty code then passed
    else match r with
         | BlkCompileErr => false
         | BlkRan n se => if Z.eqb n 0 then (if se then passed else false) else false
         end.

  Definition check_regex (pat subj : bytes) (passed : bool) : bool :=
    if is_empty pat then passed
    else match rx pat subj with
         | RxCompileErr => false
         | RxNoMatch => false
         | RxMatch => passed
         end.

  Definition check_type (want got : bytes) (passed : bool) : bool :=
    if is_empty want then passed else if bytes_eqb got want then passed else false.

  Definition verdict (p : plan) (a : actual) : bool :=
    let passed := true in
    let passed := aux_block (p_pre p) (a_pre a) passed in
    if negb (a_fn_ran a) then false else
    let passed := aux_block (p_post p) (a_post a) passed in
    (* exit number *)
    let passed := if Z.eqb (a_exit a) (p_exit p) then passed else false in
    (* stdout *)
    let passed := if p_out_is_array p
                  then (if test_is_array (a_stdout a) (a_out_type a) then passed else false)
                  else passed in
    let passed := if p_out_is_map p
                  then (if test_is_map (a_stdout a) (a_out_type a) then passed else false)
                  else passed in
    let passed := if Z.ltb 0 (p_out_gt p)
                  then (if test_gte (a_stdout a) (a_out_type a) (p_out_gt p) then passed else false)
                  else passed in
    let passed := if is_empty (p_out_match p) then passed
                  else if bytes_eqb (a_stdout a) (p_out_match p) then passed else false in
    let passed := check_regex (p_out_regex p) (a_stdout a) passed in
    let passed := check_block (p_out_block p) (a_out_block a) passed in
    let passed := check_type (p_out_type p) (a_out_type a) passed in
    (* stderr *)
    let passed := if p_err_is_array p
                  then (if test_is_array (a_stderr a) (a_err_type a) then passed else false)
                  else passed in
    let passed := if p_err_is_map p
                  then (if test_is_map (a_stderr a) (a_err_type a) then passed else false)
                  else passed in
    let passed := if bytes_eqb (a_stderr a) (p_err_match p) then passed
                  else if negb (is_empty (p_err_match p)) || is_empty (p_err_regex p)
                       then false else passed in
    let passed := check_regex (p_err_regex p) (a_stderr a) passed in
    let passed := check_block (p_err_block p) (a_err_block a) passed in
    let passed := check_type (p_err_type p) (a_err_type a) passed in
    passed.

  (* UnitTests.Run for one function with one plan: the returned bool and p.ExitNum *)
  Definition run_exit (p : plan) (a : actual) : Z := if verdict p a then 0%Z else 1%Z.
End Verdict.
