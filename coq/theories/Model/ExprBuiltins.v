(* C07 — model of the statement-level users of truthiness:
     builtins/core/structs/if.go      (if, !if)
     builtins/core/structs/andor.go   (and, or, !and, !or)
     builtins/core/structs/while.go   (while, !while; both forms)
     builtins/core/typemgmt/types.go  (cmdNot: `!`)
   Each runs a condition block, reads its stdout and exit number, and calls
   types.IsTrue(stdout, exitNum); p.IsNot (the leading `!` of the command name)
   inverts the decision. A condition block is abstracted to what the builtin
   reads from it. No proofs in this file. *)
From Coq Require Import List NArith ZArith Bool.
From Murex Require Import Base.Outcome Base.Bytes Model.Expr.
Import ListNotations.

Record cond := { cd_out : bytes; cd_exit : Z }.

(* types.IsTrue(b, i) *)
Definition is_true (c : cond) : bool := is_true_string (cd_out c) (cd_exit c).

(* if.go:104  (conditional && !p.IsNot) || (!conditional && p.IsNot) -> then-block *)
Definition b_if (neg : bool) (c : cond) : bool :=
  (is_true c && negb neg) || (negb (is_true c) && neg).

(* andor.go cmdAndOr, isAnd = true: returns (p.ExitNum, number of blocks executed) *)
Fixpoint b_and (neg : bool) (cs : list cond) (n : N) : Z * N :=
  match cs with
  | [] => ((-1)%Z, n)
  | c :: r =>
    if (negb (is_true c) && negb neg) || (is_true c && neg) then (1%Z, N.succ n)
    else b_and neg r (N.succ n)
  end.

(* andor.go cmdAndOr, isAnd = false *)
Fixpoint b_or (neg : bool) (cs : list cond) (n : N) : Z * N :=
  match cs with
  | [] => (1%Z, n)
  | c :: r =>
    if (is_true c && negb neg) || (negb (is_true c) && neg) then ((-1)%Z, N.succ n)
    else b_or neg r (N.succ n)
  end.

(* while.go: cs = what the condition block gives on the 1st, 2nd, ... evaluation;
   result = number of times the body ran; None: the list ran out (the loop goes on) *)
Fixpoint b_while (neg : bool) (cs : list cond) : option N :=
  match cs with
  | [] => None
  | c :: r =>
    if (negb neg && negb (is_true c)) || (neg && is_true c) then Some 0%N
    else option_map N.succ (b_while neg r)
  end.

(* typemgmt/types.go cmdNot: prints true iff !IsTrue(stdin, previous exit number) *)
Definition b_not (c : cond) : bool := negb (is_true c).

Inductive builtin := BIf | BAnd | BOr | BWhile | BNot.

(* what is observed of a run: the branch / printed boolean, the exit number of
   and/or, how many condition blocks ran, how many times the while body ran *)
Record bobs := { bo_ok : bool; bo_flag : bool; bo_exit : Z; bo_count : N }.

Definition run_builtin (b : builtin) (neg : bool) (cs : list cond) : bobs :=
  match b with
  | BIf =>
    match cs with
    | [c] => {| bo_ok := true; bo_flag := b_if neg c; bo_exit := 0; bo_count := 1 |}
    | _ => {| bo_ok := false; bo_flag := false; bo_exit := 0; bo_count := 0 |}
    end
  | BAnd => let '(e, n) := b_and neg cs 0 in {| bo_ok := true; bo_flag := (e <? 0)%Z; bo_exit := e; bo_count := n |}
  | BOr => let '(e, n) := b_or neg cs 0 in {| bo_ok := true; bo_flag := (e <? 0)%Z; bo_exit := e; bo_count := n |}
  | BWhile =>
    match b_while neg cs with
    | Some k => {| bo_ok := true; bo_flag := true; bo_exit := 0; bo_count := k |}
    | None => {| bo_ok := false; bo_flag := false; bo_exit := 0; bo_count := 0 |}
    end
  | BNot =>
    match cs with
    | [c] => {| bo_ok := true; bo_flag := b_not c; bo_exit := 0; bo_count := 1 |}
    | _ => {| bo_ok := false; bo_flag := false; bo_exit := 0; bo_count := 0 |}
    end
  end.
