(* C26 — model of lang/pipes/namedpipes.go: the registry of named pipes and its
   asynchronous close.

   Go being modelled (after "fix: closing a named pipe twice ..."):

     type Named struct { pipes map[string]pipe; mutex }      // "null" is always there
     CreatePipe(name,..)  lock; if pipes[name].Pipe != nil -> error "already exists"; pipes[name] = new; unlock
     ExposePipe(name,..)  the same with a caller-supplied stdio.Io
     Close(name)          lock; pipes[name].Pipe == nil -> error; name == "null" -> error; unlock
                          go closePipe(n, name)                  // returns at once
     closePipe(n, name)   sleep 2s; lock; if p := pipes[name].Pipe; p != nil { p.Close(); delete(pipes, name) }; unlock
     Delete(name)         lock; missing -> error; "null" -> error; delete(pipes, name); unlock
     Get(name)            lock; missing -> (5 retries, 100ms apart, then) error; else the pipe
     Dump()               lock; name -> type

   Every method body runs under the mutex, so a concurrent execution is an
   interleaving of these atomic steps and of `Fire name`, the body of one
   delayed closePipe goroutine. Time is abstracted: a pending Fire may happen at
   any later point. A `Fire name` with no such goroutine pending is not a step
   of the system and is modelled as a no-op.

   Names are numbers (0 = "null"); a registry entry is (name, type) with type
   0 = null, 1 = created, 2 = exposed. *)
From Murex Require Import Base.Outcome.

Inductive op :=
| Create (n : N) | Expose (n : N) | Close (n : N) | Delete (n : N) | Get (n : N) | Dump
| Fire (n : N).

Record st := {
  reg : list (N * N);     (* the map, kept sorted by name (canonical form) *)
  pend : list N           (* multiset of delayed closePipe goroutines, by name *)
}.

Definition st0 : st := {| reg := [(0, 0)]%N; pend := [] |}.

Fixpoint has (n : N) (r : list (N * N)) : bool :=
  match r with
  | [] => false
  | (k, _) :: r' => N.eqb k n || has n r'
  end.

Fixpoint insert (n t : N) (r : list (N * N)) : list (N * N) :=
  match r with
  | [] => [(n, t)]
  | (k, v) :: r' => if N.ltb n k then (n, t) :: r else (k, v) :: insert n t r'
  end.

Fixpoint remove (n : N) (r : list (N * N)) : list (N * N) :=
  match r with
  | [] => []
  | (k, v) :: r' => if N.eqb k n then remove n r' else (k, v) :: remove n r'
  end.

(* take one occurrence of n out of the multiset; None if there is none *)
Fixpoint take (n : N) (l : list N) : option (list N) :=
  match l with
  | [] => None
  | x :: l' => if N.eqb x n then Some l'
               else match take n l' with Some l'' => Some (x :: l'') | None => None end
  end.

Inductive res :=
| ROk
| RErr                          (* a Go error was returned *)
| RNames (r : list (N * N))     (* Dump *)
| RPanic.                       (* nil dereference: in closePipe this kills the process *)

Definition step (s : st) (o : op) : st * res :=
  match o with
  | Create n => if has n (reg s) then (s, RErr)
                else ({| reg := insert n 1 (reg s); pend := pend s |}, ROk)
  | Expose n => if has n (reg s) then (s, RErr)
                else ({| reg := insert n 2 (reg s); pend := pend s |}, ROk)
  | Close n => if negb (has n (reg s)) then (s, RErr)
               else if N.eqb n 0 then (s, RErr)
               else ({| reg := reg s; pend := n :: pend s |}, ROk)
  | Delete n => if negb (has n (reg s)) then (s, RErr)
                else if N.eqb n 0 then (s, RErr)
                else ({| reg := remove n (reg s); pend := pend s |}, ROk)
  | Get n => (s, if has n (reg s) then ROk else RErr)
  | Dump => (s, RNames (reg s))
  | Fire n => match take n (pend s) with
              | None => (s, ROk)                                   (* no such goroutine: not a step *)
              | Some p' => ({| reg := remove n (reg s); pend := p' |}, ROk)
                           (* entry present: closed and deleted; entry gone: nothing (the fix) *)
              end
  end.

(* closePipe before the fix: n.pipes[name].Pipe.Close() on a missing entry is a
   nil-interface method call in a goroutine without recover *)
Definition step_old (s : st) (o : op) : st * res :=
  match o with
  | Fire n => match take n (pend s) with
              | None => (s, ROk)
              | Some p' => if has n (reg s) then ({| reg := remove n (reg s); pend := p' |}, ROk)
                           else ({| reg := reg s; pend := p' |}, RPanic)
              end
  | _ => step s o
  end.

Fixpoint run (s : st) (ops : list op) : st :=
  match ops with
  | [] => s
  | o :: r => run (fst (step s o)) r
  end.

Fixpoint results (s : st) (ops : list op) : list res :=
  match ops with
  | [] => []
  | o :: r => snd (step s o) :: results (fst (step s o)) r
  end.

Fixpoint results_old (s : st) (ops : list op) : list res :=
  match ops with
  | [] => []
  | o :: r => snd (step_old s o) :: results_old (fst (step_old s o)) r
  end.

(* ---- what the harness does: phases of API calls, each followed by waiting
   out the grace period (every pending closePipe fires), then Dump ---- *)
Definition fire_all (s : st) : st := run s (map Fire (pend s)).

Record phase_obs := { po_res : list res; po_dump : list (N * N) }.

Fixpoint run_phases (s : st) (phases : list (list op)) : list phase_obs :=
  match phases with
  | [] => []
  | ops :: r =>
      let s1 := run s ops in
      let s2 := fire_all s1 in
      {| po_res := results s ops; po_dump := reg s2 |} :: run_phases s2 r
  end.
