(* Model of lang/expressions/parse_block.go: BlockT.ParseBlock — the dispatcher
   loop of the block parser, with its two explicit blk.panic sites — over
   ABSTRACT sub-parsers.

   ParseBlock walks the block rune by rune. White space, line breaks, comments
   and the pipeline tokens ( ; | || && -> => ? >> ~> ) are handled by the loop
   itself; at any other rune it creates a ParserT on the rest of the block and
   calls preParser (expression parser, falling back to the statement parser),
   which returns how far it got.  The expression / statement / quote / variable
   parsers (about 3000 lines of Go) are NOT modelled: their result at every
   position of the input enters as an oracle table [o_pre] / [o_known], recorded
   by the harness from the real code for each generated input.  Comments are
   modelled concretely (parse_comment.go is a simple scan).

   The loop is on fuel; [parse_block] gives 2 * length + 5 and the proof shows
   that length + 1 suffices whenever the sub-parsers never return a negative
   position.  *)
From Murex Require Import Base.Outcome Base.Bytes.
Local Open Scope Z_scope.

(* result of a sub-parser at one position *)
Inductive ores :=
| OOk (n : Z)     (* returned tree.charPos = n, no error *)
| OErr            (* returned an error *)
| OPanic          (* panicked *)
| OHang           (* did not return *)
| OUnknown.       (* not recorded *)

Record oracle := mk_oracle {
  o_pre : list ores;     (* preParser on block[p:], for every p *)
  o_known : list ores    (* parseStatementWithKnownCommand at p, where block[p:p+2] is >> or ~> *)
}.

Definition rune_at (src : list N) (p : Z) : N :=
  if p <? 0 then 0%N else nth (Z.to_nat p) src 0%N.   (* nextChar() is 0 past the end *)

Definition ores_at (l : list ores) (p : Z) : ores :=
  if p <? 0 then OUnknown else nth (Z.to_nat p) l OUnknown.

Definition drop (p : Z) (src : list N) : list N := skipn (Z.to_nat p) src.

(* parseComment: the position of the first line feed after p, or the length *)
Fixpoint find_nl (l : list N) (i : Z) : Z :=
  match l with
  | [] => i
  | c :: tl => if (c =? 10)%N then i else find_nl tl (i + 1)
  end.
Definition comment_end (src : list N) (p : Z) : Z := find_nl (drop (p + 1) src) (p + 1).

(* parseCommentMultiLine: position of the `#` of the first `#/` at or after p+2 *)
Fixpoint find_close (l : list N) (i : Z) : option Z :=
  match l with
  | [] => None
  | c :: tl =>
      if (c =? 35)%N && match tl with x :: _ => (x =? 47)%N | [] => false end
      then Some i else find_close tl (i + 1)
  end.

Record bst := mk_bst {
  b_pos : Z;          (* blk.charPos *)
  b_tree : bool;      (* tree != nil *)
  b_nfn : N;          (* len(blk.Functions) *)
  b_follow : bool     (* blk.nextProperty.FollowOnFn() *)
}.

Definition set_pos (p : Z) (s : bst) := mk_bst p (b_tree s) (b_nfn s) (b_follow s).
Definition set_tree (t : bool) (s : bst) := mk_bst (b_pos s) t (b_nfn s) (b_follow s).

(* blk.append(tree, this, next): only the parts that decide errors and counts *)
Definition append_ (tree : bool) (next_follow : bool) (s : bst) : Outcome bst :=
  if negb tree && b_follow s then Err 1
  else if (0 <? b_nfn s)%N && negb tree && next_follow then Err 2
  else Ok (mk_bst (b_pos s) (b_tree s) (if tree then (b_nfn s + 1)%N else b_nfn s) next_follow).

(* after a flow token: append the pending tree, forget it *)
Definition flush_tree (next_follow : bool) (s : bst) : Outcome bst :=
  omap (set_tree false) (append_ (b_tree s) next_follow s).

Definition use_oracle (r : ores) (s : bst) : Outcome bst :=
  match r with
  | OOk n => Ok (mk_bst (b_pos s + n) true (b_nfn s) (b_follow s))
  | OErr => Err 4
  | OPanic => Panic
  | OHang => OutOfFuel
  | OUnknown => Err 99
  end.

Definition pre_parse (orc : oracle) (s : bst) : Outcome bst :=
  use_oracle (ores_at (o_pre orc) (b_pos s)) s.

(* one iteration of the for loop, before its charPos++ *)
Definition dispatch (src : list N) (orc : oracle) (s : bst) : Outcome bst :=
  let p := b_pos s in
  let r := rune_at src p in
  let nx := rune_at src (p + 1) in
  if (r =? 32)%N || (r =? 9)%N || (r =? 13)%N then Ok s
  else if (r =? 10)%N then flush_tree false s
  else if (r =? 35)%N then Ok (set_pos (comment_end src p - 1) s)
  else if (r =? 47)%N then
    if (nx =? 35)%N then
      match find_close (drop (p + 2) src) (p + 2) with
      | Some j => Ok (set_pos (j + 1) s)
      | None => Err 3
      end
    else pre_parse orc s
  else if (r =? 59)%N then flush_tree false s
  else if (r =? 38)%N then
    if (nx =? 38)%N then flush_tree true (set_pos (p + 1) s)
    else if negb (b_tree s) then pre_parse orc s
    else Panic                                   (* blk.panic('&', '&') *)
  else if (r =? 124)%N then
    if (nx =? 124)%N then flush_tree true (set_pos (p + 1) s)
    else flush_tree true s
  else if (r =? 45)%N then
    if (nx =? 62)%N then flush_tree true (set_pos (p + 1) s)
    else if negb (b_tree s) then pre_parse orc s
    else Panic                                   (* blk.panic('-', '>') *)
  else if (r =? 63)%N then flush_tree true s
  else if (r =? 61)%N then
    if (nx =? 62)%N then
      obind (flush_tree true (set_pos (p + 1) s)) (fun s1 =>
        append_ true true s1)                    (* the implicit `format generic` *)
    else pre_parse orc s
  else if (r =? 62)%N || (r =? 126)%N then
    if (nx =? 62)%N then
      obind (append_ (b_tree s) true s) (fun s1 =>
        use_oracle (ores_at (o_known orc) p) s1)
    else pre_parse orc s
  else pre_parse orc s.

Fixpoint blk_go (fuel : nat) (src : list N) (orc : oracle) (s : bst) : Outcome N :=
  match fuel with
  | O => OutOfFuel
  | S f =>
      if Z.of_nat (length src) <=? b_pos s
      then omap b_nfn (append_ (b_tree s) false s)
      else obind (dispatch src orc s) (fun s1 => blk_go f src orc (set_pos (b_pos s1 + 1) s1))
  end.

Definition init_bst : bst := mk_bst 0 false 0%N false.

(* ParseBlock: the number of functions, a syntax error, a panic, or a hang *)
Definition parse_block (src : list N) (orc : oracle) : Outcome N :=
  blk_go (2 * length src + 5) src orc init_bst.

(* ---------- the contract on the sub-parsers ---------- *)

(* positions at which a statement / expression may stop: end of input or just
   before one of  \n ; | ? #  &&  =>  ~>  >>  -> *)
Definition at_stop (src : list N) (q : Z) : bool :=
  (Z.of_nat (length src) <=? q) ||
  (let r := rune_at src q in
   let nx := rune_at src (q + 1) in
   (r =? 10)%N || (r =? 59)%N || (r =? 124)%N || (r =? 63)%N || (r =? 35)%N ||
   ((r =? 38)%N && (nx =? 38)%N) ||
   (((r =? 61)%N || (r =? 126)%N || (r =? 62)%N || (r =? 45)%N) && (nx =? 62)%N)).

Definition ores_good (src : list N) (p : Z) (r : ores) : bool :=
  match r with
  | OOk n => (0 <=? n) && at_stop src (p + n + 1)
  | OErr => true
  | _ => false
  end.

(* positions at which the loop can call preParser *)
Definition callable (src : list N) (p : Z) : bool :=
  let r := rune_at src p in
  let nx := rune_at src (p + 1) in
  negb ((r =? 32)%N || (r =? 9)%N || (r =? 13)%N || (r =? 10)%N || (r =? 35)%N || (r =? 59)%N ||
        (r =? 124)%N || (r =? 63)%N ||
        ((r =? 47)%N && (nx =? 35)%N) || ((r =? 38)%N && (nx =? 38)%N) ||
        (((r =? 45)%N || (r =? 61)%N || (r =? 62)%N || (r =? 126)%N) && (nx =? 62)%N)).

Definition known_site (src : list N) (p : Z) : bool :=
  ((rune_at src p =? 62)%N || (rune_at src p =? 126)%N) && (rune_at src (p + 1) =? 62)%N.

Fixpoint positions (n : nat) (from : Z) : list Z :=
  match n with O => [] | S k => from :: positions k (from + 1) end.

(* the contract, as a boolean evaluated on recorded tables *)
Definition contract_b (src : list N) (orc : oracle) : bool :=
  forallb (fun p =>
    (negb (callable src p) || ores_good src p (ores_at (o_pre orc) p)) &&
    (negb (known_site src p) || ores_good src p (ores_at (o_known orc) p)))
    (positions (length src) 0).
