(* Model of utils/parser/parser.go: parser.Parse — the tokenizer / highlighter
   state machine used by syntax highlighting (shell/parser.go), hint text and
   autocompletion (shell/tab.go, shell/autocomplete/dynamic.go).
   Shared by C20 (never panics / terminates), C34 (Unsafe verdict), C37
   (highlighting keeps the typed text).

   Shape of the model
   ------------------
   * The Go loop `for ; i < len(block); i++` is a structural recursion over the
     remaining rune list ([tok_go]); the look-ahead `i++` inside the loop body
     is modelled by the step asking to skip 1 or 2 more runes.  `block[i-1]`
     is the `prev` argument (None when i = 0), `next(r)` peeks at the tail.
   * The loop body is split in two independent halves, exactly as in the Go
     code where no decision ever reads `syntaxHighlighted` or `reset`:
       - [step] transcribes the `switch block[i]` on the token state [tok]
         (every exported field of ParsedTokens except Source / Parameters'
         contents / CommentMsg, plus the locals readFunc and "pop points at
         FuncName") and returns the list of highlighter actions [act] that the
         branch performs, in order;
       - [run_act] interprets one action on the highlighter state [hl]
         (`reset` stack, `syntaxHighlighted` as a reversed list of segments:
         a typed rune or a colour code).  Go's slice expressions that could be
         out of range (`reset[len(reset)-1]`, `hlBlock[n % len(hlBlock)]`) give
         an explicit [Panic].
   * Runes are N.  `string(r)` of an invalid rune is U+FFFD ([enc]).
   * Colour constants and the safe-command list come from Gen/ (regenerated
     from the Go source on every run).

   The model is of the code AFTER the fix "fix: highlighter truncated a colour
   code ..." (the `->` / `=>` case trims the previously written `-`/`=` only if
   it is the last byte of the highlighted string) and the fix "tokenizer joined
   command names across flow tokens" (endFunc).  *)
From Murex Require Import Base.Outcome Base.Bytes.
From Murex Require Import Gen.HlCodes Gen.SafeCmds.
Local Open Scope N_scope.

(* ---------- runes ---------- *)

(* Go's string(rune): surrogates and values above U+10FFFF become U+FFFD *)
Definition valid_rune (r : N) : bool :=
  (r <? 55296) || ((57343 <? r) && (r <=? 1114111)).
Definition enc (r : N) : N := if valid_rune r then r else 65533.

Definition in_range (lo hi r : N) : bool := (lo <=? r) && (r <=? hi).

(* rxAllowedVarChars = ^[._a-zA-Z0-9]$ *)
Definition allowed_var_char (r : N) : bool :=
  (r =? 46) || (r =? 95) || in_range 97 122 r || in_range 65 90 r || in_range 48 57 r.

(* ---------- highlighter half ---------- *)

Definition code := list N.
Inductive seg := Chr (r : N) | Code (c : code).

Record hl := mk_hl { h_reset : list code;   (* top of the stack first *)
                     h_out : list seg }.     (* last written first *)

Inductive act :=
| ARaw (r : N)                 (* syntaxHighlighted += string(r) *)
| ACode (c : code)             (* syntaxHighlighted += <constant> *)
| AColour (c : code) (r : N)   (* ansiColour(c, r) *)
| AReset (r : N)               (* ansiReset(r) *)
| AResetNoChar                 (* ansiResetNoChar() *)
| AChar (c : code) (rs : list N) (* ansiChar(c, rs...) *)
| AStartFunc                   (* ansiStartFunction() *)
| ATop                         (* syntaxHighlighted += reset[len(reset)-1] *)
| ABlock (n : Z)               (* syntaxHighlighted += hlBlock[n % len(hlBlock)] *)
| ATrim (p : N).               (* the recolouring of the `-` / `=` of `->` / `=>` *)

Definition emit (x : list seg) (h : hl) : hl :=
  mk_hl (h_reset h) (rev x ++ h_out h).

Definition pop_reset (r : list code) : list code :=
  match r with
  | _ :: ((_ :: _) as r') => r'     (* if len(reset) > 1 { reset = reset[:len-1] } *)
  | _ => r
  end.

Definition top_then (r : list code) (k : code -> Outcome hl) : Outcome hl :=
  match r with
  | [] => Panic                     (* reset[len(reset)-1] with len = 0 *)
  | top :: _ => k top
  end.

Definition run_act (a : act) (h : hl) : Outcome hl :=
  match a with
  | ARaw r => Ok (emit [Chr r] h)
  | ACode c => Ok (emit [Code c] h)
  | AColour c r => Ok (mk_hl (c :: h_reset h) (Chr r :: Code c :: h_out h))
  | AReset r =>
      let rs := pop_reset (h_reset h) in
      top_then rs (fun top => Ok (mk_hl rs (Code top :: Chr r :: h_out h)))
  | AResetNoChar =>
      let rs := pop_reset (h_reset h) in
      top_then rs (fun top => Ok (mk_hl rs (Code top :: h_out h)))
  | AChar c rs =>
      top_then (h_reset h) (fun top => Ok (emit ([Code c] ++ map Chr rs ++ [Code top]) h))
  | AStartFunc =>
      let rs := pop_reset (h_reset h) in
      top_then rs (fun top => Ok (mk_hl rs (Code hl_function :: Code top :: h_out h)))
  | ATop => top_then (h_reset h) (fun top => Ok (emit [Code top] h))
  | ABlock n =>
      match hl_block with
      | [] => Panic                 (* integer divide by zero *)
      | _ => match nth_error hl_block (Z.to_nat (Z.modulo n (Z.of_nat (length hl_block)))) with
             | Some c => Ok (emit [Code c] h)
             | None => Panic
             end
      end
  | ATrim p =>
      (* if strings.HasSuffix(syntaxHighlighted, string(p)) { trim one byte; ansiColour(hlPipe, p) }
         else { syntaxHighlighted += hlPipe; reset = append(reset, hlPipe) }
         p is '-' or '=': the last byte is p exactly when the last thing written
         is that typed rune (every colour constant ends in 'm'). *)
      match h_out h with
      | Chr q :: o' =>
          if enc q =? p then Ok (mk_hl (hl_pipe :: h_reset h) (Chr p :: Code hl_pipe :: o'))
          else Ok (mk_hl (hl_pipe :: h_reset h) (Code hl_pipe :: h_out h))
      | _ => Ok (mk_hl (hl_pipe :: h_reset h) (Code hl_pipe :: h_out h))
      end
  end.

Fixpoint run_acts (l : list act) (h : hl) : Outcome hl :=
  match l with
  | [] => Ok h
  | a :: l' => obind (run_act a h) (run_acts l')
  end.

(* the highlighted string, as runes *)
Fixpoint render (l : list seg) : list N :=
  match l with
  | [] => []
  | Chr r :: l' => enc r :: render l'
  | Code c :: l' => c ++ render l'
  end.

(* only the typed runes *)
Fixpoint chars (l : list seg) : list N :=
  match l with
  | [] => []
  | Chr r :: l' => r :: chars l'
  | Code _ :: l' => chars l'
  end.

(* ---------- removing ANSI colour codes: ESC [ (digit | ;)* m ---------- *)

Inductive sstate := SNormal | SEsc | SCsi (buf : list N).   (* buf: params seen, reversed *)

Definition is_param (r : N) : bool := in_range 48 57 r || (r =? 59).

Definition flush (s : sstate) : list N :=
  match s with
  | SNormal => []
  | SEsc => [27]
  | SCsi buf => 27 :: 91 :: rev buf
  end.

(* one rune: (output, next state) *)
Definition strip_step (s : sstate) (r : N) : list N * sstate :=
  let normal := if r =? 27 then ([], SEsc) else ([r], SNormal) in
  match s with
  | SNormal => normal
  | SEsc => if r =? 91 then ([], SCsi []) else (27 :: fst normal, snd normal)
  | SCsi buf =>
      if is_param r then ([], SCsi (r :: buf))
      else if r =? 109 then ([], SNormal)
      else (flush s ++ fst normal, snd normal)
  end.

Fixpoint strip_run (s : sstate) (l : list N) : list N * sstate :=
  match l with
  | [] => ([], s)
  | r :: l' => let '(o, s1) := strip_step s r in
               let '(o', s2) := strip_run s1 l' in (o ++ o', s2)
  end.

Definition strip (l : list N) : list N :=
  let '(o, s) := strip_run SNormal l in o ++ flush s.

(* ---------- token half ---------- *)

Record tok := mk_tok {
  t_escaped : bool;
  t_var_sigil : N;
  t_var_brace : bool;
  t_qs : bool;
  t_qd : bool;
  t_qb : Z;
  t_nested : Z;
  t_sq : bool;
  t_ang : bool;
  t_expect_func : bool;
  t_expect_param : bool;
  t_read_func : bool;
  t_pop_func : bool;
  t_func : list N;
  t_last_func : list N;
  t_nparams : N;
  t_unsafe : bool;
  t_last_flow : Z;
  t_pipe : N;
  t_loc : Z;
  t_var_loc : Z;
  t_last_char : N;
  t_comment : bool
}.

Definition set_escaped (v : bool) (t : tok) : tok :=
  mk_tok v (t_var_sigil t) (t_var_brace t) (t_qs t) (t_qd t) (t_qb t) (t_nested t) (t_sq t) (t_ang t) (t_expect_func t) (t_expect_param t) (t_read_func t) (t_pop_func t) (t_func t) (t_last_func t) (t_nparams t) (t_unsafe t) (t_last_flow t) (t_pipe t) (t_loc t) (t_var_loc t) (t_last_char t) (t_comment t).
Definition set_var_sigil (v : N) (t : tok) : tok :=
  mk_tok (t_escaped t) v (t_var_brace t) (t_qs t) (t_qd t) (t_qb t) (t_nested t) (t_sq t) (t_ang t) (t_expect_func t) (t_expect_param t) (t_read_func t) (t_pop_func t) (t_func t) (t_last_func t) (t_nparams t) (t_unsafe t) (t_last_flow t) (t_pipe t) (t_loc t) (t_var_loc t) (t_last_char t) (t_comment t).
Definition set_var_brace (v : bool) (t : tok) : tok :=
  mk_tok (t_escaped t) (t_var_sigil t) v (t_qs t) (t_qd t) (t_qb t) (t_nested t) (t_sq t) (t_ang t) (t_expect_func t) (t_expect_param t) (t_read_func t) (t_pop_func t) (t_func t) (t_last_func t) (t_nparams t) (t_unsafe t) (t_last_flow t) (t_pipe t) (t_loc t) (t_var_loc t) (t_last_char t) (t_comment t).
Definition set_qs (v : bool) (t : tok) : tok :=
  mk_tok (t_escaped t) (t_var_sigil t) (t_var_brace t) v (t_qd t) (t_qb t) (t_nested t) (t_sq t) (t_ang t) (t_expect_func t) (t_expect_param t) (t_read_func t) (t_pop_func t) (t_func t) (t_last_func t) (t_nparams t) (t_unsafe t) (t_last_flow t) (t_pipe t) (t_loc t) (t_var_loc t) (t_last_char t) (t_comment t).
Definition set_qd (v : bool) (t : tok) : tok :=
  mk_tok (t_escaped t) (t_var_sigil t) (t_var_brace t) (t_qs t) v (t_qb t) (t_nested t) (t_sq t) (t_ang t) (t_expect_func t) (t_expect_param t) (t_read_func t) (t_pop_func t) (t_func t) (t_last_func t) (t_nparams t) (t_unsafe t) (t_last_flow t) (t_pipe t) (t_loc t) (t_var_loc t) (t_last_char t) (t_comment t).
Definition set_qb (v : Z) (t : tok) : tok :=
  mk_tok (t_escaped t) (t_var_sigil t) (t_var_brace t) (t_qs t) (t_qd t) v (t_nested t) (t_sq t) (t_ang t) (t_expect_func t) (t_expect_param t) (t_read_func t) (t_pop_func t) (t_func t) (t_last_func t) (t_nparams t) (t_unsafe t) (t_last_flow t) (t_pipe t) (t_loc t) (t_var_loc t) (t_last_char t) (t_comment t).
Definition set_nested (v : Z) (t : tok) : tok :=
  mk_tok (t_escaped t) (t_var_sigil t) (t_var_brace t) (t_qs t) (t_qd t) (t_qb t) v (t_sq t) (t_ang t) (t_expect_func t) (t_expect_param t) (t_read_func t) (t_pop_func t) (t_func t) (t_last_func t) (t_nparams t) (t_unsafe t) (t_last_flow t) (t_pipe t) (t_loc t) (t_var_loc t) (t_last_char t) (t_comment t).
Definition set_sq (v : bool) (t : tok) : tok :=
  mk_tok (t_escaped t) (t_var_sigil t) (t_var_brace t) (t_qs t) (t_qd t) (t_qb t) (t_nested t) v (t_ang t) (t_expect_func t) (t_expect_param t) (t_read_func t) (t_pop_func t) (t_func t) (t_last_func t) (t_nparams t) (t_unsafe t) (t_last_flow t) (t_pipe t) (t_loc t) (t_var_loc t) (t_last_char t) (t_comment t).
Definition set_ang (v : bool) (t : tok) : tok :=
  mk_tok (t_escaped t) (t_var_sigil t) (t_var_brace t) (t_qs t) (t_qd t) (t_qb t) (t_nested t) (t_sq t) v (t_expect_func t) (t_expect_param t) (t_read_func t) (t_pop_func t) (t_func t) (t_last_func t) (t_nparams t) (t_unsafe t) (t_last_flow t) (t_pipe t) (t_loc t) (t_var_loc t) (t_last_char t) (t_comment t).
Definition set_expect_func (v : bool) (t : tok) : tok :=
  mk_tok (t_escaped t) (t_var_sigil t) (t_var_brace t) (t_qs t) (t_qd t) (t_qb t) (t_nested t) (t_sq t) (t_ang t) v (t_expect_param t) (t_read_func t) (t_pop_func t) (t_func t) (t_last_func t) (t_nparams t) (t_unsafe t) (t_last_flow t) (t_pipe t) (t_loc t) (t_var_loc t) (t_last_char t) (t_comment t).
Definition set_expect_param (v : bool) (t : tok) : tok :=
  mk_tok (t_escaped t) (t_var_sigil t) (t_var_brace t) (t_qs t) (t_qd t) (t_qb t) (t_nested t) (t_sq t) (t_ang t) (t_expect_func t) v (t_read_func t) (t_pop_func t) (t_func t) (t_last_func t) (t_nparams t) (t_unsafe t) (t_last_flow t) (t_pipe t) (t_loc t) (t_var_loc t) (t_last_char t) (t_comment t).
Definition set_read_func (v : bool) (t : tok) : tok :=
  mk_tok (t_escaped t) (t_var_sigil t) (t_var_brace t) (t_qs t) (t_qd t) (t_qb t) (t_nested t) (t_sq t) (t_ang t) (t_expect_func t) (t_expect_param t) v (t_pop_func t) (t_func t) (t_last_func t) (t_nparams t) (t_unsafe t) (t_last_flow t) (t_pipe t) (t_loc t) (t_var_loc t) (t_last_char t) (t_comment t).
Definition set_pop_func (v : bool) (t : tok) : tok :=
  mk_tok (t_escaped t) (t_var_sigil t) (t_var_brace t) (t_qs t) (t_qd t) (t_qb t) (t_nested t) (t_sq t) (t_ang t) (t_expect_func t) (t_expect_param t) (t_read_func t) v (t_func t) (t_last_func t) (t_nparams t) (t_unsafe t) (t_last_flow t) (t_pipe t) (t_loc t) (t_var_loc t) (t_last_char t) (t_comment t).
Definition set_func (v : list N) (t : tok) : tok :=
  mk_tok (t_escaped t) (t_var_sigil t) (t_var_brace t) (t_qs t) (t_qd t) (t_qb t) (t_nested t) (t_sq t) (t_ang t) (t_expect_func t) (t_expect_param t) (t_read_func t) (t_pop_func t) v (t_last_func t) (t_nparams t) (t_unsafe t) (t_last_flow t) (t_pipe t) (t_loc t) (t_var_loc t) (t_last_char t) (t_comment t).
Definition set_last_func (v : list N) (t : tok) : tok :=
  mk_tok (t_escaped t) (t_var_sigil t) (t_var_brace t) (t_qs t) (t_qd t) (t_qb t) (t_nested t) (t_sq t) (t_ang t) (t_expect_func t) (t_expect_param t) (t_read_func t) (t_pop_func t) (t_func t) v (t_nparams t) (t_unsafe t) (t_last_flow t) (t_pipe t) (t_loc t) (t_var_loc t) (t_last_char t) (t_comment t).
Definition set_nparams (v : N) (t : tok) : tok :=
  mk_tok (t_escaped t) (t_var_sigil t) (t_var_brace t) (t_qs t) (t_qd t) (t_qb t) (t_nested t) (t_sq t) (t_ang t) (t_expect_func t) (t_expect_param t) (t_read_func t) (t_pop_func t) (t_func t) (t_last_func t) v (t_unsafe t) (t_last_flow t) (t_pipe t) (t_loc t) (t_var_loc t) (t_last_char t) (t_comment t).
Definition set_unsafe (v : bool) (t : tok) : tok :=
  mk_tok (t_escaped t) (t_var_sigil t) (t_var_brace t) (t_qs t) (t_qd t) (t_qb t) (t_nested t) (t_sq t) (t_ang t) (t_expect_func t) (t_expect_param t) (t_read_func t) (t_pop_func t) (t_func t) (t_last_func t) (t_nparams t) v (t_last_flow t) (t_pipe t) (t_loc t) (t_var_loc t) (t_last_char t) (t_comment t).
Definition set_last_flow (v : Z) (t : tok) : tok :=
  mk_tok (t_escaped t) (t_var_sigil t) (t_var_brace t) (t_qs t) (t_qd t) (t_qb t) (t_nested t) (t_sq t) (t_ang t) (t_expect_func t) (t_expect_param t) (t_read_func t) (t_pop_func t) (t_func t) (t_last_func t) (t_nparams t) (t_unsafe t) v (t_pipe t) (t_loc t) (t_var_loc t) (t_last_char t) (t_comment t).
Definition set_pipe (v : N) (t : tok) : tok :=
  mk_tok (t_escaped t) (t_var_sigil t) (t_var_brace t) (t_qs t) (t_qd t) (t_qb t) (t_nested t) (t_sq t) (t_ang t) (t_expect_func t) (t_expect_param t) (t_read_func t) (t_pop_func t) (t_func t) (t_last_func t) (t_nparams t) (t_unsafe t) (t_last_flow t) v (t_loc t) (t_var_loc t) (t_last_char t) (t_comment t).
Definition set_loc (v : Z) (t : tok) : tok :=
  mk_tok (t_escaped t) (t_var_sigil t) (t_var_brace t) (t_qs t) (t_qd t) (t_qb t) (t_nested t) (t_sq t) (t_ang t) (t_expect_func t) (t_expect_param t) (t_read_func t) (t_pop_func t) (t_func t) (t_last_func t) (t_nparams t) (t_unsafe t) (t_last_flow t) (t_pipe t) v (t_var_loc t) (t_last_char t) (t_comment t).
Definition set_var_loc (v : Z) (t : tok) : tok :=
  mk_tok (t_escaped t) (t_var_sigil t) (t_var_brace t) (t_qs t) (t_qd t) (t_qb t) (t_nested t) (t_sq t) (t_ang t) (t_expect_func t) (t_expect_param t) (t_read_func t) (t_pop_func t) (t_func t) (t_last_func t) (t_nparams t) (t_unsafe t) (t_last_flow t) (t_pipe t) (t_loc t) v (t_last_char t) (t_comment t).
Definition set_last_char (v : N) (t : tok) : tok :=
  mk_tok (t_escaped t) (t_var_sigil t) (t_var_brace t) (t_qs t) (t_qd t) (t_qb t) (t_nested t) (t_sq t) (t_ang t) (t_expect_func t) (t_expect_param t) (t_read_func t) (t_pop_func t) (t_func t) (t_last_func t) (t_nparams t) (t_unsafe t) (t_last_flow t) (t_pipe t) (t_loc t) (t_var_loc t) v (t_comment t).
Definition set_comment (v : bool) (t : tok) : tok :=
  mk_tok (t_escaped t) (t_var_sigil t) (t_var_brace t) (t_qs t) (t_qd t) (t_qb t) (t_nested t) (t_sq t) (t_ang t) (t_expect_func t) (t_expect_param t) (t_read_func t) (t_pop_func t) (t_func t) (t_last_func t) (t_nparams t) (t_unsafe t) (t_last_flow t) (t_pipe t) (t_loc t) (t_var_loc t) (t_last_char t) v.

Definition init_tok : tok :=
  mk_tok false 0 false false false 0%Z 0%Z false false true false false true [] [] 0
         false 0%Z 0 (-1)%Z 0%Z 0 false.

Definition init_hl : hl := mk_hl [hl_function; code_reset] [Code hl_function].

Fixpoint runes_eqb (a b : list N) : bool :=
  match a, b with
  | [], [] => true
  | x :: a', y :: b' => (x =? y) && runes_eqb a' b'
  | _, _ => false
  end.

(* unsafe.go isCmdUnsafe *)
Definition is_cmd_unsafe (f : list N) : bool := negb (existsb (runes_eqb f) safe_cmds).

(* *pt.pop += string(r) / *pt.pop = string(r): only FuncName is tracked *)
Definition pop_add (r : N) (t : tok) : tok :=
  if t_pop_func t then set_func (t_func t ++ [enc r]) t else t.
Definition pop_set (r : N) (t : tok) : tok :=
  if t_pop_func t then set_func [enc r] t else t.

(* expectParam() *)
Definition expect_param_ (t : tok) : tok :=
  set_pop_func false (set_nparams (t_nparams t + 1) (set_expect_param false t)).

Inductive kind := KCont (skip : nat) | KEarly | KComment.
Record sres := mk_sres { s_kind : kind; s_tok : tok; s_acts : list act }.

Definition cont (t : tok) (a : list act) : sres := mk_sres (KCont 0) t a.
Definition cont_skip (k : nat) (t : tok) (a : list act) : sres := mk_sres (KCont k) t a.

(* escaped() *)
Definition escaped_ (c : N) (t : tok) : sres :=
  cont (pop_add c (set_escaped false t)) [AReset c].
(* *pt.pop += string(c); syntaxHighlighted += string(c) *)
Definition add_raw (c : N) (t : tok) : sres := cont (pop_add c t) [ARaw c].

Definition inq (t : tok) : bool := t_qs t || t_qd t || (0 <? t_qb t)%Z.

Definition next_is (tl : list N) (r : N) : bool :=
  match tl with x :: _ => x =? r | [] => false end.
Definition prev_is (prev : option N) (r : N) : bool :=
  match prev with Some x => x =? r | None => false end.

(* if pos != 0 && pt.Loc >= pos { return } *)
Definition early (pos : Z) (t : tok) : bool := negb (pos =? 0)%Z && (pos <=? t_loc t)%Z.

(* endFunc(): a flow token (or `{`) ends the command name being read even when no
   white space precedes it; the name is judged now (fix "tokenizer joined command
   names across flow tokens") *)
Definition end_func (t : tok) : tok :=
  if t_read_func t
  then set_unsafe (is_cmd_unsafe (t_func t) || t_unsafe t) (set_read_func false t)
  else t.

(* the assignments shared by every flow token *)
Definition flow (i : Z) (pipe : N) (t0 : tok) : tok :=
  let t := end_func t0 in
  set_nparams 0 (set_last_func (t_func t) (set_pop_func true (set_pipe pipe
    (set_sq false (set_expect_func true (set_last_flow i t)))))).

Definition sigil (i : Z) (c : N) (tl : list N) (t : tok) : sres :=
  let t1 := set_var_sigil c (pop_add c (set_unsafe true t)) in
  let t2 := if next_is tl 40 then set_var_brace true (set_var_loc (i + 1)%Z t1)
            else set_var_brace false (set_var_loc i t1) in
  cont t2 [AColour hl_variable c].

Definition block_open_acts (n : Z) : list act :=
  if (0 <=? n)%Z then [ABlock n; ARaw 123; ACode code_reset; ACode hl_function]
  else [ACode hl_error; ARaw 123].

Definition switch (pos : Z) (prev : option N) (i : Z) (c : N) (tl : list N) (t : tok) : sres :=
  if c =? 35 then (* '#' *)
    let t := set_loc i t in
    if t_escaped t then escaped_ c t
    else if inq t || (0 <? t_nested t)%Z then add_raw c t
    else mk_sres KComment (set_comment true t)
           ([ACode hl_comment] ++ map ARaw (c :: tl) ++ [ACode code_reset])
  else if c =? 92 then (* '\\' *)
    if t_qs t || (0 <? t_qb t)%Z then add_raw c t
    else if t_escaped t then escaped_ c t
    else let t := if t_expect_param t then expect_param_ t else t in
         cont (set_escaped true t) [AColour hl_escaped c]
  else if c =? 39 then (* '\'' *)
    let t := set_loc i t in
    if t_escaped t then escaped_ c t
    else if t_qd t || (0 <? t_qb t)%Z then add_raw c t
    else if t_qs t then cont (set_qs false t) [AReset c]
    else let t := if t_expect_param t then expect_param_ t else t in
         cont (set_qs true t) [AColour hl_single_quote c]
  else if c =? 34 then (* double quote *)
    let t := set_loc i t in
    if t_escaped t then escaped_ c t
    else if t_qs t || (0 <? t_qb t)%Z then add_raw c t
    else if t_qd t then cont (set_qd false t) [AReset c]
    else let t := if t_expect_param t then expect_param_ t else t in
         cont (set_qd true t) [AColour hl_double_quote c]
  else if c =? 40 then (* '(' *)
    let t := set_loc i t in
    if t_escaped t then escaped_ c t
    else if t_qs t || t_qd t then add_raw c t
    else if t_expect_func t then
      cont (set_qb (t_qb t + 1)%Z (set_pop_func false (set_nparams (t_nparams t + 1)
             (set_func [40] (set_expect_func false t))))) [AColour hl_brace_quote c]
    else if (t_qb t =? 0)%Z then
      let t1 := set_qb (t_qb t + 1)%Z t in
      cont (if t_expect_param t1 then expect_param_ t1 else t1) [AColour hl_brace_quote c]
    else let t := if t_expect_param t then expect_param_ t else t in
         cont (set_qb (t_qb t + 1)%Z (pop_add c t)) [ARaw c]
  else if c =? 41 then (* ')' *)
    let t := set_loc i t in
    if t_escaped t then escaped_ c t
    else if t_qs t || t_qd t then add_raw c t
    else if (t_qb t =? 1)%Z then cont (set_qb (t_qb t - 1)%Z t) [AReset c]
    else if (t_qb t =? 0)%Z then                 (* unbalanced `)`: never safe to preview (fix) *)
      cont (set_unsafe true (set_qb (t_qb t - 1)%Z t)) [AColour hl_error c]
    else let t := if t_expect_param t then expect_param_ t else t in
         cont (set_qb (t_qb t - 1)%Z (pop_add c t)) [ARaw c]
  else if c =? 32 then (* ' ' *)
    if t_escaped t then escaped_ c t
    else if inq t then add_raw c t
    else if t_read_func t then
      cont (set_unsafe (is_cmd_unsafe (t_func t) || t_unsafe t) (set_expect_param true
             (set_read_func false (set_expect_func false (set_loc i t))))) [AReset c]
    else if t_expect_func t then cont (set_loc i t) [ARaw c]
    else if prev_is prev 32 then cont (set_loc i t) [ARaw 32]
    else if prev_is prev 58 && (t_nparams t =? 1) then cont (set_loc i t) [ARaw 32]
    else cont (set_expect_param true (set_loc i t)) [ARaw c]
  else if c =? 61 then (* '=' *)
    if t_escaped t then escaped_ c t
    else if inq t || t_read_func t then add_raw c t
    else if t_expect_func t then cont (set_loc i t) [ARaw c]
    else cont (set_expect_param true (set_loc i t)) [ARaw c]
  else if c =? 58 then (* ':' *)
    if t_escaped t then escaped_ c t
    else if inq t || t_sq t then add_raw c t
    else if negb (t_expect_func t) then add_raw c t
    else if t_read_func t then
      cont (set_unsafe (is_cmd_unsafe (t_func t) || t_unsafe t) (set_pop_func false
             (set_nparams (t_nparams t + 1) (set_read_func false (set_expect_func false
             (set_loc i t)))))) [AReset c]
    else cont (set_unsafe true t) [ARaw c]      (* `:type` cast position *)
  else if c =? 62 then (* '>' *)
    (* `~>` and `>>` redirect into a file, also without a space before them (fix) *)
    let t := if negb (t_escaped t) && negb (inq t) && (prev_is prev 126 || prev_is prev 62) then set_unsafe true t else t in
    if t_escaped t then escaped_ c t
    else if inq t then cont (pop_add 32 t) [ARaw c]
    else if prev_is prev 45 || prev_is prev 61 then
      if early pos t then mk_sres KEarly t []
      else let p := if prev_is prev 45 then 45 else 61 in
           cont (flow (i - 1)%Z (if prev_is prev 45 then 2 else 3) (set_loc i t))
                [ATrim p; AReset 62; ACode hl_function]
    else if (prev_is prev 9 || prev_is prev 32) && next_is tl 62 then
      if early pos t then mk_sres KEarly t []
      else cont_skip 1
             (set_nparams 0 (set_func [62; 62] (set_pipe 5 (set_sq false (set_expect_param true
               (set_read_func false (set_expect_func false (set_unsafe true
               (set_last_flow i (set_loc (i + 1)%Z t))))))))))
             [AColour hl_pipe 62; AReset 62; ACode hl_redirect]
    else if t_expect_func t || t_read_func t then
      cont (set_loc i (pop_add c (set_read_func true t))) [ARaw 62]
    else if t_ang t then cont (set_loc i (pop_add c t)) [ARaw 62; ACode code_reset]
    else cont (set_loc i t) [ARaw 62]
  else if c =? 124 then (* '|' *)
    let t := set_loc i t in
    if t_escaped t then escaped_ c t
    else if inq t then add_raw c t
    else if early pos t then mk_sres KEarly t []
    else
      let t := flow i 1 t in
      if next_is tl 62 then
        let t := set_sq false (set_expect_param true (set_read_func false (set_expect_func false
                   (set_unsafe true (set_last_flow (i - 1)%Z (pop_add 62 t)))))) in
        if next_is (List.tl tl) 62 then
          cont_skip 2 (set_pipe 5 (set_loc (i + 1)%Z t)) [AChar hl_pipe [124; 62; 62]; ACode hl_redirect]
        else cont_skip 1 t [AChar hl_pipe [124; 62]; ACode hl_redirect]
      else cont t [AChar hl_pipe [c]; AStartFunc]
  else if c =? 38 then (* '&' *)
    let t := set_loc i t in
    if t_escaped t then escaped_ c t
    else if inq t then add_raw c t
    else if next_is tl 38 then
      if early pos t then mk_sres KEarly t []
      else cont_skip 1 (flow i 0 t) [AChar hl_pipe [38; 38]; AStartFunc]
    else add_raw c t
  else if c =? 59 then (* ';' *)
    let t := set_loc i t in
    if t_escaped t then escaped_ c t
    else if inq t then add_raw c t
    else if early pos t then mk_sres KEarly t []
    else cont (flow i 0 t) [AChar hl_pipe [c]; AStartFunc]
  else if c =? 10 then (* '\n' *)
    let t := set_loc i t in
    if t_escaped t then escaped_ c t
    else if inq t then add_raw c t
    else if early pos t then mk_sres KEarly t []
    else cont (flow i 0 (set_unsafe true t)) [AChar hl_pipe [c]; AStartFunc]
  else if c =? 63 then (* '?' *)
    let t := set_loc i t in
    if t_escaped t then escaped_ c t
    else if inq t then add_raw c t
    else if next_is tl 58 || next_is tl 63 then
      if early pos t then mk_sres KEarly t []
      else cont_skip 1 (set_unsafe true (flow i 0 t)) [AChar hl_pipe (c :: firstn 1 tl); AStartFunc]
    else if prev_is prev 32 || prev_is prev 9 || next_is tl 32 || next_is tl 9 then
      (* like the block parser: `?` is a glob character only with no white space on either side (fix) *)
      if early pos t then mk_sres KEarly t []
      else cont (set_unsafe true (flow i 4 t)) [AChar hl_pipe [c]; ACode hl_function]
    else add_raw c t
  else if c =? 123 then (* '{' *)
    let t := set_loc i t in
    if t_escaped t then escaped_ c t
    else if inq t then add_raw c t
    else
      let t := end_func t in
      let n := (t_nested t + 1)%Z in
      cont (set_nparams 0 (set_pop_func true (set_pipe 0 (set_expect_func true (set_nested n t)))))
           (block_open_acts n)
  else if c =? 125 then (* '}' *)
    if t_escaped t then escaped_ c t
    else if inq t then add_raw c t
    else
      let n := t_nested t in
      cont (set_nested (n - 1)%Z t)
           ((if (1 <=? n)%Z then [ABlock n; ARaw 125; ACode code_reset] else [ACode hl_error; ARaw 125])
            ++ (if (n - 1 =? 0)%Z then [ATop] else []))
  else if c =? 91 then (* '[' *)
    if t_escaped t then escaped_ c t
    else if t_read_func t then cont (set_sq true (pop_add c t)) [ARaw c]
    else if t_expect_func t then cont (set_sq true (set_read_func true (pop_set c t))) [ARaw c]
    else cont (set_sq true (pop_add c t)) [ARaw c]
  else if c =? 93 then (* ']' *)
    if t_escaped t then escaped_ c t
    else if t_read_func t then add_raw c t
    else if t_expect_func t then cont (set_read_func true (pop_set c t)) [ARaw c]
    else cont (set_sq true (pop_add c t)) [ARaw c]
  else if c =? 36 then (* '$' *)
    if t_escaped t then escaped_ c t
    else if t_qs t then add_raw c t
    else sigil i c tl (if t_expect_param t then expect_param_ t else t)
  else if c =? 64 then (* '@' *)
    if t_escaped t then escaped_ c t
    else if t_qs t || next_is tl 32 || next_is tl 9 then add_raw c t
    else sigil i c tl (if t_expect_param t then expect_param_ t else t)
  else if c =? 60 then (* '<' *)
    if t_escaped t then escaped_ c t
    else if t_read_func t then add_raw c t
    else if t_expect_func t then cont (set_read_func true (pop_set c t)) [ARaw c]
    else cont (set_ang true (pop_add c (set_unsafe true t))) [ACode hl_redirect; ARaw c]
  else (* default *)
    if t_escaped t then
      let v := if c =? 114 then 13 else if c =? 110 then 10 else if c =? 115 then 32
               else if c =? 116 then 9 else c in
      cont (pop_set v (set_escaped false t)) [AReset c]
    else if t_read_func t then add_raw c t
    else if t_expect_func t then cont (set_read_func true (pop_set c t)) [ARaw c]
    else add_raw c (if t_expect_param t then expect_param_ t else t).

(* the loop body before the switch: LastCharacter and the $variable tail *)
Definition step (pos : Z) (prev : option N) (i : Z) (c : N) (tl : list N) (t : tok) : sres :=
  let t := if t_escaped t then t else set_last_char c t in
  if negb (t_var_sigil t =? 0) && t_var_brace t then
    if c =? 41 then cont (set_var_sigil 0 (pop_add c t)) [ARaw c; AResetNoChar]
    else cont (pop_add c t) [ARaw c]
  else if negb (t_var_sigil t =? 0) && negb (allowed_var_char c) then
    let r := switch pos prev i c tl (set_var_sigil 0 t) in
    mk_sres (s_kind r) (s_tok r) (AResetNoChar :: s_acts r)
  else switch pos prev i c tl t.

Record result := mk_result { r_tok : tok; r_hl : list seg; r_early : bool }.

(* after the loop: pt.Loc++; pt.VarLoc++; syntaxHighlighted += codes.Reset *)
Definition finish (t : tok) (h : hl) : result :=
  mk_result (set_var_loc (t_var_loc t + 1)%Z (set_loc (t_loc t + 1)%Z t))
            (rev (Code code_reset :: h_out h)) false.

Fixpoint tok_go (pos : Z) (prev : option N) (i : Z) (t : tok) (h : hl) (l : list N)
  : Outcome result :=
  match l with
  | [] => Ok (finish t h)
  | c :: tl =>
      let r := step pos prev i c tl t in
      obind (run_acts (s_acts r) h) (fun h' =>
        match s_kind r with
        | KEarly => Ok (mk_result (s_tok r) (rev (h_out h')) true)
        | KComment => Ok (finish (s_tok r) h')     (* every later rune: `continue` *)
        | KCont 0 => tok_go pos (Some c) (i + 1)%Z (s_tok r) h' tl
        | KCont 1 =>
            match tl with
            | c1 :: tl1 => tok_go pos (Some c1) (i + 2)%Z (s_tok r) h' tl1
            | [] => Panic                          (* a skip is only asked for after a successful peek *)
            end
        | KCont _ =>
            match tl with
            | _ :: c2 :: tl2 => tok_go pos (Some c2) (i + 3)%Z (s_tok r) h' tl2
            | _ => Panic
            end
        end)
  end.

(* parser.Parse(block, pos) *)
Definition parse (block : list N) (pos : Z) : Outcome result :=
  tok_go pos None 0%Z init_tok init_hl block.

(* the highlighted string of shell/parser.go: parser.Parse(line, 0) *)
Definition highlight (block : list N) : Outcome (list N) :=
  omap (fun r => render (r_hl r)) (parse block 0%Z).
