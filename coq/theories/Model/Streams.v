(* C01 / C02 — executable model of builtins/pipes/streams (streams.Stdin).

   A labelled transition system whose atomic steps are the atomic actions of the
   Go code: every mutex critical section and every poll of the context
   (`select { case <-stdin.ctx.Done(): ... default: }`).  Each goroutine is a
   thread with a program (list of method calls) and a program counter; "any
   interleaving" is any list of thread numbers (a schedule).  The yield hook
   `verifYield(stdin, point)` (builtins/pipes/streams/verif_hook.go, build tag
   verif) sits immediately before each of these atomic actions in the Go code,
   so the harness can drive the real code through exactly the same steps.

   Go being modelled (after "fix: streams.Stdin.ReadAll drains the buffer ..."):

     Open      define.go   [open ] deps++
     Close     define.go   [close] deps--               (debug.Enabled = false: no panic)
     ForceClose define.go  [force] cancel the context
     Write p   write.go    len p = 0 -> (0,nil) with no shared action
                           loop { [w.sel] ctx done ? -> [w.drop] buffer = {} ; return 0, ErrClosedPipe
                                  [w.chk] l,max := len(buffer),max ; l < max || max == 0 ? break }
                           [w.app] buffer ++= p ; bWritten += len p ; return len p, nil
     Read p    read.go     loop { [r.sel] ctx done ? -> return 0, EOF
                                  [r.chk] l,deps ; l == 0 ? (deps < 1 ? return 0, EOF : continue) : break }
                           [r.take] i = min(len p, len buffer) ; hand out buffer[:i] ; bRead += i
     ReadAll   read.go     [ra.max] max = 0
                           loop { [ra.sel] ctx done ? -> goto read ; [ra.poll] deps < 1 ? break }
                           read: [ra.take] b = buffer ; buffer = {} ; bRead += len b ; return b
     WriteTo w lang/stdio/templates.go   loop { Read(10240 bytes) ; EOF ? return total ; w.Write(chunk) }
     ReadFrom r write.go   [rf.max] max = 0
                           loop { [rf.sel] ctx done ? -> return total, ErrClosedPipe
                                  r.Read(1024 bytes) ; Write(chunk) ; EOF ? return total, nil }
     Stats     utils.go    [stats] (bWritten, bRead)
     SetDataType t utils.go   t = "" or "null" -> nothing ; [sdt] dataType == "" ? dataType = t
     GetDataType   utils.go   loop { [g.sel] ctx done ? -> return dataType or "*"
                                     [g.poll] dataType != "" ? return it ; deps < 1 ? return "*" }

   Not modelled: uint64 / int32 wrap-around of the counters (N and Z are unbounded),
   the data race of GetDataType's unlocked read after cancellation (C32). *)
From Coq Require Import List NArith ZArith Bool.
From Murex Require Import Base.Bytes Gen.StreamsTables.
Import ListNotations.
Open Scope N_scope.

Definition blen (b : bytes) : N := N.of_nat (length b).

Definition is_nil (b : bytes) : bool := match b with [] => true | _ => false end.

(* (first k bytes, rest) without going through nat *)
Fixpoint splitN (k : N) (l : bytes) : bytes * bytes :=
  match l with
  | [] => ([], [])
  | x :: l' =>
      if N.eqb k 0 then ([], l)
      else let '(a, b) := splitN (N.pred k) l' in (x :: a, b)
  end.

(* ---------------------------------------------------------------- shared state *)

Record st := mkSt {
  buf : bytes;       (* stdin.buffer *)
  deps : Z;          (* stdin.dependents *)
  smax : N;          (* stdin.max *)
  bR : N;            (* stdin.bRead *)
  bW : N;            (* stdin.bWritten *)
  canc : bool;       (* stdin.ctx is done *)
  sdt : bytes;       (* stdin.dataType, [] = "" = not set *)
  (* ghost history, not in the Go code *)
  g_app : bytes;     (* every byte ever appended, in append order *)
  g_con : bytes;     (* every byte ever handed to a reader, in hand-out order *)
  g_drop : bool      (* some Write emptied the buffer after cancellation *)
}.

Definition init_st (max : N) : st :=
  mkSt [] 0%Z max 0 0 false [] [] [] false.

Definition set_buf (s : st) (b : bytes) : st :=
  mkSt b (deps s) (smax s) (bR s) (bW s) (canc s) (sdt s) (g_app s) (g_con s) (g_drop s).
Definition set_deps (s : st) (d : Z) : st :=
  mkSt (buf s) d (smax s) (bR s) (bW s) (canc s) (sdt s) (g_app s) (g_con s) (g_drop s).
Definition set_max (s : st) (m : N) : st :=
  mkSt (buf s) (deps s) m (bR s) (bW s) (canc s) (sdt s) (g_app s) (g_con s) (g_drop s).
Definition set_canc (s : st) : st :=
  mkSt (buf s) (deps s) (smax s) (bR s) (bW s) true (sdt s) (g_app s) (g_con s) (g_drop s).
Definition set_dt (s : st) (t : bytes) : st :=
  mkSt (buf s) (deps s) (smax s) (bR s) (bW s) (canc s) t (g_app s) (g_con s) (g_drop s).

(* [w.app] *)
Definition do_append (s : st) (p : bytes) : st :=
  mkSt (buf s ++ p) (deps s) (smax s) (bR s) (bW s + blen p) (canc s) (sdt s)
       (g_app s ++ p) (g_con s) (g_drop s).

(* [w.drop] *)
Definition do_drop (s : st) : st :=
  mkSt [] (deps s) (smax s) (bR s) (bW s) (canc s) (sdt s) (g_app s) (g_con s) true.

(* [r.take] with a destination of n bytes: (state, bytes handed out) *)
Definition do_take (s : st) (n : N) : st * bytes :=
  let '(a, b) := splitN n (buf s) in
  (mkSt b (deps s) (smax s) (bR s + blen a) (bW s) (canc s) (sdt s)
        (g_app s) (g_con s ++ a) (g_drop s), a).

(* [ra.take] *)
Definition do_take_all (s : st) : st * bytes :=
  (mkSt [] (deps s) (smax s) (bR s + blen (buf s)) (bW s) (canc s) (sdt s)
        (g_app s) (g_con s ++ buf s) (g_drop s), buf s).

Definition closed (s : st) : bool := (deps s <? 1)%Z.

(* ---------------------------------------------------------------- programs *)

Inductive op :=
| OOpen | OClose | OForce
| OWrite (p : bytes)
| ORead (n : N)            (* Read into a slice of n bytes *)
| OReadAll
| OWriteTo                 (* stdio.WriteTo(stdin, w) *)
| OReadFrom (p : bytes)    (* ReadFrom(bytes.NewReader(p)) *)
| OStats
| OSetDT (t : bytes)
| OGetDT.

(* where a Write returns to: the caller, or ReadFrom's loop *)
Inductive wkont := KTop | KRF (rest : bytes) (tot : N).

Inductive pc :=
| PIdle
| POpen | PClose | PForce | PStats | PSetDT (t : bytes)
| PWSel (p : bytes) (k : wkont) | PWChk (p : bytes) (k : wkont)
| PWApp (p : bytes) (k : wkont) | PWDrop (p : bytes) (k : wkont)
| PRSel (n : N) | PRChk (n : N) | PRTake (n : N)
| PAMax | PASel | PAPoll | PATake
| PTSel (tot : N) | PTChk (tot : N) | PTTake (tot : N)
| PFMax (p : bytes) | PFSel (rest : bytes) (tot : N)
| PGSel | PGPoll.

(* number of the yield point a thread is parked at (0 = between two calls) *)
Definition pc_code (c : pc) : N :=
  match c with
  | PIdle => 0
  | POpen => 1 | PClose => 2 | PForce => 3 | PStats => 4 | PSetDT _ => 5
  | PWSel _ _ => 6 | PWChk _ _ => 7 | PWApp _ _ => 8 | PWDrop _ _ => 9
  | PRSel _ => 10 | PRChk _ => 11 | PRTake _ => 12
  | PAMax => 13 | PASel => 14 | PAPoll => 15 | PATake => 16
  | PTSel _ => 10 | PTChk _ => 11 | PTTake _ => 12      (* WriteTo runs Read's code *)
  | PFMax _ => 17 | PFSel _ _ => 18
  | PGSel => 19 | PGPoll => 20
  end.

(* error kinds *)
Definition e_nil : N := 0.
Definition e_eof : N := 1.
Definition e_closed : N := 2.   (* io.ErrClosedPipe *)

(* what one step shows to the outside *)
Inductive event :=
| EvIdle                                   (* the thread has finished its program *)
| EvTau                                    (* internal step, nothing returned *)
| EvUnit                                   (* Open / Close / ForceClose returned *)
| EvSetDT (t : bytes)                      (* SetDataType(t) returned *)
| EvWrite (p : bytes) (n : N) (e : N)      (* Write(p) returned (n, e) *)
| EvRead (n : N) (b : bytes) (e : N)       (* Read(n bytes) returned bytes b and e *)
| EvReadAll (b : bytes)                    (* ReadAll returned b *)
| EvChunk (b : bytes)                      (* WriteTo handed b to its io.Writer *)
| EvWriteTo (tot : N)                      (* WriteTo returned (tot, nil) *)
| EvIn (c : bytes)                         (* ReadFrom appended the chunk c *)
| EvReadFrom (tot : N) (e : N)             (* ReadFrom returned (tot, e) *)
| EvStats (w r : N)                        (* Stats returned *)
| EvDT (t : bytes)                         (* GetDataType returned t *)
| EvPanic                                  (* the call panicked: never produced by the model *)
| EvHang.                                  (* the released thread never reached its next yield point
                                              within the deadline: never produced by the model *)

Definition null_or_empty (t : bytes) : bool := is_nil t || bytes_eqb t types_null.

(* start the next call of the program: no shared action *)
Definition begin_op (o : op) : pc * event :=
  match o with
  | OOpen => (POpen, EvTau)
  | OClose => (PClose, EvTau)
  | OForce => (PForce, EvTau)
  | OWrite p => if is_nil p then (PIdle, EvWrite p 0 e_nil) else (PWSel p KTop, EvTau)
  | ORead n => (PRSel n, EvTau)
  | OReadAll => (PAMax, EvTau)
  | OWriteTo => (PTSel 0, EvTau)
  | OReadFrom p => (PFMax p, EvTau)
  | OStats => (PStats, EvTau)
  | OSetDT t => if null_or_empty t then (PIdle, EvSetDT t) else (PSetDT t, EvTau)
  | OGetDT => (PGSel, EvTau)
  end.

(* a Write (top level or inside ReadFrom) has appended p *)
Definition after_app (p : bytes) (k : wkont) : pc * event :=
  match k with
  | KTop => (PIdle, EvWrite p (blen p) e_nil)
  | KRF rest tot => (PFSel rest (tot + blen p), EvIn p)
  end.

(* a Write found the context cancelled *)
Definition after_drop (p : bytes) (k : wkont) : pc * event :=
  match k with
  | KTop => (PIdle, EvWrite p 0 e_closed)
  | KRF _ tot => (PIdle, EvReadFrom tot e_closed)
  end.

Definition dt_or_generic (t : bytes) : bytes := if is_nil t then types_generic else t.

(* one atomic action of a thread that is inside a call *)
Definition step_pc (s : st) (c : pc) : st * pc * event :=
  match c with
  | PIdle => (s, PIdle, EvIdle)
  | POpen => (set_deps s (deps s + 1)%Z, PIdle, EvUnit)
  | PClose => (set_deps s (deps s - 1)%Z, PIdle, EvUnit)
  | PForce => (set_canc s, PIdle, EvUnit)
  | PStats => (s, PIdle, EvStats (bW s) (bR s))
  | PSetDT t => ((if is_nil (sdt s) then set_dt s t else s), PIdle, EvSetDT t)
  (* Write *)
  | PWSel p k => if canc s then (s, PWDrop p k, EvTau) else (s, PWChk p k, EvTau)
  | PWChk p k =>
      if (blen (buf s) <? smax s) || (smax s =? 0) then (s, PWApp p k, EvTau)
      else (s, PWSel p k, EvTau)
  | PWApp p k => let '(c', e) := after_app p k in (do_append s p, c', e)
  | PWDrop p k => let '(c', e) := after_drop p k in (do_drop s, c', e)
  (* Read *)
  | PRSel n => if canc s then (s, PIdle, EvRead n [] e_eof) else (s, PRChk n, EvTau)
  | PRChk n =>
      if is_nil (buf s) then
        if closed s then (s, PIdle, EvRead n [] e_eof) else (s, PRSel n, EvTau)
      else (s, PRTake n, EvTau)
  | PRTake n => let '(s', a) := do_take s n in (s', PIdle, EvRead n a e_nil)
  (* ReadAll *)
  | PAMax => (set_max s 0, PASel, EvTau)
  | PASel => if canc s then (s, PATake, EvTau) else (s, PAPoll, EvTau)
  | PAPoll => if closed s then (s, PATake, EvTau) else (s, PASel, EvTau)
  | PATake => let '(s', a) := do_take_all s in (s', PIdle, EvReadAll a)
  (* WriteTo: Read(writeto_chunk) in a loop *)
  | PTSel tot => if canc s then (s, PIdle, EvWriteTo tot) else (s, PTChk tot, EvTau)
  | PTChk tot =>
      if is_nil (buf s) then
        if closed s then (s, PIdle, EvWriteTo tot) else (s, PTSel tot, EvTau)
      else (s, PTTake tot, EvTau)
  | PTTake tot => let '(s', a) := do_take s writeto_chunk in (s', PTSel (tot + blen a), EvChunk a)
  (* ReadFrom *)
  | PFMax p => (set_max s 0, PFSel p 0, EvTau)
  | PFSel rest tot =>
      if canc s then (s, PIdle, EvReadFrom tot e_closed)
      else if is_nil rest then (s, PIdle, EvReadFrom tot e_nil)
      else let '(c, rest') := splitN readfrom_chunk rest in (s, PWSel c (KRF rest' tot), EvTau)
  (* GetDataType *)
  | PGSel => if canc s then (s, PIdle, EvDT (dt_or_generic (sdt s))) else (s, PGPoll, EvTau)
  | PGPoll =>
      if negb (is_nil (sdt s)) then (s, PIdle, EvDT (sdt s))
      else if closed s then (s, PIdle, EvDT types_generic)
      else (s, PGSel, EvTau)
  end.

(* ---------------------------------------------------------------- threads and schedules *)

Definition thread := (list op * pc)%type.

Definition step_thread (s : st) (t : thread) : st * thread * event :=
  let '(prog, c) := t in
  match c with
  | PIdle =>
      match prog with
      | [] => (s, t, EvIdle)
      | o :: rest => let '(c', e) := begin_op o in (s, (rest, c'), e)
      end
  | _ => let '(s', c', e) := step_pc s c in (s', (prog, c'), e)
  end.

Fixpoint nth_thread (i : nat) (l : list thread) : option thread :=
  match l, i with
  | [], _ => None
  | t :: _, O => Some t
  | _ :: l', S i' => nth_thread i' l'
  end.

Fixpoint set_thread (i : nat) (t : thread) (l : list thread) : list thread :=
  match l, i with
  | [], _ => []
  | _ :: l', O => t :: l'
  | x :: l', S i' => x :: set_thread i' t l'
  end.

Record sys := mkSys { sh : st; thr : list thread }.

(* projection of the shared state compared with the implementation after every step *)
Record snap := mkSnap {
  sn_w : N; sn_r : N; sn_len : N; sn_deps : Z; sn_canc : bool; sn_max : N; sn_dt : bytes }.

Definition snap_of (s : st) : snap :=
  mkSnap (bW s) (bR s) (blen (buf s)) (deps s) (canc s) (smax s) (sdt s).

(* one observed step: the yield point the thread was released from, what it
   showed, and the state after the step *)
Record ostep := mkOStep { os_pt : N; os_ev : event; os_sn : snap }.

Definition sys_step (y : sys) (i : nat) : sys * ostep :=
  match nth_thread i (thr y) with
  | None => (y, mkOStep 0 EvIdle (snap_of (sh y)))
  | Some t =>
      let '(s', t', e) := step_thread (sh y) t in
      (mkSys s' (set_thread i t' (thr y)), mkOStep (pc_code (snd t)) e (snap_of s'))
  end.

Fixpoint exec (y : sys) (sched : list nat) : list ostep * sys :=
  match sched with
  | [] => ([], y)
  | i :: rest =>
      let '(y', o) := sys_step y i in
      let '(os, yf) := exec y' rest in
      (o :: os, yf)
  end.

Definition init_sys (max : N) (progs : list (list op)) : sys :=
  mkSys (init_st max) (map (fun p => (p, PIdle)) progs).

(* what the harness observes of a controlled run *)
Record ctl_obs := mkCtlObs { co_steps : list ostep; co_buf : bytes }.

Definition run_ctl (max : N) (progs : list (list op)) (sched : list nat) : ctl_obs :=
  let '(os, yf) := exec (init_sys max progs) sched in
  mkCtlObs os (buf (sh yf)).

(* ---------------------------------------------------------------- reading an observation *)

(* bytes handed to a reader by a step *)
Definition ev_delivered (e : event) : bytes :=
  match e with
  | EvRead _ b _ => b
  | EvReadAll b => b
  | EvChunk b => b
  | _ => []
  end.

(* bytes appended to the pipe by a step *)
Definition ev_appended (e : event) : bytes :=
  match e with
  | EvWrite p n er => if N.eqb er e_nil then p else []
  | EvIn c => c
  | _ => []
  end.

(* the step reported io.ErrClosedPipe (a Write may have emptied the buffer) *)
Definition ev_closed (e : event) : bool :=
  match e with
  | EvWrite _ _ er => N.eqb er e_closed
  | EvReadFrom _ er => N.eqb er e_closed
  | _ => false
  end.

Fixpoint delivered (os : list ostep) : bytes :=
  match os with [] => [] | o :: r => ev_delivered (os_ev o) ++ delivered r end.
Fixpoint appended (os : list ostep) : bytes :=
  match os with [] => [] | o :: r => ev_appended (os_ev o) ++ appended r end.
Fixpoint closed_seen (os : list ostep) : bool :=
  match os with [] => false | o :: r => ev_closed (os_ev o) || closed_seen r end.

(* a is b with some elements removed (order kept) *)
Fixpoint is_subseq (a b : bytes) : bool :=
  match a, b with
  | [], _ => true
  | _ :: _, [] => false
  | x :: a', y :: b' => if N.eqb x y then is_subseq a' b' else is_subseq a b'
  end.

(* ---------------------------------------------------------------- run-length coded byte strings
   (used by the free-running cases, whose payloads cross the 1 MiB limit) *)

Definition rle := list (N * N).   (* (byte, count > 0), adjacent bytes distinct *)

Definition rle_len (r : rle) : N := fold_right (fun bc a => snd bc + a) 0 r.

(* remove payload p from the front of out; None if out does not start with p *)
Fixpoint rle_strip (p out : rle) : option rle :=
  match p with
  | [] => Some out
  | (b, c) :: p' =>
      match out with
      | [] => None
      | (b', c') :: out' =>
          if N.eqb b b' then
            if N.eqb c c' then rle_strip p' out'
            else if N.ltb c c' then
                   match p' with
                   | [] => Some ((b', c' - c) :: out')
                   | _ => None      (* next run of p has another byte, out continues with b *)
                   end
                 else None
          else None
      end
  end.

(* writer number of a byte: payloads of writer w only use bytes = w mod 8 *)
Definition writer_of (b : N) : N := N.modulo b 8.

Fixpoint nth_payloads (w : N) (ws : list (list rle)) : option (list rle) :=
  match ws with
  | [] => None
  | x :: r => if N.eqb w 0 then Some x else nth_payloads (N.pred w) r
  end.

Fixpoint set_payloads (w : N) (v : list rle) (ws : list (list rle)) : list (list rle) :=
  match ws with
  | [] => []
  | x :: r => if N.eqb w 0 then v :: r else x :: set_payloads (N.pred w) v r
  end.

(* out is an interleaving of whole payloads, each writer's payloads in its own order,
   and every payload is used: fuel = total number of payloads *)
Fixpoint merge_ok (fuel : nat) (ws : list (list rle)) (out : rle) : bool :=
  match out with
  | [] => forallb (fun l => match l with [] => true | _ => false end) ws
  | (b, _) :: _ =>
      match fuel with
      | O => false
      | S f =>
          match nth_payloads (writer_of b) ws with
          | Some (p :: rest) =>
              match rle_strip p out with
              | Some out' => merge_ok f (set_payloads (writer_of b) rest ws) out'
              | None => false
              end
          | _ => false
          end
      end
  end.

Definition total_len (ws : list (list rle)) : N :=
  fold_right (fun l a => fold_right (fun p a' => rle_len p + a') a l) 0 ws.

Definition count_payloads (ws : list (list rle)) : nat :=
  fold_right (fun l a => (length l + a)%nat) O ws.
