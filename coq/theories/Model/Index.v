(* C16 — executable model of murex's index (`[`, `![`) and element (`[[`) lookups.

   Go code modelled (paths relative to /repo):
     lang/define_index_objects.go   itoIndex, itoIndexArray, itoIndexMap, itoNot, itoNotArray, itoNotMap
     lang/define_element_object.go  ElementLookup, elementRecursiveLookup, isValidElementIndex
     builtins/core/index/index.go   the recover() wrapper: a Go panic becomes the "panic caught" error
     builtins/core/element/element.go  output rendering of the looked-up value
     builtins/types/jsonlines/index.go indexObject (row filter on all-digit parameters)
     builtins/types/jsonlines/unmarshal.go (table / struct decision only)

   Every Go slice access `v[i]` is [slice_get], which is [Panic] outside 0 <= i < len,
   so "never panics" is a theorem about the bound checks, not a modelling decision.
   No proofs in this file. *)
From Murex Require Export Base.Outcome Base.Bytes Model.Decimal.
Open Scope Z_scope.

(* ---------- values (what encoding/json / yaml.v3 unmarshal into `any`) ---------- *)

Inductive jval : Type :=
| JNull
| JBool (b : bool)
| JNum (z : Z)                       (* integers only; see docs/C16.md *)
| JStr (s : bytes)
| JArr (l : list jval)
| JObj (kv : list (bytes * jval)).   (* keys unique, sorted by the harness *)

Fixpoint jval_eqb (a b : jval) : bool :=
  match a, b with
  | JNull, JNull => true
  | JBool x, JBool y => Bool.eqb x y
  | JNum x, JNum y => Z.eqb x y
  | JStr x, JStr y => bytes_eqb x y
  | JArr x, JArr y =>
      (fix go (x y : list jval) : bool :=
         match x, y with
         | [], [] => true
         | a :: x', b :: y' => jval_eqb a b && go x' y'
         | _, _ => false
         end) x y
  | JObj x, JObj y =>
      (fix go (x y : list (bytes * jval)) : bool :=
         match x, y with
         | [], [] => true
         | (k, a) :: x', (l, b) :: y' => bytes_eqb k l && jval_eqb a b && go x' y'
         | _, _ => false
         end) x y
  | _, _ => false
  end.

Definition zlen {A} (l : list A) : Z := Z.of_nat (length l).

(* Go: v[i] on a slice *)
Definition slice_get {A} (xs : list A) (i : Z) : Outcome A :=
  if (i <? 0) || (zlen xs <=? i) then Panic
  else match nth_error xs (Z.to_nat i) with
       | Some v => Ok v
       | None => Panic
       end.

(* error kinds (never compared with the implementation; only Err vs not) *)
Definition E_ATOI : N := 1%N.
Definition E_RANGE : N := 2%N.
Definition E_NOTFOUND : N := 3%N.
Definition E_NOTINDEXABLE : N := 4%N.
Definition E_PATH : N := 5%N.
Definition E_NEGATIVE : N := 6%N.
Definition E_USAGE : N := 7%N.
Definition E_MARSHAL : N := 8%N.

(* what a lookup writes to stdout *)
Inductive out : Type :=
| OutScalar (b : bytes)      (* raw bytes, no newline *)
| OutVal (v : jval)          (* a marshalled document; compared after parsing it back *)
| OutUnmodelled.             (* code path outside the model: only "no panic, no hang" is compared *)

(* ---------- ASCII case mapping: strings.ToLower / ToUpper / Title on ASCII keys ---------- *)

Definition is_upper (b : N) : bool := ((65 <=? b) && (b <=? 90))%N.
Definition is_lower (b : N) : bool := ((97 <=? b) && (b <=? 122))%N.
Definition to_lower_b (b : N) : N := if is_upper b then (b + 32)%N else b.
Definition to_upper_b (b : N) : N := if is_lower b then (b - 32)%N else b.
Definition to_lower_s (s : bytes) : bytes := map to_lower_b s.
Definition to_upper_s (s : bytes) : bytes := map to_upper_b s.
(* strings.Title: letters, digits and '_' are not separators *)
Definition is_word_b (b : N) : bool := is_digit b || is_upper b || is_lower b || (b =? 95)%N.
Fixpoint title_go (prev_sep : bool) (s : bytes) : bytes :=
  match s with
  | [] => []
  | b :: s' => (if prev_sep then to_upper_b b else b) :: title_go (negb (is_word_b b)) s'
  end.
Definition title_s (s : bytes) : bytes := title_go true s.

Fixpoint assoc (k : bytes) (kv : list (bytes * jval)) : option jval :=
  match kv with
  | [] => None
  | (k', v) :: kv' => if bytes_eqb k k' then Some v else assoc k kv'
  end.

(* ---------- ElementLookup ---------- *)

(* isValidElementIndex *)
Definition is_valid_element_index (key : bytes) (len : Z) : Outcome Z :=
  match atoi key with
  | None => Err E_ATOI
  | Some i =>
      if i <? 0 then
        let i' := i + len in
        if i' <? 0 then Err E_RANGE else Ok i'
      else if len <=? i then Err E_RANGE
      else Ok i
  end.

(* `v[key] != nil` on map[string]any *)
Definition assoc_nonnil (k : bytes) (kv : list (bytes * jval)) : option jval :=
  match assoc k kv with
  | Some JNull => None
  | r => r
  end.

Definition map_find4_nonnil (k : bytes) (kv : list (bytes * jval)) : option jval :=
  match assoc_nonnil k kv with
  | Some v => Some v
  | None =>
  match assoc_nonnil (title_s k) kv with
  | Some v => Some v
  | None =>
  match assoc_nonnil (to_lower_s k) kv with
  | Some v => Some v
  | None => assoc_nonnil (to_upper_s k) kv
  end end end.

(* elementRecursiveLookup, one path component *)
Definition elem_step (c : bytes) (obj : jval) : Outcome jval :=
  match obj with
  | JArr xs => obind (is_valid_element_index c (zlen xs)) (slice_get xs)
  | JObj kv => match map_find4_nonnil c kv with
               | Some v => Ok v
               | None => Err E_NOTFOUND
               end
  | _ => Err E_NOTINDEXABLE
  end.

(* the `for i := 1; i < len(pathSplit); i++` loop of ElementLookup *)
Fixpoint elem_walk (comps : list bytes) (obj : jval) : Outcome jval :=
  match comps with
  | [] => Ok obj
  | c :: rest =>
      match c with
      | [] => match rest with
              | [] => Ok obj                (* trailing separator: break *)
              | _ => Err E_PATH             (* zero length path element *)
              end
      | _ => obind (elem_step c obj) (elem_walk rest)
      end
  end.

(* strings.Split(path, sep) for a one byte separator *)
Fixpoint split_go (sep : N) (cur : bytes) (s : bytes) : list bytes :=
  match s with
  | [] => [rev cur]
  | b :: s' => if (b =? sep)%N then rev cur :: split_go sep [] s'
               else split_go sep (b :: cur) s'
  end.
Definition split_on (sep : N) (s : bytes) : list bytes := split_go sep [] s.

Definition element_lookup (path : bytes) (obj : jval) : Outcome jval :=
  match path with
  | sep :: _ :: _ => elem_walk (tl (split_on sep path)) obj
  | _ => Err E_PATH                        (* len(path) < 2 *)
  end.

(* ---------- itoIndexArray / itoIndexMap ---------- *)

Definition bool_text (b : bool) : bytes :=
  if b then [116; 114; 117; 101]%N else [102; 97; 108; 115; 101]%N.

(* the type switch that writes one selected value *)
Definition render_index (v : jval) : out :=
  match v with
  | JNull => OutScalar []
  | JBool b => OutScalar (bool_text b)
  | JNum z => OutScalar (itoa z)
  | JStr s => OutScalar s
  | _ => OutVal v
  end.

(* key -> position, as in the loop body of itoIndexArray (including the
   `i < 0` rejection after the negative adjustment) *)
Definition array_pos (key : bytes) (len : Z) : Outcome Z :=
  match atoi key with
  | None => Err E_ATOI
  | Some i =>
      let i' := if i <? 0 then i + len else i in
      if (i' <? 0) || (len <=? i') then Err E_RANGE else Ok i'
  end.

Fixpoint array_collect (params : list bytes) (xs : list jval) : Outcome (list jval) :=
  match params with
  | [] => Ok []
  | key :: rest =>
      obind (array_pos key (zlen xs)) (fun i =>
      obind (slice_get xs i) (fun v =>
      obind (array_collect rest xs) (fun vs => Ok (v :: vs))))
  end.

Definition ito_index_array (params : list bytes) (xs : list jval) : Outcome out :=
  match params with
  | [] => Ok (OutScalar [])
  | [key] => obind (array_pos key (zlen xs)) (fun i =>
             obind (slice_get xs i) (fun v => Ok (render_index v)))
  | _ => obind (array_collect params xs) (fun vs => Ok (OutVal (JArr vs)))
  end.

Definition map_find4 (k : bytes) (kv : list (bytes * jval)) : option jval :=
  match assoc k kv with
  | Some v => Some v
  | None =>
  match assoc (title_s k) kv with
  | Some v => Some v
  | None =>
  match assoc (to_lower_s k) kv with
  | Some v => Some v
  | None => assoc (to_upper_s k) kv
  end end end.

(* `[...]` parameter of a map index: an element path *)
Definition bracketed (p : bytes) : option bytes :=
  match p with
  | 91%N :: r =>
      match rev r with
      | 93%N :: m => match m with [] => None | _ => Some (rev m) end
      | _ => None
      end
  | _ => None
  end.

Definition map_lookup (p : bytes) (kv : list (bytes * jval)) : Outcome jval :=
  match bracketed p with
  | Some path => element_lookup path (JObj kv)
  | None => match map_find4 p kv with
            | Some v => Ok v
            | None => Err E_NOTFOUND
            end
  end.

Fixpoint map_collect (params : list bytes) (kv : list (bytes * jval)) : Outcome (list jval) :=
  match params with
  | [] => Ok []
  | p :: rest =>
      obind (map_lookup p kv) (fun v =>
      obind (map_collect rest kv) (fun vs => Ok (v :: vs)))
  end.

(* legacy = module version < 8.0: several keys give an array of the values *)
Definition ito_index_map (legacy : bool) (params : list bytes) (kv : list (bytes * jval)) : Outcome out :=
  match params with
  | [] => Ok (OutScalar [])
  | [p] => obind (map_lookup p kv) (fun v => Ok (render_index v))
  | _ => obind (map_collect params kv) (fun vs =>
         Ok (if legacy then OutVal (JArr vs) else OutUnmodelled))
  end.

(* ---------- itoNotArray / itoNotMap ---------- *)

Fixpoint not_positions (params : list bytes) (len : Z) : Outcome (list Z) :=
  match params with
  | [] => Ok []
  | key :: rest =>
      match atoi key with
      | None => Err E_ATOI
      | Some i =>
          if i <? 0 then Err E_NEGATIVE
          else if len <=? i then Err E_RANGE
          else obind (not_positions rest len) (fun l => Ok (i :: l))
      end
  end.

Definition zmem (i : Z) (l : list Z) : bool := existsb (Z.eqb i) l.

Fixpoint drop_positions (i : Z) (drop : list Z) (xs : list jval) : list jval :=
  match xs with
  | [] => []
  | x :: xs' => if zmem i drop then drop_positions (i + 1) drop xs'
                else x :: drop_positions (i + 1) drop xs'
  end.

(* the marshaller on a nil []any: utils/json.Marshal turns `null` into the
   error "no data returned"; yaml.Marshal prints `[]` *)
Definition ito_not_array (json : bool) (params : list bytes) (xs : list jval) : Outcome out :=
  obind (not_positions params (zlen xs)) (fun drop =>
  match drop_positions 0 drop xs with
  | [] => if json then Err E_MARSHAL else Ok (OutVal (JArr []))
  | l => Ok (OutVal (JArr l))
  end).

Definition bytes_mem (k : bytes) (l : list bytes) : bool := existsb (bytes_eqb k) l.

Definition not_keys (params : list bytes) : list bytes :=
  flat_map (fun p => let t := title_s p in let l := to_lower_s t in [p; t; l; to_upper_s l]) params.

Definition ito_not_map (params : list bytes) (kv : list (bytes * jval)) : Outcome out :=
  let nk := not_keys params in
  Ok (OutVal (JObj (filter (fun e => negb (bytes_mem (fst e) nk)) kv))).

(* ---------- element(): rendering ---------- *)

(* the `default:` branch marshals the value; utils/json.Marshal refuses a nil
   value ("no data returned"), yaml.Marshal prints `null` *)
Definition render_elem (json : bool) (v : jval) : Outcome out :=
  match v with
  | JStr s => Ok (OutScalar s)
  | JNum z => Ok (OutScalar (itoa z))
  | JBool b => Ok (OutScalar (bool_text b))
  | JNull => if json then Err E_MARSHAL else Ok (OutVal JNull)
  | _ => Ok (OutVal v)
  end.

(* ---------- jsonlines ---------- *)

Definition all_digits (s : bytes) : bool := forallb is_digit s.
Definition is_arr (v : jval) : bool := match v with JArr _ => true | _ => false end.

Fixpoint jsonl_line_numbers (params : list bytes) : Outcome (list Z) :=
  match params with
  | [] => Ok []
  | p :: rest => match atoi p with
                 | None => Err E_ATOI
                 | Some n => obind (jsonl_line_numbers rest) (fun l => Ok (n :: l))
                 end
  end.

Fixpoint select_rows (i : Z) (keep : Z -> bool) (rows : list jval) : list jval :=
  match rows with
  | [] => []
  | r :: rows' => if keep i then r :: select_rows (i + 1) keep rows'
                  else select_rows (i + 1) keep rows'
  end.

(* ---- lang/define_index_tables.go ittIndex, column-name mode ----
   jsonlines hands every parameter list with a non-digit byte to the table
   indexer; a parameter that is not one of the special forms (`:N`, `N:`, `*N`,
   `*c`) is a column NAME, looked up in the first row. So `[-1]` is a column
   called "-1", not the last row. *)

(* fmt.Sprint of a cell after json.Unmarshal into []any *)
Definition sprint_cell (v : jval) : option bytes :=
  match v with
  | JNum z => Some (itoa z)
  | JStr s => Some s
  | JBool b => Some (bool_text b)
  | JNull => Some [60; 110; 105; 108; 62]%N        (* <nil> *)
  | _ => None
  end.

Fixpoint sprint_row (cells : list jval) : option (list bytes) :=
  match cells with
  | [] => Some []
  | c :: r => match sprint_cell c, sprint_row r with
              | Some x, Some xs => Some (x :: xs)
              | _, _ => None
              end
  end.

Fixpoint table_rows (rows : list jval) : option (list (list bytes)) :=
  match rows with
  | [] => Some []
  | JArr cells :: r => match sprint_row cells, table_rows r with
                       | Some x, Some xs => Some (x :: xs)
                       | _, _ => None
                       end
  | _ :: _ => None
  end.

(* headings[recs[i]] = i + 1, later duplicates overwrite earlier ones; 0 = absent *)
Fixpoint heading_col (name : bytes) (hs : list bytes) (i : nat) (found : nat) : nat :=
  match hs with
  | [] => found
  | h :: r => heading_col name r (S i) (if bytes_eqb h name then S i else found)
  end.

Definition blank_row (r : list bytes) : bool :=
  match r with [] => true | [[]] => true | _ => false end.

(* one data row: the selected cells and whether some field was missing *)
Fixpoint pick_cols (cols : list nat) (r : list bytes) : list bytes * bool :=
  match cols with
  | [] => ([], false)
  | c :: cs =>
      let '(line, bad) := pick_cols cs r in
      match c with
      | O => (line, bad || negb (blank_row r))
      | S c' => match nth_error r c' with
                | Some v => (v :: line, bad)
                | None => (line, bad || negb (blank_row r))
                end
      end
  end.

Fixpoint table_data (cols : list nat) (rows : list (list bytes)) : list (list bytes) * bool :=
  match rows with
  | [] => ([], false)
  | r :: rest =>
      let '(line, bad) := pick_cols cols r in
      let '(out, bad') := table_data cols rest in
      ((match line with [] => out | _ => line :: out end), bad || bad')
  end.

Definition row_val (line : list bytes) : jval := JArr (map JStr line).

Definition table_cols (names : list bytes) (rows : list (list bytes)) : Outcome out :=
  match rows with
  | [] => Ok (OutVal (JArr []))
  | h :: rest =>
      let cols := map (fun nm => heading_col nm h O O) names in
      let line0 := filter (fun nm => negb (Nat.eqb (heading_col nm h O O) O)) names in
      let '(data, bad) := table_data cols rest in
      if bad then Err E_NOTFOUND
      else Ok (OutVal (JArr (map row_val (match line0 with [] => data | _ => line0 :: data end))))
  end.

Definition special_param (p : bytes) : bool := existsb (fun b => (b =? 42)%N || (b =? 58)%N) p.   (* '*' ':' *)

(* index() of jsonlines: all-digit parameters select rows (indexObject);
   anything else is the table indexer. *)
Definition jsonl_index (is_not : bool) (params : list bytes) (rows : list jval) : Outcome out :=
  if forallb all_digits params then
    obind (jsonl_line_numbers params) (fun ls =>
      Ok (OutVal (JArr (select_rows 0 (fun i => negb (Bool.eqb (zmem i ls) is_not)) rows))))
  else if is_not || existsb special_param params then Ok OutUnmodelled
  else match rows with
       | [] => Ok (OutVal (JArr []))
       | _ =>
         if existsb is_arr rows then
           match table_rows rows with
           | Some t => table_cols params t
           | None => Ok OutUnmodelled            (* mixed rows or nested cells *)
           end
         else Err E_NOTINDEXABLE                 (* a row that is not an array cannot be a table row *)
       end.

(* unmarshal(): rows that are all arrays give a [][]string table, which
   ElementLookup cannot walk; rows without any array give []any. *)
Definition jsonl_element (path : bytes) (rows : list jval) : Outcome out :=
  match rows with
  | _ =>                                      (* no rows: a nil [][]string *)
    if forallb is_arr rows then
      match element_lookup path JNull with    (* only the path checks can differ: every step fails *)
      | Ok _ => Ok OutUnmodelled              (* path with no component: marshals the table *)
      | Err e => Err e
      | Panic => Panic
      | OutOfFuel => OutOfFuel
      end
    else if existsb is_arr rows then Ok OutUnmodelled
    else obind (element_lookup path (JArr rows)) (fun v =>
         match v with
         | JArr _ | JObj _ | JNull => Ok OutUnmodelled
         | _ => render_elem false v
         end)
  end.

(* ---------- the three builtins on the three formats ---------- *)

Inductive fmt := FJson | FYaml | FJsonl.
Inductive op := OpIndex | OpNot | OpElem.

Definition is_json (f : fmt) : bool := match f with FJson => true | _ => false end.

Definition run (f : fmt) (o : op) (legacy : bool) (doc : jval) (params : list bytes) : Outcome out :=
  match f with
  | FJsonl =>
      match doc with
      | JArr rows =>
          match o with
          | OpIndex => jsonl_index false params rows
          | OpNot => jsonl_index true params rows
          | OpElem => match params with
                      | [path] => jsonl_element path rows
                      | _ => Ok OutUnmodelled
                      end
          end
      | _ => Ok OutUnmodelled
      end
  | _ =>
      match o with
      | OpIndex =>
          match doc with
          | JArr xs => ito_index_array params xs
          | JObj kv => ito_index_map legacy params kv
          | _ => Err E_NOTINDEXABLE
          end
      | OpNot =>
          match doc with
          | JArr xs => ito_not_array (is_json f) params xs
          | JObj kv => ito_not_map params kv
          | _ => Err E_NOTINDEXABLE
          end
      | OpElem =>
          match params with
          | [path] => obind (element_lookup path doc) (render_elem (is_json f))
          | _ => Ok OutUnmodelled
          end
      end
  end.
