(* C17 — executable model of murex's range filter `[start..end]flags` on lists.

   Go code modelled (paths relative to /repo):
     builtins/core/ranges/index.go       createRfIndex, newIndex, rfIndex.Start / End / SetLength
     builtins/core/ranges/read_array.go  readArray: started / Exclude / End / p.Done() control flow
     builtins/core/ranges/buffer.go      buffer (only its effect: the length handed to SetLength)
     builtins/types/*/array_read.go      the per item `select { case <-ctx.Done(): return }` of the
                                         readers: after p.Done() no further item reaches the callback
     builtins/types/json/array_write.go  Close(): an empty selection is the error "no data returned"

   The machine is a counter folded over the item list, exactly as the callback
   of readArray sees the items one at a time. Polymorphic in the item type.
   No proofs in this file. *)
From Murex Require Export Base.Outcome Base.Bytes Model.Decimal.
Open Scope Z_scope.

(* rangeParameters, the fields the index matcher uses *)
Record rparams := { rp_start : bytes; rp_end : bytes; rp_excl : bool }.

(* rfIndex after newIndex (and SetLength when buffered) *)
Record rfidx := { rf_start : Z; rf_end : Z }.

Definition E_START : N := 1%N.
Definition E_END : N := 2%N.
Definition E_NODATA : N := 3%N.

Definition is_empty (s : bytes) : bool := match s with [] => true | _ => false end.

(* createRfIndex followed by the two decrements of newIndex.
   Second component: r.Buffer *)
Definition new_index (p : rparams) : Outcome (rfidx * bool) :=
  let sStart := if is_empty (rp_start p) then [48%N] else rp_start p in
  let sEnd := if is_empty (rp_end p) then [45%N; 49%N] else rp_end p in
  match atoi sStart with
  | None => Err E_START
  | Some start =>
      match atoi sEnd with
      | None => Err E_END
      | Some end0 =>
          let buffer := start <? 0 in
          let end1 := if buffer && is_empty (rp_end p) then 1 else end0 in
          let end2 := if (0 <? start) && negb (rp_excl p) then end1 + 1 else end1 in
          Ok ({| rf_start := start - 1; rf_end := end2 - 1 |}, buffer)
      end
  end.

(* SetLength *)
Definition set_length (rf : rfidx) (n : Z) : rfidx :=
  {| rf_start := rf_start rf + n + 1; rf_end := rf_end rf + n + 1 |}.

(* state of the callback's closure: started, rf.i, and whether p.Done() was called *)
Record rstate := { st_started : bool; st_i : Z; st_done : bool }.

Section Machine.
  Context {A : Type}.
  Variable p : rparams.
  Variable rf : rfidx.

  (* one call of the ReadArray callback: new state and whether b is written *)
  Definition step (st : rstate) : rstate * bool :=
    (* `if !started { if r.Match.Start(b) {...} else { return } }` *)
    let '(proceed, i1, started1) :=
      if st_started st then (true, st_i st, true)
      else
        let i1 := st_i st + 1 in
        if rf_start rf <? i1 then (negb (rp_excl p), i1, true)
        else (false, i1, false) in
    if negb proceed then ({| st_started := started1; st_i := i1; st_done := false |}, false)
    else
      (* `if r.End != "" && r.Match.End(b)` *)
      if negb (is_empty (rp_end p)) && (-1 <? rf_end rf) then
        let i2 := i1 + 1 in
        if rf_end rf <? i2
        then ({| st_started := true; st_i := i2; st_done := true |}, negb (rp_excl p))
        else ({| st_started := true; st_i := i2; st_done := false |}, true)
      else ({| st_started := true; st_i := i1; st_done := false |}, true).

  Fixpoint feed (st : rstate) (xs : list A) : list A :=
    match xs with
    | [] => []
    | b :: rest =>
        if st_done st then []          (* the reader saw ctx.Done(): nothing more is delivered *)
        else let '(st', w) := step st in
             if w then b :: feed st' rest else feed st' rest
    end.
End Machine.

(* CmdRange for the index matcher on a list of items *)
Definition range_filter {A} (p : rparams) (xs : list A) : Outcome (list A) :=
  match new_index p with
  | Ok (rf0, buffer) =>
      let rf := if buffer then set_length rf0 (Z.of_nat (length xs)) else rf0 in
      Ok (feed p rf {| st_started := is_empty (rp_start p); st_i := 0; st_done := false |} xs)
  | Err e => Err e
  | Panic => Panic
  | OutOfFuel => OutOfFuel
  end.

(* the array writers: json cannot write an empty selection *)
Inductive rfmt := RStr | RJson | RJsonl.

Definition run_range {A} (f : rfmt) (p : rparams) (xs : list A) : Outcome (list A) :=
  match range_filter p xs with
  | Ok [] => match f with RJson => Err E_NODATA | _ => Ok [] end
  | r => r
  end.
