(* C17 — executable model of murex's range filter `[start..end]flags` on lists.

   Go code modelled (paths relative to /repo):
     builtins/core/ranges/index.go       createRfIndex, newIndex, rfIndex.Start / End / SetLength
     builtins/core/ranges/read_array.go  readArray: started / Exclude / End / p.Done() control flow
     builtins/core/ranges/buffer.go      buffer (only its effect: the length handed to SetLength)
     builtins/types/*/array_read.go      the per item `select { case <-ctx.Done(): return }` of the
                                         readers: after p.Done() no further item reaches the callback
     builtins/types/json/array_write.go  Close(): an empty selection is the error "no data returned"

   The machine is a counter folded over the item list, exactly as the callback
   of readArray sees the items one at a time. Polymorphic in the item type.
   No proofs in this file. *)
From Murex Require Export Base.Outcome Base.Bytes Model.Decimal.
Open Scope Z_scope.

(* rangeParameters, the fields the index matcher uses *)
Record rparams := { rp_start : bytes; rp_end : bytes; rp_excl : bool }.

(* rfIndex after newIndex (and SetLength when buffered) *)
Record rfidx := { rf_start : Z; rf_end : Z }.

Definition E_START : N := 1%N.
Definition E_END : N := 2%N.
Definition E_NODATA : N := 3%N.

Definition is_empty (s : bytes) : bool := match s with [] => true | _ => false end.

(* createRfIndex followed by the two decrements of newIndex.
   Second component: r.Buffer *)
Definition new_index (p : rparams) : Outcome (rfidx * bool) :=
  let sStart := if is_empty (rp_start p) then [48%N] else rp_start p in
  let sEnd := if is_empty (rp_end p) then [45%N; 49%N] else rp_end p in
  match atoi sStart with
  | None => Err E_START
  | Some start =>
      match atoi sEnd with
      | None => Err E_END
      | Some end0 =>
          let buffer := start <? 0 in
          let end1 := if buffer && is_empty (rp_end p) then 1 else end0 in
          let end2 := if (0 <? start) && negb (rp_excl p) then end1 + 1 else end1 in
          Ok ({| rf_start := start - 1; rf_end := end2 - 1 |}, buffer)
      end
  end.

(* SetLength *)
Definition set_length (rf : rfidx) (n : Z) : rfidx :=
  {| rf_start := rf_start rf + n + 1; rf_end := rf_end rf + n + 1 |}.

(* state of the callback's closure: started, rf.i, and whether p.Done() was called *)
Record rstate := { st_started : bool; st_i : Z; st_done : bool }.

Section Machine.
  Context {A : Type}.
  Variable p : rparams.
  Variable rf : rfidx.

  (* one call of the ReadArray callback: new state and whether b is written *)
  Definition step (st : rstate) : rstate * bool :=
    (* `if !started { if r.Match.Start(b) {...} else { return } }` *)
    let '(proceed, i1, started1) :=
      if st_started st then (true, st_i st, true)
      else
        let i1 := st_i st + 1 in
        if rf_start rf <? i1 then (negb (rp_excl p), i1, true)
        else (false, i1, false) in
    if negb proceed then ({| st_started := started1; st_i := i1; st_done := false |}, false)
    else
      (* `if r.End != "" && r.Match.End(b)` *)
      if negb (is_empty (rp_end p)) && (-1 <? rf_end rf) then
        let i2 := i1 + 1 in
        if rf_end rf <? i2
        then ({| st_started := true; st_i := i2; st_done := true |}, negb (rp_excl p))
        else ({| st_started := true; st_i := i2; st_done := false |}, true)
      else ({| st_started := true; st_i := i1; st_done := false |}, true).

  Fixpoint feed (st : rstate) (xs : list A) : list A :=
    match xs with
    | [] => []
    | b :: rest =>
        if st_done st then []          (* the reader saw ctx.Done(): nothing more is delivered *)
        else let '(st', w) := step st in
             if w then b :: feed st' rest else feed st' rest
    end.
End Machine.

(* CmdRange for the index matcher on a list of items *)
Definition range_filter {A} (p : rparams) (xs : list A) : Outcome (list A) :=
  match new_index p with
  | Ok (rf0, buffer) =>
      let rf := if buffer then set_length rf0 (Z.of_nat (length xs)) else rf0 in
      Ok (feed p rf {| st_started := is_empty (rp_start p); st_i := 0; st_done := false |} xs)
  | Err e => Err e
  | Panic => Panic
  | OutOfFuel => OutOfFuel
  end.

(* the array writers: json cannot write an empty selection *)
Inductive rfmt := RStr | RJson | RJsonl.

Definition run_range {A} (f : rfmt) (p : rparams) (xs : list A) : Outcome (list A) :=
  match range_filter p xs with
  | Ok [] => match f with RJson => Err E_NODATA | _ => Ok [] end
  | r => r
  end.

(* ====================================================================== *)
(* The other matchers, the inverse form and the trimming flags.

     builtins/core/ranges/number.go   newNumber: the same rfIndex, 0-based (`[s..e]n`, `@[s..e]`)
     builtins/core/ranges/string.go   rfString: Start / End compare the item with the bound's text
     builtins/core/ranges/regexp.go   rfRegexp: Start / End match a regular expression
     builtins/core/ranges/read_array.go  RmBS / TrimSpace / StripBlank preprocessing of each item,
                                      `if p.IsNot { return }` for `![ .. ]`
     utils/rmbs/rmbs.go               Remove (backspace editing)                                  *)

(* a matcher: Start and End see the counter and the item, return the verdict and the new counter *)
Record matcher (A : Type) := {
  m_start : Z -> A -> bool * Z;
  m_end : Z -> A -> bool * Z }.
Arguments m_start {A}. Arguments m_end {A}.

Definition index_matcher {A} (rf : rfidx) : matcher A :=
  {| m_start := fun i _ => (rf_start rf <? i + 1, i + 1);
     m_end := fun i _ => if -1 <? rf_end rf then (rf_end rf <? i + 1, i + 1) else (false, i) |}.

(* rfString and rfRegexp: two predicates on the item, no counter *)
Definition pred_matcher {A} (ps pe : A -> bool) : matcher A :=
  {| m_start := fun i b => (ps b, i); m_end := fun i b => (pe b, i) |}.

Section GMachine.
  Context {A : Type}.
  Variable m : matcher A.
  Variables excl end_given isnot : bool.

  (* the callback of readArray after the preprocessing of the item *)
  Definition gstep (st : rstate) (b : A) : rstate * bool :=
    let '(proceed, i1, started1) :=
      if st_started st then (true, st_i st, true)
      else let '(s, i1) := m_start m (st_i st) b in
           if s then (negb excl, i1, true) else (false, i1, false) in
    if negb proceed then ({| st_started := started1; st_i := i1; st_done := false |}, false)
    else if end_given then
      let '(e, i2) := m_end m i1 b in
      if e then ({| st_started := true; st_i := i2; st_done := true |}, negb excl)
      else ({| st_started := true; st_i := i2; st_done := false |}, negb isnot)
    else ({| st_started := true; st_i := i1; st_done := false |}, negb isnot).

  Fixpoint gfeed (st : rstate) (xs : list A) : list A :=
    match xs with
    | [] => []
    | b :: rest =>
        if st_done st then []
        else let '(st', w) := gstep st b in
             if w then b :: gfeed st' rest else gfeed st' rest
    end.
End GMachine.

(* newNumber *)
Definition new_number (p : rparams) : Outcome (rfidx * bool) :=
  match new_index p with
  | Ok (rf, buffer) =>
      (* newIndex = createRfIndex with both fields decremented: undo that, then newNumber's own shift *)
      let s := rf_start rf + 1 in
      let e := rf_end rf + 1 in
      Ok (if buffer then {| rf_start := s - 2; rf_end := e - 2 |} else {| rf_start := s; rf_end := e |}, buffer)
  | Err k => Err k
  | Panic => Panic
  | OutOfFuel => OutOfFuel
  end.

(* utils/rmbs.Remove on ASCII text: a backspace deletes the byte before it *)
Fixpoint rmbs_go (stack : bytes) (s : bytes) : bytes :=
  match s with
  | [] => rev stack
  | b :: r => if (b =? 8)%N then match stack with
                                 | [] => rmbs_go [b] r
                                 | _ :: st' => rmbs_go st' r
                                 end
              else rmbs_go (b :: stack) r
  end.
Definition rmbs (s : bytes) : bytes := rmbs_go [] s.

(* bytes.TrimSpace on ASCII *)
Definition is_space (b : N) : bool :=
  ((b =? 32) || (b =? 9) || (b =? 10) || (b =? 11) || (b =? 12) || (b =? 13))%N.
Fixpoint trim_left (s : bytes) : bytes :=
  match s with
  | b :: r => if is_space b then trim_left r else s
  | [] => []
  end.
Definition trim_space (s : bytes) : bytes := rev (trim_left (rev (trim_left s))).

Inductive mkind := KIndex | KNumber | KString | KRegexp.

Record rflags := { f_not : bool; f_rmbs : bool; f_blank : bool; f_trim : bool }.

(* the per item preprocessing: RmBS, TrimSpace, then StripBlank drops empty items
   before the matcher sees them *)
Definition prep (f : rflags) (xs : list bytes) : list bytes :=
  let g := fun b => let b1 := if f_rmbs f then rmbs b else b in
                    if f_trim f then trim_space b1 else b1 in
  let ys := map g xs in
  if f_blank f then filter (fun b => negb (is_empty b)) ys else ys.

Section Full.
  (* regexp.Match(pattern, item): a parameter of the model *)
  Variable rx_match : bytes -> bytes -> bool.

  Definition matcher_of (k : mkind) (p : rparams) (n : Z) : Outcome (matcher bytes) :=
    match k with
    | KIndex => match new_index p with
                | Ok (rf0, buffer) => Ok (index_matcher (if buffer then set_length rf0 n else rf0))
                | Err e => Err e | Panic => Panic | OutOfFuel => OutOfFuel
                end
    | KNumber => match new_number p with
                 | Ok (rf0, buffer) => Ok (index_matcher (if buffer then set_length rf0 n else rf0))
                 | Err e => Err e | Panic => Panic | OutOfFuel => OutOfFuel
                 end
    | KString => Ok (pred_matcher (bytes_eqb (rp_start p)) (bytes_eqb (rp_end p)))
    | KRegexp => Ok (pred_matcher (rx_match (rp_start p)) (rx_match (rp_end p)))
    end.

  (* CmdRange + readArray. SetLength gets the number of items read by buffer(),
     i.e. before StripBlank. *)
  Definition range_filter2 (k : mkind) (f : rflags) (p : rparams) (xs : list bytes)
    : Outcome (list bytes) :=
    obind (matcher_of k p (Z.of_nat (length xs))) (fun m =>
      Ok (gfeed m (rp_excl p) (negb (is_empty (rp_end p))) (f_not f)
                {| st_started := is_empty (rp_start p); st_i := 0; st_done := false |}
                (prep f xs))).

  Definition run_range2 (fm : rfmt) (k : mkind) (f : rflags) (p : rparams) (xs : list bytes)
    : Outcome (list bytes) :=
    match range_filter2 k f p xs with
    | Ok [] => match fm with RJson => Err E_NODATA | _ => Ok [] end
    | r => r
    end.
End Full.

(* the regular expressions used by the correspondence run: an optional `^`, a
   literal without metacharacters, an optional `$` *)
Fixpoint is_prefix (p s : bytes) : bool :=
  match p, s with
  | [], _ => true
  | a :: p', b :: s' => (a =? b)%N && is_prefix p' s'
  | _ :: _, [] => false
  end.
Fixpoint contains (p s : bytes) : bool :=
  is_prefix p s || match s with [] => false | _ :: s' => contains p s' end.
Definition is_suffix (p s : bytes) : bool := is_prefix (rev p) (rev s).

Definition simple_rx (pat item : bytes) : bool :=
  match pat with
  | 94%N :: r =>                                           (* ^ *)
      match rev r with
      | 36%N :: m => bytes_eqb (rev m) item               (* ^lit$ *)
      | _ => is_prefix r item
      end
  | _ =>
      match rev pat with
      | 36%N :: m => is_suffix (rev m) item               (* lit$ *)
      | _ => contains pat item
      end
  end.
