(* C21 — model of lang/exec.go: execFork's treatment of cmd.Wait() and External's
   copy of the system process' exit code, composed with the way the run-mode
   schedulers treat an exit number (failed <-> non-zero).

   Go being modelled (after the fix "fix: external commands killed by a signal"):

     err := cmd.Wait()
     if err != nil && HasPrefix(err.Error(), "signal:") {
         p.ExitNum = signalExitNum(cmd.ProcessState)   // 128+signal (unix) / 1
         return nil
     }
     if err != nil && err.Error() != "wait: no child processes" { return err }
     return nil

     func External(p) error {
         err := execute(p)
         if err != nil { p.ExitNum = p.SystemProcess.ExitNum(); return err }
         return nil }
*)
From Murex Require Import Base.Outcome.

(* What the operating system reports for the child. *)
Inductive wait_result :=
| Exited (status : Z)      (* normal exit, status 0..255 *)
| Signaled (sig : Z)       (* terminated by signal number sig >= 1 *)
| NoChild.                 (* wait: no child processes (already reaped) *)

(* cmd.Wait()'s error, abstracted to what the code inspects. *)
Inductive wait_err := WNil | WExitStatus (n : Z) | WSignal (s : Z) | WNoChild.

Definition go_wait (w : wait_result) : wait_err :=
  match w with
  | Exited n => if Z.eqb n 0 then WNil else WExitStatus n
  | Signaled s => WSignal s
  | NoChild => WNoChild
  end.

(* ProcessState.ExitCode(): status if exited, -1 if signalled. *)
Definition exit_code (w : wait_result) : Z :=
  match w with Exited n => n | Signaled _ => (-1)%Z | NoChild => (-1)%Z end.

(* lang/exec_unix.go signalExitNum *)
Definition signal_exit_num (w : wait_result) : Z :=
  match w with Signaled s => (128 + s)%Z | _ => 1%Z end.

(* execFork: returns (error?, ExitNum written by execFork if any) *)
Definition exec_fork (w : wait_result) : bool * option Z :=
  match go_wait w with
  | WSignal _ => (false, Some (signal_exit_num w))
  | WNoChild => (false, None)
  | WNil => (false, None)
  | WExitStatus _ => (true, None)
  end.

(* External: p.ExitNum after the call; p.ExitNum starts at 0. Second component:
   did External return an error (which murex prints to stderr). *)
Definition external (w : wait_result) : Z * bool :=
  let '(err, set) := exec_fork w in
  let n0 := match set with Some n => n | None => 0%Z end in
  if err then (exit_code w, true) else (n0, false).

Definition exit_num (w : wait_result) : Z := fst (external w).

(* How the schedulers use it (lang/interpreter_pc.go): a process failed iff its
   exit number is non-zero.  ctx: how the helper is used in the generated program. *)
Inductive ctx := Alone | AndThen | OrElse | InTry | InTryPipe.

Definition failed (n : Z) : bool := negb (Z.eqb n 0).

(* Does the follow-on command (`out ran`) run? *)
Definition next_runs (c : ctx) (n : Z) : bool :=
  match c with
  | Alone => true                     (* `cmd ; out ran` *)
  | AndThen => negb (failed n)        (* `cmd && out ran` *)
  | OrElse => failed n                (* `cmd || out ran` *)
  | InTry => negb (failed n)          (* `try { cmd ; out ran }` *)
  | InTryPipe => negb (failed n)      (* `trypipe { cmd ; out ran }` *)
  end.

Record obs := { o_exit : Z; o_next : bool }.

Definition run (c : ctx) (w : wait_result) : obs :=
  let n := exit_num w in {| o_exit := n; o_next := next_runs c n |}.
