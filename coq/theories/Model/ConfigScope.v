(* C25 — model of murex config scoping.

   Go being modelled:

   config/config.go
     Copy        : newConfiguration(conf) at session level, newConfiguration(conf.global) otherwise
                   -- a new EMPTY local table whose parent is always the session (global) table,
                      never the caller's local table
     GetFileRef  : if conf.global != nil && conf.values[app][key] != nil -> the local value
                   else if the option is not in conf.properties -> conf.global.GetFileRef (session table)
                   session table: values[app][key], or Default when nil; undefined option -> error
     Set         : on a local table: exists, global := conf.global.ExistsAndGlobal(app, key)
                   if !exists || global -> conf.global.Set(...)   (session table; error when undefined)
                   else conf.values[app][key] = value             (local override)
     Default     : v := <session>.properties[app][key].Default (error when undefined); conf.Set(app, key, v)
     Define      : session table: values[app][key] = Default
   lang/fork.go
     F_FUNCTION  : fork.Config = p.Config.Copy()
     otherwise   : fork.Config = p.Config      (F_NEW_CONFIG is used by no builtin)
   lang/interpreter.go:106  procs[i].Config = parent.Config
   builtins/core/config/cmd.go : config get / set / default, !config  act on p.Config

   State: the session table, the running scope's local table (None at session
   level, where p.Config IS the session table) and the stack of the callers'. *)
From Murex Require Import Base.Outcome.
From Murex Require Export Model.Scope.   (* name, value, table, t_get/t_set, event, trace *)

(* declared options: key -> (Global flag, Default) *)
Record decl := { d_global : bool; d_default : value }.
Definition decls := list (name * decl).

Fixpoint d_get (ds : decls) (k : name) : option decl :=
  match ds with
  | [] => None
  | (k', d) :: ds' => if N.eqb k k' then Some d else d_get ds' k
  end.

(* Define(): the session table starts with every default *)
Fixpoint session_of (ds : decls) : table :=
  match ds with
  | [] => []
  | (k, d) :: ds' => t_set (session_of ds') k (d_default d)
  end.

Inductive cop :=
| CSet (tag : N) (k : name) (v : value)     (* config set app k v *)
| CDefault (tag : N) (k : name)             (* config default app k | !config app k *)
| CGet (tag : N) (k : name)                 (* config get app k *)
| CCall (body : list cop)                   (* function / private / source {} / fexec function *)
| CBlock (body : list cop).                 (* if / switch / ${} / foreach ... *)

Definition cseq {S : Type} (f : cop -> S -> S * trace) : list cop -> S -> S * trace :=
  fix go (l : list cop) (s : S) : S * trace :=
    match l with
    | [] => (s, [])
    | o :: l' => let '(s1, t1) := f o s in
                 let '(s2, t2) := go l' s1 in (s2, t1 ++ t2)
    end.

Record cstate := { sess : table; here : option table; outer : list (option table) }.

Definition cmk (s : table) (h : option table) (o : list (option table)) : cstate :=
  {| sess := s; here := h; outer := o |}.

(* GetFileRef *)
Definition cget (ds : decls) (s : cstate) (k : name) : option value :=
  match here s with
  | Some l =>
      match t_get l k with
      | Some v => Some v                               (* conf.values[app][key] != nil *)
      | None =>
          match d_get ds k with
          | None => None                               (* cannot get config *)
          | Some d => match t_get (sess s) k with Some v => Some v | None => Some (d_default d) end
          end
      end
  | None =>
      match d_get ds k with
      | None => None
      | Some d => match t_get (sess s) k with Some v => Some v | None => Some (d_default d) end
      end
  end.

(* Set; returns None on error *)
Definition cset (ds : decls) (s : cstate) (k : name) (v : value) : option cstate :=
  match here s with
  | Some l =>
      match d_get ds k with
      | None => None                                   (* forwarded to the session table: undefined -> error *)
      | Some d =>
          if d_global d then Some (cmk (t_set (sess s) k v) (here s) (outer s))
          else Some (cmk (sess s) (Some (t_set l k v)) (outer s))
      end
  | None =>
      match d_get ds k with
      | None => None
      | Some _ => Some (cmk (t_set (sess s) k v) None (outer s))
      end
  end.

Definition cdefault (ds : decls) (s : cstate) (k : name) : option cstate :=
  match d_get ds k with
  | None => None                                       (* cannot default config *)
  | Some d => cset ds s k (d_default d)
  end.

Definition cpush (s : cstate) : cstate := cmk (sess s) (Some t_empty) (here s :: outer s).
Definition cpop (s : cstate) : cstate :=
  match outer s with
  | h :: o => cmk (sess s) h o
  | [] => cmk (sess s) None []
  end.

Definition ok_event (tag : N) (r : option cstate) (s : cstate) : cstate * trace :=
  match r with
  | Some s' => (s', [(tag, Some 0%N)])
  | None => (s, [(tag, None)])
  end.

Fixpoint cstep (ds : decls) (o : cop) (s : cstate) : cstate * trace :=
  match o with
  | CSet tag k v => ok_event tag (cset ds s k v) s
  | CDefault tag k => ok_event tag (cdefault ds s k) s
  | CGet tag k => (s, [(tag, cget ds s k)])
  | CCall body => let '(s', tr) := cseq (cstep ds) body (cpush s) in (cpop s', tr)
  | CBlock body => cseq (cstep ds) body s
  end.

Definition crun_state (ds : decls) (ops : list cop) (s : cstate) : cstate * trace :=
  cseq (cstep ds) ops s.

(* the program starts at session level *)
Definition cinit (ds : decls) : cstate := cmk (session_of ds) None [].

Definition crun (ds : decls) (ops : list cop) : trace := snd (crun_state ds ops (cinit ds)).
