(* Decimal text <-> integers, as Go's strconv.Atoi / strconv.Itoa behave on the
   inputs the index, range and mkarray builtins hand to them.
   Shared by Model/Index.v (C16), Model/Range.v (C17) and Model/MkArray.v (C18).
   Executable definitions only; proofs are in Proof/Decimal.v. *)
From Murex Require Export Base.Outcome Base.Bytes.

Definition is_digit (b : N) : bool := (48 <=? b)%N && (b <=? 57)%N.
Definition digit_val (b : N) : N := (b - 48)%N.

(* value of a digit string, most significant first; None if a non-digit occurs *)
Fixpoint digits_val_acc (acc : N) (s : bytes) : option N :=
  match s with
  | [] => Some acc
  | b :: s' => if is_digit b then digits_val_acc (acc * 10 + digit_val b)%N s' else None
  end.

Definition digits_val (s : bytes) : option N :=
  match s with
  | [] => None                      (* strconv: at least one digit *)
  | _ => digits_val_acc 0%N s
  end.

Definition int_max : Z := 9223372036854775807%Z.
Definition int_min : Z := (-9223372036854775808)%Z.

(* strconv.Atoi: optional sign, one or more decimal digits, range of int (64 bit) *)
Definition atoi (s : bytes) : option Z :=
  match s with
  | 45%N :: r =>                                     (* '-' *)
      match digits_val r with
      | Some n => let z := (- Z.of_N n)%Z in if (int_min <=? z)%Z then Some z else None
      | None => None
      end
  | 43%N :: r =>                                     (* '+' *)
      match digits_val r with
      | Some n => let z := Z.of_N n in if (z <=? int_max)%Z then Some z else None
      | None => None
      end
  | _ =>
      match digits_val s with
      | Some n => let z := Z.of_N n in if (z <=? int_max)%Z then Some z else None
      | None => None
      end
  end.

(* strconv.Itoa on a non-negative number: least significant digit consed last *)
Fixpoint n_to_dec_fuel (fuel : nat) (n : N) (acc : bytes) : bytes :=
  match fuel with
  | O => acc
  | S f =>
      let d := (48 + n mod 10)%N in
      let q := (n / 10)%N in
      if (q =? 0)%N then d :: acc else n_to_dec_fuel f q (d :: acc)
  end.

(* N.size_nat n binary digits are never fewer than the decimal digits *)
Definition n_to_dec (n : N) : bytes := n_to_dec_fuel (S (N.size_nat n)) n [].

Definition itoa (z : Z) : bytes :=
  match z with
  | Z0 => [48%N]
  | Zpos p => n_to_dec (Npos p)
  | Zneg p => 45%N :: n_to_dec (Npos p)
  end.
