(* C35 — executable model of builtins/core/escape/escape.go (cmdEscape, cmdHtml,
   cmdUrl, method form) and of the Go library functions they call:

     html.EscapeString / html.UnescapeString   (go1.24 src/html/escape.go)
     url.PathEscape / url.PathUnescape         (go1.24 src/net/url/url.go,
                                                mode encodePathSegment)
     strconv.Quote / strconv.Unquote           NOT modelled: Section variables

   Strings are lists of bytes (N, each < 256); nothing here decodes UTF-8, exactly
   as in the Go code (both libraries work on bytes).

   No proofs in this file. *)
From Murex Require Import Base.Outcome Base.Bytes.
Local Open Scope N_scope.

(* ------------------------------------------------------------------ *)
(* html.EscapeString: strings.NewReplacer over the five single bytes     *)

Definition html_rep (c : N) : bytes :=
  if N.eqb c 38 then [38;97;109;112;59]            (* amp   -> &amp; *)
  else if N.eqb c 39 then [38;35;51;57;59]          (* apostrophe -> &#39; *)
  else if N.eqb c 60 then [38;108;116;59]           (* less    -> &lt; *)
  else if N.eqb c 62 then [38;103;116;59]           (* greater -> &gt; *)
  else if N.eqb c 34 then [38;35;51;52;59]          (* double quote -> &#34; *)
  else [c].

Fixpoint html_escape (s : bytes) : bytes :=
  match s with
  | [] => []
  | c :: r => html_rep c ++ html_escape r
  end.

(* ------------------------------------------------------------------ *)
(* html.UnescapeString                                                   *)

Definition is_digit (c : N) : bool := N.leb 48 c && N.leb c 57.
Definition is_lower_hex (c : N) : bool := N.leb 97 c && N.leb c 102.
Definition is_upper_hex (c : N) : bool := N.leb 65 c && N.leb c 70.
Definition is_alnum (c : N) : bool :=
  (N.leb 97 c && N.leb c 122) || (N.leb 65 c && N.leb c 90) || is_digit c.

(* rune is int32 in Go: x = 16*x + rune(c) - 48 wraps around *)
Definition wrap32 (z : Z) : Z := ((z + 2147483648) mod 4294967296 - 2147483648)%Z.

(* the digit loop of unescapeEntity: returns (x, number of digits consumed, rest) *)
Fixpoint scan_num (hex : bool) (s : bytes) (x : Z) (n : nat) : Z * nat * bytes :=
  match s with
  | [] => (x, n, [])
  | c :: r =>
      if is_digit c then scan_num hex r (wrap32 ((if hex then 16 else 10) * x + Z.of_N c - 48)) (S n)
      else if hex && is_lower_hex c then scan_num hex r (wrap32 (16 * x + Z.of_N c - 97 + 10)) (S n)
      else if hex && is_upper_hex c then scan_num hex r (wrap32 (16 * x + Z.of_N c - 65 + 10)) (S n)
      else (x, n, s)
  end.

(* replacementTable: what 0x80..0x9F are replaced with *)
Definition replacement_table : list Z :=
  [8364; 129; 8218; 402; 8222; 8230; 8224; 8225; 710; 8240; 352; 8249; 338; 141; 381; 143;
   144; 8216; 8217; 8220; 8221; 8226; 8211; 8212; 732; 8482; 353; 8250; 339; 157; 382; 376]%Z.

Definition fix_rune (x : Z) : Z :=
  if (Z.leb 128 x && Z.leb x 159)%Z then nth (Z.to_nat (x - 128)) replacement_table 65533%Z
  else if (Z.eqb x 0 || (Z.leb 55296 x && Z.leb x 57343) || Z.ltb 1114111 x)%Z then 65533%Z
  else x.

(* utf8.EncodeRune (negative, surrogate and > MaxRune values encode U+FFFD) *)
Definition encode_rune (x : Z) : bytes :=
  let b (z : Z) := Z.to_N z in
  if (Z.ltb x 0)%Z then [239; 191; 189]
  else if (Z.ltb x 128)%Z then [b x]
  else if (Z.ltb x 2048)%Z then [b (192 + x / 64); b (128 + x mod 64)]%Z
  else if ((Z.leb 55296 x && Z.leb x 57343) || Z.ltb 1114111 x)%Z then [239; 191; 189]
  else if (Z.ltb x 65536)%Z then [b (224 + x / 4096); b (128 + (x / 64) mod 64); b (128 + x mod 64)]%Z
  else [b (240 + x / 262144); b (128 + (x / 4096) mod 64); b (128 + (x / 64) mod 64); b (128 + x mod 64)]%Z.

(* the name loop: number of leading alphanumerics *)
Fixpoint scan_name (s : bytes) : nat :=
  match s with
  | c :: r => if is_alnum c then S (scan_name r) else O
  | [] => O
  end.

(* `for j := maxLen; j > 1; j--` : longest prefix (length j..2) that is an entity *)
Fixpoint prefix_lookup (ent : bytes -> option bytes) (name : bytes) (j : nat) : option (bytes * nat) :=
  match j with
  | O => None
  | S j' =>
      if Nat.leb j 1 then None
      else match ent (firstn j name) with
           | Some o => Some (o, j)
           | None => prefix_lookup ent name j'
           end
  end.

Definition longest_entity_without_semicolon : nat := 6.

(* unescapeEntity (attribute = false). s starts with an ampersand.
   Returns (bytes written, remaining input).  ent: the entity tables `entity`
   and `entity2` of html/entity.go as one lookup (name incl. trailing semicolon when present). *)
Definition unescape_entity (ent : bytes -> option bytes) (s : bytes) : bytes * bytes :=
  let lit := ([38], tl s) in
  match s with
  | [] => ([], [])
  | _ :: [] => lit
  | _ :: c1 :: r =>
      if N.eqb c1 35 then
        if Nat.leb (length s) 3 then lit else
        let '(hex, r1, i0) :=
          match r with
          | c :: r' => if N.eqb c 120 || N.eqb c 88 then (true, r', 3%nat) else (false, r, 2%nat)
          | [] => (false, r, 2%nat)
          end in
        let '(x, ndig, r2) := scan_num hex r1 0%Z O in
        let '(semi, r3) := match r2 with
                           | c :: r' => if N.eqb c 59 then (1%nat, r') else (0%nat, r2)
                           | [] => (0%nat, r2)
                           end in
        let i := (i0 + ndig + semi)%nat in
        if Nat.leb i 3 then lit else (encode_rune (fix_rune x), r3)
      else
        let body := c1 :: r in
        let n := scan_name body in
        let semi := match skipn n body with c :: _ => if N.eqb c 59 then 1%nat else 0%nat | [] => 0%nat end in
        let len := (n + semi)%nat in
        let name := firstn len body in
        let rest := skipn len body in
        match len with
        | O => lit
        | S _ =>
            match ent name with
            | Some o => (o, rest)
            | None =>
                match prefix_lookup ent name (Nat.min (len - 1) longest_entity_without_semicolon) with
                | Some (o, j) => (o, skipn j body)
                | None => (38 :: name, rest)
                end
            end
        end
  end.

(* UnescapeString: copy up to the next ampersand, call unescapeEntity, repeat.
   One unit of fuel per byte copied or entity consumed; length s + 1 is enough. *)
Fixpoint html_unesc (ent : bytes -> option bytes) (fuel : nat) (s : bytes) : Outcome bytes :=
  match fuel with
  | O => OutOfFuel
  | S f =>
      match s with
      | [] => Ok []
      | c :: r =>
          if N.eqb c 38 then
            let '(o, rest) := unescape_entity ent s in
            omap (app o) (html_unesc ent f rest)
          else omap (cons c) (html_unesc ent f r)
      end
  end.

Definition html_unescape (ent : bytes -> option bytes) (s : bytes) : Outcome bytes :=
  html_unesc ent (S (length s)) s.

(* A small part of html/entity.go: enough for everything html.EscapeString can
   produce and for the entity-like text the correspondence run generates. *)
Definition ent_small (name : bytes) : option bytes :=
  let is := bytes_eqb name in
  if is [97;109;112;59] || is [97;109;112] || is [65;77;80;59] || is [65;77;80] then Some [38]
  else if is [108;116;59] || is [108;116] || is [76;84;59] || is [76;84] then Some [60]
  else if is [103;116;59] || is [103;116] || is [71;84;59] || is [71;84] then Some [62]
  else if is [113;117;111;116;59] || is [113;117;111;116] || is [81;85;79;84;59] || is [81;85;79;84] then Some [34]
  else if is [97;112;111;115;59] then Some [39]
  else if is [110;98;115;112;59] || is [110;98;115;112] then Some [194;160]
  else if is [99;111;112;121;59] || is [99;111;112;121] then Some [194;169]
  else None.

(* the lookup over a full table (name, UTF-8 bytes) such as Gen/HtmlEntity.v, which the
   translator extracts from the html/entity.go of the toolchain murex is built with *)
Fixpoint ent_of_table (t : list (bytes * bytes)) (name : bytes) : option bytes :=
  match t with
  | [] => None
  | (n, v) :: t' => if bytes_eqb name n then Some v else ent_of_table t' name
  end.

(* ------------------------------------------------------------------ *)
(* url.PathEscape / url.PathUnescape  (mode encodePathSegment)           *)

Definition mem_byte (c : N) (l : bytes) : bool := existsb (N.eqb c) l.

(* shouldEscape(c, encodePathSegment) *)
Definition should_escape (c : N) : bool :=
  if is_alnum c then false
  else if mem_byte c [45; 95; 46; 126] then false                    (* - _ . ~ *)
  else if mem_byte c [36; 38; 43; 44; 47; 58; 59; 61; 63; 64] then   (* $ & + , / : ; = ? @ *)
    mem_byte c [47; 59; 44; 63]                                      (* / ; , ? *)
  else true.

(* upperhex[d] *)
Definition upperhex (d : N) : N := if N.ltb d 10 then 48 + d else 55 + d.

Fixpoint url_escape (s : bytes) : bytes :=
  match s with
  | [] => []
  | c :: r => if should_escape c then 37 :: upperhex (c / 16) :: upperhex (c mod 16) :: url_escape r
              else c :: url_escape r
  end.

Definition ishex (c : N) : bool := is_digit c || is_lower_hex c || is_upper_hex c.
Definition unhex (c : N) : N :=
  if is_digit c then c - 48 else if is_lower_hex c then c - 97 + 10 else if is_upper_hex c then c - 65 + 10 else 0.

(* unescape(s, encodePathSegment): EscapeError (Err 1) on a percent sign that is not
   followed by two hex digits; a plus sign is left alone in this mode. *)
Fixpoint url_unescape (s : bytes) : Outcome bytes :=
  match s with
  | [] => Ok []
  | c :: r =>
      if N.eqb c 37 then
        match r with
        | a :: b :: r' =>
            if ishex a && ishex b then omap (cons (unhex a * 16 + unhex b)) (url_unescape r')
            else Err 1
        | _ => Err 1
        end
      else omap (cons c) (url_unescape r)
  end.

(* ------------------------------------------------------------------ *)
(* the builtins, method form: ReadAll -> transform -> Write              *)

Inductive kind := KEscape | KHtml | KUrl.

Section Builtins.
  (* strconv.Quote / strconv.Unquote (None = Unquote returned an error) *)
  Variable quote : bytes -> bytes.
  Variable unquote : bytes -> option bytes.
  Variable ent : bytes -> option bytes.

  (* cmdEscape: `!escape` falls back to html.UnescapeString when Unquote fails *)
  Definition cmd_escape (isnot : bool) (stdin : bytes) : Outcome bytes :=
    if isnot then
      match unquote stdin with
      | Some u => Ok u
      | None => html_unescape ent stdin
      end
    else Ok (quote stdin).

  Definition cmd_html (isnot : bool) (stdin : bytes) : Outcome bytes :=
    if isnot then html_unescape ent stdin else Ok (html_escape stdin).

  Definition cmd_url (isnot : bool) (stdin : bytes) : Outcome bytes :=
    if isnot then url_unescape stdin else Ok (url_escape stdin).

  (* stdout of the builtin `k` / `!k` run as a method on stdin; an error writes nothing *)
  Definition cmd (k : kind) (isnot : bool) (stdin : bytes) : Outcome bytes :=
    match k with
    | KEscape => cmd_escape isnot stdin
    | KHtml => cmd_html isnot stdin
    | KUrl => cmd_url isnot stdin
    end.

  (* `<stdin> -> k -> !k` *)
  Definition pipeline (k : kind) (stdin : bytes) : Outcome bytes :=
    obind (cmd k false stdin) (cmd k true).
End Builtins.

Definition wf_bytes (s : bytes) : bool := forallb (fun c => N.ltb c 256) s.
