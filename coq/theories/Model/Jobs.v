(* C27 — model of lang/jobs.go: the job table behind `%n` job IDs.

   Go being modelled:

     type jobs struct { mutex; jobs []*Process }            // job id = index+1
     Add(p)            jobs = append(jobs, p)                // p may be nil (tests do it)
     GarbageCollect()  for i := len-1 .. 0 {
                           if jobs[i] != nil { if jobs[i].HasTerminated() { jobs[i] = nil } else { running = true } }
                           if jobs[i] == nil && !running { last = i } }
                       if last != -1 { jobs = jobs[:last] }
     Get(id)           id < 1 -> error; id > len -> error; _hasTerminated(id-1) -> error; jobs[id-1]
     GetLatest()       highest i with !_hasTerminated(i), else error
     List()            every i with !_hasTerminated(i), as ("%i+1", jobs[i])
     _hasTerminated(i) jobs[i] == nil || jobs[i].HasTerminated()

   Processes are abstract identities (nat); Process.HasTerminated() is the
   membership of the identity in the `dead` set, which only grows
   (SetTerminatedState(true) in lang/process.go is never undone). *)
From Murex Require Import Base.Outcome.

Inductive op :=
| Add (p : nat)          (* Jobs.Add(process p) — p arbitrary: fresh, present, or already dead *)
| AddNil                 (* Jobs.Add(nil) *)
| Terminate (p : nat)    (* p.SetTerminatedState(true) *)
| GC                     (* Jobs.GarbageCollect() *)
| Get (n : Z)            (* Jobs.Get(n) *)
| Latest                 (* Jobs.GetLatest() *)
| ListJobs.              (* Jobs.List() *)

Record st := { slots : list (option nat); dead : list nat }.

Definition st0 : st := {| slots := []; dead := [] |}.

Definition mem (p : nat) (l : list nat) : bool := existsb (Nat.eqb p) l.

(* _hasTerminated on a slot's content *)
Definition finished (d : list nat) (x : option nat) : bool :=
  match x with None => true | Some p => mem p d end.

(* one iteration of GarbageCollect's loop body on slot content x *)
Definition gc_clear (d : list nat) (x : option nat) : option nat :=
  match x with
  | Some p => if mem p d then None else Some p
  | None => None
  end.

(* The loop, literally: rs = the slots not yet visited, in visiting order
   (highest index first); i = the current index; acc = slots already visited
   (rewritten), in slice order. Returns the rewritten slice and `last`. *)
Fixpoint gc_scan (d : list nat) (rs : list (option nat)) (i : nat) (running : bool)
         (last : option nat) (acc : list (option nat)) : list (option nat) * option nat :=
  match rs with
  | [] => (acc, last)
  | x :: rs' =>
      let x' := gc_clear d x in
      let running' := match x' with Some _ => true | None => running end in
      let last' := match x' with
                   | None => if running' then last else Some i
                   | Some _ => last
                   end in
      gc_scan d rs' (pred i) running' last' (x' :: acc)
  end.

Definition gc_slots (d : list nat) (l : list (option nat)) : list (option nat) :=
  let '(sl, last) := gc_scan d (rev l) (length l - 1) false None [] in
  match last with
  | None => sl
  | Some k => firstn k sl
  end.

Definition get (s : st) (n : Z) : Outcome nat :=
  if (n <? 1)%Z then Err 1
  else if (n >? Z.of_nat (length (slots s)))%Z then Err 2
  else match nth_error (slots s) (Z.to_nat (n - 1)) with
       | Some x => if finished (dead s) x then Err 3
                   else match x with Some p => Ok p | None => Panic end
       | None => Panic       (* index out of range: excluded by the two tests above *)
       end.

(* GetLatest scans from the highest index down: rs is the reversed slice *)
Fixpoint latest_scan (d : list nat) (rs : list (option nat)) : Outcome nat :=
  match rs with
  | [] => Err 4
  | x :: rs' => if finished d x then latest_scan d rs'
                else match x with Some p => Ok p | None => Panic end
  end.
Definition latest (s : st) : Outcome nat := latest_scan (dead s) (rev (slots s)).

(* List: (job id, process) for every unfinished slot, ascending; i = id of the head slot *)
Fixpoint list_from (d : list nat) (i : nat) (l : list (option nat)) : list (nat * nat) :=
  match l with
  | [] => []
  | x :: l' => if finished d x then list_from d (S i) l'
               else match x with
                    | Some p => (i, p) :: list_from d (S i) l'
                    | None => list_from d (S i) l'
                    end
  end.
Definition list_jobs (s : st) : list (nat * nat) := list_from (dead s) 1 (slots s).

(* result of an operation as the harness observes it *)
Inductive res :=
| RNone                      (* Add / Terminate / GC / List: nothing returned (List is in so_list) *)
| RGot (r : option nat)      (* Get / GetLatest: Some process, or None = an error was returned *)
| RPanic.                    (* the call panicked *)

Definition res_of (o : Outcome nat) : res :=
  match o with Ok p => RGot (Some p) | Err _ => RGot None | _ => RPanic end.

Definition step (s : st) (o : op) : st * res :=
  match o with
  | Add p => ({| slots := slots s ++ [Some p]; dead := dead s |}, RNone)
  | AddNil => ({| slots := slots s ++ [None]; dead := dead s |}, RNone)
  | Terminate p => ({| slots := slots s; dead := p :: dead s |}, RNone)
  | GC => ({| slots := gc_slots (dead s) (slots s); dead := dead s |}, RNone)
  | Get n => (s, res_of (get s n))
  | Latest => (s, res_of (latest s))
  | ListJobs => (s, RNone)
  end.

Fixpoint run (s : st) (ops : list op) : st :=
  match ops with
  | [] => s
  | o :: ops' => run (fst (step s o)) ops'
  end.

(* What the harness records after every operation: the operation's result,
   Jobs.List() and the raw slice (through the verif hook). *)
Record step_obs := { so_res : res; so_list : list (nat * nat); so_raw : list (option nat) }.

Fixpoint trace (s : st) (ops : list op) : list step_obs :=
  match ops with
  | [] => []
  | o :: ops' =>
      let '(s', r) := step s o in
      {| so_res := r; so_list := list_jobs s'; so_raw := slots s' |} :: trace s' ops'
  end.
