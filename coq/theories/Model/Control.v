(* C39 — break, continue and return affect only the named block.

   A structured language and two semantics of it:

   (a) run_cancel: a transcription of murex's cancellation mechanism
         builtins/core/structs/break.go  cmdBreak / breakUpwards / cmdContinue / cmdReturn
         lang/process.go                 executeProcess: a process is skipped when
                                         p.HasCancelled() || p.Parent.HasCancelled()
         foreach.go / formap.go / for.go / while.go   the loops stop when p.HasCancelled()
                                         (a cancelled two-block `while` evaluates its condition
                                         block to nothing = false)
         if.go, switch.go, try.go        one fork per block that is run
         lang/interpreter_pc.go          runModeNormal: a block's exit number is the ExitNum of
                                         its last process; runModeTry / runModeTryPipe: the block
                                         is left at the first statement whose exit number is > 0
                                         (if another statement follows), with that exit number
       Every block that is being executed is a frame: the process that owns the block (if /
       switch / a loop / try / the function) together with its fork; both share one context
       (lang/fork.go: fork.Context, fork.Done = p.Context, p.Done), a function fork has a
       context of its own.  f_cancelled is that context; f_restkilled says that the processes
       of the block instance now running in the frame have been cancelled (KillForks by
       break / return, proc.Done() along the Next chain by continue); f_exit is the ExitNum
       the walk of break / return wrote into the owning process.
       The try run mode is inherited by every nested block that is not a function body
       (lang/fork.go: fork.RunMode = p.RunMode).

   (b) run_ref: big-step semantics with break / continue / return signals.

   Programs: `Call f body` carries the body of the function it calls (the harness defines one
   murex function per Call node), so both semantics are structurally recursive.  Loops run
   over 1..n.  Conditions only read the variables of enclosing loops. *)
From Murex Require Import Base.Outcome Base.Bytes.
Local Open Scope N_scope.

Inductive name := NIf | NForeach | NWhile | NFor | NFormap | NSwitch | NTry | NTrypipe | NFunc (f : N).

Definition name_eqb (a b : name) : bool :=
  match a, b with
  | NIf, NIf | NForeach, NForeach | NWhile, NWhile | NFor, NFor | NFormap, NFormap
  | NSwitch, NSwitch | NTry, NTry | NTrypipe, NTrypipe => true
  | NFunc f, NFunc g => f =? g
  | _, _ => false
  end.

Inductive cond := CTrue | CFalse | CEq (id : N) (m : N).

(* LWhile: while { cond } { body }      LWhile1: while { body ; cond }  (one block) *)
Inductive lkind := LForeach | LWhile | LFor | LFormap | LWhile1.
Inductive bkind := BIf | BSwitch.

Definition loop_name (k : lkind) : name :=
  match k with LForeach => NForeach | LWhile | LWhile1 => NWhile | LFor => NFor | LFormap => NFormap end.
Definition branch_name (k : bkind) : name := match k with BIf => NIf | BSwitch => NSwitch end.
Definition try_name (pipe : bool) : name := if pipe then NTrypipe else NTry.

Inductive stmt :=
| Out (t : N)                                     (* out tN *)
| Branch (k : bkind) (c : cond) (b d : block)     (* if { c } then { b } else { d }   /   switch { case { c } { b } ; default { d } } *)
| Loop (k : lkind) (id : N) (n : nat) (b : block) (* a [1..n] -> foreach vID { b }, ... formap, for, while *)
| Try (pipe : bool) (b : block)                   (* try { b }  /  trypipe { b } *)
| Call (f : N) (b : block)                        (* fF ; exitnum      with   function fF { b } *)
| Break (nm : name)
| BreakAny                                        (* `break` without a name *)
| Continue (nm : name)
| Return (k : Z)
with block := BNil | BCons (s : stmt) (b : block).

(* what the program prints: `out tN` lines and the exit numbers shown after calls *)
Inductive tok := TOut (t : N) | TExit (k : Z).

Definition env := list (N * N).
Fixpoint env_get (e : env) (id : N) : option N :=
  match e with [] => None | (k, v) :: e' => if k =? id then Some v else env_get e' id end.
Definition eval (e : env) (c : cond) : bool :=
  match c with
  | CTrue => true | CFalse => false
  | CEq id m => match env_get e id with Some v => v =? m | None => false end
  end.

Definition nonnil (b : block) : bool := match b with BNil => false | _ => true end.
Definition failed (x : Z) : bool := (0 <? x)%Z.

(* ------------------------------------------------------------------ *)
(* (b) reference semantics *)
Inductive sig := SNone | SBrk (nm : name) | SBrkAny | SCont (nm : name) | SRet (k : Z).

(* a block named nm absorbs the break / continue that names it, and the nameless break *)
Definition absorb (nm : name) (g : sig) : sig :=
  match g with
  | SBrk n | SCont n => if name_eqb nm n then SNone else g
  | SBrkAny => SNone
  | _ => g
  end.

(* the exit number a signal leaves in the processes it passes through *)
Definition sig_exit (g : sig) : Z := match g with SRet k => k | _ => 0%Z end.

Section RefLoop.
  Variable body : N -> list tok * sig * Z.  (* one iteration: output, signal, exit number of the block *)
  Variable nm : name.
  Variable stopfail : bool.                 (* one-block while in try mode: a failed iteration is a false condition *)
  Fixpoint ref_loop (k : nat) (i : N) : list tok * sig :=
    match k with
    | O => ([], SNone)
    | S k' =>
        let '(o, g, x) := body i in
        let next := let '(o2, g2) := ref_loop k' (i + 1) in (o ++ o2, g2) in
        match g with
        | SNone => if stopfail && failed x then (o, SNone) else next
        | SCont n => if name_eqb nm n then (if stopfail && failed x then (o, SNone) else next) else (o, g)
        | SBrk n => if name_eqb nm n then (o, SNone) else (o, g)
        | SBrkAny => (o, SNone)
        | SRet _ => (o, g)
        end
    end.
End RefLoop.

(* tm: the block is run in try / trypipe mode *)
Fixpoint ref_stmt (tm : bool) (e : env) (s : stmt) : list tok * sig * Z :=
  match s with
  | Out t => ([TOut t], SNone, 0%Z)
  | Branch k c b d =>
      let '(o, g, _) := ref_block tm e (if eval e c then b else d) 0%Z in
      (o, absorb (branch_name k) g, sig_exit (absorb (branch_name k) g))
  | Loop k id n b =>
      let '(o, g) := ref_loop (fun i => ref_block tm ((id, i) :: e) b 0%Z) (loop_name k)
                              (match k with LWhile1 => tm | _ => false end) n 1 in
      (o, g, sig_exit g)
  | Try pipe b =>
      let '(o, g, x) := ref_block true e b 0%Z in (o, absorb (try_name pipe) g, x)
  | Call f b =>
      (* the exit number of a call is that of the function's block: of its last statement *)
      let '(o, _, k) := ref_block false [] b 0%Z in
      (* in try mode a failed call ends the block before `exitnum` is reached *)
      if tm && failed k then (o, SNone, k) else (o ++ [TExit k], SNone, 0%Z)
  | Break nm => ([], SBrk nm, 0%Z)
  | BreakAny => ([], SBrkAny, 1%Z)            (* "missing parameter" is an error *)
  | Continue nm => ([], SCont nm, 0%Z)
  | Return k => ([], SRet k, k)
  end
with ref_block (tm : bool) (e : env) (b : block) (xprev : Z) : list tok * sig * Z :=
  match b with
  | BNil => ([], SNone, xprev)
  | BCons s b' =>
      let '(o, g, x) := ref_stmt tm e s in
      match g with
      | SNone =>
          if tm && failed x && nonnil b' then (o, SNone, x)
          else let '(o2, g2, x2) := ref_block tm e b' x in (o ++ o2, g2, x2)
      | _ =>
          (* the statements that follow are cancelled: they keep the exit number KillForks gave
             them, and in normal mode the block reports that of its last statement *)
          if nonnil b' && negb (tm && failed x) then (o, g, sig_exit g) else (o, g, x)
      end
  end.

(* the whole program is the body of the function the harness runs it in *)
Definition run_ref (main : block) : list tok * Z :=
  let '(o, _, x) := ref_block false [] main 0%Z in (o, x).

(* ------------------------------------------------------------------ *)
(* (a) the cancellation mechanism *)
Record frame := { f_name : name; f_cancelled : bool; f_restkilled : bool; f_exit : Z }.
Definition new_frame (nm : name) : frame :=
  {| f_name := nm; f_cancelled := false; f_restkilled := false; f_exit := 0%Z |}.
(* proc.ExitNum = x; proc.KillForks(x); proc.Done() *)
Definition kill (x : Z) (f : frame) : frame :=
  {| f_name := f_name f; f_cancelled := true; f_restkilled := true; f_exit := x |}.
Definition kill_rest (f : frame) : frame :=
  {| f_name := f_name f; f_cancelled := f_cancelled f; f_restkilled := true; f_exit := f_exit f |}.
Definition fresh_iteration (f : frame) : frame :=
  {| f_name := f_name f; f_cancelled := f_cancelled f; f_restkilled := false; f_exit := f_exit f |}.
(* live: not cancelled, its block not killed (and so no break / return has written an exit number) *)
Definition frame_live (f : frame) : bool := negb (f_cancelled f) && negb (f_restkilled f) && Z.eqb (f_exit f) 0.

(* breakUpwards: proc.KillForks; proc.Done(); stop at the block called nm; else its parent.
   A name that no block of the current function has: every frame up to and including the function
   is cancelled, then proc.Id == scope ends the walk with an error - the stack of a function
   activation ends at the function, so the caller's frames are out of reach. *)
Fixpoint brk_walk (nm : name) (st : list frame) : list frame :=
  match st with
  | [] => []
  | f :: st' => if name_eqb (f_name f) nm then kill 0 f :: st' else kill 0 f :: brk_walk nm st'
  end.

(* cmdBreak without a name: p.Parent.Done(); p.Parent.KillForks(0); error *)
Definition kill_top (st : list frame) : list frame :=
  match st with [] => [] | f :: st' => kill 0 f :: st' end.

(* cmdContinue, after the first process: the walk arrives at a block from the last of its
   statements, all of which it has cancelled (proc.Done() along Next); the block itself is
   cancelled too unless it is the one called nm.  The outermost frame of a stack is the function
   (proc.Id == scope): there the walk ends with the error "no block found named ... within the
   scope of ..." before that process is cancelled, so nothing outside the function is touched. *)
Fixpoint cont_up (nm : name) (st : list frame) : list frame :=
  match st with
  | [] => []
  | f :: st' =>
      if name_eqb (f_name f) nm then kill_rest f :: st'
      else match st' with
           | [] => [kill_rest f]
           | _ => kill 0 f :: cont_up nm st'
           end
  end.

(* cmdContinue: if the block that directly contains `continue` is the one called nm, nothing
   at all is cancelled (pinned by TestContinue0/1 of the test-suite); neither is anything when
   that block is the function itself and is not called nm (the scope error comes first) *)
Definition cont_walk (nm : name) (st : list frame) : list frame :=
  match st with
  | [] => []
  | f :: st' =>
      if name_eqb (f_name f) nm then st
      else match st' with
           | [] => st
           | _ => kill 0 f :: cont_up nm st'
           end
  end.

(* cmdReturn: breakUpwards(p, <the function>, k): the function is the outermost frame *)
Definition kill_all (k : Z) (st : list frame) : list frame := map (kill k) st.

Record cstate := { c_stack : list frame; c_out : list tok; c_exit : Z }.

Definition top_live (st : list frame) : bool :=
  match st with [] => false | f :: _ => frame_live f end.
Definition top_cancelled (st : list frame) : bool :=
  match st with [] => true | f :: _ => f_cancelled f end.
Definition top_exit (st : list frame) : Z :=
  match st with [] => 0%Z | f :: _ => f_exit f end.
Definition pop (c : cstate) : cstate :=
  {| c_stack := tl (c_stack c); c_out := c_out c; c_exit := c_exit c |}.
Definition push (f : frame) (c : cstate) : cstate :=
  {| c_stack := f :: c_stack c; c_out := c_out c; c_exit := c_exit c |}.
Definition renew_top (c : cstate) : cstate :=
  {| c_stack := match c_stack c with [] => [] | f :: st => fresh_iteration f :: st end;
     c_out := c_out c; c_exit := c_exit c |}.

Section CancelLoop.
  Variable body : N -> cstate -> cstate * Z.  (* one run of the block in the loop's frame *)
  Variable stopfail : bool.
  (* the loops test p.HasCancelled() before every iteration (a cancelled two-block while: its
     condition block yields nothing = false); the one-block while takes the exit number of its
     block as part of the condition *)
  Fixpoint cancel_loop (k : nat) (i : N) (c : cstate) : cstate :=
    match k with
    | O => c
    | S k' =>
        if top_cancelled (c_stack c) then c
        else let '(c1, x) := body i (renew_top c) in
             if stopfail && failed x then c1 else cancel_loop k' (i + 1) c1
    end.
End CancelLoop.

Fixpoint exec_stmt (tm : bool) (e : env) (s : stmt) (c : cstate) : cstate * Z :=
  match s with
  | Out t => ({| c_stack := c_stack c; c_out := c_out c ++ [TOut t]; c_exit := c_exit c |}, 0%Z)
  | Branch k cd b d =>
      let r := fst (exec_block tm e (if eval e cd then b else d) (push (new_frame (branch_name k)) c) 0%Z) in
      (pop r, top_exit (c_stack r))
  | Loop k id n b =>
      let r := cancel_loop (fun i c' => exec_block tm ((id, i) :: e) b c' 0%Z)
                           (match k with LWhile1 => tm | _ => false end) n 1
                           (push (new_frame (loop_name k)) c) in
      (pop r, top_exit (c_stack r))
  | Try pipe b =>
      (* p.RunMode = try; p.ExitNum, err = p.Fork(F_PARENT_VARTABLE).Execute(block) *)
      let '(r, x) := exec_block true e b (push (new_frame (try_name pipe)) c) 0%Z in (pop r, x)
  | Call f b =>
      (* a function fork has its own context, scope, variables and the normal run mode *)
      let '(r, k) := exec_block false [] b {| c_stack := [new_frame (NFunc f)]; c_out := []; c_exit := 0%Z |} 0%Z in
      if tm && failed k
      then ({| c_stack := c_stack c; c_out := c_out c ++ c_out r; c_exit := c_exit c |}, k)
      else ({| c_stack := c_stack c; c_out := c_out c ++ c_out r ++ [TExit k]; c_exit := c_exit c |}, 0%Z)
  | Break nm => ({| c_stack := brk_walk nm (c_stack c); c_out := c_out c; c_exit := c_exit c |}, 0%Z)
  | BreakAny => ({| c_stack := kill_top (c_stack c); c_out := c_out c; c_exit := c_exit c |}, 1%Z)
  | Continue nm => ({| c_stack := cont_walk nm (c_stack c); c_out := c_out c; c_exit := c_exit c |}, 0%Z)
  | Return k => ({| c_stack := kill_all k (c_stack c); c_out := c_out c; c_exit := k |}, k)
  end
with exec_block (tm : bool) (e : env) (b : block) (c : cstate) (xprev : Z) : cstate * Z :=
  match b with
  | BNil => (c, xprev)
  | BCons s b' =>
      (* executeProcess: if p.HasCancelled() || p.Parent.HasCancelled() { destroyProcess(p); return } *)
      if top_live (c_stack c) then
        let '(c1, x) := exec_stmt tm e s c in
        if tm && failed x && nonnil b' then (c1, x)      (* runModeTry: leave the block *)
        else exec_block tm e b' c1 x
      else (c, top_exit (c_stack c))       (* a cancelled process keeps the ExitNum KillForks gave it *)
  end.

Definition run_cancel (main : block) : list tok * Z :=
  let '(r, x) := exec_block false [] main {| c_stack := [new_frame (NFunc 0)]; c_out := []; c_exit := 0%Z |} 0%Z in
  (c_out r, x).

(* ------------------------------------------------------------------ *)
(* well-named programs.  encl: the enclosing blocks of the current function, innermost first,
   each with "is a one-block while".
   - a `continue` does not sit directly in the block it names (known finding 1) nor directly in
     the function body;
   - a `continue` does not target a one-block while (known finding 2: the condition of that loop
     is the output and exit number of its block, which the continue cuts short).
   Nothing is asked of `return`, or of the NAME of a break / continue: a name that no enclosing
   block of the current function has is the error case of the real code (the function is
   abandoned, its caller carries on) - except that the exit number 1 of that error is not
   modelled, so such a break / continue must not sit directly in a try block nor be the last
   statement of a function body, the two places where its own exit number is looked at. *)
Fixpoint in_names (nm : name) (l : list (name * bool)) : bool :=
  match l with [] => false | (x, _) :: l' => name_eqb x nm || in_names nm l' end.

Definition in_try (l : list (name * bool)) : bool :=
  match l with (NTry, _) :: _ | (NTrypipe, _) :: _ => true | _ => false end.

Fixpoint last_resolved (encl : list (name * bool)) (b : block) : bool :=
  match b with
  | BNil => true
  | BCons (Break nm) BNil => in_names nm encl
  | BCons _ b' => last_resolved encl b'
  end.
Fixpoint target_is_while1 (nm : name) (l : list (name * bool)) : bool :=
  match l with
  | [] => false
  | (x, w1) :: l' => if name_eqb x nm then w1 else target_is_while1 nm l'
  end.

Fixpoint wn_stmt (encl : list (name * bool)) (s : stmt) : bool :=
  match s with
  | Out _ | Return _ | BreakAny => true
  | Break nm => in_names nm encl || negb (in_try encl)
  | Branch k _ b d => wn_block ((branch_name k, false) :: encl) b && wn_block ((branch_name k, false) :: encl) d
  | Loop k _ _ b => wn_block ((loop_name k, match k with LWhile1 => true | _ => false end) :: encl) b
  | Try pipe b => wn_block ((try_name pipe, false) :: encl) b
  | Call f b => wn_block [(NFunc f, false)] b && last_resolved [(NFunc f, false)] b
  | Continue nm =>
      match encl with
      | (x, _) :: _ :: _ => negb (name_eqb x nm) && negb (target_is_while1 nm encl) && (in_names nm encl || negb (in_try encl))
      | _ => false
      end
  end
with wn_block (encl : list (name * bool)) (b : block) : bool :=
  match b with BNil => true | BCons s b' => wn_stmt encl s && wn_block encl b' end.

Definition well_named (main : block) : bool :=
  wn_block [(NFunc 0, false)] main && last_resolved [(NFunc 0, false)] main.
