(* C39 — break, continue and return affect only the named block.

   A small structured language and two semantics of it:

   (a) run_cancel: a transcription of murex's cancellation mechanism
         builtins/core/structs/break.go  cmdBreak / breakUpwards / cmdContinue / cmdReturn
         lang/process.go                 executeProcess: a process is skipped when
                                         p.HasCancelled() || p.Parent.HasCancelled()
         builtins/core/structs/foreach.go forEachInnerLoop: p.HasCancelled() per element
         builtins/core/structs/while.go   the condition block of a cancelled `while` produces
                                         nothing, which reads as false
         lang/interpreter_pc.go          runModeNormal: a block's exit number is the ExitNum
                                         of its last process
       Every block that is being executed is a frame: the process that owns the block (if /
       foreach / while / the function) together with its fork; both share one context
       (lang/fork.go: fork.Context, fork.Done = p.Context, p.Done), a function fork has a
       context of its own.  f_cancelled is that context; f_restkilled says that the processes
       of the block instance now running in the frame have been cancelled (KillForks by
       break / return, proc.Done() along the Next chain by continue).

   (b) run_ref: the usual big-step semantics with break / continue / return signals.

   Programs: `Call f body` carries the body of the function it calls (the harness defines one
   murex function per Call node), so both semantics are structurally recursive.  Loops run
   over 1..n.  Conditions only read the variables of enclosing loops. *)
From Murex Require Import Base.Outcome Base.Bytes.
Local Open Scope N_scope.

Inductive name := NIf | NForeach | NWhile | NFunc (f : N).

Definition name_eqb (a b : name) : bool :=
  match a, b with
  | NIf, NIf | NForeach, NForeach | NWhile, NWhile => true
  | NFunc f, NFunc g => f =? g
  | _, _ => false
  end.

Inductive cond := CTrue | CFalse | CEq (id : N) (m : N).

Inductive stmt :=
| Out (t : N)                               (* out tN *)
| If (c : cond) (b : block)                 (* if { c } then { b } *)
| Foreach (id : N) (n : nat) (b : block)    (* a [1..n] -> foreach vID { b } *)
| While (id : N) (n : nat) (b : block)      (* wID = 0; while { $wID < n } { wID = $wID + 1; b } *)
| Call (f : N) (b : block)                  (* fF ; exitnum      with   function fF { b } *)
| Break (nm : name)
| Continue (nm : name)
| Return (k : Z)
with block := BNil | BCons (s : stmt) (b : block).

(* what the program prints: `out tN` lines and the exit numbers shown after calls *)
Inductive tok := TOut (t : N) | TExit (k : Z).

Definition env := list (N * N).
Fixpoint env_get (e : env) (id : N) : option N :=
  match e with [] => None | (k, v) :: e' => if k =? id then Some v else env_get e' id end.
Definition eval (e : env) (c : cond) : bool :=
  match c with
  | CTrue => true | CFalse => false
  | CEq id m => match env_get e id with Some v => v =? m | None => false end
  end.

(* ------------------------------------------------------------------ *)
(* (b) reference semantics *)
Inductive sig := SNone | SBrk (nm : name) | SCont (nm : name) | SRet (k : Z).

(* a block named nm absorbs the break / continue that names it *)
Definition absorb (nm : name) (g : sig) : sig :=
  match g with
  | SBrk n | SCont n => if name_eqb nm n then SNone else g
  | _ => g
  end.

Section RefLoop.
  Variable body : N -> list tok * sig.      (* one iteration, given the loop variable *)
  Variable nm : name.
  (* iterations i, i+1, ... (k of them) *)
  Fixpoint ref_loop (k : nat) (i : N) : list tok * sig :=
    match k with
    | O => ([], SNone)
    | S k' =>
        let '(o, g) := body i in
        match g with
        | SNone => let '(o2, g2) := ref_loop k' (i + 1) in (o ++ o2, g2)
        | SCont n => if name_eqb nm n then let '(o2, g2) := ref_loop k' (i + 1) in (o ++ o2, g2)
                     else (o, g)
        | SBrk n => if name_eqb nm n then (o, SNone) else (o, g)
        | SRet _ => (o, g)
        end
    end.
End RefLoop.

Fixpoint ref_stmt (e : env) (s : stmt) : list tok * sig :=
  match s with
  | Out t => ([TOut t], SNone)
  | If c b => if eval e c then let '(o, g) := ref_block e b in (o, absorb NIf g) else ([], SNone)
  | Foreach id n b => ref_loop (fun i => ref_block ((id, i) :: e) b) NForeach n 1
  | While id n b => ref_loop (fun i => ref_block ((id, i) :: e) b) NWhile n 1
  | Call f b =>
      let '(o, g) := ref_block [] b in
      (o ++ [TExit (match g with SRet k => k | _ => 0%Z end)], SNone)
  | Break nm => ([], SBrk nm)
  | Continue nm => ([], SCont nm)
  | Return k => ([], SRet k)
  end
with ref_block (e : env) (b : block) : list tok * sig :=
  match b with
  | BNil => ([], SNone)
  | BCons s b' =>
      let '(o, g) := ref_stmt e s in
      match g with
      | SNone => let '(o2, g2) := ref_block e b' in (o ++ o2, g2)
      | _ => (o, g)
      end
  end.

(* the whole program is the body of the function the harness runs it in *)
Definition run_ref (main : block) : list tok * Z :=
  let '(o, g) := ref_block [] main in (o, match g with SRet k => k | _ => 0%Z end).

(* ------------------------------------------------------------------ *)
(* (a) the cancellation mechanism *)
Record frame := { f_name : name; f_cancelled : bool; f_restkilled : bool }.
Definition new_frame (nm : name) : frame := {| f_name := nm; f_cancelled := false; f_restkilled := false |}.
Definition kill (f : frame) : frame := {| f_name := f_name f; f_cancelled := true; f_restkilled := true |}.
Definition kill_rest (f : frame) : frame :=
  {| f_name := f_name f; f_cancelled := f_cancelled f; f_restkilled := true |}.
Definition fresh_iteration (f : frame) : frame :=
  {| f_name := f_name f; f_cancelled := f_cancelled f; f_restkilled := false |}.
Definition frame_live (f : frame) : bool := negb (f_cancelled f) && negb (f_restkilled f).

(* breakUpwards: proc.KillForks; proc.Done(); stop at the block called nm; else its parent.
   A name that no block of the current function has: every frame up to and including the function
   is cancelled, then proc.Id == scope ends the walk with an error - the stack of a function
   activation ends at the function, so the caller's frames are out of reach. *)
Fixpoint brk_walk (nm : name) (st : list frame) : list frame :=
  match st with
  | [] => []
  | f :: st' => if name_eqb (f_name f) nm then kill f :: st' else kill f :: brk_walk nm st'
  end.

(* cmdContinue, after the first process: the walk arrives at a block from the last of its
   statements, all of which it has cancelled (proc.Done() along Next); the block itself is
   cancelled too unless it is the one called nm.  The outermost frame of a stack is the function
   (proc.Id == scope): there the walk ends with the error "no block found named ... within the
   scope of ..." before that process is cancelled, so nothing outside the function is touched. *)
Fixpoint cont_up (nm : name) (st : list frame) : list frame :=
  match st with
  | [] => []
  | f :: st' =>
      if name_eqb (f_name f) nm then kill_rest f :: st'
      else match st' with
           | [] => [kill_rest f]
           | _ => kill f :: cont_up nm st'
           end
  end.

(* cmdContinue: if the block that directly contains `continue` is the one called nm, nothing
   at all is cancelled (pinned by TestContinue0/1 of the test-suite); neither is anything when
   that block is the function itself and is not called nm (the scope error comes first) *)
Definition cont_walk (nm : name) (st : list frame) : list frame :=
  match st with
  | [] => []
  | f :: st' =>
      if name_eqb (f_name f) nm then st
      else match st' with
           | [] => st
           | _ => kill f :: cont_up nm st'
           end
  end.

(* cmdReturn: breakUpwards to the function, which is the outermost frame of the stack *)
Definition kill_all (st : list frame) : list frame := map kill st.

Record cstate := { c_stack : list frame; c_out : list tok; c_exit : Z }.

Definition top_live (st : list frame) : bool :=
  match st with [] => false | f :: _ => frame_live f end.
Definition top_cancelled (st : list frame) : bool :=
  match st with [] => true | f :: _ => f_cancelled f end.
Definition pop (c : cstate) : cstate :=
  {| c_stack := tl (c_stack c); c_out := c_out c; c_exit := c_exit c |}.
Definition push (f : frame) (c : cstate) : cstate :=
  {| c_stack := f :: c_stack c; c_out := c_out c; c_exit := c_exit c |}.
Definition renew_top (c : cstate) : cstate :=
  {| c_stack := match c_stack c with [] => [] | f :: st => fresh_iteration f :: st end;
     c_out := c_out c; c_exit := c_exit c |}.

Section CancelLoop.
  Variable body : N -> cstate -> cstate.    (* one run of the block in the loop's frame *)
  (* foreach: forEachInnerLoop returns at once when p.HasCancelled();
     while: the condition block of a cancelled while yields nothing = false *)
  Fixpoint cancel_loop (k : nat) (i : N) (c : cstate) : cstate :=
    match k with
    | O => c
    | S k' =>
        if top_cancelled (c_stack c) then c
        else cancel_loop k' (i + 1) (body i (renew_top c))
    end.
End CancelLoop.

Fixpoint exec_stmt (e : env) (s : stmt) (c : cstate) : cstate :=
  match s with
  | Out t => {| c_stack := c_stack c; c_out := c_out c ++ [TOut t]; c_exit := c_exit c |}
  | If cd b => if eval e cd then pop (exec_block e b (push (new_frame NIf) c)) else c
  | Foreach id n b =>
      pop (cancel_loop (fun i c' => exec_block ((id, i) :: e) b c') n 1 (push (new_frame NForeach) c))
  | While id n b =>
      pop (cancel_loop (fun i c' => exec_block ((id, i) :: e) b c') n 1 (push (new_frame NWhile) c))
  | Call f b =>
      (* a function fork has its own context, scope and variables *)
      let r := exec_block [] b {| c_stack := [new_frame (NFunc f)]; c_out := []; c_exit := 0%Z |} in
      {| c_stack := c_stack c; c_out := c_out c ++ c_out r ++ [TExit (c_exit r)]; c_exit := c_exit c |}
  | Break nm => {| c_stack := brk_walk nm (c_stack c); c_out := c_out c; c_exit := c_exit c |}
  | Continue nm => {| c_stack := cont_walk nm (c_stack c); c_out := c_out c; c_exit := c_exit c |}
  | Return k => {| c_stack := kill_all (c_stack c); c_out := c_out c; c_exit := k |}
  end
with exec_block (e : env) (b : block) (c : cstate) : cstate :=
  match b with
  | BNil => c
  | BCons s b' =>
      (* executeProcess: if p.HasCancelled() || p.Parent.HasCancelled() { destroyProcess(p); return } *)
      if top_live (c_stack c) then exec_block e b' (exec_stmt e s c) else c
  end.

Definition run_cancel (main : block) : list tok * Z :=
  let r := exec_block [] main {| c_stack := [new_frame (NFunc 0)]; c_out := []; c_exit := 0%Z |} in
  (c_out r, c_exit r).

(* ------------------------------------------------------------------ *)
(* well-named programs: a `continue` does not sit directly in the block it names (known
   finding 1) nor directly in the function body.  Nothing is asked of `break`, `return`, or of
   the NAME of a continue: a name that no enclosing block of the current function has is the
   error case of the real code (the function is abandoned, its caller carries on).
   encl: the names of the enclosing blocks of the current function, innermost first. *)
Fixpoint in_names (nm : name) (l : list name) : bool :=
  match l with [] => false | x :: l' => name_eqb x nm || in_names nm l' end.

Fixpoint wn_stmt (encl : list name) (s : stmt) : bool :=
  match s with
  | Out _ | Return _ => true
  | If _ b => wn_block (NIf :: encl) b
  | Foreach _ _ b => wn_block (NForeach :: encl) b
  | While _ _ b => wn_block (NWhile :: encl) b
  | Call f b => wn_block [NFunc f] b
  | Break nm => true
  | Continue nm => match encl with x :: _ :: _ => negb (name_eqb x nm) | _ => false end
  end
with wn_block (encl : list name) (b : block) : bool :=
  match b with BNil => true | BCons s b' => wn_stmt encl s && wn_block encl b' end.

Definition well_named (main : block) : bool := wn_block [NFunc 0] main.
