(* C38 — model of the list builtins of builtins/core/lists as functions on
   element lists:

     msort            msort.go   cmdMSort   ReadArray -> sort.Strings -> MarshalData
     mtac             mtac.go    cmdMtac    UnmarshalData -> in-place reversal -> MarshalData
     prepend/append   append.go  cmdPrepend / cmdAppend (ReadArrayWithType, ConvertGoType)
     match / !match   match.go   cmdMatch   bytes.Contains(element, Parameters.ByteAll())
     left / right     push_pop.go cmdLeft / cmdRight (character counts, after the fix
                                 "fix: left and right must not cut a multi-byte character")
     prefix / suffix  push_pop.go cmdFix

   The elements a builtin sees are the input elements after the array reader of
   the data type (str: bufio.Scanner lines, bytes.TrimSpace'd; json: the strings
   of the JSON array).  The elements it produces are handed to the array writer
   / marshaller of the same type; for json an empty result is the error
   "no data returned" (utils/json.Marshal on a nil slice, proc strict-arrays)
   with nothing written — except mtac, whose []any{} marshals to `[]`.

   Executable definitions only; proofs are in Proof/Lists.v. *)
From Murex Require Import Base.Outcome Base.Bytes Model.ByteStr.

(* ---- sort.Strings ----------------------------------------------------- *)
(* sort.Strings' contract is "a permutation in non-decreasing order"; for a
   total order on strings that list is unique (Proof/Lists.v sort_contract_unique),
   so insertion sort is an exact executable model of its result. *)
Fixpoint insert (x : bytes) (l : list bytes) : list bytes :=
  match l with
  | [] => [x]
  | y :: l' => if bytes_leb x y then x :: l else y :: insert x l'
  end.
Fixpoint isort (l : list bytes) : list bytes :=
  match l with [] => [] | x :: l' => insert x (isort l') end.

(* ---- left / right on one element --------------------------------------- *)
(* first k characters / everything after the first k characters *)
Definition take_chars (k : nat) (b : bytes) : bytes := concat (firstn k (chars b)).
Definition drop_chars (k : nat) (b : bytes) : bytes := concat (skipn k (chars b)).

(* |n| clamped to the number of characters (keeps unary numbers small) *)
Definition clamp (n : Z) (c : nat) : nat := Z.to_nat (Z.min (Z.abs n) (Z.of_nat c)).

Definition left1 (n : Z) (b : bytes) : bytes :=
  let c := length (chars b) in
  if (0 <? n)%Z then take_chars (clamp n c) b
  else if (n <? 0)%Z then
    if (Z.of_nat c <? Z.abs n)%Z then [] else take_chars (c - clamp n c) b
  else [].

Definition right1 (n : Z) (b : bytes) : bytes :=
  let c := length (chars b) in
  if (0 <? n)%Z then
    if (Z.of_nat c <? n)%Z then b else drop_chars (c - clamp n c) b
  else if (n <? 0)%Z then
    if (Z.of_nat c <? Z.abs n)%Z then [] else drop_chars (clamp n c) b
  else [].

(* ---- the builtins ------------------------------------------------------ *)
Inductive dtype := DStr | DJson.

Inductive op :=
| OpMsort
| OpMtac
| OpPrepend (ps : list bytes)
| OpAppend (ps : list bytes)
| OpMatch (ps : list bytes)      (* one case runs `match ps` and `!match ps` *)
| OpLeft (n : Z)
| OpRight (n : Z)
| OpPrefix (ps : list bytes)
| OpSuffix (ps : list bytes).

(* what the array reader of the type hands to the builtin *)
Definition in_elems (dt : dtype) (xs : list bytes) : list bytes :=
  match dt with DStr => map trim_space xs | DJson => xs end.

(* the element list a builtin produces (second component: the `!match` list) *)
Definition apply_op (o : op) (xs : list bytes) : list bytes * list bytes :=
  match o with
  | OpMsort => (isort xs, [])
  | OpMtac => (rev xs, [])
  | OpPrepend ps => (ps ++ xs, [])
  | OpAppend ps => (xs ++ ps, [])
  | OpMatch ps =>
      let pat := join_sp ps in
      match pat with
      | [] => ([], [])                                 (* "no parameters supplied" *)
      | _ => (filter (contains pat) xs, filter (fun x => negb (contains pat x)) xs)
      end
  | OpLeft n => (map (left1 n) xs, [])
  | OpRight n => (map (right1 n) xs, [])
  | OpPrefix ps => (map (fun x => join_sp ps ++ x) xs, [])
  | OpSuffix ps => (map (fun x => x ++ join_sp ps) xs, [])
  end.

Definition is_nil {A} (l : list A) : bool := match l with [] => true | _ => false end.

(* does the command end with an error?  For the json type an empty result list
   is the error "no data returned" with nothing written:
   - match, left, right, prefix, suffix use the json ArrayWriter, whose Close
     marshals a nil slice (utils/json.Marshal: `null` -> NoData) — always;
   - msort, prepend, append use lang.MarshalData, whose json marshaller turns
     NoData into `[]` unless proc strict-arrays is set (the default);
   - mtac marshals a non-nil []any{} : `[]`, never an error. *)
Definition json_empty_err (strict : bool) (o : op) : bool :=
  match o with
  | OpMtac => false
  | OpMsort | OpPrepend _ | OpAppend _ => strict
  | _ => true
  end.

Definition op_err (dt : dtype) (strict : bool) (o : op) (out : list bytes) : bool :=
  match o with
  | OpMatch ps => is_nil (join_sp ps) || (match dt with DJson => is_nil out | DStr => false end)
  | _ => match dt with DJson => is_nil out && json_empty_err strict o | DStr => false end
  end.

Record obs := { o_err : bool; o_out : list bytes; o_err2 : bool; o_out2 : list bytes }.

Definition run (dt : dtype) (strict : bool) (o : op) (xs : list bytes) : obs :=
  let r := apply_op o (in_elems dt xs) in
  match o with
  | OpMatch _ => {| o_err := op_err dt strict o (fst r); o_out := fst r;
                    o_err2 := op_err dt strict o (snd r); o_out2 := snd r |}
  | _ => {| o_err := op_err dt strict o (fst r); o_out := fst r; o_err2 := false; o_out2 := [] |}
  end.
