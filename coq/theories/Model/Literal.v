(* C36 — model of the `%[ ]` / `%{ }` literal parser of lang/expressions on
   JSON text:
     parseArray        parse_array.go:25    (loop over the characters after '[')
     parseArrayMaker   parse_array.go:268   (early exits; `..` range detection)
     parseArrayBareword / formatArrayValue  parse_array.go:233 / 254
     parseObject       parse_object.go:23   with parseObjectT (parse_object_types.go):
                       key / value stages, WriteKeyValuePair on ',' '\n' '}'
     parseStringInfix  parse_quotes.go:102  (double-quoted strings)
   The parser works on runes; every character it treats specially is ASCII and
   string contents are copied verbatim, so the model works on the UTF-8 bytes.

   Outside the modelled fragment (Err 9): comments, single quotes, %( ), ( ),
   $ ~ @ expansions, backslash escapes, non-string object keys, and a `..`
   range (Err 8, handed to the `ja` builtin by the real code).

   Executable definitions only. *)
From Murex Require Import Base.Outcome Base.Bytes Model.ByteStr.

Local Open Scope N_scope.

Inductive json :=
| JNull
| JBool (b : bool)
| JNum (tok : bytes)          (* the number's text; its float64 is strconv.ParseFloat tok *)
| JStr (s : bytes)
| JArr (l : list json)
| JObj (kvs : list (bytes * json)).   (* sorted by key, keys unique *)

Definition mem (c : N) (l : list N) : bool := existsb (N.eqb c) l.

(* ---- barewords (parseArrayBareword) ---- *)
(* , space \t \r \n [ ] { } : $ ~ @ dquote squote % *)
Definition is_term (c : N) : bool :=
  mem c [44; 32; 9; 13; 10; 91; 93; 123; 125; 58; 36; 126; 64; 34; 39; 37].

Fixpoint bare_rest (r : bytes) : bytes * bytes :=
  match r with
  | [] => ([], [])
  | c :: r' =>
    if is_term c then ([], r)
    else if (c =? 47) && (match r' with 42 :: _ => true | _ => false end) then ([], r)
    else let '(t, rest) := bare_rest r' in (c :: t, rest)
  end.

(* does strconv.ParseFloat accept the token?  decimal syntax, inf / infinity / nan
   (hexadecimal floats and digit-separating underscores are not modelled) *)
Definition is_digit (c : N) : bool := (48 <=? c) && (c <=? 57).
Fixpoint digits (b : bytes) : nat * bytes :=
  match b with
  | c :: r => if is_digit c then let '(n, r') := digits r in (S n, r') else (O, b)
  | [] => (O, [])
  end.
Definition lower (c : N) : N := if (65 <=? c) && (c <=? 90) then c + 32 else c.
Definition go_float_syntax (tok : bytes) : bool :=
  let b := match tok with 43 :: r | 45 :: r => r | _ => tok end in
  let lb := map lower b in
  if bytes_eqb lb [105; 110; 102] || bytes_eqb lb [105; 110; 102; 105; 110; 105; 116; 121] ||
     bytes_eqb (map lower tok) [110; 97; 110]
  then true
  else
    let '(n1, r1) := digits b in
    let '(n2, r2) := match r1 with 46 :: r => digits r | _ => (O, r1) end in
    if Nat.eqb (n1 + n2) 0 then false
    else match r2 with
         | [] => true
         | e :: r3 =>
           if (e =? 101) || (e =? 69) then
             let r4 := match r3 with 43 :: r | 45 :: r => r | _ => r3 end in
             let '(n3, r5) := digits r4 in
             negb (Nat.eqb n3 0) && match r5 with [] => true | _ => false end
           else false
         end.

(* ConvertGoType(value, Number) succeeds, else formatArrayValue *)
Definition bareword_value (tok : bytes) : json :=
  if go_float_syntax (trim_space tok) then JNum tok
  else if bytes_eqb tok [116; 114; 117; 101] then JBool true
  else if bytes_eqb tok [102; 97; 108; 115; 101] then JBool false
  else if bytes_eqb tok [110; 117; 108; 108] then JNull
  else JStr tok.

(* ---- double-quoted strings (parseStringInfix, qEnd = dquote) ---- *)
Fixpoint p_string (acc : bytes) (r : bytes) : Outcome (bytes * bytes) :=
  match r with
  | [] => Err 2                                  (* missing closing quote *)
  | c :: r' =>
    if c =? 34 then Ok (rev acc, r')
    else if mem c [92; 36; 126] then Err 9       (* \ escape, $variable, ~ *)
    else p_string (c :: acc) r'
  end.

(* ---- parseArrayMaker: scan from after '[' with brackets = 1 ---- *)
Inductive mk_res := MkEarly | MkEnd (mk : bool) | MkMissing.
Fixpoint maker_scan (r : bytes) (b : nat) (mk : bool) : mk_res :=
  match r with
  | [] => MkMissing
  | c :: r' =>
    if mem c [39; 34; 40; 123; 37] then MkEarly
    else if c =? 46 then
      match r' with
      | 46 :: r'' => maker_scan r'' b true
      | _ => maker_scan r' b mk
      end
    else if c =? 91 then
      match b with
      | S (S _) => MkEarly                       (* third open bracket *)
      | _ => maker_scan r' (S b) mk
      end
    else if c =? 93 then
      match b with
      | S (S b') => maker_scan r' (S b') mk
      | _ => MkEnd mk
      end
    else maker_scan r' b mk
  end.

(* ---- objects: parseObjectT ---- *)
Fixpoint obj_set (k : bytes) (v : json) (kvs : list (bytes * json)) : list (bytes * json) :=
  match kvs with
  | [] => [(k, v)]
  | (k', v') :: t =>
    if bytes_eqb k k' then (k, v) :: t
    else if bytes_leb k k' then (k, v) :: kvs
    else (k', v') :: obj_set k v t
  end.

Record ostate := { os_key : option json; os_val : option json; os_stage : bool (* true = value *);
                   os_obj : list (bytes * json) }.
Definition os_empty : ostate := {| os_key := None; os_val := None; os_stage := false; os_obj := [] |}.

(* UpdateInterface *)
Definition os_update (st : ostate) (v : json) : Outcome ostate :=
  if os_stage st then
    match os_val st with
    | Some _ => Err 4                            (* unexpected object value *)
    | None => Ok {| os_key := os_key st; os_val := Some v; os_stage := true; os_obj := os_obj st |}
    end
  else
    match os_key st with
    | Some _ => Err 4                            (* unexpected object key *)
    | None => Ok {| os_key := Some v; os_val := None; os_stage := false; os_obj := os_obj st |}
    end.

(* WriteKeyValuePair *)
Definition os_write (st : ostate) : Outcome ostate :=
  let kundef := match os_key st with None | Some JNull => true | _ => false end in
  match kundef, os_val st with
  | true, None => Ok st
  | true, Some _ => Err 5                        (* key undefined *)
  | false, None => Err 5                         (* value undefined *)
  | false, Some v =>
    match os_key st with
    | Some (JStr k) => Ok {| os_key := None; os_val := None; os_stage := false; os_obj := obj_set k v (os_obj st) |}
    | _ => Err 9                                 (* non-string key: formatted by ConvertGoType *)
    end
  end.

(* characters that start something outside the modelled fragment *)
Definition unmodelled (c : N) : bool := mem c [35; 47; 39; 37; 40; 36; 126; 64].

(* ---- parseArray / parseObject ---- *)
Fixpoint p_array (f : nat) (acc : list json) (inp : bytes) {struct f} : Outcome (json * bytes) :=
  match f with
  | O => OutOfFuel
  | S f' =>
    match inp with
    | [] => Err 1                                (* missing closing square bracket *)
    | c :: r =>
      if mem c [44; 32; 9; 13; 10] then p_array f' acc r
      else if c =? 93 then Ok (JArr (rev acc), r)
      else if c =? 34 then
        obind (p_string [] r) (fun '(s, r') => p_array f' (JStr s :: acc) r')
      else if c =? 91 then
        match maker_scan r 1 false with
        | MkMissing => Err 1
        | MkEnd true => Err 8
        | _ => obind (p_array f' [] r) (fun '(v, r') => p_array f' (v :: acc) r')
        end
      else if c =? 123 then
        obind (p_object f' os_empty r) (fun '(v, r') => p_array f' (v :: acc) r')
      else if unmodelled c then Err 9
      else let '(t, r') := bare_rest r in p_array f' (bareword_value (c :: t) :: acc) r'
    end
  end
with p_object (f : nat) (st : ostate) (inp : bytes) {struct f} : Outcome (json * bytes) :=
  match f with
  | O => OutOfFuel
  | S f' =>
    match inp with
    | [] => Err 1                                (* missing closing bracket '}' *)
    | c :: r =>
      if mem c [32; 9; 13] then p_object f' st r
      else if (c =? 44) || (c =? 10) then obind (os_write st) (fun st' => p_object f' st' r)
      else if c =? 125 then obind (os_write st) (fun st' => Ok (JObj (os_obj st'), r))
      else if c =? 58 then
        if os_stage st then Err 3                (* invalid symbol ':' *)
        else p_object f' {| os_key := os_key st; os_val := os_val st; os_stage := true; os_obj := os_obj st |} r
      else if c =? 34 then
        obind (p_string [] r) (fun '(s, r') => obind (os_update st (JStr s)) (fun st' => p_object f' st' r'))
      else if c =? 91 then
        if negb (os_stage st) then Err 6         (* object keys cannot be an array *)
        else match maker_scan r 1 false with
             | MkMissing => Err 1
             | MkEnd true => Err 8
             | _ => obind (p_array f' [] r) (fun '(v, r') => obind (os_update st v) (fun st' => p_object f' st' r'))
             end
      else if c =? 123 then
        if negb (os_stage st) then Err 6
        else obind (p_object f' os_empty r) (fun '(v, r') => obind (os_update st v) (fun st' => p_object f' st' r'))
      else if unmodelled c then Err 9
      else let '(t, r') := bare_rest r in
           obind (os_update st (bareword_value (c :: t))) (fun st' => p_object f' st' r')
    end
  end.

(* the whole literal: %[ ... or %{ ...; nothing may follow *)
Definition lit_parse (text : bytes) : Outcome json :=
  match text with
  | 37 :: 91 :: r =>
    match maker_scan r 1 false with
    | MkMissing => Err 1
    | MkEnd true => Err 8
    | _ => obind (p_array (S (length r)) [] r) (fun '(v, rest) => match rest with [] => Ok v | _ => Err 7 end)
    end
  | 37 :: 123 :: r =>
    obind (p_object (S (length r)) os_empty r) (fun '(v, rest) => match rest with [] => Ok v | _ => Err 7 end)
  | _ => Err 7
  end.

(* ---- a plain JSON parser for the property's restricted grammar ---- *)
(* RFC 8259 text without string escapes: white space is space \t \n \r; strings
   are the bytes between two double quotes (no backslash: Err 9, outside the
   grammar; no control characters); numbers follow the JSON number syntax;
   arrays and objects need their commas and colons.  Objects are built like
   encoding/json builds a map: a repeated key keeps its last value. *)
Fixpoint skip_ws (b : bytes) : bytes :=
  match b with
  | c :: r => if mem c [32; 9; 10; 13] then skip_ws r else b
  | [] => []
  end.

Fixpoint j_string (acc : bytes) (r : bytes) : Outcome (bytes * bytes) :=
  match r with
  | [] => Err 2
  | c :: r' =>
    if c =? 34 then Ok (rev acc, r')
    else if c =? 92 then Err 9
    else if c <? 32 then Err 2
    else j_string (c :: acc) r'
  end.

(* JSON number: optional minus; 0 or a digit run not starting with 0; optional
   point with digits; optional e/E with optional sign and digits *)
Definition json_num_syntax (tok : bytes) : bool :=
  let b := match tok with 45 :: r => r | _ => tok end in
  let '(n1, r1) := digits b in
  let int_ok := match b with
                | 48 :: _ => Nat.eqb n1 1
                | _ => negb (Nat.eqb n1 0)
                end in
  let '(frac_ok, r2) := match r1 with
                        | 46 :: r => let '(n2, r') := digits r in (negb (Nat.eqb n2 0), r')
                        | _ => (true, r1)
                        end in
  let exp_ok := match r2 with
                | [] => true
                | e :: r3 =>
                  if (e =? 101) || (e =? 69) then
                    let r4 := match r3 with 43 :: r | 45 :: r => r | _ => r3 end in
                    let '(n3, r5) := digits r4 in
                    negb (Nat.eqb n3 0) && match r5 with [] => true | _ => false end
                  else false
                end in
  int_ok && frac_ok && exp_ok.

Definition j_delim (c : N) : bool := mem c [32; 9; 10; 13; 44; 93; 125; 91; 123; 34; 58].

Fixpoint j_token (r : bytes) : bytes * bytes :=
  match r with
  | [] => ([], [])
  | c :: r' => if j_delim c then ([], r) else let '(t, rest) := j_token r' in (c :: t, rest)
  end.

Definition j_scalar (tok : bytes) : Outcome json :=
  if bytes_eqb tok [110; 117; 108; 108] then Ok JNull
  else if bytes_eqb tok [116; 114; 117; 101] then Ok (JBool true)
  else if bytes_eqb tok [102; 97; 108; 115; 101] then Ok (JBool false)
  else if json_num_syntax tok then Ok (JNum tok)
  else Err 1.

Fixpoint j_value (f : nat) (inp : bytes) {struct f} : Outcome (json * bytes) :=
  match f with
  | O => OutOfFuel
  | S f' =>
    match skip_ws inp with
    | [] => Err 1
    | c :: r =>
      if c =? 34 then obind (j_string [] r) (fun '(s, r') => Ok (JStr s, r'))
      else if c =? 91 then
        match skip_ws r with
        | 93 :: r' => Ok (JArr [], r')
        | _ => j_items f' [] r
        end
      else if c =? 123 then
        match skip_ws r with
        | 125 :: r' => Ok (JObj [], r')
        | _ => j_members f' [] r
        end
      else let '(t, r') := j_token (c :: r) in
           match t with
           | [] => Err 1
           | _ => obind (j_scalar t) (fun v => Ok (v, r'))
           end
    end
  end
with j_items (f : nat) (acc : list json) (inp : bytes) {struct f} : Outcome (json * bytes) :=
  match f with
  | O => OutOfFuel
  | S f' =>
    obind (j_value f' inp) (fun '(v, r) =>
      match skip_ws r with
      | 44 :: r' => j_items f' (v :: acc) r'
      | 93 :: r' => Ok (JArr (rev (v :: acc)), r')
      | _ => Err 1
      end)
  end
with j_members (f : nat) (o : list (bytes * json)) (inp : bytes) {struct f} : Outcome (json * bytes) :=
  match f with
  | O => OutOfFuel
  | S f' =>
    match skip_ws inp with
    | 34 :: r =>
      obind (j_string [] r) (fun '(k, r1) =>
        match skip_ws r1 with
        | 58 :: r2 =>
          obind (j_value f' r2) (fun '(v, r3) =>
            match skip_ws r3 with
            | 44 :: r4 => j_members f' (obj_set k v o) r4
            | 125 :: r4 => Ok (JObj (obj_set k v o), r4)
            | _ => Err 1
            end)
        | _ => Err 1
        end)
    | _ => Err 1
    end
  end.

Definition json_parse (text : bytes) : Outcome json :=
  obind (j_value (2 * length text + 2) text)
        (fun '(v, rest) => match skip_ws rest with [] => Ok v | _ => Err 1 end).

(* ---- values as observed from Go: numbers as float64 bits ---- *)
Inductive jval :=
| VNull | VBool (b : bool) | VNum (bits : N) | VStr (s : bytes)
| VArr (l : list jval) | VObj (kvs : list (bytes * jval)).

Fixpoint lookup (tbl : list (bytes * N)) (tok : bytes) : option N :=
  match tbl with
  | [] => None
  | (t, b) :: r => if bytes_eqb t tok then Some b else lookup r tok
  end.

(* strconv.ParseFloat as a finite table supplied with the case *)
Fixpoint resolve (tbl : list (bytes * N)) (j : json) : option jval :=
  match j with
  | JNull => Some VNull
  | JBool b => Some (VBool b)
  | JNum tok => match lookup tbl (trim_space tok) with Some b => Some (VNum b) | None => None end
  | JStr s => Some (VStr s)
  | JArr l =>
    option_map VArr
    ((fix go (l : list json) : option (list jval) :=
       match l with
       | [] => Some []
       | x :: r => match resolve tbl x, go r with Some v, Some vs => Some (v :: vs) | _, _ => None end
       end) l)
  | JObj kvs =>
    option_map VObj
    ((fix go (l : list (bytes * json)) : option (list (bytes * jval)) :=
       match l with
       | [] => Some []
       | (k, x) :: r => match resolve tbl x, go r with Some v, Some vs => Some ((k, v) :: vs) | _, _ => None end
       end) kvs)
  end.

Fixpoint jval_eqb (a b : jval) : bool :=
  match a, b with
  | VNull, VNull => true
  | VBool x, VBool y => Bool.eqb x y
  | VNum x, VNum y => N.eqb x y
  | VStr x, VStr y => bytes_eqb x y
  | VArr x, VArr y =>
    (fix go (x y : list jval) : bool :=
       match x, y with
       | [], [] => true
       | a :: x', b :: y' => jval_eqb a b && go x' y'
       | _, _ => false
       end) x y
  | VObj x, VObj y =>
    (fix go (x y : list (bytes * jval)) : bool :=
       match x, y with
       | [], [] => true
       | (k, a) :: x', (k', b) :: y' => bytes_eqb k k' && jval_eqb a b && go x' y'
       | _, _ => false
       end) x y
  | _, _ => false
  end.
