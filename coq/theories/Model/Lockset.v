(* C32 — lock-set discipline over the generated event paths of Gen/Lockset.v, and
   the interleaving semantics of threads running such paths.  Definitions only.

   An event list is one intra-procedural path through a Go method, as emitted by
   harness/cmd/gotables/t_lockset.go:
     Lock m / Unlock m      sync.Mutex.Lock / Unlock, sync.RWMutex.Lock / Unlock
     RLock m / RUnlock m    sync.RWMutex.RLock / RUnlock
     Rd f / Wr f            plain read / write of field f of the receiver
     Atomic f               sync/atomic operation on field f *)
From Coq Require Export List NArith Bool String.
Export ListNotations.

Inductive ev :=
| Lock (m : N) | Unlock (m : N) | RLock (m : N) | RUnlock (m : N)
| Rd (f : N) | Wr (f : N) | Atomic (f : N).
Definition path := list ev.

Definition mem (x : N) (l : list N) : bool := existsb (N.eqb x) l.

(* remove one occurrence *)
Fixpoint remove1 (x : N) (l : list N) : option (list N) :=
  match l with
  | [] => None
  | y :: l' => if N.eqb x y then Some l'
               else match remove1 x l' with Some r => Some (y :: r) | None => None end
  end.

(* how the fields are used over the whole table *)
Record cls := mkcls {
  pw : N -> bool;     (* some path writes the field plainly *)
  au : N -> bool;     (* some path uses it atomically *)
  pu : N -> bool }.   (* some path reads or writes it plainly *)

Section Discipline.
  Variable c : cls.
  Variable guard : N -> option N.      (* field -> the mutex that guards it *)

  Definition held (f : N) (h : list N) : bool :=
    match guard f with Some m => mem m h | None => false end.

  (* the discipline at one access, given the write-held and read-held mutexes *)
  Definition access_ok (hw hr : list N) (e : ev) : bool :=
    match e with
    | Wr f => pw c f && pu c f && held f hw
    | Rd f => pu c f && (held f hw || held f hr || (negb (pw c f) && negb (au c f)))
    | Atomic f => au c f && (held f hw || negb (pu c f))
    | _ => true
    end.

  (* symbolic execution of a path: None = discipline broken (unguarded access,
     unlock of something not held, lock of something already held) *)
  Fixpoint sim (hw hr : list N) (p : path) : option (list N * list N) :=
    match p with
    | [] => Some (hw, hr)
    | e :: p' =>
        match e with
        | Lock m => if mem m hw || mem m hr then None else sim (m :: hw) hr p'
        | RLock m => if mem m hw then None else sim hw (m :: hr) p'
        | Unlock m => match remove1 m hw with Some hw' => sim hw' hr p' | None => None end
        | RUnlock m => match remove1 m hr with Some hr' => sim hw hr' p' | None => None end
        | _ => if access_ok hw hr e then sim hw hr p' else None
        end
    end.

  (* a method path obeys the discipline and is lock balanced *)
  Definition path_ok (p : path) : bool :=
    match sim [] [] p with Some ([], []) => true | _ => false end.
End Discipline.

(* ---- the table ---- *)

Definition table := list (string * list path).

Definition all_events (t : table) : list ev := flat_map (fun m => List.concat (snd m)) t.

Definition is_wr (f : N) (e : ev) := match e with Wr g => N.eqb f g | _ => false end.
Definition is_at (f : N) (e : ev) := match e with Atomic g => N.eqb f g | _ => false end.
Definition is_pl (f : N) (e : ev) := match e with Wr g | Rd g => N.eqb f g | _ => false end.

Definition cls_of (t : table) : cls :=
  let evs := all_events t in
  mkcls (fun f => existsb (is_wr f) evs) (fun f => existsb (is_at f) evs) (fun f => existsb (is_pl f) evs).

Definition guard_of (g : list (N * N)) (f : N) : option N :=
  match find (fun p => N.eqb (fst p) f) g with Some p => Some (snd p) | None => None end.

Definition method_ok (c : cls) (g : list (N * N)) (m : string * list path) : bool :=
  forallb (path_ok c (guard_of g)) (snd m).

(* every path of every method of the table obeys the discipline *)
Definition lockset_ok (g : list (N * N)) (t : table) : bool :=
  forallb (method_ok (cls_of t) g) t.

(* names of the methods that break it (field usage judged over the whole table t) *)
Definition bad_methods (g : list (N * N)) (t : table) : list string :=
  map fst (filter (fun m => negb (method_ok (cls_of t) g m)) t).

Definition in_names (l : list string) (s : string) : bool := existsb (String.eqb s) l.
Definition without (l : list string) (t : table) : table :=
  filter (fun m => negb (in_names l (fst m))) t.

(* Methods that break the discipline on the current tree.  Each was confirmed with the Go
   race detector (see docs/C32.md); the number is the known-finding id of KNOWN_FINDINGS.txt.
   (Config.Set, Variables.set, Variables.Dump, Params.Raw and Params.ParseFlags broke it on
   the pinned tree and were repaired: fixes/C32.txt.) *)
Definition known_racy : list (string * N) := [
  ("streams.Stdin.GetDataType", 1%N)           (* reads dataType without the mutex once the context is
                                                  cancelled; deliberate according to the source comment *)
]%string.

(* Helpers that break the discipline only because the translator is intra-procedural: they
   are entered with the mutex already held by their (only) callers. *)
Definition caller_locked : list string := [
  "lang.jobs._hasTerminated"                   (* called from GarbageCollect / List ... inside Lock..Unlock *)
]%string.

Definition excluded : list string := map fst known_racy ++ caller_locked.

Definition known_id (s : string) : N :=
  match find (fun p => String.eqb (fst p) s) known_racy with Some p => snd p | None => 0%N end.

(* ---- interleaving semantics ---- *)

Record thread := mkt { t_hw : list N; t_hr : list N; t_rest : list ev }.
Definition state := list thread.

Definition holds_w (m : N) (t : thread) : bool := mem m (t_hw t).
Definition holds_any (m : N) (t : thread) : bool := mem m (t_hw t) || mem m (t_hr t).

Fixpoint set_nth {A} (l : list A) (i : nat) (x : A) : list A :=
  match l, i with
  | [], _ => []
  | _ :: l', O => x :: l'
  | y :: l', S i' => y :: set_nth l' i' x
  end.

(* thread i performs its next event, if the lock semantics allows it:
   Lock is exclusive; RLock excludes (and is excluded by) Lock *)
Definition tstep (st : state) (i : nat) : option state :=
  match nth_error st i with
  | None => None
  | Some t =>
      match t_rest t with
      | [] => None
      | e :: rest =>
          match e with
          | Lock m => if existsb (holds_any m) st then None
                      else Some (set_nth st i (mkt (m :: t_hw t) (t_hr t) rest))
          | RLock m => if existsb (holds_w m) st then None
                       else Some (set_nth st i (mkt (t_hw t) (m :: t_hr t) rest))
          | Unlock m => match remove1 m (t_hw t) with
                        | Some hw' => Some (set_nth st i (mkt hw' (t_hr t) rest))
                        | None => None
                        end
          | RUnlock m => match remove1 m (t_hr t) with
                         | Some hr' => Some (set_nth st i (mkt (t_hw t) hr' rest))
                         | None => None
                         end
          | _ => Some (set_nth st i (mkt (t_hw t) (t_hr t) rest))
          end
      end
  end.

Inductive reachable : state -> state -> Prop :=
| reach_refl st : reachable st st
| reach_step st st1 st' i : tstep st i = Some st1 -> reachable st1 st' -> reachable st st'.

(* each thread runs any sequence of method paths *)
Definition init_state (progs : list (list path)) : state :=
  map (fun ps => mkt [] [] (List.concat ps)) progs.

(* two accesses conflict: same field, not both reads, not both atomic *)
Definition conflict (a b : ev) : bool :=
  match a, b with
  | Wr f, Wr g | Wr f, Rd g | Rd f, Wr g
  | Atomic f, Rd g | Rd f, Atomic g | Atomic f, Wr g | Wr f, Atomic g => N.eqb f g
  | _, _ => false
  end.

(* a data race: two different threads are both about to perform conflicting accesses *)
Definition racy (st : state) : Prop :=
  exists i j ti tj a b, i <> j /\ nth_error st i = Some ti /\ nth_error st j = Some tj /\
    hd_error (t_rest ti) = Some a /\ hd_error (t_rest tj) = Some b /\ conflict a b = true.
