(* C12 — model of utils/alter/alter.go (Alter / loop, action = alter) for JSON
   documents made of map[string]any, []any, string, float64, bool and nil, of
   lang/variables.go Variables.Set (nested path: alter in place, then store),
   of lang/expressions/exp14.go expAssign for `b = $a` (marshal + re-parse:
   the copy is a fresh value), and of lang/define_element_object.go
   ElementLookup (what `$v.path` reads).

   The model follows the code AFTER the two fixes
     "fix: alter: array cases swallowed errors (shadowed err)"
     "fix: alter: a path with missing intermediate elements nulled the parent"
   i.e. in loop, for []any / map[string]any / map[any]any:

       ret, err = loop(ctx, child, i+1, path, new, action)
       if err == errOverwritePath { ret, err = newPath(path[i+1:], *new), nil }
       if err == nil { v[k] = ret; ret = v }

   No proofs in this file. *)
From Murex Require Import Base.Outcome Base.Bytes.

(* ---------- JSON values ---------- *)
(* numbers are carried as their canonical text strconv.FormatFloat(f,'f',-1,64);
   two float64 (non NaN) are equal iff their canonical texts are equal. *)
Inductive json :=
| JNull
| JBool (b : bool)
| JNum (t : bytes)
| JStr (s : bytes)
| JArr (l : list json)
| JObj (o : list (bytes * json)).

Definition path := list bytes.

Fixpoint json_eqb (a b : json) {struct a} : bool :=
  match a, b with
  | JNull, JNull => true
  | JBool x, JBool y => Bool.eqb x y
  | JNum x, JNum y => bytes_eqb x y
  | JStr x, JStr y => bytes_eqb x y
  | JArr l, JArr m =>
      (fix go (l m : list json) {struct l} : bool :=
         match l, m with
         | [], [] => true
         | x :: l', y :: m' => json_eqb x y && go l' m'
         | _, _ => false
         end) l m
  | JObj o, JObj q =>
      (fix go (o q : list (bytes * json)) {struct o} : bool :=
         match o, q with
         | [], [] => true
         | (k, x) :: o', (k', y) :: q' => bytes_eqb k k' && json_eqb x y && go o' q'
         | _, _ => false
         end) o q
  | _, _ => false
  end.

Definition jlist_eqb (l m : list json) : bool := json_eqb (JArr l) (JArr m).
Definition jobj_eqb (o q : list (bytes * json)) : bool := json_eqb (JObj o) (JObj q).

(* ---------- byte strings: order, ASCII case ---------- *)
Fixpoint bytes_cmp (a b : bytes) : comparison :=
  match a, b with
  | [], [] => Eq
  | [], _ :: _ => Lt
  | _ :: _, [] => Gt
  | x :: a', y :: b' => match N.compare x y with Eq => bytes_cmp a' b' | c => c end
  end.

Definition is_upper (c : N) : bool := (65 <=? c)%N && (c <=? 90)%N.
Definition is_lower (c : N) : bool := (97 <=? c)%N && (c <=? 122)%N.
Definition is_digit (c : N) : bool := (48 <=? c)%N && (c <=? 57)%N.
Definition to_upper (c : N) : N := if is_lower c then (c - 32)%N else c.
Definition to_lower (c : N) : N := if is_upper c then (c + 32)%N else c.
(* strings.Title's isSeparator on ASCII: letters, digits and '_' are not
   separators; bytes >= 128 are treated as non separators (keys are ASCII in
   every generated case). *)
Definition is_sep (c : N) : bool :=
  negb (is_upper c || is_lower c || is_digit c || (c =? 95)%N || (128 <=? c)%N).
Fixpoint title_from (prev : N) (s : bytes) : bytes :=
  match s with
  | [] => []
  | c :: s' => (if is_sep prev then to_upper c else c) :: title_from c s'
  end.
Definition title (s : bytes) : bytes := title_from 32%N s.
Definition upper (s : bytes) : bytes := map to_upper s.
Definition lower (s : bytes) : bytes := map to_lower s.

(* ---------- strconv.Atoi ---------- *)
Fixpoint digits_val (acc : Z) (s : bytes) : option Z :=
  match s with
  | [] => Some acc
  | c :: s' => if is_digit c then digits_val (acc * 10 + Z.of_N (c - 48))%Z s' else None
  end.

Definition atoi (s : bytes) : option Z :=
  let '(neg, ds) := match s with
                    | 45%N :: r => (true, r)
                    | 43%N :: r => (false, r)
                    | _ => (false, s)
                    end in
  match ds with
  | [] => None
  | _ => match digits_val 0%Z ds with
         | None => None
         | Some n => let z := if neg then (- n)%Z else n in
                     if ((- 9223372036854775808 <=? z) && (z <=? 9223372036854775807))%Z
                     then Some z else None
         end
  end.

(* ---------- containers ---------- *)
Fixpoint obj_find (k : bytes) (o : list (bytes * json)) : option json :=
  match o with
  | [] => None
  | (k', x) :: o' => if bytes_eqb k k' then Some x else obj_find k o'
  end.

(* Go: v[k] on a map gives nil for a missing key *)
Definition obj_get (k : bytes) (o : list (bytes * json)) : json :=
  match obj_find k o with Some x => x | None => JNull end.

(* v[k] = x ; the model keeps objects ordered by key (the harness prints Go
   maps with sorted keys) *)
Fixpoint obj_set (k : bytes) (x : json) (o : list (bytes * json)) : list (bytes * json) :=
  match o with
  | [] => [(k, x)]
  | (k', y) :: o' =>
      match bytes_cmp k k' with
      | Eq => (k, x) :: o'
      | Lt => (k, x) :: (k', y) :: o'
      | Gt => (k', y) :: obj_set k x o'
      end
  end.

Fixpoint obj_remove (k : bytes) (o : list (bytes * json)) : list (bytes * json) :=
  match o with
  | [] => []
  | (k', y) :: o' => if bytes_eqb k k' then obj_remove k o' else (k', y) :: obj_remove k o'
  end.

Fixpoint set_nth (i : nat) (x : json) (l : list json) : list json :=
  match l, i with
  | [], _ => []
  | _ :: l', O => x :: l'
  | y :: l', S i' => y :: set_nth i' x l'
  end.

(* alter.go slice cases: Atoi, not negative, below len *)
Definition arr_index (k : bytes) (l : list json) : option nat :=
  match atoi k with
  | None => None
  | Some i => if (i <? 0)%Z then None
              else if (Z.of_nat (length l) <=? i)%Z then None
              else Some (Z.to_nat i)
  end.

(* ---------- the new value and its conversions ---------- *)
(* types.ConvertGoType is library-like code that belongs to property C13; its
   results for the new value enter as data: nv_str/nv_num/nv_bool are what
   ConvertGoType(new, String / Float / Boolean) returned (as JSON values). *)
Record newval := {
  nv : json;
  nv_str : Outcome json;
  nv_num : Outcome json;
  nv_bool : Outcome json
}.

(* Go's err in loop *)
Inductive lerr := ENone | EOverwrite | EOther.

Definition from_conv (c : Outcome json) : json * lerr :=
  match c with Ok x => (x, ENone) | _ => (JNull, EOther) end.

(* case i == len(path): conversion by the type of the existing leaf *)
Definition leaf (v : json) (n : newval) : json * lerr :=
  match v with
  | JStr _ => from_conv (nv_str n)
  | JNum _ => from_conv (nv_num n)
  | JBool _ => from_conv (nv_bool n)
  | JNull | JArr _ | JObj _ => (nv n, ENone)
  end.

(* newPath *)
Fixpoint new_path (p : path) (x : json) : json :=
  match p with
  | [] => x
  | k :: p' => JObj [(k, new_path p' x)]
  end.

Definition up (e : lerr) (r : json) (fresh : json) (store : json -> json) : json * lerr :=
  match e with
  | EOther => (JNull, EOther)
  | EOverwrite => (store fresh, ENone)
  | ENone => (store r, ENone)
  end.

Fixpoint loop (v : json) (p : path) (n : newval) : json * lerr :=
  match p with
  | [] => leaf v n
  | k :: p' =>
      match v with
      | JArr l =>
          match arr_index k l with
          | None => (JNull, EOther)
          | Some i =>
              let '(r, e) := loop (nth i l JNull) p' n in
              up e r (new_path p' (nv n)) (fun x => JArr (set_nth i x l))
          end
      | JObj o =>
          let '(r, e) := loop (obj_get k o) p' n in
          up e r (new_path p' (nv n)) (fun x => JObj (obj_set k x o))
      | JNull => (JNull, EOverwrite)
      | _ => (JNull, EOther)
      end
  end.

(* alter.Alter: Err 1 = clean error, Err 2 = errOverwritePath returned to the caller *)
Definition alter (v : json) (p : path) (n : newval) : Outcome json :=
  match loop v p n with
  | (r, ENone) => Ok r
  | (_, EOverwrite) => Err 2
  | (_, EOther) => Err 1
  end.

(* exact lookup, with alter's resolution of array indexes *)
Fixpoint lookup (v : json) (p : path) : option json :=
  match p with
  | [] => Some v
  | k :: p' =>
      match v with
      | JArr l => match arr_index k l with
                  | Some i => lookup (nth i l JNull) p'
                  | None => None
                  end
      | JObj o => match obj_find k o with
                  | Some x => lookup x p'
                  | None => None
                  end
      | _ => None
      end
  end.

(* ---------- ElementLookup: what `$v.path` reads ---------- *)
Definition is_null (v : json) : bool := match v with JNull => true | _ => false end.

Definition present (k : bytes) (o : list (bytes * json)) : option json :=
  match obj_find k o with
  | Some x => if is_null x then None else Some x
  | None => None
  end.

Definition first_some {A} (a b : option A) : option A :=
  match a with Some _ => a | None => b end.

(* map[string]any case of elementRecursiveLookup *)
Definition elem_key (k : bytes) (o : list (bytes * json)) : option json :=
  first_some (present k o)
    (first_some (present (title k) o)
       (first_some (present (lower k) o) (present (upper k) o))).

(* isValidElementIndex *)
Definition elem_index (k : bytes) (l : list json) : option nat :=
  match atoi k with
  | None => None
  | Some i =>
      let len := Z.of_nat (length l) in
      if (i <? 0)%Z then (if (i + len <? 0)%Z then None else Some (Z.to_nat (i + len)))
      else if (len <=? i)%Z then None else Some (Z.to_nat i)
  end.

Fixpoint elookup (v : json) (p : path) : option json :=
  match p with
  | [] => Some v
  | k :: p' =>
      match v with
      | JArr l => match elem_index k l with
                  | Some i => elookup (nth i l JNull) p'
                  | None => None
                  end
      | JObj o => match elem_key k o with
                  | Some x => elookup x p'
                  | None => None
                  end
      | _ => None
      end
  end.

(* text printed for a scalar: types.ConvertGoType(val, String) *)
Definition scalar_text (v : json) : option bytes :=
  match v with
  | JNull => Some []
  | JBool true => Some [116; 114; 117; 101]%N
  | JBool false => Some [102; 97; 108; 115; 101]%N
  | JNum t => Some t
  | JStr s => Some s
  | _ => None
  end.

(* ---------- variables: names -> cells, cells -> values ---------- *)
(* A variable holds a reference to a Go value (a cell); nested assignment
   mutates the cell in place (Variables.Set -> alter.Alter); `dst = $src`
   marshals the value and parses it again (expAssign), which gives a fresh
   cell.  reparse stands for "marshal to JSON text then unmarshal". *)
Inductive op :=
| OCopy (dst src : bytes)                      (* dst = $src *)
| OSet (x : bytes) (p : path) (n : newval)     (* $x.p = new *)
| OCall (src : bytes) (p : path) (n : newval)  (* f $src, f alters its own copy and prints it *)
| ORead (x : bytes) (p : path).                (* out $x.p *)

Record state := { vars : list (bytes * nat); heap : list (nat * json); next : nat }.

Fixpoint var_find (x : bytes) (vs : list (bytes * nat)) : option nat :=
  match vs with
  | [] => None
  | (y, c) :: vs' => if bytes_eqb x y then Some c else var_find x vs'
  end.

Fixpoint var_set (x : bytes) (c : nat) (vs : list (bytes * nat)) : list (bytes * nat) :=
  match vs with
  | [] => [(x, c)]
  | (y, d) :: vs' => if bytes_eqb x y then (x, c) :: vs' else (y, d) :: var_set x c vs'
  end.

Fixpoint heap_find (c : nat) (h : list (nat * json)) : option json :=
  match h with
  | [] => None
  | (d, v) :: h' => if Nat.eqb c d then Some v else heap_find c h'
  end.

Fixpoint heap_set (c : nat) (v : json) (h : list (nat * json)) : list (nat * json) :=
  match h with
  | [] => [(c, v)]
  | (d, w) :: h' => if Nat.eqb c d then (c, v) :: h' else (d, w) :: heap_set c v h'
  end.

Definition value (s : state) (x : bytes) : option json :=
  match var_find x (vars s) with
  | Some c => heap_find c (heap s)
  | None => None
  end.

(* output of one step *)
Inductive out :=
| ONone                 (* nothing to observe *)
| OFail                 (* the command failed *)
| OVal (v : json).      (* a value was printed / read *)

Section Run.
  Variable reparse : json -> json.

  Definition assign (s : state) (dst : bytes) (v : json) : state :=
    {| vars := var_set dst (next s) (vars s);
       heap := (next s, v) :: heap s;
       next := S (next s) |}.

  Definition step (s : state) (o : op) : state * out :=
    match o with
    | OCopy dst src =>
        match value s src with
        | Some v => (assign s dst (reparse v), ONone)
        | None => (s, OFail)
        end
    | OSet x p n =>
        match var_find x (vars s) with
        | Some c =>
            match heap_find c (heap s) with
            | Some v =>
                match alter v p n with
                | Ok v' => ({| vars := vars s; heap := heap_set c v' (heap s); next := next s |}, ONone)
                | _ => (s, OFail)
                end
            | None => (s, OFail)
            end
        | None => (s, OFail)
        end
    | OCall src p n =>
        match value s src with
        | Some v => match alter (reparse v) p n with
                    | Ok v' => (s, OVal v')
                    | _ => (s, OFail)
                    end
        | None => (s, OFail)
        end
    | ORead x p =>
        match value s x with
        | Some v => match elookup v p with
                    | Some r => (s, OVal r)
                    | None => (s, OFail)
                    end
        | None => (s, OFail)
        end
    end.

  Fixpoint run (s : state) (ops : list op) : list (state * out) :=
    match ops with
    | [] => []
    | o :: ops' => let '(s', r) := step s o in (s', r) :: run s' ops'
    end.

  Fixpoint final (s : state) (ops : list op) : state :=
    match ops with
    | [] => s
    | o :: ops' => final (fst (step s o)) ops'
    end.

  Fixpoint init_state (s : state) (init : list (bytes * json)) : state :=
    match init with
    | [] => s
    | (x, v) :: init' => init_state (assign s x (reparse v)) init'
    end.
End Run.

Definition empty_state : state := {| vars := []; heap := []; next := O |}.

(* the variables in order of first definition, with their values *)
Definition snapshot (s : state) : list (bytes * option json) :=
  map (fun xc => (fst xc, heap_find (snd xc) (heap s))) (vars s).
