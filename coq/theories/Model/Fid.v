(* Model of lang/funcid.go (the FID table) and of who registers / deregisters
   function ids when a block runs (lang/interpreter.go compile -> createProcess
   -> GlobalFIDs.Register; lang/process.go destroyProcess -> deregisterProcess ->
   async GlobalFIDs.Deregister; lang/interpreter_pc.go explicit Deregister in the
   skip / abort loops of runModeTry and runModeTryPipe; lang/fork.go Fork ->
   Register and Execute -> deferred deregisterProcess).
   Executable definitions only - no proofs in this file. *)
From Murex Require Import Base.Outcome Base.Bytes Model.RunMode.

(* ---- the table ---------------------------------------------------- *)
(* latest: the atomic counter; live: the keys of the map.  uint32 wrap-around
   (2^32 registrations in one session) is not modelled. *)
Record fidtab := { latest : N; live : list N }.

(* Register: fid = atomic.AddUint32(&latest, 1); list[fid] = p; p.Id = fid *)
Definition register (t : fidtab) : fidtab * N :=
  let id := N.succ (latest t) in ({| latest := id; live := id :: live t |}, id).

(* Deregister: delete(list, fid) *)
Definition deregister (id : N) (t : fidtab) : fidtab :=
  {| latest := latest t; live := remove N.eq_dec id (live t) |}.

(* ---- schedules ---------------------------------------------------- *)
(* A schedule is any interleaving of the operations of all goroutines.
   Processes are named by a handle; p.Id is kept in env. *)
Inductive op := OReg (h : nat) | ODereg (h : nat).

Definition env := list (nat * N).
Fixpoint lookup (e : env) (h : nat) : option N :=
  match e with
  | [] => None
  | (h', id) :: e' => if Nat.eqb h h' then Some id else lookup e' h
  end.

Definition step (s : fidtab * env) (o : op) : fidtab * env :=
  let '(t, e) := s in
  match o with
  | OReg h => let '(t', id) := register t in (t', (h, id) :: e)
  | ODereg h => match lookup e h with
                | Some id => (deregister id t, e)
                | None => (t, e)          (* p.Id = 0: delete of a missing key *)
                end
  end.

Definition run_ops (s : fidtab * env) (ops : list op) : fidtab * env := fold_left step ops s.

(* handles registered and not (yet) deregistered, from the schedule alone *)
Fixpoint open_after (opn : list nat) (ops : list op) : list nat :=
  match ops with
  | [] => opn
  | OReg h :: ops' => open_after (h :: opn) ops'
  | ODereg h :: ops' => open_after (remove Nat.eq_dec h opn) ops'
  end.

(* every OReg uses a handle that was never registered before (a Process is
   registered once: compile / Fork create it) *)
Fixpoint fresh_regs (seen : list nat) (ops : list op) : bool :=
  match ops with
  | [] => true
  | OReg h :: ops' => negb (existsb (Nat.eqb h) seen) && fresh_regs (h :: seen) ops'
  | ODereg _ :: ops' => fresh_regs seen ops'
  end.

(* the ids issued by a schedule, in order *)
Fixpoint issued (t : fidtab) (ops : list op) : list N :=
  match ops with
  | [] => []
  | OReg _ :: ops' => let '(t', id) := register t in id :: issued t' ops'
  | ODereg _ :: ops' => issued t ops'
  end.

(* ---- what one block contributes ----------------------------------- *)
(* how a process of a compiled block loses its id *)
Inductive disposal :=
| DExecuted      (* executeProcess ran the command, then destroyProcess *)
| DDestroyed     (* runModeNormal skip: executeProcess sees HasTerminated -> destroyProcess *)
| DExplicit.     (* runModeTry/TryPipe skip or abort loop: GlobalFIDs.Deregister *)

Definition disposals (m : runmode) (ps : list proc) : list disposal :=
  let normal := match sched_of m with SNormal | SUnsafe => true | _ => false end in
  map (fun r : bool => if r then DExecuted else if normal then DDestroyed else DExplicit)
      (fst (execute m ps)).

(* the operations of one block whose processes get the handles h0, h0+1, ...:
   compile registers all of them, then every disposal deregisters its process.
   (One admissible order; Proof/Fid.v is about every interleaving.) *)
Definition block_ops (h0 : nat) (m : runmode) (ps : list proc) : list op :=
  map OReg (seq h0 (length ps)) ++ map ODereg (seq h0 (length (disposals m ps))).

(* ---- counting registrations (correspondence) ---------------------- *)
(* cost: ids registered while the command of a process runs (function fork +
   the processes of its body), 0 for builtins.  A process that is skipped or
   aborted registers nothing beyond itself. *)
Fixpoint issued_count (ran : list bool) (cost : list N) : N :=
  match ran, cost with
  | r :: ran', c :: cost' => (1 + (if r then c else 0) + issued_count ran' cost')%N
  | r :: ran', [] => (1 + issued_count ran' [])%N
  | [], _ => 0%N
  end.

Definition predict_issued (m : runmode) (prog : program) (cost : list N) : N :=
  issued_count (fst (execute m (flatten prog))) cost.

(* ---- a murex function call (lang/process.go executeProcess) -------- *)
(* fork := p.Fork(F_FUNCTION) registers the fork; if the parameters cast, the
   body runs and Execute's deferred deregisterProcess releases the fork;
   otherwise the fork is never executed and (after "fix: release the function ID
   of a function call whose parameters fail to cast", fx = true) is
   deregistered on the spot.  fx = false is the code as it was. *)
Definition call_ops (fx : bool) (h : nat) (cast_ok : bool) (body : list op) : list op :=
  OReg h :: (if cast_ok then body ++ [ODereg h] else if fx then [ODereg h] else []).
