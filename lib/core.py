"""Core of the /verif machinery: build, proof obligations, correspondence run,
kernel evaluation of agree/spec_ok, verdict, known findings, evidence."""
import argparse, fcntl, glob, hashlib, json, os, re, shutil, subprocess, sys, time
from concurrent.futures import ThreadPoolExecutor

VERIF = os.path.dirname(os.path.dirname(os.path.abspath(__file__)))
REPO = os.environ.get("VERIF_REPO", "/repo")
BUILD = os.path.join(VERIF, ".build")
COQ = os.path.join(VERIF, "coq")
THEORIES = os.path.join(COQ, "theories")
HARNESS = os.path.join(VERIF, "harness")
NCPU = os.cpu_count() or 4


def mxh_path(pid):
    return os.path.join(BUILD, "mxh-" + pid)


def gotables_path(pid):
    return os.path.join(BUILD, "gotables-" + pid)
FORBIDDEN = re.compile(
    r"\b(Admitted|admit|Axiom|Axioms|Parameter|Parameters|Conjecture|Conjectures|Admit Obligations|"
    r"bypass_check|Unset Guard Checking|Unset Positivity Checking|Unset Universe Checking|"
    r"native_compute)\b|type-in-type|impredicative-set")

# Axioms of the standard library (and kernel primitives) a theorem may depend on;
# every one that actually occurs is copied into the evidence (trusted_base).
ALLOWED_AXIOM_PREFIXES = (
    "Coq.Logic.", "Coq.Reals.", "Coq.Floats.", "Coq.Numbers.Cyclic.Int63", "Coq.Sets.",
    "FunctionalExtensionality.", "functional_extensionality", "ClassicalDedekindReals.",
    "Classical_Prop.", "classic", "Eqdep.", "JMeq", "proof_irrelevance", "PrimFloat.", "PrimInt63.",
    "Uint63.", "FloatOps.", "FloatAxioms.", "float", "int", "sig_forall_dec", "sig_not_dec",
    "constructive_", "Float", "Uint63Axioms.", "SpecFloat.", "FloatLemmas.", "Sint63",
)


def goenv():
    e = dict(os.environ)
    e["GOFLAGS"] = "-mod=mod"
    e["GOPROXY"] = "off"
    e.pop("GOTOOLCHAIN", None)   # the repo needs the cached go1.24 toolchain; 'local' would block it
    e.pop("GOSUMDB", None)
    e.setdefault("HOME", "/root")
    return e


def log(*a):
    print(*a, file=sys.stderr, flush=True)


def sh(cmd, cwd=None, timeout=None, env=None, inp=None):
    """run, return (rc, stdout+stderr)"""
    try:
        p = subprocess.run(cmd, cwd=cwd, env=env, input=inp, stdout=subprocess.PIPE,
                           stderr=subprocess.STDOUT, timeout=timeout, text=True, errors="replace")
        return p.returncode, p.stdout
    except subprocess.TimeoutExpired as e:
        out = e.stdout or ""
        if isinstance(out, bytes):
            out = out.decode("utf8", "replace")
        return 124, out + "\n[timeout after %ss]" % timeout


class Lock:
    def __init__(self, name="lock"):
        os.makedirs(BUILD, exist_ok=True)
        self.path = os.path.join(BUILD, name)

    def __enter__(self):
        self.f = open(self.path, "w")
        fcntl.flock(self.f, fcntl.LOCK_EX)
        return self

    def __exit__(self, *a):
        fcntl.flock(self.f, fcntl.LOCK_UN)
        self.f.close()


# --------------------------------------------------------------------------
# property configuration: props/Cxx.json

def load_prop(pid):
    p = os.path.join(VERIF, "props", pid + ".json")
    if not os.path.exists(p):
        return None
    with open(p) as f:
        cfg = json.load(f)
    if cfg.get("level") not in ("exploration", "fault_enumeration", "model_checking", "proof",
                                "translation_validation", "other"):
        cfg["level"] = "proof"     # partial coverage is stated in level_text, the category stays an enum value
    cfg.setdefault("workers", 8)
    cfg.setdefault("shard", 400)
    cfg.setdefault("coq_timeout", 600)
    cfg.setdefault("run_timeout", 900)
    cfg.setdefault("imports", [])
    cfg.setdefault("assumptions", [])
    cfg.setdefault("trusted_base", [])
    cfg.setdefault("rule", "")
    cfg.setdefault("check_module", "Check." + pid)
    cfg.setdefault("properties_file", "Properties/%s.v" % pid)
    return cfg


def all_props():
    return sorted(os.path.basename(p)[:-5] for p in glob.glob(os.path.join(VERIF, "props", "C*.json")))


# --------------------------------------------------------------------------
# build steps

def write_if_changed(path, text):
    old = None
    if os.path.exists(path):
        with open(path) as f:
            old = f.read()
    if old != text:
        os.makedirs(os.path.dirname(path), exist_ok=True)
        with open(path, "w") as f:
            f.write(text)
        return True
    return False


def build_go(pid="all"):
    """(ok, log) — builds harness + translators from /repo's working tree with -tags verif.
    Every property has its own binary: only files tagged prop_<id> (or untagged shared
    files) are compiled, so one property's plug-in or hook cannot break another's check."""
    tag = "prop_" + pid.lower()
    MXH, GOTABLES = mxh_path(pid), gotables_path(pid)
    env = goenv()
    try:
        shutil.copyfile(os.path.join(REPO, "go.sum"), os.path.join(HARNESS, "go.sum"))
    except OSError as e:
        return False, "cannot copy go.sum: %s" % e
    modargs = []
    if os.path.abspath(REPO) != "/repo":
        # VERIF_REPO=<scratch worktree>: same harness, alternative go.mod whose replace points there
        md = os.path.join(BUILD, "mod-" + pid)
        os.makedirs(md, exist_ok=True)
        with open(os.path.join(HARNESS, "go.mod")) as f:
            gm = f.read().replace("=> /repo", "=> " + os.path.abspath(REPO))
        write_if_changed(os.path.join(md, "go.mod"), gm)
        shutil.copyfile(os.path.join(REPO, "go.sum"), os.path.join(md, "go.sum"))
        modargs = ["-modfile=" + os.path.join(md, "go.mod")]
    rc, out = sh(["go", "build"] + modargs + ["-tags", "verif " + tag, "-o", MXH, "./cmd/mxh"], cwd=HARNESS, env=env, timeout=900)
    if rc != 0:
        return False, "go build mxh failed:\n" + out
    rc, out2 = sh(["go", "build"] + modargs + ["-tags", tag, "-o", GOTABLES, "./cmd/gotables"], cwd=HARNESS, env=env, timeout=600)
    if rc != 0:
        return False, "go build gotables failed:\n" + out2
    return True, out + out2


def gen_tables(pid="all"):
    GOTABLES = gotables_path(pid)
    """run the translator: Go constant tables of /repo -> coq/theories/Gen/*.v (written only if changed)"""
    tmp = os.path.join(BUILD, "gen-tmp")
    shutil.rmtree(tmp, ignore_errors=True)
    os.makedirs(tmp)
    rc, out = sh([GOTABLES, REPO, tmp], timeout=120)
    if rc != 0:
        return False, "gotables failed:\n" + out
    changed = []
    for f in sorted(os.listdir(tmp)):
        with open(os.path.join(tmp, f)) as fh:
            if write_if_changed(os.path.join(THEORIES, "Gen", f), fh.read()):
                changed.append(f)
    shutil.rmtree(tmp, ignore_errors=True)
    return True, "tables regenerated; changed: %s" % (changed or "none")


def coq_project():
    files = []
    for root, _, fs in os.walk(THEORIES):
        for f in fs:
            if f.endswith(".v"):
                files.append(os.path.relpath(os.path.join(root, f), COQ))
    files.sort()
    text = "-Q theories Murex\n-arg -w -arg -notation-overridden,-deprecated-hint-without-locality,-deprecated-syntactic-definition,-deprecated\n" + "\n".join(files) + "\n"
    changed = write_if_changed(os.path.join(COQ, "_CoqProject"), text)
    if changed or not os.path.exists(os.path.join(COQ, "Makefile")):
        rc, out = sh(["coq_makefile", "-f", "_CoqProject", "-o", "Makefile"], cwd=COQ, timeout=120)
        if rc != 0:
            return False, out
    return True, ""


def coq_make(targets, timeout=3000):
    cmd = ["timeout", str(timeout), "make", "-j%d" % NCPU] + targets
    return sh(cmd, cwd=COQ, timeout=timeout + 30)


def dep_closure(rel_v):
    """the .v files (paths relative to coq/) that rel_v transitively depends on, itself included"""
    rc, out = sh(["coqdep", "-Q", "theories", "Murex", "-sort", rel_v], cwd=COQ, timeout=120)
    files = [w for w in out.splitlines()[0].split() if w.endswith(".v")] if rc == 0 and out.strip() else []
    return files or [rel_v]


def forbidden_scan(only=None):
    """only: list of paths relative to coq/ (default: the whole development)"""
    bad = []
    if only is None:
        only = []
        for root, _, fs in os.walk(THEORIES):
            only += [os.path.relpath(os.path.join(root, f), COQ) for f in fs if f.endswith(".v")]
    for rel in sorted(set(only)):
        if True:
            p = os.path.join(COQ, rel)
            if not os.path.exists(p):
                continue
            with open(p, errors="replace") as fh:
                txt = fh.read()
            # strip comments (nested) before scanning
            txt = strip_coq_comments(txt)
            for m in FORBIDDEN.finditer(txt):
                bad.append("%s: %s" % (os.path.relpath(p, VERIF), m.group(0)))
    return bad


def strip_coq_comments(s):
    out = []
    depth = 0
    i = 0
    instr = False
    while i < len(s):
        if depth == 0 and s[i] == '"':
            instr = not instr
            out.append(s[i]); i += 1; continue
        if not instr and s.startswith("(*", i):
            depth += 1; i += 2; continue
        if not instr and depth > 0 and s.startswith("*)", i):
            depth -= 1; i += 2; continue
        if depth == 0:
            out.append(s[i])
        i += 1
    return "".join(out)


def setup():
    t0 = time.time()
    with Lock():
        ok, out = build_go("all")
        if not ok:
            log(out); return 2
        ok, out = gen_tables("all")
        log(out)
        if not ok:
            return 2
        ok, out = coq_project()
        if not ok:
            log(out); return 2
        rc, out = coq_make([], timeout=5400)
        if rc != 0:
            log(out[-6000:]); log("SETUP: coq build failed"); return 2
    bad = forbidden_scan()
    if bad:
        log("forbidden vernacular:\n" + "\n".join(bad)); return 2
    log("setup ok in %.0fs" % (time.time() - t0))
    return 0


# --------------------------------------------------------------------------
# proof obligations

def theorem_names(path):
    with open(path) as f:
        txt = strip_coq_comments(f.read())
    return re.findall(r"^\s*(?:Theorem|Lemma|Corollary|Example)\s+([A-Za-z0-9_']+)", txt, re.M)


def parse_assumptions(out):
    """returns (n_closed_or_listed, axioms:set)"""
    n = len(re.findall(r"Closed under the global context", out))
    axioms = set()
    for blk in re.finditer(r"Axioms:\n((?:.+\n?)+?)(?=\n|\Z|Closed under|Axioms:)", out):
        n += 1
        for line in blk.group(1).splitlines():
            m = re.match(r"^([A-Za-z_][\w.']*)\s*:", line)
            if m:
                axioms.add(m.group(1))
    return n, axioms


def proof_obligations(pid, cfg):
    """Re-checks Properties/Cxx.v (and everything it depends on) with coqc.
    returns dict(ok, obligations, discharged, axioms, log, theorems, failing)"""
    pf = os.path.join(THEORIES, cfg["properties_file"])
    res = dict(ok=False, obligations=0, discharged=0, axioms=[], log="", theorems=[], failing=None)
    if not os.path.exists(pf):
        res["log"] = "missing " + pf
        res["failing"] = cfg["properties_file"]
        return res
    names = theorem_names(pf)
    thms = [n for n in names if not n.lower().endswith("nonvacuous")]
    res["theorems"] = names
    res["obligations"] = len(names)
    vo = pf[:-2] + ".vo"
    if os.path.exists(vo):
        os.remove(vo)
    rc, out = coq_make([os.path.relpath(vo, COQ)], timeout=cfg.get("proof_timeout", 3000))
    res["log"] = out
    if rc != 0:
        m = re.search(r'File "\./([^"]+)", line (\d+)', out)
        res["failing"] = "%s:%s" % (m.group(1), m.group(2)) if m else "coq build"
        # how many theorems of the property file were accepted before the failure is unknown -> 0
        return res
    nprint, axioms = parse_assumptions(out)
    bad_ax = [a for a in axioms if not a.startswith(ALLOWED_AXIOM_PREFIXES)]
    res["axioms"] = sorted(axioms)
    if bad_ax:
        res["failing"] = "unexpected axioms: " + ", ".join(bad_ax)
        return res
    fb = forbidden_scan(dep_closure(os.path.relpath(pf, COQ)))
    if fb:
        res["failing"] = "forbidden vernacular: " + "; ".join(fb[:5])
        return res
    res["discharged"] = len(names)
    res["ok"] = True
    res["printed_assumptions"] = nprint
    return res


def coqchk(pid, cfg):
    """thorough tier: independent re-check of the compiled property file and everything it
    depends on; returns (ok, summary). Cached per content hash of the dependency closure."""
    pf = os.path.join(THEORIES, cfg["properties_file"])
    rel = os.path.relpath(pf, COQ)
    h = hashlib.sha256()
    for f in dep_closure(rel):
        with open(os.path.join(COQ, f), "rb") as fh:
            h.update(f.encode()); h.update(fh.read())
    cache = os.path.join(BUILD, "coqchk-%s-%s.txt" % (pid, h.hexdigest()[:16]))
    if os.path.exists(cache):
        with open(cache) as f:
            out = f.read()
    else:
        mod = "Murex." + cfg["properties_file"][:-2].replace("/", ".")
        rc, out = sh(["coqchk", "-silent", "-o", "-Q", "theories", "Murex", mod], cwd=COQ,
                     timeout=cfg.get("coqchk_timeout", 2400))
        if rc != 0:
            return False, "coqchk failed (rc %d): %s" % (rc, out[-1500:])
        with open(cache, "w") as f:
            f.write(out)
    m = re.search(r"\* Axioms:(.*?)\n\s*\n\* Constants/Inductives relying on type-in-type:(.*?)\n\s*\n"
                  r"\* Constants/Inductives relying on unsafe \(co\)fixpoints:(.*?)\n\s*\n"
                  r"\* Inductives whose positivity is assumed:(.*?)\n", out, re.S)
    if not m:
        return False, "cannot parse coqchk summary: " + out[-800:]
    ax, tit, unsafe, pos = [" ".join(x.split()) for x in m.groups()]
    ok = tit == "<none>" and unsafe == "<none>" and pos == "<none>"
    return ok, "coqchk -o: axioms: %s; type-in-type: %s; unsafe fixpoints: %s; assumed positivity: %s" % (ax, tit, unsafe, pos)


# --------------------------------------------------------------------------
# implementation run

def run_impl(pid, cfg, cases, rundir):
    """cases: list of JSON strings. returns list of result dicts in order, or raises"""
    if not cases:
        return []
    k = max(1, min(cfg["workers"], NCPU, (len(cases) + 19) // 20))
    chunks = [cases[i::k] for i in range(k)]   # round-robin keeps heavy neighbours apart

    def work(j):
        inp = "\n".join(chunks[j]) + "\n"
        try:
            p = subprocess.run([mxh_path(pid), "run", pid], input=inp, stdout=subprocess.PIPE, stderr=subprocess.PIPE,
                               text=True, errors="replace", timeout=cfg["run_timeout"], cwd=rundir, env=goenv())
        except subprocess.TimeoutExpired:
            return None, "timeout"
        outl = [l for l in p.stdout.split("\n") if l.startswith("{")]
        return outl, (p.stderr[-2000:] if p.returncode != 0 or len(outl) != len(chunks[j]) else "")

    with ThreadPoolExecutor(max_workers=k) as ex:
        outs = list(ex.map(work, range(k)))
    results = [None] * len(cases)
    for j, (outl, err) in enumerate(outs):
        if outl is None or len(outl) != len(chunks[j]):
            raise RuntimeError("mxh run %s: worker %d produced %s results for %d cases: %s" % (
                pid, j, "no" if outl is None else len(outl), len(chunks[j]), err))
        for n, l in enumerate(outl):
            results[j + n * k] = json.loads(l)
    return results


def gen_cases(pid, seed, tier):
    rc = subprocess.run([mxh_path(pid), "gen", pid, "--seed", str(seed), "--tier", tier], stdout=subprocess.PIPE,
                        stderr=subprocess.PIPE, text=True, timeout=600, env=goenv())
    if rc.returncode != 0:
        raise RuntimeError("mxh gen failed: " + rc.stderr[-2000:])
    seen = set()
    out = []
    for l in rc.stdout.split("\n"):
        if l and l not in seen:
            seen.add(l); out.append(l)
    return out


def corpus_cases(pid):
    out = []
    for p in sorted(glob.glob(os.path.join(VERIF, "corpus", pid, "*.case"))):
        with open(p) as f:
            for l in f:
                l = l.strip()
                if l and not l.startswith("#"):
                    out.append(l)
    return out


# --------------------------------------------------------------------------
# kernel evaluation

CASES_HDR = """From Murex Require Import Base.Outcome Base.Bytes Base.CheckLib.
From Murex Require Import %(check)s.
%(imports)s
Open Scope N_scope.
Definition cases : list case := [
%(body)s
].
Definition A := Eval vm_compute in bad_idx agree cases.
Definition B := Eval vm_compute in classify_idx spec_ok classify cases.
Print A.
Print B.
"""


def coq_eval(pid, cfg, results, rundir):
    """returns (A:set idx, B:dict idx->cls) or raises RuntimeError with the coq log"""
    n = len(results)
    if n == 0:
        return set(), {}
    shard = cfg["shard"]
    shards = [(s, min(n, s + shard)) for s in range(0, n, shard)]

    def work(k):
        lo, hi = shards[k]
        body = ";\n".join(results[i]["coq"] for i in range(lo, hi))
        imports = "\n".join("From Murex Require Import %s." % m for m in cfg["imports"])
        name = "cases_%s_%d" % (pid, k)
        path = os.path.join(rundir, name + ".v")
        with open(path, "w") as f:
            f.write(CASES_HDR % dict(check=cfg["check_module"], imports=imports, body=body))
        rc, out = sh(["coqc", "-q", "-Q", THEORIES, "Murex", "-w", "none", name + ".v"], cwd=rundir,
                     timeout=cfg["coq_timeout"])
        if rc != 0:
            return None, "coqc %s failed (rc %d):\n%s" % (name, rc, out[-3000:])
        ma = re.search(r"A\s*=\s*(.*?)\n\s*:\s*list", out, re.S)
        mb = re.search(r"B\s*=\s*(.*?)\n\s*:\s*list", out, re.S)
        if not ma or not mb:
            return None, "cannot parse coqc output:\n" + out[-3000:]
        a = [int(x) + lo for x in re.findall(r"\d+", ma.group(1))]
        bnums = [int(x) for x in re.findall(r"\d+", mb.group(1))]
        b = {bnums[i] + lo: bnums[i + 1] for i in range(0, len(bnums) - 1, 2)}
        return (a, b), ""

    with ThreadPoolExecutor(max_workers=min(NCPU, len(shards))) as ex:
        outs = list(ex.map(work, range(len(shards))))
    A, B = set(), {}
    for r, err in outs:
        if r is None:
            raise RuntimeError(err)
        A.update(r[0]); B.update(r[1])
    return A, B


# --------------------------------------------------------------------------
# known findings

def load_known():
    known, fixed = {}, []
    p = os.path.join(VERIF, "KNOWN_FINDINGS.txt")
    if not os.path.exists(p):
        return known, fixed
    with open(p) as f:
        for line in f:
            line = line.strip()
            if line.startswith("known:"):
                m = re.match(r"known:\s+property=(C\d+)\s+id=(\d+)\s+(.*)", line)
                if m:
                    known[(m.group(1), int(m.group(2)))] = m.group(3)
            elif line.startswith("fixed:"):
                fixed.append(line)
    return known, fixed


# --------------------------------------------------------------------------
# one exploration = gen + run + eval

class Exploration:
    def __init__(self, pid, cfg, tier, seed, rundir, extra_cases=None, only=None):
        self.pid, self.cfg, self.tier, self.seed = pid, cfg, tier, seed
        if only is not None:
            cases = list(only)
        else:
            cases = corpus_cases(pid)
            seen = set(cases)
            for c in gen_cases(pid, seed, tier):
                if c not in seen:
                    seen.add(c); cases.append(c)
        self.cases = cases
        self.results = run_impl(pid, cfg, cases, rundir)
        self.A, self.B = coq_eval(pid, cfg, self.results, rundir)


def shrink(pid, cfg, res, cls, rundir, budget_s=60):
    """greedy shrinking using the plug-in's candidates; keeps the classification"""
    t0 = time.time()
    cur = res
    rounds = 0
    while time.time() - t0 < budget_s and rounds < 40:
        rounds += 1
        p = subprocess.run([mxh_path(pid), "shrink", pid], input=json.dumps(cur["case"]) + "\n", stdout=subprocess.PIPE,
                           stderr=subprocess.PIPE, text=True, env=goenv())
        cands = [l for l in p.stdout.split("\n") if l.strip()]
        if not cands:
            break
        cands = cands[:200]
        try:
            ex = Exploration(pid, cfg, "quick", 0, rundir, only=cands)
        except RuntimeError:
            break
        hit = None
        for i in sorted(ex.B):
            if ex.B[i] == cls:
                hit = ex.results[i]; break
        if hit is None:
            break
        cur = hit
    return cur


# --------------------------------------------------------------------------
# verdict

def write_replay(pid, n, payload):
    d = os.path.join(VERIF, "evidence", "replay")
    os.makedirs(d, exist_ok=True)
    p = os.path.join(d, "%s-%d.case" % (pid, n))
    with open(p, "w") as f:
        json.dump(payload, f, indent=1, sort_keys=True)
        f.write("\n")
    return os.path.relpath(p, VERIF)


def write_evidence(pid, cfg, tier, seed, t0, cov, violations):
    ev = {
        "property_id": pid, "tier": tier, "seed": seed, "level": cfg.get("level", "proof"),
        "coverage": cov, "assumptions": cfg["assumptions"], "wall_s": round(time.time() - t0, 2),
        "violations": violations,
    }
    # a run pointed at another tree (VERIF_REPO, mutation testing) must not overwrite the evidence of /repo
    evdir = os.path.join(VERIF, "evidence") if os.path.abspath(REPO) == "/repo" else os.path.join(BUILD, "alt-evidence")
    os.makedirs(evdir, exist_ok=True)
    with open(os.path.join(evdir, pid + ".json"), "w") as f:
        json.dump(ev, f, indent=1, sort_keys=True)
        f.write("\n")


def base_trusted(cfg, axioms):
    tb = [
        "Coq 8.16.1 kernel incl. vm_compute (no native_compute)",
        "axioms reported by Print Assumptions: " + (", ".join(axioms) if axioms else "none (closed under the global context)"),
        "correspondence check: Go harness harness/cmd/mxh (built from /repo working tree, -tags verif), lib/core.py glue, coqlit literal printer",
        "translator harness/cmd/gotables (Go constants -> coq/theories/Gen)",
    ]
    return tb + list(cfg["trusted_base"])


def check(pid, tier, seed, replay=None):
    t0 = time.time()
    cfg = load_prop(pid)
    if cfg is None:
        log("unknown property %s (no props/%s.json)" % (pid, pid)); return 2
    rundir = os.path.join(BUILD, "run", "%s-%d" % (pid, os.getpid()))
    shutil.rmtree(rundir, ignore_errors=True)
    os.makedirs(rundir)
    known, _ = load_known()
    violations = []      # list of (replay_path, suffix)
    known_seen = {}
    cov = {"obligations": 0, "discharged": 0,
           "checker_cmd": "make -C coq theories/%so  (coqc 8.16.1, full .vo build; coqchk -o in thorough tier)" % cfg["properties_file"],
           "trusted_base": [], "evaluations": 0, "distinct_nontrivial": 0, "rule": cfg["rule"], "samples": [],
           "traces_validated_against_impl": 0}
    try:
        # 1. rebuild from the working tree
        with Lock():
            ok, out = build_go(pid)
            build_fail = None
            if not ok:
                build_fail = ("harness build against /repo working tree", out)
            else:
                ok, out = gen_tables(pid)
                if not ok:
                    build_fail = ("translator gotables", out)
            model_fail = None
            po = None
            if build_fail is None:
                ok, out = coq_project()
                if not ok:
                    build_fail = ("coq_makefile", out)
            if build_fail is None:
                # models needed for kernel evaluation
                chk = "theories/" + cfg["check_module"].replace(".", "/") + ".vo"
                rc, out = coq_make([chk], timeout=cfg.get("proof_timeout", 3000))
                if rc != 0:
                    m = re.search(r'File "\./([^"]+)", line (\d+)', out)
                    model_fail = ("%s:%s" % (m.group(1), m.group(2)) if m else chk, out)
                # 2. proof obligations
                po = proof_obligations(pid, cfg)
        if build_fail is not None:
            name, out = build_fail
            log(out[-4000:])
            rp = write_replay(pid, 0, {"property": pid, "no_failing_input_found": True, "broken": name,
                                       "detail": out[-4000:]})
            violations.append((rp, " no-failing-input-found"))
            cov.update(obligations=1, discharged=0)
            cov["trusted_base"] = base_trusted(cfg, [])
            cov["samples"] = [{"broken": name}]
            return finish(pid, cfg, tier, seed, t0, cov, violations, known_seen)

        cov["obligations"] = max(1, po["obligations"])
        cov["discharged"] = po["discharged"]
        cov["theorems"] = po["theorems"]
        cov["trusted_base"] = base_trusted(cfg, po["axioms"])
        if tier == "thorough" and po["ok"] and replay is None:
            ok, summary = coqchk(pid, cfg)
            cov["coqchk"] = summary
            cov["trusted_base"].append(summary)
            if not ok:
                po["ok"] = False
                po["failing"] = summary
                cov["discharged"] = 0
        proof_broken = None
        if not po["ok"]:
            proof_broken = po["failing"] or "proof obligations"
            log(po["log"][-3000:])
            log("PROOF OBLIGATIONS NOT DISCHARGED: %s" % proof_broken)

        if model_fail is not None:
            rp = write_replay(pid, 0, {"property": pid, "no_failing_input_found": True,
                                       "broken": "model no longer compiles: " + model_fail[0],
                                       "detail": model_fail[1][-4000:]})
            violations.append((rp, " no-failing-input-found"))
            cov["samples"] = [{"broken": model_fail[0]}]
            return finish(pid, cfg, tier, seed, t0, cov, violations, known_seen)

        # replay mode
        if replay is not None:
            with open(replay) as f:
                payload = json.load(f)
            if "case" not in payload:
                print("replay file names a broken obligation, not an input:", payload.get("broken"))
                return 1 if proof_broken or payload.get("broken") else 0
            ex = Exploration(pid, cfg, tier, seed, rundir, only=[json.dumps(payload["case"])])
            r = ex.results[0]
            print("case:", json.dumps(r["case"]))
            print("implementation observation:", json.dumps(r["obs"]))
            print("model agrees with implementation:", 0 not in ex.A)
            print("spec_ok on implementation observation:", 0 not in ex.B)
            if 0 in ex.B:
                k = ex.B[0]
                if (pid, k) in known:
                    print("KNOWN-FINDING: property=%s %s" % (pid, known[(pid, k)])); return 0
                print("VIOLATION property=%s replay=%s" % (pid, replay)); return 1
            return 0

        # 3-5. cases, implementation, kernel comparison
        ex = Exploration(pid, cfg, tier, seed, rundir)
        results = ex.results
        cov["evaluations"] = len(results)
        cov["traces_validated_against_impl"] = len(results) - len(ex.A)
        nt = set()
        dist = {}
        for r in results:
            dist[r.get("class", "")] = dist.get(r.get("class", ""), 0) + 1
            if r.get("nontrivial"):
                nt.add(json.dumps(r["case"], sort_keys=True))
        cov["distinct_nontrivial"] = len(nt)
        cov["distribution"] = dist
        step = max(1, len(results) // 5)
        cov["samples"] = [{"case": r["case"], "obs": r["obs"]} for r in results[::step][:6]]
        cov["disagreements_model_vs_impl"] = len(ex.A)
        cov["spec_failures_on_impl"] = len(ex.B)
        cov["exhaustive"] = bool(cfg.get("exhaustive", False))

        # 6. verdict
        nrep = [0]

        def report_failures(ex_):
            """classify spec failures of an exploration; returns True if any unlisted violation"""
            unlisted = False
            groups = {}
            for i in sorted(ex_.B):
                groups.setdefault(ex_.B[i], []).append(i)
            for cls, idxs in sorted(groups.items()):
                if cls != 0 and (pid, cls) in known:
                    known_seen[(pid, cls)] = known_seen.get((pid, cls), 0) + len(idxs)
                    continue
                # unlisted: shrink the first, report up to 3 per class
                for i in idxs[:3]:
                    r = ex_.results[i]
                    try:
                        r = shrink(pid, cfg, r, cls, rundir)
                    except Exception as e:    # shrinking is best effort
                        log("shrink failed: %s" % e)
                    nrep[0] += 1
                    rp = write_replay(pid, nrep[0], {"property": pid, "case": r["case"], "obs": r["obs"],
                                                     "coq": r["coq"], "classifier": cls,
                                                     "model_agrees": i not in ex_.A,
                                                     "reason": "spec_ok = false on the implementation's observation"})
                    violations.append((rp, ""))
                    unlisted = True
            return unlisted

        found = report_failures(ex)
        corr_broken = sorted(i for i in ex.A if i not in ex.B)
        if (corr_broken or proof_broken) and not found:
            # the property is no longer shown to hold: search for a concrete failing input
            log("correspondence/proof broken (%d disagreements, proof: %s): searching for a failing input"
                % (len(corr_broken), proof_broken))
            deadline = time.time() + cfg.get("search_budget_s", 180)
            s = seed
            while not found and time.time() < deadline:
                s += 7919
                try:
                    ex2 = Exploration(pid, cfg, "thorough", s, rundir)
                except RuntimeError as e:
                    log("search run failed: %s" % e); break
                cov["evaluations"] += len(ex2.results)
                found = report_failures(ex2)
                if cfg.get("exhaustive"):
                    break
            if not found:
                first = results[corr_broken[0]] if corr_broken else None
                payload = {"property": pid, "no_failing_input_found": True,
                           "broken": ("theorem/proof obligation: %s" % proof_broken) if proof_broken else
                                     "correspondence model=implementation (Check.%s.agree)" % pid}
                if corr_broken:
                    payload["correspondence_disagreements"] = len(corr_broken)
                    payload["first_disagreement"] = {"case": first["case"], "obs": first["obs"], "coq": first["coq"]}
                rp = write_replay(pid, 0, payload)
                violations.append((rp, " no-failing-input-found"))
        return finish(pid, cfg, tier, seed, t0, cov, violations, known_seen)
    except RuntimeError as e:
        log("check infrastructure error: %s" % e)
        rp = write_replay(pid, 0, {"property": pid, "no_failing_input_found": True,
                                   "broken": "check could not complete", "detail": str(e)[-4000:]})
        violations.append((rp, " no-failing-input-found"))
        if not cov["trusted_base"]:
            cov["trusted_base"] = base_trusted(cfg, [])
        if not cov["samples"]:
            cov["samples"] = [{"error": str(e)[-500:]}]
        cov["obligations"] = max(1, cov["obligations"])
        return finish(pid, cfg, tier, seed, t0, cov, violations, known_seen)
    finally:
        shutil.rmtree(rundir, ignore_errors=True)


def finish(pid, cfg, tier, seed, t0, cov, violations, known_seen):
    known, _ = load_known()
    for (p, k), n in sorted(known_seen.items()):
        print("KNOWN-FINDING: property=%s %s (id=%d, %d case(s) this run)" % (p, known[(p, k)], k, n))
    cov["known_findings_seen"] = ["%s#%d" % (p, k) for (p, k) in sorted(known_seen)]
    for rp, suffix in violations:
        print("VIOLATION property=%s replay=%s%s" % (pid, rp, suffix))
    write_evidence(pid, cfg, tier, seed, t0, cov, len(violations))
    if not violations:
        print("OK property=%s tier=%s evaluations=%d obligations=%d/%d wall=%.0fs" % (
            pid, tier, cov["evaluations"], cov["discharged"], cov["obligations"], time.time() - t0))
    sys.stdout.flush()
    return 1 if violations else 0


# --------------------------------------------------------------------------
# manifest

def manifest():
    with open(os.path.join(VERIF, "properties.jsonl")) as f:
        ids = [json.loads(l)["id"] for l in f if l.strip()]
    claimed = all_props()
    na_path = os.path.join(VERIF, "props", "not_applicable.json")
    na = {}
    if os.path.exists(na_path):
        with open(na_path) as f:
            na = json.load(f)
    hooks_path = os.path.join(VERIF, "props", "hooks.json")
    with open(hooks_path) as f:
        hooks = json.load(f)
    checks = []
    for pid in claimed:
        cfg = load_prop(pid)
        if cfg.get("disabled"):
            na.setdefault(pid, cfg.get("disabled_reason", "check disabled"))
            continue
        checks.append({
            "property_id": pid,
            "quick_cmd": "./check %s --tier quick" % pid,
            "thorough_cmd": "./check %s --tier thorough" % pid,
            "evidence_file": "/verif/evidence/%s.json" % pid,
            "replay_cmd_template": "./check %s --replay {path}" % pid,
            "engine": "coq-proof+correspondence",
            "level_claimed": {"category": cfg.get("level", "proof"), "text": cfg["level_text"],
                              "design_ref": "DESIGN.md section 5, " + pid},
            "level_note": cfg["level_note"],
            "technique": cfg.get("technique", "Coq 8.16 theorems over an executable Gallina model + kernel-evaluated correspondence with the implementation"),
        })
    m = {
        "version": 1,
        "setup_cmd": "./check --setup",
        "hooks": hooks,
        "engines": [{"name": "coq-proof+correspondence", "path": "/verif/check",
                     "serves_properties": [c["property_id"] for c in checks],
                     "kind_free_text": "Coq 8.16.1 development (coq/theories) re-checked on every run; Go harness (harness/cmd/mxh) runs /repo's working tree on generated cases; agreement and the property predicate are evaluated by vm_compute in the kernel"}],
        "checks": checks,
        "notes": "see DESIGN.md; known findings in KNOWN_FINDINGS.txt",
        "not_applicable": [{"property_id": i, "reason": na.get(i, "check not built yet (see DESIGN.md section 5 for its plan)")}
                           for i in ids if i not in [c["property_id"] for c in checks]],
    }
    with open(os.path.join(VERIF, "MANIFEST.json"), "w") as f:
        json.dump(m, f, indent=1)
        f.write("\n")
    print("MANIFEST.json: %d checks, %d not_applicable" % (len(checks), len(m["not_applicable"])))
    return 0


def main(argv):
    ap = argparse.ArgumentParser()
    ap.add_argument("pid", nargs="?")
    ap.add_argument("--tier", default=os.environ.get("VERIF_TIER", "quick"), choices=["quick", "thorough"])
    ap.add_argument("--replay")
    ap.add_argument("--setup", action="store_true")
    ap.add_argument("--manifest", action="store_true")
    ap.add_argument("--all", action="store_true")
    a = ap.parse_args(argv)
    os.chdir(VERIF)
    try:
        seed = int(os.environ.get("VERIF_SEED", "1"))
    except ValueError:
        seed = 1
    if a.setup:
        return setup()
    if a.manifest:
        return manifest()
    if a.all:
        rc = 0
        for pid in all_props():
            rc |= check(pid, a.tier, seed)
        return rc
    if not a.pid:
        ap.print_help(); return 2
    return check(a.pid, a.tier, seed, a.replay)
