// Package coqlit prints Go values as Gallina literals for the cases files.
// Conventions (see coq/theories/Base): strings are `list N` of bytes, integers
// are Z (always parenthesised with %Z), naturals for N are plain numerals under
// `Open Scope N_scope`.
package coqlit

import (
	"fmt"
	"strconv"
	"strings"
)

// Bytes renders a Go string as a list N of its bytes: [104; 105].
func Bytes(s string) string {
	if len(s) == 0 {
		return "[]"
	}
	var b strings.Builder
	b.Grow(len(s)*4 + 2)
	b.WriteByte('[')
	for i := 0; i < len(s); i++ {
		if i > 0 {
			b.WriteByte(';')
		}
		b.WriteString(strconv.Itoa(int(s[i])))
	}
	b.WriteByte(']')
	return b.String()
}

// Runes renders a string as a list N of its runes (code points).
func Runes(s string) string {
	r := []rune(s)
	if len(r) == 0 {
		return "[]"
	}
	parts := make([]string, len(r))
	for i, c := range r {
		parts[i] = strconv.Itoa(int(c))
	}
	return "[" + strings.Join(parts, ";") + "]"
}

// Z renders an integer as a Z literal.
func Z(n int64) string { return fmt.Sprintf("(%d)%%Z", n) }

// N renders a natural as an N literal.
func N(n uint64) string { return fmt.Sprintf("%d%%N", n) }

// Nat renders a small natural as a nat literal (keep below a few thousand).
func Nat(n int) string { return fmt.Sprintf("%d%%nat", n) }

// Bool renders true/false.
func Bool(b bool) string {
	if b {
		return "true"
	}
	return "false"
}

// List renders a list from already rendered elements.
func List(elems []string) string { return "[" + strings.Join(elems, "; ") + "]" }

// BytesList renders []string as list (list N).
func BytesList(ss []string) string {
	e := make([]string, len(ss))
	for i, s := range ss {
		e[i] = Bytes(s)
	}
	return List(e)
}

// Option renders Some x / None from an already rendered element.
func Option(ok bool, x string) string {
	if ok {
		return "(Some " + x + ")"
	}
	return "None"
}

// Record renders {| f1 := v1; f2 := v2 |} from alternating field, value pairs.
func Record(kv ...string) string {
	var b strings.Builder
	b.WriteString("{| ")
	for i := 0; i+1 < len(kv); i += 2 {
		if i > 0 {
			b.WriteString("; ")
		}
		b.WriteString(kv[i])
		b.WriteString(" := ")
		b.WriteString(kv[i+1])
	}
	b.WriteString(" |}")
	return b.String()
}

// App renders a constructor application (C a b).
func App(c string, args ...string) string {
	if len(args) == 0 {
		return c
	}
	return "(" + c + " " + strings.Join(args, " ") + ")"
}
