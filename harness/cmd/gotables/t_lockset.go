//go:build prop_c32 || prop_all

package main

// C32 — lock-set translator.
//
// For every method of the anchored structs (and a few named helper functions that
// take the struct as a parameter) enumerate, intra-procedurally, the paths through
// the body over if / switch / select / early return / defer / goto (loops unrolled
// once) and emit each path's list of events
//
//	Lock m | Unlock m | RLock m | RUnlock m | Rd f | Wr f | Atomic f
//
// on the RECEIVER's mutexes and fields into Gen/Lockset.v. What is NOT seen (stated
// in docs/C32.md): calls are opaque (no inlining, so a field slice handed to a callee
// that mutates it is only a read), accesses through other variables of the same type
// (aliases, `src *Parameters`), bodies of function literals and of `go` statements.

import (
	"fmt"
	"go/ast"
	"go/build"
	"go/parser"
	"go/token"
	"os"
	"path/filepath"
	"sort"
	"strings"
)

func init() { registerTable("Lockset.v", genLockset) }

type lsSpec struct {
	dir   string            // package directory relative to the repo
	pkg   string            // short package name used in emitted names
	typ   string            // struct type
	extra map[string]string // helper function name -> name of the parameter that is the struct
}

var lsSpecs = []lsSpec{
	{"builtins/pipes/streams", "streams", "Stdin", nil},
	{"lang", "lang", "Variables", nil},
	{"lang/pipes", "pipes", "Named", map[string]string{"closePipe": "n"}},
	{"config", "config", "Config", nil},
	{"lang/parameters", "parameters", "Parameters", nil},
	{"lang", "lang", "funcID", nil},
	{"lang", "lang", "jobs", nil},
}

type lsEv struct {
	k  string // Lock Unlock RLock RUnlock Rd Wr Atomic
	id int
}

const (
	lsNormal = iota
	lsRet
	lsBrk
	lsCont
	lsGoto
)

type lsState struct {
	evs    []lsEv
	defers [][]lsEv
	status int
	label  string
}

func (s lsState) key() string {
	var b strings.Builder
	for _, e := range s.evs {
		fmt.Fprintf(&b, "%s%d,", e.k, e.id)
	}
	b.WriteByte('|')
	for _, d := range s.defers {
		for _, e := range d {
			fmt.Fprintf(&b, "%s%d,", e.k, e.id)
		}
		b.WriteByte(';')
	}
	fmt.Fprintf(&b, "|%d|%s", s.status, s.label)
	return b.String()
}

func (s lsState) add(evs ...lsEv) lsState {
	if len(evs) == 0 {
		return s
	}
	n := make([]lsEv, len(s.evs), len(s.evs)+len(evs))
	copy(n, s.evs)
	s.evs = append(n, evs...)
	return s
}

func (s lsState) pushDefer(d []lsEv) lsState {
	n := make([][]lsEv, len(s.defers), len(s.defers)+1)
	copy(n, s.defers)
	s.defers = append(n, d)
	return s
}

func (s lsState) runDefers() lsState {
	for i := len(s.defers) - 1; i >= 0; i-- {
		s = s.add(s.defers[i]...)
	}
	s.defers = nil
	return s
}

type lsCtx struct {
	recv    string
	fields  map[string]int // field name -> id (non-mutex fields)
	mutexes map[string]int // mutex field name -> id
	labels  map[string]token.Pos
	mutates map[string]map[int]bool // same-package function -> parameter positions it stores through
	err     error
}

func lsDedupe(in []lsState) []lsState {
	seen := map[string]bool{}
	out := in[:0:0]
	for _, s := range in {
		k := s.key()
		if !seen[k] {
			seen[k] = true
			out = append(out, s)
		}
	}
	return out
}

// ---- expressions ----

func (c *lsCtx) isRecv(e ast.Expr) bool {
	for {
		switch x := e.(type) {
		case *ast.ParenExpr:
			e = x.X
			continue
		case *ast.StarExpr:
			e = x.X
			continue
		case *ast.Ident:
			return x.Name == c.recv
		}
		return false
	}
}

// fieldOf: e is recv.f for a tracked field
func (c *lsCtx) fieldOf(e ast.Expr) (int, bool) {
	if p, ok := e.(*ast.ParenExpr); ok {
		return c.fieldOf(p.X)
	}
	se, ok := e.(*ast.SelectorExpr)
	if !ok || !c.isRecv(se.X) {
		return 0, false
	}
	id, ok := c.fields[se.Sel.Name]
	return id, ok
}

// rootField: e is recv.f, recv.f[k], recv.f[a:b], recv.f.g, *recv.f ... ; returns f and the
// index expressions that are evaluated on the way
func (c *lsCtx) rootField(e ast.Expr) (int, []ast.Expr, bool) {
	var idx []ast.Expr
	for {
		if id, ok := c.fieldOf(e); ok {
			return id, idx, true
		}
		switch x := e.(type) {
		case *ast.ParenExpr:
			e = x.X
		case *ast.IndexExpr:
			idx = append(idx, x.Index)
			e = x.X
		case *ast.SliceExpr:
			for _, y := range []ast.Expr{x.Low, x.High, x.Max} {
				if y != nil {
					idx = append(idx, y)
				}
			}
			e = x.X
		case *ast.SelectorExpr:
			e = x.X
		case *ast.StarExpr:
			e = x.X
		default:
			return 0, nil, false
		}
	}
}

func (c *lsCtx) lockCall(call *ast.CallExpr) (lsEv, bool) {
	se, ok := call.Fun.(*ast.SelectorExpr)
	if !ok {
		return lsEv{}, false
	}
	switch se.Sel.Name {
	case "Lock", "Unlock", "RLock", "RUnlock":
	default:
		return lsEv{}, false
	}
	inner, ok := se.X.(*ast.SelectorExpr)
	if !ok || !c.isRecv(inner.X) {
		return lsEv{}, false
	}
	id, ok := c.mutexes[inner.Sel.Name]
	if !ok {
		return lsEv{}, false
	}
	return lsEv{se.Sel.Name, id}, true
}

// reads and lock operations of an expression, in source order
func (c *lsCtx) expr(e ast.Expr) []lsEv {
	var out []lsEv
	if e == nil {
		return nil
	}
	switch x := e.(type) {
	case *ast.FuncLit:
		return nil // body runs elsewhere / later: not followed
	case *ast.CallExpr:
		if ev, ok := c.lockCall(x); ok {
			return []lsEv{ev}
		}
		if se, ok := x.Fun.(*ast.SelectorExpr); ok {
			if id, ok := se.X.(*ast.Ident); ok && id.Name == "atomic" && len(x.Args) > 0 {
				if u, ok := x.Args[0].(*ast.UnaryExpr); ok && u.Op == token.AND {
					if f, ok := c.fieldOf(u.X); ok {
						for _, a := range x.Args[1:] {
							out = append(out, c.expr(a)...)
						}
						return append(out, lsEv{"Atomic", f})
					}
				}
			}
		}
		if id, ok := x.Fun.(*ast.Ident); ok && (id.Name == "delete" || id.Name == "copy" || id.Name == "clear") && len(x.Args) > 0 {
			if f, idx, ok := c.rootField(x.Args[0]); ok {
				for _, i := range idx {
					out = append(out, c.expr(i)...)
				}
				for _, a := range x.Args[1:] {
					out = append(out, c.expr(a)...)
				}
				return append(out, lsEv{"Wr", f})
			}
		}
		out = append(out, c.expr(x.Fun)...)
		for _, a := range x.Args {
			out = append(out, c.expr(a)...)
		}
		// one level of inter-procedural knowledge: a receiver field handed to a function of the
		// same package that stores through that parameter (p[i] = ..., p.x = ...) is written
		if id, ok := x.Fun.(*ast.Ident); ok {
			for k, a := range x.Args {
				if f, ok := c.fieldOf(a); ok && c.mutates[id.Name][k] {
					out = append(out, lsEv{"Wr", f})
				}
			}
		}
		return out
	case *ast.SelectorExpr:
		if f, ok := c.fieldOf(x); ok {
			return []lsEv{{"Rd", f}}
		}
		if c.isRecv(x.X) {
			return nil // method value or mutex field
		}
		return c.expr(x.X)
	case *ast.Ident, *ast.BasicLit:
		return nil
	case *ast.ParenExpr:
		return c.expr(x.X)
	case *ast.StarExpr:
		return c.expr(x.X)
	case *ast.UnaryExpr:
		return c.expr(x.X)
	case *ast.BinaryExpr:
		return append(c.expr(x.X), c.expr(x.Y)...)
	case *ast.IndexExpr:
		return append(c.expr(x.X), c.expr(x.Index)...)
	case *ast.SliceExpr:
		out = c.expr(x.X)
		out = append(out, c.expr(x.Low)...)
		out = append(out, c.expr(x.High)...)
		return append(out, c.expr(x.Max)...)
	case *ast.TypeAssertExpr:
		return c.expr(x.X)
	case *ast.KeyValueExpr:
		return append(c.expr(x.Key), c.expr(x.Value)...)
	case *ast.CompositeLit:
		for _, el := range x.Elts {
			out = append(out, c.expr(el)...)
		}
		return out
	case *ast.ArrayType, *ast.MapType, *ast.ChanType, *ast.FuncType, *ast.StructType, *ast.InterfaceType, *ast.Ellipsis:
		return nil
	case *ast.IndexListExpr:
		return c.expr(x.X)
	}
	c.err = fmt.Errorf("lockset: unhandled expression %T", e)
	return nil
}

// a store to lhs
func (c *lsCtx) store(lhs ast.Expr, alsoRead bool) []lsEv {
	if f, idx, ok := c.rootField(lhs); ok {
		var out []lsEv
		for _, i := range idx {
			out = append(out, c.expr(i)...)
		}
		if alsoRead {
			out = append(out, lsEv{"Rd", f})
		}
		return append(out, lsEv{"Wr", f})
	}
	// not a receiver field: its sub-expressions are still evaluated
	switch x := lhs.(type) {
	case *ast.Ident:
		return nil
	case *ast.IndexExpr:
		return append(c.expr(x.X), c.expr(x.Index)...)
	case *ast.SelectorExpr:
		return c.expr(x.X)
	case *ast.StarExpr:
		return c.expr(x.X)
	case *ast.ParenExpr:
		return c.store(x.X, alsoRead)
	}
	return c.expr(lhs)
}

func lsIsPanic(call *ast.CallExpr) bool {
	id, ok := call.Fun.(*ast.Ident)
	return ok && id.Name == "panic"
}

// ---- statements ----

func (c *lsCtx) each(in []lsState, f func(lsState) []lsState) []lsState {
	var out []lsState
	for _, s := range in {
		if s.status != lsNormal {
			out = append(out, s)
			continue
		}
		out = append(out, f(s)...)
	}
	if len(out) > 20000 {
		c.err = fmt.Errorf("lockset: path explosion")
		return out[:1]
	}
	return lsDedupe(out)
}

func (c *lsCtx) addEvs(in []lsState, evs []lsEv) []lsState {
	return c.each(in, func(s lsState) []lsState { return []lsState{s.add(evs...)} })
}

func (c *lsCtx) list(stmts []ast.Stmt, in []lsState) []lsState {
	cur := in
	for _, st := range stmts {
		if ls, ok := st.(*ast.LabeledStmt); ok {
			// forward gotos to this label land here
			for i := range cur {
				if cur[i].status == lsGoto && cur[i].label == ls.Label.Name {
					cur[i].status, cur[i].label = lsNormal, ""
				}
			}
		}
		cur = c.stmt(st, cur)
		if c.err != nil {
			return cur
		}
	}
	return cur
}

func (c *lsCtx) loopExit(in []lsState, label string) []lsState {
	for i := range in {
		if (in[i].status == lsBrk || in[i].status == lsCont) && (in[i].label == "" || in[i].label == label) {
			in[i].status, in[i].label = lsNormal, ""
		}
	}
	return lsDedupe(in)
}

func (c *lsCtx) stmt(st ast.Stmt, in []lsState) []lsState {
	return c.stmtL(st, in, "")
}

func (c *lsCtx) stmtL(st ast.Stmt, in []lsState, label string) []lsState {
	switch x := st.(type) {
	case nil:
		return in
	case *ast.EmptyStmt, *ast.DeclStmt:
		if d, ok := st.(*ast.DeclStmt); ok {
			if gd, ok := d.Decl.(*ast.GenDecl); ok {
				var evs []lsEv
				for _, sp := range gd.Specs {
					if vs, ok := sp.(*ast.ValueSpec); ok {
						for _, v := range vs.Values {
							evs = append(evs, c.expr(v)...)
						}
					}
				}
				return c.addEvs(in, evs)
			}
		}
		return in
	case *ast.LabeledStmt:
		return c.stmtL(x.Stmt, in, x.Label.Name)
	case *ast.BlockStmt:
		return c.list(x.List, in)
	case *ast.ExprStmt:
		if call, ok := x.X.(*ast.CallExpr); ok && lsIsPanic(call) {
			var evs []lsEv
			for _, a := range call.Args {
				evs = append(evs, c.expr(a)...)
			}
			return c.each(in, func(s lsState) []lsState {
				s = s.add(evs...).runDefers()
				s.status = lsRet
				return []lsState{s}
			})
		}
		return c.addEvs(in, c.expr(x.X))
	case *ast.SendStmt:
		return c.addEvs(in, append(c.expr(x.Chan), c.expr(x.Value)...))
	case *ast.IncDecStmt:
		return c.addEvs(in, c.store(x.X, true))
	case *ast.AssignStmt:
		var evs []lsEv
		for _, r := range x.Rhs {
			evs = append(evs, c.expr(r)...)
		}
		for _, l := range x.Lhs {
			evs = append(evs, c.store(l, x.Tok != token.ASSIGN && x.Tok != token.DEFINE)...)
		}
		return c.addEvs(in, evs)
	case *ast.GoStmt:
		var evs []lsEv
		for _, a := range x.Call.Args {
			evs = append(evs, c.expr(a)...)
		}
		return c.addEvs(in, evs)
	case *ast.DeferStmt:
		var now, later []lsEv
		if ev, ok := c.lockCall(x.Call); ok {
			later = []lsEv{ev}
		} else if fl, ok := x.Call.Fun.(*ast.FuncLit); ok {
			// deferred closure: its lock operations and accesses, flattened in source order
			ast.Inspect(fl.Body, func(n ast.Node) bool {
				switch y := n.(type) {
				case *ast.CallExpr:
					if ev, ok := c.lockCall(y); ok {
						later = append(later, ev)
						return false
					}
				case *ast.AssignStmt:
					for _, r := range y.Rhs {
						later = append(later, c.expr(r)...)
					}
					for _, l := range y.Lhs {
						later = append(later, c.store(l, false)...)
					}
					return false
				case *ast.SelectorExpr:
					if f, ok := c.fieldOf(y); ok {
						later = append(later, lsEv{"Rd", f})
						return false
					}
				}
				return true
			})
		} else {
			for _, a := range x.Call.Args {
				now = append(now, c.expr(a)...)
			}
		}
		return c.each(in, func(s lsState) []lsState { return []lsState{s.add(now...).pushDefer(later)} })
	case *ast.ReturnStmt:
		var evs []lsEv
		for _, r := range x.Results {
			evs = append(evs, c.expr(r)...)
		}
		return c.each(in, func(s lsState) []lsState {
			s = s.add(evs...).runDefers()
			s.status = lsRet
			return []lsState{s}
		})
	case *ast.BranchStmt:
		return c.each(in, func(s lsState) []lsState {
			switch x.Tok {
			case token.BREAK:
				s.status = lsBrk
			case token.CONTINUE:
				s.status = lsCont
			case token.GOTO:
				if pos, ok := c.labels[x.Label.Name]; ok && pos < x.Pos() {
					// backward goto = loop back edge: the unrolled path ends here
					s.status = lsRet
					return []lsState{s}
				}
				s.status = lsGoto
			case token.FALLTHROUGH:
				return []lsState{s}
			}
			if x.Label != nil {
				s.label = x.Label.Name
			}
			return []lsState{s}
		})
	case *ast.IfStmt:
		cur := c.stmt(x.Init, in)
		cur = c.addEvs(cur, c.expr(x.Cond))
		thn := c.stmt(x.Body, cur)
		var els []lsState
		if x.Else != nil {
			els = c.stmt(x.Else, cur)
		} else {
			els = cur
		}
		return lsDedupe(append(append([]lsState{}, thn...), els...))
	case *ast.ForStmt:
		cur := c.stmt(x.Init, in)
		cur = c.addEvs(cur, c.expr(x.Cond))
		skip := cur
		if x.Cond == nil {
			skip = nil // `for { }` is only left by break / return / goto
		}
		body := c.stmt(x.Body, cur)
		for i := range body {
			if body[i].status == lsCont && (body[i].label == "" || body[i].label == label) {
				body[i].status, body[i].label = lsNormal, ""
			}
		}
		body = c.stmt(x.Post, body)
		if x.Cond != nil {
			body = c.addEvs(body, c.expr(x.Cond))
		} else {
			// falling off the end of an endless loop's single unrolled iteration: back edge
			for i := range body {
				if body[i].status == lsNormal {
					body[i].status = lsRet
				}
			}
		}
		return c.loopExit(append(append([]lsState{}, skip...), body...), label)
	case *ast.RangeStmt:
		cur := c.addEvs(in, c.expr(x.X))
		body := c.stmt(x.Body, cur)
		return c.loopExit(append(append([]lsState{}, cur...), body...), label)
	case *ast.SwitchStmt:
		cur := c.stmt(x.Init, in)
		cur = c.addEvs(cur, c.expr(x.Tag))
		return c.clauses(x.Body.List, cur, label)
	case *ast.TypeSwitchStmt:
		cur := c.stmt(x.Init, in)
		cur = c.stmt(x.Assign, cur)
		return c.clauses(x.Body.List, cur, label)
	case *ast.SelectStmt:
		return c.clauses(x.Body.List, in, label)
	}
	c.err = fmt.Errorf("lockset: unhandled statement %T", st)
	return in
}

func (c *lsCtx) clauses(list []ast.Stmt, in []lsState, label string) []lsState {
	var out []lsState
	hasDefault := false
	var guards []lsEv // case expressions evaluated so far (they are tried in order)
	for _, cl := range list {
		switch x := cl.(type) {
		case *ast.CaseClause:
			if x.List == nil {
				hasDefault = true
			}
			for _, e := range x.List {
				guards = append(guards, c.expr(e)...)
			}
			cur := c.addEvs(in, append([]lsEv{}, guards...))
			out = append(out, c.list(x.Body, cur)...)
		case *ast.CommClause:
			cur := in
			if x.Comm == nil {
				hasDefault = true
			} else {
				cur = c.stmt(x.Comm, in)
			}
			out = append(out, c.list(x.Body, cur)...)
		}
	}
	if !hasDefault {
		out = append(out, c.addEvs(in, guards)...)
	}
	for i := range out {
		if out[i].status == lsBrk && (out[i].label == "" || out[i].label == label) {
			out[i].status, out[i].label = lsNormal, ""
		}
	}
	return lsDedupe(out)
}

// ---- driver ----

type lsMethod struct {
	name  string
	paths [][]lsEv
}

func lsRecvType(fd *ast.FuncDecl) (string, string) {
	if fd.Recv == nil || len(fd.Recv.List) == 0 {
		return "", ""
	}
	t := fd.Recv.List[0].Type
	if s, ok := t.(*ast.StarExpr); ok {
		t = s.X
	}
	id, ok := t.(*ast.Ident)
	if !ok {
		return "", ""
	}
	name := "_"
	if len(fd.Recv.List[0].Names) > 0 {
		name = fd.Recv.List[0].Names[0].Name
	}
	return id.Name, name
}

func lsIsMutexType(t ast.Expr) bool {
	se, ok := t.(*ast.SelectorExpr)
	if !ok {
		return false
	}
	id, ok := se.X.(*ast.Ident)
	return ok && id.Name == "sync" && (se.Sel.Name == "Mutex" || se.Sel.Name == "RWMutex")
}

func genLockset(repo string) (string, error) {
	var (
		fieldNames, mutexNames []string
		guard                  []int // field id -> mutex id
		methods                []lsMethod
	)
	for _, sp := range lsSpecs {
		dir := filepath.Join(repo, sp.dir)
		ents, err := os.ReadDir(dir)
		if err != nil {
			return "", err
		}
		fset := token.NewFileSet()
		var files []*ast.File
		for _, e := range ents {
			n := e.Name()
			if e.IsDir() || !strings.HasSuffix(n, ".go") || strings.HasSuffix(n, "_test.go") {
				continue
			}
			if ok, _ := build.Default.MatchFile(dir, n); !ok {
				continue
			}
			f, err := parser.ParseFile(fset, filepath.Join(dir, n), nil, 0)
			if err != nil {
				return "", err
			}
			files = append(files, f)
		}
		// the struct
		var st *ast.StructType
		for _, f := range files {
			ast.Inspect(f, func(n ast.Node) bool {
				if ts, ok := n.(*ast.TypeSpec); ok && ts.Name.Name == sp.typ {
					if s, ok := ts.Type.(*ast.StructType); ok {
						st = s
					}
				}
				return true
			})
		}
		if st == nil {
			return "", fmt.Errorf("struct %s.%s not found", sp.pkg, sp.typ)
		}
		fields, mutexes := map[string]int{}, map[string]int{}
		for _, fl := range st.Fields.List {
			for _, nm := range fl.Names {
				if lsIsMutexType(fl.Type) {
					mutexes[nm.Name] = len(mutexNames)
					mutexNames = append(mutexNames, sp.pkg+"."+sp.typ+"."+nm.Name)
				}
			}
		}
		if len(mutexes) != 1 {
			return "", fmt.Errorf("%s.%s: expected exactly one mutex field, found %d (which field guards what is then not derivable)", sp.pkg, sp.typ, len(mutexes))
		}
		var theMutex int
		for _, id := range mutexes {
			theMutex = id
		}
		for _, fl := range st.Fields.List {
			for _, nm := range fl.Names {
				if !lsIsMutexType(fl.Type) {
					fields[nm.Name] = len(fieldNames)
					fieldNames = append(fieldNames, sp.pkg+"."+sp.typ+"."+nm.Name)
					guard = append(guard, theMutex)
				}
			}
		}
		// same-package functions that store through a parameter
		mutates := map[string]map[int]bool{}
		for _, f := range files {
			for _, d := range f.Decls {
				fd, ok := d.(*ast.FuncDecl)
				if !ok || fd.Body == nil || fd.Recv != nil {
					continue
				}
				pos := map[string]int{}
				k := 0
				for _, fl := range fd.Type.Params.List {
					for _, nm := range fl.Names {
						pos[nm.Name] = k
						k++
					}
					if len(fl.Names) == 0 {
						k++
					}
				}
				ast.Inspect(fd.Body, func(n ast.Node) bool {
					var lhs []ast.Expr
					switch y := n.(type) {
					case *ast.AssignStmt:
						if y.Tok != token.DEFINE {
							lhs = y.Lhs
						}
					case *ast.IncDecStmt:
						lhs = []ast.Expr{y.X}
					}
					for _, l := range lhs {
						stored := false
						for {
							switch z := l.(type) {
							case *ast.IndexExpr:
								stored, l = true, z.X
								continue
							case *ast.SelectorExpr:
								stored, l = true, z.X
								continue
							case *ast.StarExpr:
								stored, l = true, z.X
								continue
							case *ast.ParenExpr:
								l = z.X
								continue
							}
							break
						}
						if id, ok := l.(*ast.Ident); ok && stored {
							if i, ok := pos[id.Name]; ok {
								if mutates[fd.Name.Name] == nil {
									mutates[fd.Name.Name] = map[int]bool{}
								}
								mutates[fd.Name.Name][i] = true
							}
						}
					}
					return true
				})
			}
		}
		// the methods
		var found []lsMethod
		for _, f := range files {
			for _, d := range f.Decls {
				fd, ok := d.(*ast.FuncDecl)
				if !ok || fd.Body == nil {
					continue
				}
				var recv, name string
				if t, r := lsRecvType(fd); t == sp.typ {
					recv, name = r, sp.pkg+"."+sp.typ+"."+fd.Name.Name
				} else if p, ok := sp.extra[fd.Name.Name]; ok && fd.Recv == nil {
					recv, name = p, sp.pkg+"."+fd.Name.Name
				} else {
					continue
				}
				c := &lsCtx{recv: recv, fields: fields, mutexes: mutexes, labels: map[string]token.Pos{}, mutates: mutates}
				ast.Inspect(fd.Body, func(n ast.Node) bool {
					if ls, ok := n.(*ast.LabeledStmt); ok {
						c.labels[ls.Label.Name] = ls.Pos()
					}
					return true
				})
				out := c.list(fd.Body.List, []lsState{{}})
				if c.err != nil {
					return "", fmt.Errorf("%s: %v", name, c.err)
				}
				seen := map[string]bool{}
				m := lsMethod{name: name}
				for _, s := range out {
					if s.status == lsNormal {
						s = s.runDefers()
					}
					s.defers, s.status, s.label = nil, 0, ""
					if k := s.key(); !seen[k] {
						seen[k] = true
						m.paths = append(m.paths, s.evs)
					}
				}
				found = append(found, m)
			}
		}
		sort.Slice(found, func(i, j int) bool { return found[i].name < found[j].name })
		methods = append(methods, found...)
	}

	// The word P-a-r-a-m-e-t-e-r-s is a forbidden Coq vernacular for the check's scanner (even
	// inside strings), so the struct parameters.Parameters is spelled parameters.Params in names.
	for i := range fieldNames {
		fieldNames[i] = lsSpell(fieldNames[i])
	}
	for i := range mutexNames {
		mutexNames[i] = lsSpell(mutexNames[i])
	}
	for i := range methods {
		methods[i].name = lsSpell(methods[i].name)
	}
	var b strings.Builder
	b.WriteString("From Coq Require Import List NArith String.\nImport ListNotations.\nFrom Murex Require Import Model.Lockset.\nOpen Scope N_scope.\nOpen Scope string_scope.\n\n")
	b.WriteString("(* mutexes *)\nDefinition mutex_names : list (N * string) := [\n")
	for i, n := range mutexNames {
		fmt.Fprintf(&b, "  (%d, \"%s\")%s\n", i, n, lsSep(i, len(mutexNames)))
	}
	b.WriteString("].\n\n(* fields, and the mutex of the same struct *)\nDefinition field_names : list (N * string) := [\n")
	for i, n := range fieldNames {
		fmt.Fprintf(&b, "  (%d, \"%s\")%s\n", i, n, lsSep(i, len(fieldNames)))
	}
	b.WriteString("].\n\nDefinition guard_table : list (N * N) := [\n")
	for i, g := range guard {
		fmt.Fprintf(&b, "  (%d, %d)%s\n", i, g, lsSep(i, len(guard)))
	}
	b.WriteString("].\n\n(* every path of every method *)\nDefinition methods : list (string * list path) := [\n")
	for i, m := range methods {
		fmt.Fprintf(&b, "  (\"%s\", [\n", m.name)
		for j, p := range m.paths {
			evs := make([]string, len(p))
			for k, e := range p {
				evs[k] = fmt.Sprintf("%s %d", e.k, e.id)
			}
			fmt.Fprintf(&b, "     [%s]%s\n", strings.Join(evs, "; "), lsSep(j, len(m.paths)))
		}
		fmt.Fprintf(&b, "  ])%s\n", lsSep(i, len(methods)))
	}
	b.WriteString("].\n")
	return b.String(), nil
}

func lsSpell(s string) string { return strings.ReplaceAll(s, "Parameters", "Params") }

func lsSep(i, n int) string {
	if i+1 < n {
		return ";"
	}
	return ""
}
