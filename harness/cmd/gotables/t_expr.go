//go:build prop_c06 || prop_c07 || prop_all

package main

// Tables for C06 / C07:
//
//	Gen/ExprTables.v  <- lang/expressions/symbols/exp.go  (the Exp enum, in order, with its values)
//	                     lang/expressions/expression.go   (the orderOfOperations slice)
//	Gen/Truthy.v      <- lang/types/types.go              (the words IsTrueString compares with)
//
// The Coq model takes operator ranks, group thresholds and false-words from
// these files only, so a change to precedence or truthiness in the Go source
// changes the model and breaks the vm_compute obligations table_ok_now /
// truthy_table_now.

import (
	"fmt"
	"go/ast"
	"go/token"
	"strconv"
	"strings"
)

func init() {
	registerTable("ExprTables.v", genExprTables)
	registerTable("Truthy.v", genTruthy)
}

// evalIotaExpr evaluates the tiny constant expressions used in the enum:
// integer literals, iota, + and -, parentheses.
func evalIotaExpr(e ast.Expr, iota int) (int, error) {
	switch x := e.(type) {
	case *ast.BasicLit:
		if x.Kind != token.INT {
			return 0, fmt.Errorf("unsupported literal %s", x.Value)
		}
		n, err := strconv.ParseInt(x.Value, 0, 64)
		return int(n), err
	case *ast.Ident:
		if x.Name == "iota" {
			return iota, nil
		}
		return 0, fmt.Errorf("unsupported identifier %s", x.Name)
	case *ast.ParenExpr:
		return evalIotaExpr(x.X, iota)
	case *ast.BinaryExpr:
		a, err := evalIotaExpr(x.X, iota)
		if err != nil {
			return 0, err
		}
		b, err := evalIotaExpr(x.Y, iota)
		if err != nil {
			return 0, err
		}
		switch x.Op {
		case token.ADD:
			return a + b, nil
		case token.SUB:
			return a - b, nil
		case token.MUL:
			return a * b, nil
		}
		return 0, fmt.Errorf("unsupported operator %s", x.Op)
	case *ast.CallExpr: // Exp(3)
		if len(x.Args) == 1 {
			return evalIotaExpr(x.Args[0], iota)
		}
	}
	return 0, fmt.Errorf("unsupported constant expression %T", e)
}

type exprEnumEntry struct {
	name string
	val  int
}

func exprEnum(repo string) ([]exprEnumEntry, error) {
	_, f, err := parseGo(repo, "lang/expressions/symbols/exp.go")
	if err != nil {
		return nil, err
	}
	var out []exprEnumEntry
	for _, d := range f.Decls {
		gd, ok := d.(*ast.GenDecl)
		if !ok || gd.Tok != token.CONST {
			continue
		}
		var last ast.Expr
		for i, s := range gd.Specs {
			vs := s.(*ast.ValueSpec)
			if len(vs.Names) != 1 {
				return nil, fmt.Errorf("const spec with %d names", len(vs.Names))
			}
			if len(vs.Values) == 1 {
				last = vs.Values[0]
			}
			if last == nil {
				return nil, fmt.Errorf("const %s has no value", vs.Names[0].Name)
			}
			v, err := evalIotaExpr(last, i)
			if err != nil {
				return nil, fmt.Errorf("const %s: %v", vs.Names[0].Name, err)
			}
			out = append(out, exprEnumEntry{vs.Names[0].Name, v})
		}
	}
	if len(out) == 0 {
		return nil, fmt.Errorf("no constants found in symbols/exp.go")
	}
	return out, nil
}

func genExprTables(repo string) (string, error) {
	enum, err := exprEnum(repo)
	if err != nil {
		return "", err
	}
	known := map[string]bool{}
	var b strings.Builder
	b.WriteString(coqHeader)
	b.WriteString("(* lang/expressions/symbols/exp.go: the Exp enum *)\n")
	for _, e := range enum {
		if e.val < 0 {
			return "", fmt.Errorf("negative enum value for %s", e.name)
		}
		known[e.name] = true
		fmt.Fprintf(&b, "Definition sym_%s : N := %d%%N.\n", e.name, e.val)
	}
	// the slice
	_, f, err := parseGo(repo, "lang/expressions/expression.go")
	if err != nil {
		return "", err
	}
	v := findValue(f, "orderOfOperations")
	cl, ok := v.(*ast.CompositeLit)
	if !ok {
		return "", fmt.Errorf("orderOfOperations is not a composite literal")
	}
	var names []string
	for _, el := range cl.Elts {
		se, ok := el.(*ast.SelectorExpr)
		if !ok {
			return "", fmt.Errorf("orderOfOperations element is not symbols.X")
		}
		if !known[se.Sel.Name] {
			return "", fmt.Errorf("orderOfOperations names unknown symbol %s", se.Sel.Name)
		}
		names = append(names, "sym_"+se.Sel.Name)
	}
	if len(names) == 0 {
		return "", fmt.Errorf("orderOfOperations is empty")
	}
	b.WriteString("\n(* lang/expressions/expression.go: orderOfOperations (group thresholds, in pass order) *)\n")
	fmt.Fprintf(&b, "Definition order_of_operations : list N :=\n  [%s].\n", strings.Join(names, "; "))
	return b.String(), nil
}

func genTruthy(repo string) (string, error) {
	_, f, err := parseGo(repo, "lang/types/types.go")
	if err != nil {
		return "", err
	}
	fd := findFunc(f, "IsTrueString")
	if fd == nil {
		return "", fmt.Errorf("IsTrueString not found")
	}
	// every string literal that is an operand of == inside the function
	var words []string
	ast.Inspect(fd.Body, func(n ast.Node) bool {
		be, ok := n.(*ast.BinaryExpr)
		if !ok || be.Op != token.EQL {
			return true
		}
		for _, side := range []ast.Expr{be.X, be.Y} {
			if bl, ok := side.(*ast.BasicLit); ok && bl.Kind == token.STRING {
				if s, err := strconv.Unquote(bl.Value); err == nil {
					words = append(words, s)
				}
			}
		}
		return true
	})
	if len(words) == 0 {
		return "", fmt.Errorf("no comparison words found in IsTrueString")
	}
	var b strings.Builder
	b.WriteString(coqHeader)
	b.WriteString("(* lang/types/types.go IsTrueString: the strings (after TrimSpace+ToLower) that are false;\n   the empty string is tested separately by len(s) == 0 *)\n")
	fmt.Fprintf(&b, "Definition false_words : list (list N) :=\n  %s.\n", coqBytesList(words))
	return b.String(), nil
}
