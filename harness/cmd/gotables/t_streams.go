//go:build prop_c01 || prop_c02 || prop_all

package main

// Constants of the Go source that the model of streams.Stdin depends on:
//   builtins/pipes/streams/define.go : DefaultMaxBufferSize
//   lang/types/types.go              : Generic ("*"), Null ("null")
//   builtins/pipes/streams/write.go  : ReadFrom's chunk size  make([]byte, 1024)
//   lang/stdio/templates.go          : WriteTo's chunk size   make([]byte, 1024*10)
// -> coq/theories/Gen/StreamsTables.v

import (
	"fmt"
	"go/ast"
	"go/token"
	"strconv"
)

func init() { registerTable("StreamsTables.v", genStreamsTables) }

// streamsEvalInt evaluates an integer constant expression made of literals, * + - and parentheses.
func streamsEvalInt(e ast.Expr) (int64, error) {
	switch x := e.(type) {
	case *ast.BasicLit:
		if x.Kind != token.INT {
			return 0, fmt.Errorf("not an int literal: %s", x.Value)
		}
		return strconv.ParseInt(x.Value, 0, 64)
	case *ast.ParenExpr:
		return streamsEvalInt(x.X)
	case *ast.BinaryExpr:
		a, err := streamsEvalInt(x.X)
		if err != nil {
			return 0, err
		}
		b, err := streamsEvalInt(x.Y)
		if err != nil {
			return 0, err
		}
		switch x.Op {
		case token.MUL:
			return a * b, nil
		case token.ADD:
			return a + b, nil
		case token.SUB:
			return a - b, nil
		}
		return 0, fmt.Errorf("unsupported operator %s", x.Op)
	}
	return 0, fmt.Errorf("unsupported constant expression %T", e)
}

// streamsMakeLen finds, inside function fn, the first `make([]byte, <const>)` and returns <const>.
func streamsMakeLen(f *ast.File, fn string) (int64, error) {
	fd := findFunc(f, fn)
	if fd == nil {
		// methods: findFunc matches by name only, so this also covers (stdin *Stdin) ReadFrom
		return 0, fmt.Errorf("func %s not found", fn)
	}
	var res int64 = -1
	var rerr error
	ast.Inspect(fd, func(n ast.Node) bool {
		if res >= 0 || rerr != nil {
			return false
		}
		ce, ok := n.(*ast.CallExpr)
		if !ok {
			return true
		}
		id, ok := ce.Fun.(*ast.Ident)
		if !ok || id.Name != "make" || len(ce.Args) != 2 {
			return true
		}
		at, ok := ce.Args[0].(*ast.ArrayType)
		if !ok || at.Len != nil {
			return true
		}
		if el, ok := at.Elt.(*ast.Ident); !ok || el.Name != "byte" {
			return true
		}
		v, err := streamsEvalInt(ce.Args[1])
		if err != nil {
			return true // e.g. make([]byte, 0) handled below; non-constant lengths skipped
		}
		if v > 0 {
			res = v
		}
		return true
	})
	if rerr != nil {
		return 0, rerr
	}
	if res < 0 {
		return 0, fmt.Errorf("no make([]byte, const) in %s", fn)
	}
	return res, nil
}

func genStreamsTables(repo string) (string, error) {
	_, def, err := parseGo(repo, "builtins/pipes/streams/define.go")
	if err != nil {
		return "", err
	}
	e := findValue(def, "DefaultMaxBufferSize")
	if e == nil {
		return "", fmt.Errorf("DefaultMaxBufferSize not found")
	}
	max, err := streamsEvalInt(e)
	if err != nil {
		return "", fmt.Errorf("DefaultMaxBufferSize: %v", err)
	}
	_, typ, err := parseGo(repo, "lang/types/types.go")
	if err != nil {
		return "", err
	}
	str := func(name string) (string, error) {
		v := findValue(typ, name)
		bl, ok := v.(*ast.BasicLit)
		if !ok || bl.Kind != token.STRING {
			return "", fmt.Errorf("types.%s is not a string literal", name)
		}
		return strconv.Unquote(bl.Value)
	}
	generic, err := str("Generic")
	if err != nil {
		return "", err
	}
	null, err := str("Null")
	if err != nil {
		return "", err
	}
	_, wr, err := parseGo(repo, "builtins/pipes/streams/write.go")
	if err != nil {
		return "", err
	}
	rfChunk, err := streamsMakeLen(wr, "ReadFrom")
	if err != nil {
		return "", err
	}
	_, tpl, err := parseGo(repo, "lang/stdio/templates.go")
	if err != nil {
		return "", err
	}
	wtChunk, err := streamsMakeLen(tpl, "WriteTo")
	if err != nil {
		return "", err
	}
	out := coqHeader
	out += fmt.Sprintf("(* builtins/pipes/streams/define.go: DefaultMaxBufferSize *)\nDefinition default_max_buffer_size : N := %d%%N.\n\n", max)
	out += fmt.Sprintf("(* lang/types/types.go: Generic, Null *)\nDefinition types_generic : list N := %s.\nDefinition types_null : list N := %s.\n\n", coqBytes(generic), coqBytes(null))
	out += fmt.Sprintf("(* builtins/pipes/streams/write.go: ReadFrom reads make([]byte, %d) at a time *)\nDefinition readfrom_chunk : N := %d%%N.\n\n", rfChunk, rfChunk)
	out += fmt.Sprintf("(* lang/stdio/templates.go: WriteTo reads make([]byte, %d) at a time *)\nDefinition writeto_chunk : N := %d%%N.\n", wtChunk, wtChunk)
	return out, nil
}
