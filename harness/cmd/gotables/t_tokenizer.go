//go:build prop_c20 || prop_c34 || prop_c37 || prop_all

package main

// Tables of utils/parser used by the tokenizer model (C20, C34, C37):
//   HlCodes.v  — the highlight colour constants of utils/parser/parser.go, resolved
//                through utils/ansi/codes/codes.go, as rune lists;
//   SafeCmds.v — the safeCmds list of utils/parser/safe.go, as rune lists.

import (
	"fmt"
	"go/ast"
	"go/token"
	"strconv"
	"strings"
)

func init() {
	registerTable("HlCodes.v", tokGenHlCodes)
	registerTable("SafeCmds.v", tokGenSafeCmds)
}

func tokCoqRunes(s string) string {
	rs := []rune(s)
	parts := make([]string, len(rs))
	for i, r := range rs {
		parts[i] = strconv.Itoa(int(r)) + "%N"
	}
	return "[" + strings.Join(parts, "; ") + "]"
}

// tokEval evaluates a constant string expression: literals, codes.X, X (local), a + b.
func tokEval(e ast.Expr, codes map[string]string) (string, error) {
	switch x := e.(type) {
	case *ast.BasicLit:
		if x.Kind != token.STRING {
			return "", fmt.Errorf("non-string literal %s", x.Value)
		}
		return strconv.Unquote(x.Value)
	case *ast.SelectorExpr:
		if id, ok := x.X.(*ast.Ident); ok && id.Name == "codes" {
			v, ok := codes[x.Sel.Name]
			if !ok {
				return "", fmt.Errorf("codes.%s not found", x.Sel.Name)
			}
			return v, nil
		}
		return "", fmt.Errorf("unsupported selector")
	case *ast.BinaryExpr:
		if x.Op != token.ADD {
			return "", fmt.Errorf("unsupported operator %s", x.Op)
		}
		a, err := tokEval(x.X, codes)
		if err != nil {
			return "", err
		}
		b, err := tokEval(x.Y, codes)
		if err != nil {
			return "", err
		}
		return a + b, nil
	case *ast.ParenExpr:
		return tokEval(x.X, codes)
	}
	return "", fmt.Errorf("unsupported expression %T", e)
}

func tokGenHlCodes(repo string) (string, error) {
	_, cf, err := parseGo(repo, "utils/ansi/codes/codes.go")
	if err != nil {
		return "", err
	}
	codes := map[string]string{}
	for _, d := range cf.Decls {
		gd, ok := d.(*ast.GenDecl)
		if !ok || gd.Tok != token.CONST {
			continue
		}
		for _, s := range gd.Specs {
			vs := s.(*ast.ValueSpec)
			for i, n := range vs.Names {
				if i < len(vs.Values) {
					if bl, ok := vs.Values[i].(*ast.BasicLit); ok && bl.Kind == token.STRING {
						if v, err := strconv.Unquote(bl.Value); err == nil {
							codes[n.Name] = v
						}
					}
				}
			}
		}
	}
	_, pf, err := parseGo(repo, "utils/parser/parser.go")
	if err != nil {
		return "", err
	}
	var b strings.Builder
	b.WriteString(coqHeader)
	b.WriteString("(* utils/parser/parser.go: hl* colour constants, utils/ansi/codes resolved; rune lists *)\n")
	reset, ok := codes["Reset"]
	if !ok {
		return "", fmt.Errorf("codes.Reset not found")
	}
	fmt.Fprintf(&b, "Definition code_reset : list N := %s.\n", tokCoqRunes(reset))
	names := []struct{ goName, coqName string }{
		{"hlFunction", "hl_function"}, {"hlVariable", "hl_variable"}, {"hlEscaped", "hl_escaped"},
		{"hlSingleQuote", "hl_single_quote"}, {"hlDoubleQuote", "hl_double_quote"}, {"hlBraceQuote", "hl_brace_quote"},
		{"hlPipe", "hl_pipe"}, {"hlComment", "hl_comment"}, {"hlError", "hl_error"}, {"hlRedirect", "hl_redirect"},
	}
	for _, n := range names {
		e := findValue(pf, n.goName)
		if e == nil {
			return "", fmt.Errorf("%s not found in utils/parser/parser.go", n.goName)
		}
		v, err := tokEval(e, codes)
		if err != nil {
			return "", fmt.Errorf("%s: %v", n.goName, err)
		}
		fmt.Fprintf(&b, "Definition %s : list N := %s.\n", n.coqName, tokCoqRunes(v))
	}
	e := findValue(pf, "hlBlock")
	cl, ok := e.(*ast.CompositeLit)
	if !ok {
		return "", fmt.Errorf("hlBlock is not a composite literal")
	}
	elems := []string{}
	for _, el := range cl.Elts {
		v, err := tokEval(el, codes)
		if err != nil {
			return "", fmt.Errorf("hlBlock: %v", err)
		}
		elems = append(elems, tokCoqRunes(v))
	}
	fmt.Fprintf(&b, "Definition hl_block : list (list N) :=\n  [%s].\n", strings.Join(elems, ";\n   "))
	return b.String(), nil
}

func tokGenSafeCmds(repo string) (string, error) {
	_, f, err := parseGo(repo, "utils/parser/safe.go")
	if err != nil {
		return "", err
	}
	e := findValue(f, "safeCmds")
	cl, ok := e.(*ast.CompositeLit)
	if !ok {
		return "", fmt.Errorf("safeCmds is not a composite literal")
	}
	elems := []string{}
	for _, el := range cl.Elts {
		v, err := tokEval(el, nil)
		if err != nil {
			return "", fmt.Errorf("safeCmds: %v", err)
		}
		cmt := ""
		if !strings.ContainsAny(v, "()*\"") {
			cmt = "(* " + strconv.QuoteToASCII(v)[1:len(strconv.QuoteToASCII(v))-1] + " *) "
		}
		elems = append(elems, cmt+tokCoqRunes(v))
	}
	if len(elems) == 0 {
		return "", fmt.Errorf("safeCmds is empty")
	}
	var b strings.Builder
	b.WriteString(coqHeader)
	b.WriteString("(* utils/parser/safe.go: safeCmds, as rune lists *)\n")
	fmt.Fprintf(&b, "Definition safe_cmds : list (list N) :=\n  [%s].\n", strings.Join(elems, ";\n   "))
	return b.String(), nil
}
