//go:build prop_c35 || prop_all

package main

// Table for C35:
//
//	Gen/HtmlEntity.v  <- $GOROOT/src/html/entity.go  (the maps `entity` and `entity2` that
//	                     html.UnescapeString consults, and longestEntityWithoutSemicolon)
//
// The toolchain is the one /repo's go.mod selects (`go env GOROOT` run inside the repo), i.e.
// the library code that murex is actually built with.

import (
	"fmt"
	"go/ast"
	"go/parser"
	"go/token"
	"os"
	"os/exec"
	"path/filepath"
	"sort"
	"strconv"
	"strings"
	"unicode/utf8"
)

func init() { registerTable("HtmlEntity.v", genHtmlEntity) }

func goroot(repo string) (string, error) {
	cmd := exec.Command("go", "env", "GOROOT")
	cmd.Dir = repo
	cmd.Env = append(os.Environ(), "GOFLAGS=-mod=mod", "GOPROXY=off")
	out, err := cmd.Output()
	if err != nil {
		return "", fmt.Errorf("go env GOROOT: %v", err)
	}
	return strings.TrimSpace(string(out)), nil
}

func runeLit(e ast.Expr) (rune, bool) {
	bl, ok := e.(*ast.BasicLit)
	if !ok || bl.Kind != token.CHAR {
		return 0, false
	}
	r, _, _, err := strconv.UnquoteChar(bl.Value[1:len(bl.Value)-1], '\'')
	return r, err == nil
}

func genHtmlEntity(repo string) (string, error) {
	root, err := goroot(repo)
	if err != nil {
		return "", err
	}
	fset := token.NewFileSet()
	f, err := parser.ParseFile(fset, filepath.Join(root, "src", "html", "entity.go"), nil, 0)
	if err != nil {
		return "", err
	}
	ents := map[string]string{}
	longest := -1
	ast.Inspect(f, func(n ast.Node) bool {
		switch x := n.(type) {
		case *ast.ValueSpec:
			for i, nm := range x.Names {
				if nm.Name == "longestEntityWithoutSemicolon" && i < len(x.Values) {
					if bl, ok := x.Values[i].(*ast.BasicLit); ok {
						longest, _ = strconv.Atoi(bl.Value)
					}
				}
			}
		case *ast.KeyValueExpr:
			kb, ok := x.Key.(*ast.BasicLit)
			if !ok || kb.Kind != token.STRING {
				return true
			}
			name, err := strconv.Unquote(kb.Value)
			if err != nil {
				return true
			}
			if r, ok := runeLit(x.Value); ok {
				ents[name] = string(utf8.AppendRune(nil, r))
			} else if cl, ok := x.Value.(*ast.CompositeLit); ok && len(cl.Elts) == 2 {
				r1, ok1 := runeLit(cl.Elts[0])
				r2, ok2 := runeLit(cl.Elts[1])
				if ok1 && ok2 {
					ents[name] = string(utf8.AppendRune(utf8.AppendRune(nil, r1), r2))
				}
			}
		}
		return true
	})
	if len(ents) < 2000 || longest < 0 {
		return "", fmt.Errorf("html/entity.go: only %d entities found, longest=%d", len(ents), longest)
	}
	names := make([]string, 0, len(ents))
	for k := range ents {
		names = append(names, k)
	}
	sort.Strings(names)
	var b strings.Builder
	b.WriteString(coqHeader)
	fmt.Fprintf(&b, "(* %d entries of html/entity.go (entity and entity2), name -> UTF-8 bytes *)\n", len(names))
	fmt.Fprintf(&b, "Definition html_longest_entity_without_semicolon : nat := %d.\n\n", longest)
	b.WriteString("Definition html_entities : list (list N * list N) := [\n")
	for i, n := range names {
		sep := ";"
		if i == len(names)-1 {
			sep = ""
		}
		fmt.Fprintf(&b, "  (%s, %s)%s\n", coqBytes(n), coqBytes(ents[n]), sep)
	}
	b.WriteString("].\n")
	return b.String(), nil
}
