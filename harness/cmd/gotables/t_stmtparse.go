//go:build prop_c08 || prop_c09 || prop_c10 || prop_all

package main

// Tables for the statement-parser model (C08, C09, C10):
//   AnsiConsts.v   utils/ansi/consts.go: the maps `constants` and `sgr`
//   EscapeTable.v  utils/escape/escape.go: the ordered strings.Replace pairs of
//                  CommandLine; main.go: shape of argvToCmdLineStr and its separator
//   NoTokenise.v   lang/expressions/statement_rules.go: command names for which
//                  tokeniseScalar() may return false

import (
	"fmt"
	"go/ast"
	"go/token"
	"strconv"
	"strings"
)

func init() {
	registerTable("AnsiConsts.v", genAnsiConsts)
	registerTable("EscapeTable.v", genEscapeTable)
	registerTable("NoTokenise.v", genNoTokenise)
}

func litByte(e ast.Expr) (int, error) {
	bl, ok := e.(*ast.BasicLit)
	if !ok {
		return 0, fmt.Errorf("byte element is not a literal")
	}
	switch bl.Kind {
	case token.INT:
		n, err := strconv.ParseInt(bl.Value, 0, 32)
		return int(n), err
	case token.CHAR:
		r, _, _, err := strconv.UnquoteChar(bl.Value[1:len(bl.Value)-1], '\'')
		return int(r), err
	}
	return 0, fmt.Errorf("unsupported literal kind %v", bl.Kind)
}

func byteMap(f *ast.File, name string) ([][2]string, error) {
	v := findValue(f, name)
	cl, ok := v.(*ast.CompositeLit)
	if !ok {
		return nil, fmt.Errorf("%s: not a composite literal", name)
	}
	var out [][2]string
	for _, el := range cl.Elts {
		kv, ok := el.(*ast.KeyValueExpr)
		if !ok {
			return nil, fmt.Errorf("%s: element is not key: value", name)
		}
		kl, ok := kv.Key.(*ast.BasicLit)
		if !ok || kl.Kind != token.STRING {
			return nil, fmt.Errorf("%s: key is not a string literal", name)
		}
		k, err := strconv.Unquote(kl.Value)
		if err != nil {
			return nil, err
		}
		vl, ok := kv.Value.(*ast.CompositeLit)
		if !ok {
			return nil, fmt.Errorf("%s[%s]: value is not a composite literal", name, k)
		}
		b := make([]byte, 0, len(vl.Elts))
		for _, be := range vl.Elts {
			n, err := litByte(be)
			if err != nil {
				return nil, fmt.Errorf("%s[%s]: %v", name, k, err)
			}
			if n < 0 || n > 255 {
				return nil, fmt.Errorf("%s[%s]: byte out of range", name, k)
			}
			b = append(b, byte(n))
		}
		out = append(out, [2]string{k, string(b)})
	}
	if len(out) == 0 {
		return nil, fmt.Errorf("%s: empty map", name)
	}
	return out, nil
}

func coqPairs(ps [][2]string) string {
	parts := make([]string, len(ps))
	for i, p := range ps {
		parts[i] = "(" + coqBytes(p[0]) + ", " + coqBytes(p[1]) + ")"
	}
	return "[" + strings.Join(parts, ";\n   ") + "]"
}

func genAnsiConsts(repo string) (string, error) {
	_, f, err := parseGo(repo, "utils/ansi/consts.go")
	if err != nil {
		return "", err
	}
	c, err := byteMap(f, "constants")
	if err != nil {
		return "", err
	}
	s, err := byteMap(f, "sgr")
	if err != nil {
		return "", err
	}
	// the regular expression that finds the {CONST} tokens
	_, fa, err := parseGo(repo, "utils/ansi/ansi.go")
	if err != nil {
		return "", err
	}
	rx := ""
	if v := findValue(fa, "rxAnsiConsts"); v != nil {
		if l := stringLits(v); len(l) == 1 {
			rx = l[0]
		}
	}
	return coqHeader +
		"Definition ansi_constants : list (list N * list N) :=\n  " + coqPairs(c) + ".\n\n" +
		"Definition ansi_sgr : list (list N * list N) :=\n  " + coqPairs(s) + ".\n\n" +
		"(* source text of rxAnsiConsts *)\nDefinition ansi_regexp : list N := " + coqBytes(rx) + ".\n", nil
}

func genEscapeTable(repo string) (string, error) {
	_, f, err := parseGo(repo, "utils/escape/escape.go")
	if err != nil {
		return "", err
	}
	fd := findFunc(f, "CommandLine")
	if fd == nil {
		return "", fmt.Errorf("escape.CommandLine not found")
	}
	var pairs [][2]string
	var bad error
	ast.Inspect(fd.Body, func(n ast.Node) bool {
		ce, ok := n.(*ast.CallExpr)
		if !ok {
			return true
		}
		se, ok := ce.Fun.(*ast.SelectorExpr)
		if !ok {
			return true
		}
		x, ok := se.X.(*ast.Ident)
		if !ok || x.Name != "strings" {
			return true
		}
		switch se.Sel.Name {
		case "Replace":
			if len(ce.Args) != 4 {
				bad = fmt.Errorf("strings.Replace with %d arguments", len(ce.Args))
				return false
			}
			if u, ok := ce.Args[3].(*ast.UnaryExpr); !ok || u.Op != token.SUB {
				bad = fmt.Errorf("strings.Replace count is not -1")
				return false
			}
		case "ReplaceAll":
			if len(ce.Args) != 3 {
				bad = fmt.Errorf("strings.ReplaceAll with %d arguments", len(ce.Args))
				return false
			}
		default:
			return true
		}
		a, ok1 := ce.Args[1].(*ast.BasicLit)
		b, ok2 := ce.Args[2].(*ast.BasicLit)
		if !ok1 || !ok2 || a.Kind != token.STRING || b.Kind != token.STRING {
			bad = fmt.Errorf("replace pair is not two string literals")
			return false
		}
		as, e1 := strconv.Unquote(a.Value)
		bs, e2 := strconv.Unquote(b.Value)
		if e1 != nil || e2 != nil {
			bad = fmt.Errorf("cannot unquote replace pair")
			return false
		}
		pairs = append(pairs, [2]string{as, bs})
		return true
	})
	if bad != nil {
		return "", bad
	}

	// main.go: argvToCmdLineStr = copy; escape.CommandLine(copy); strings.Join(copy, SEP)
	_, fm, err := parseGo(repo, "main.go")
	if err != nil {
		return "", err
	}
	am := findFunc(fm, "argvToCmdLineStr")
	if am == nil {
		return "", fmt.Errorf("argvToCmdLineStr not found")
	}
	sep, nEsc, nJoin := "", 0, 0
	ast.Inspect(am.Body, func(n ast.Node) bool {
		ce, ok := n.(*ast.CallExpr)
		if !ok {
			return true
		}
		se, ok := ce.Fun.(*ast.SelectorExpr)
		if !ok {
			return true
		}
		x, _ := se.X.(*ast.Ident)
		if x != nil && x.Name == "escape" && se.Sel.Name == "CommandLine" {
			nEsc++
		}
		if x != nil && x.Name == "strings" && se.Sel.Name == "Join" && len(ce.Args) == 2 {
			if bl, ok := ce.Args[1].(*ast.BasicLit); ok && bl.Kind == token.STRING {
				if s, err := strconv.Unquote(bl.Value); err == nil {
					sep = s
					nJoin++
				}
			}
		}
		return true
	})
	shape := "false"
	if nEsc == 1 && nJoin == 1 {
		shape = "true"
	}
	return coqHeader +
		"(* (old, new) of every strings.Replace(s[i], old, new, -1) in escape.CommandLine, in order *)\n" +
		"Definition escape_pairs : list (list N * list N) :=\n  " + coqPairs(pairs) + ".\n\n" +
		"(* main.go argvToCmdLineStr: one call of escape.CommandLine and one strings.Join(_, sep) *)\n" +
		"Definition argv_shape_ok : bool := " + shape + ".\n" +
		"Definition cmdline_sep : list N := " + coqBytes(sep) + ".\n", nil
}

func genNoTokenise(repo string) (string, error) {
	_, f, err := parseGo(repo, "lang/expressions/statement_rules.go")
	if err != nil {
		return "", err
	}
	fd := findFunc(f, "tokeniseScalar")
	if fd == nil {
		return "", fmt.Errorf("tokeniseScalar not found")
	}
	var names []string
	ast.Inspect(fd.Body, func(n ast.Node) bool {
		sw, ok := n.(*ast.SwitchStmt)
		if !ok {
			return true
		}
		// only the outer switch on the command name
		if ce, ok := sw.Tag.(*ast.CallExpr); !ok || len(ce.Args) != 1 {
			return true
		}
		for _, st := range sw.Body.List {
			cc, ok := st.(*ast.CaseClause)
			if !ok {
				continue
			}
			for _, e := range cc.List {
				names = append(names, stringLits(e)...)
			}
		}
		return false
	})
	if len(names) == 0 {
		return "", fmt.Errorf("no command names found in tokeniseScalar")
	}
	return coqHeader + "Definition no_tokenise_cmds : list (list N) :=\n  " + coqBytesList(names) + ".\n", nil
}
