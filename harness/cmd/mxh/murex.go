package main

import (
	"fmt"
	"time"

	"github.com/lmorg/murex/lang"
	"github.com/lmorg/murex/lang/ref"
)

// MxResult is the projected observation of running a block of murex code in-process.
type MxResult struct {
	Stdout  string
	Stderr  string
	ExitNum int
	Err     bool // Execute returned a (compile) error
	Timeout bool
}

var mxCounter int

// RunMurex executes a block in a fresh function-scoped fork of the shell
// process (same flags as the repo's own test helper) with a timeout. A run that
// times out is re-examined once with a much longer deadline before it is
// reported as a hang: a loaded machine must not turn a slow run into an alarm,
// while a real hang still hangs.
func RunMurex(block string, timeout time.Duration) MxResult {
	r := runMurexOnce(block, timeout)
	if r.Timeout {
		if r2 := runMurexOnce(block, 5*timeout+20*time.Second); !r2.Timeout {
			return r2
		}
	}
	return r
}

func runMurexOnce(block string, timeout time.Duration) MxResult {
	initMurex()
	mxCounter++
	fork := lang.ShellProcess.Fork(lang.F_FUNCTION | lang.F_NEW_MODULE | lang.F_NO_STDIN | lang.F_CREATE_STDOUT | lang.F_CREATE_STDERR)
	fork.Name.Set("verif")
	fork.FileRef = &ref.File{Source: &ref.Source{Module: fmt.Sprintf("murex/verif-%d", mxCounter)}}

	type ret struct {
		n   int
		err error
	}
	done := make(chan ret, 1)
	go func() {
		n, err := fork.Execute([]rune(block))
		done <- ret{n, err}
	}()
	var r MxResult
	select {
	case x := <-done:
		r.ExitNum = x.n
		r.Err = x.err != nil
	case <-time.After(timeout):
		r.Timeout = true
		fork.Process.Done()
		return r
	}
	if b, err := fork.Stdout.ReadAll(); err == nil {
		r.Stdout = string(b)
	}
	if b, err := fork.Stderr.ReadAll(); err == nil {
		r.Stderr = string(b)
	}
	return r
}
