//go:build prop_c22 || prop_all

package main

// C22 — Commands resolve in precedence order; aliases expand once.
// Three command names (plus `cd` for auto-cd cases), each defined or not as a
// private of the caller's module, an alias, a murex function, a builtin, an
// external executable and a directory. Every definition prints a distinct tag
// with the parameters it received. The command is run through the real
// interpreter (function scope or session scope). Cases run in a child process
// that is killed on timeout, so a resolution loop is observed as a hang.

import (
	"bufio"
	"encoding/json"
	"fmt"
	"io"
	"math/rand"
	"os"
	"os/exec"
	"path/filepath"
	"regexp"
	"strings"
	"time"

	"github.com/lmorg/murex/lang"
	"github.com/lmorg/murex/lang/ref"
	"github.com/lmorg/murex/lang/types"

	"verifharness/coqlit"
)

type c22Alias struct {
	T    int   `json:"t"`
	Args []int `json:"args,omitempty"`
}

type c22Entry struct {
	Priv    bool      `json:"p,omitempty"`
	Alias   *c22Alias `json:"a,omitempty"`
	Func    bool      `json:"f,omitempty"`
	Builtin bool      `json:"b,omitempty"`
	Ext     bool      `json:"e,omitempty"`
	Dir     bool      `json:"d,omitempty"`
}

type c22Case struct {
	Entries     []c22Entry `json:"entries"` // index = name; index 3 is `cd` (its builtin always exists)
	Shell       bool       `json:"shell,omitempty"`
	ParentAlias bool       `json:"parent_alias,omitempty"`
	AutoCd      bool       `json:"autocd,omitempty"`
	Name        int        `json:"name"`
	Args        []int      `json:"args,omitempty"`
}

type c22Obs struct {
	Kind   string   `json:"kind"` // P F B E | notfound | hang | other
	Name   string   `json:"name,omitempty"`
	Args   []string `json:"args,omitempty"`
	Detail string   `json:"detail,omitempty"`
}

type c22 struct{}

func init() { register("C22", c22{}) }

var c22Names = []string{"cxxiia", "cxxiib", "cxxiic", "cd"}

const c22DirArgBase = 1048576

func c22ArgStr(a int) string {
	if a >= c22DirArgBase && a-c22DirArgBase < len(c22Names) {
		return c22Names[a-c22DirArgBase]
	}
	return fmt.Sprintf("a%d", a)
}

func c22ArgNum(s string) (int, bool) {
	for i, n := range c22Names {
		if s == n {
			return c22DirArgBase + i, true
		}
	}
	var v int
	if _, err := fmt.Sscanf(s, "a%d", &v); err == nil && fmt.Sprintf("a%d", v) == s {
		return v, true
	}
	return 0, false
}

// ---------------------------------------------------------------- child side

var (
	c22Root    string
	c22Cwd     string
	c22Counter int
)

func c22Init() {
	if c22Root != "" {
		return
	}
	initMurex()
	root, err := os.MkdirTemp("", "mxh-cxxii-")
	if err != nil {
		die("C22: %v", err)
	}
	if r2, err := filepath.EvalSymlinks(root); err == nil {
		root = r2
	}
	c22Root = root
	c22Cwd = filepath.Join(root, "cwd")
	os.MkdirAll(filepath.Join(root, "bin"), 0o755)
	os.MkdirAll(c22Cwd, 0o755)
	os.Setenv("PATH", filepath.Join(root, "bin")+":"+os.Getenv("PATH"))
}

var c22Line = regexp.MustCompile(`^([PFBE]):([a-z]+):(.*)$`)

func c22RunOne(c c22Case) c22Obs {
	c22Init()
	for len(c.Entries) < 4 {
		c.Entries = append(c.Entries, c22Entry{})
	}
	c22Counter++
	runMod := fmt.Sprintf("murex/verif-cxxii-%d", c22Counter)
	defMod := runMod
	if c.ParentAlias {
		defMod = runMod + "-fn"
	}
	defRef := &ref.File{Source: &ref.Source{Module: defMod}}
	os.Chdir(c22Cwd)

	// ---- definitions
	for i, e := range c.Entries {
		n := c22Names[i]
		if e.Priv {
			lang.PrivateFunctions.Define(n, nil, []rune(`out "P:`+n+`:$PARAMS"`), defRef)
		}
		if e.Alias != nil {
			al := []string{c22Names[c22Mod(e.Alias.T, 4)]}
			for _, a := range e.Alias.Args {
				al = append(al, c22ArgStr(a))
			}
			lang.GlobalAliases.Add(n, al, defRef)
		} else {
			_ = lang.GlobalAliases.Delete(n)
		}
		if e.Func {
			lang.MxFunctions.Define(n, nil, []rune(`out "F:`+n+`:$PARAMS"`), defRef)
		} else {
			_ = lang.MxFunctions.Undefine(n)
		}
		if i < 3 {
			if e.Builtin {
				name := n
				lang.DefineFunction(name, func(p *lang.Process) error {
					b, _ := json.Marshal(p.Parameters.StringArray())
					_, err := p.Stdout.Writeln([]byte("B:" + name + ":" + string(b)))
					return err
				}, types.String)
			} else {
				delete(lang.GoFunctions, n)
			}
			bin := filepath.Join(c22Root, "bin", n)
			if e.Ext {
				script := "#!/bin/sh\nprintf 'E:" + n + ":['\nsep=''\nfor a in \"$@\"; do printf '%s\"%s\"' \"$sep\" \"$a\"; sep=','; done\nprintf ']\\n'\n"
				os.WriteFile(bin, []byte(script), 0o755)
			} else {
				os.Remove(bin)
			}
			dir := filepath.Join(c22Cwd, n)
			if e.Dir {
				os.MkdirAll(dir, 0o755)
			} else {
				os.Remove(dir)
			}
		}
	}
	_ = lang.ShellProcess.Config.Set("shell", "auto-cd", c.AutoCd, nil)

	// ---- the command
	parts := []string{c22Names[c22Mod(c.Name, 4)]}
	for _, a := range c.Args {
		parts = append(parts, c22ArgStr(a))
	}
	cmd := strings.Join(parts, " ")
	if c.ParentAlias {
		// a murex function named `alias`: commands in its body have Parent.Name == "alias"
		lang.MxFunctions.Define("alias", nil, []rune(cmd), defRef)
		cmd = "alias"
	}

	var fork *lang.Fork
	if c.Shell && !c.ParentAlias {
		fork = lang.ShellProcess.Fork(lang.F_PARENT_VARTABLE | lang.F_NEW_MODULE | lang.F_NO_STDIN | lang.F_CREATE_STDOUT | lang.F_CREATE_STDERR)
	} else {
		fork = lang.ShellProcess.Fork(lang.F_FUNCTION | lang.F_NEW_MODULE | lang.F_NO_STDIN | lang.F_CREATE_STDOUT | lang.F_CREATE_STDERR)
		fork.Name.Set("verif")
	}
	fork.FileRef = &ref.File{Source: &ref.Source{Module: runMod}}
	exitNum, err := fork.Execute([]rune(cmd))
	stdout, _ := fork.Stdout.ReadAll()
	stderr, _ := fork.Stderr.ReadAll()

	if c.ParentAlias {
		_ = lang.MxFunctions.Undefine("alias")
	}
	wd, _ := os.Getwd()
	os.Chdir(c22Cwd)

	var hits []c22Obs
	for _, line := range strings.Split(string(stdout), "\n") {
		m := c22Line.FindStringSubmatch(strings.TrimSpace(line))
		if m == nil {
			continue
		}
		var args []string
		if jerr := json.Unmarshal([]byte(m[3]), &args); jerr != nil {
			return c22Obs{Kind: "other", Detail: "bad parameter list: " + line}
		}
		hits = append(hits, c22Obs{Kind: m[1], Name: m[2], Args: args})
	}
	switch {
	case len(hits) == 1:
		return hits[0]
	case len(hits) > 1:
		return c22Obs{Kind: "other", Detail: "several definitions ran: " + string(stdout)}
	case wd != c22Cwd && filepath.Dir(wd) == c22Cwd:
		// the real `cd` builtin ran
		return c22Obs{Kind: "B", Name: "cd", Args: []string{filepath.Base(wd)}}
	case err != nil || exitNum != 0:
		d := string(stderr)
		if len(d) > 300 {
			d = d[:300]
		}
		return c22Obs{Kind: "notfound", Detail: d}
	}
	return c22Obs{Kind: "other", Detail: "nothing ran, exit 0: " + string(stdout)}
}

func c22Mod(a, n int) int {
	if a < 0 {
		a = -a
	}
	return a % n
}

// Child: read cases from stdin, one JSON per line; answer one observation per line.
func (c22) Child(args []string) {
	in := bufio.NewReaderSize(os.Stdin, 1<<20)
	out := bufio.NewWriter(os.Stdout)
	for {
		line, err := in.ReadBytes('\n')
		if len(line) > 1 {
			var c c22Case
			if jerr := json.Unmarshal(line, &c); jerr != nil {
				die("C22 child: bad case: %v", jerr)
			}
			o := c22RunOne(c)
			b, _ := json.Marshal(o)
			out.Write(b)
			out.WriteByte('\n')
			out.Flush()
		}
		if err != nil {
			break
		}
	}
	if c22Root != "" {
		os.Chdir("/")
		os.RemoveAll(c22Root)
	}
}

// ---------------------------------------------------------------- parent side

type c22Proc struct {
	cmd *exec.Cmd
	in  io.WriteCloser
	out *bufio.Reader
}

var c22Child *c22Proc

func c22Spawn() *c22Proc {
	cmd := exec.Command(os.Args[0], "child", "C22")
	cmd.Stderr = io.Discard
	in, err := cmd.StdinPipe()
	if err != nil {
		die("C22: %v", err)
	}
	outp, err := cmd.StdoutPipe()
	if err != nil {
		die("C22: %v", err)
	}
	if err := cmd.Start(); err != nil {
		die("C22: cannot start child: %v", err)
	}
	return &c22Proc{cmd: cmd, in: in, out: bufio.NewReaderSize(outp, 1<<20)}
}

func c22Kill() {
	if c22Child != nil {
		c22Child.in.Close()
		c22Child.cmd.Process.Kill()
		c22Child.cmd.Wait()
		c22Child = nil
	}
}

func c22Ask(raw []byte, timeout time.Duration) c22Obs {
	for attempt := 0; attempt < 2; attempt++ {
		if c22Child == nil {
			c22Child = c22Spawn()
		}
		ch := c22Child
		if _, err := ch.in.Write(append(append([]byte{}, raw...), '\n')); err != nil {
			c22Kill()
			continue
		}
		type ans struct {
			line []byte
			err  error
		}
		done := make(chan ans, 1)
		go func() {
			l, err := ch.out.ReadBytes('\n')
			done <- ans{l, err}
		}()
		select {
		case a := <-done:
			if a.err != nil {
				c22Kill()
				if attempt == 0 {
					continue // the child died (e.g. crashed on the previous case's leftovers): retry once in a fresh child
				}
				return c22Obs{Kind: "other", Detail: "child died"}
			}
			var o c22Obs
			if err := json.Unmarshal(a.line, &o); err != nil {
				c22Kill()
				return c22Obs{Kind: "other", Detail: "bad child answer"}
			}
			return o
		case <-time.After(timeout):
			c22Kill()
			return c22Obs{Kind: "hang"}
		}
	}
	return c22Obs{Kind: "other", Detail: "child unavailable"}
}

func c22EntryCoq(i int, e c22Entry) string {
	al := "None"
	if e.Alias != nil {
		as := make([]string, len(e.Alias.Args))
		for j, a := range e.Alias.Args {
			as[j] = coqlit.N(uint64(a))
		}
		al = "(Some (" + coqlit.N(uint64(c22Mod(e.Alias.T, 4))) + ", " + coqlit.List(as) + "))"
	}
	builtin := e.Builtin
	if i == 3 {
		builtin = true
	}
	return "(" + coqlit.N(uint64(i)) + ", " + coqlit.Record(
		"e_private", coqlit.Bool(e.Priv), "e_alias", al, "e_function", coqlit.Bool(e.Func),
		"e_builtin", coqlit.Bool(builtin), "e_external", coqlit.Bool(e.Ext && i < 3), "e_isdir", coqlit.Bool(e.Dir && i < 3)) + ")"
}

func (c22) Run(raw json.RawMessage) Result {
	var c c22Case
	if err := json.Unmarshal(raw, &c); err != nil {
		die("C22: bad case: %v", err)
	}
	for len(c.Entries) < 4 {
		c.Entries = append(c.Entries, c22Entry{})
	}
	o := c22Ask(raw, 45*time.Second)

	es := make([]string, len(c.Entries))
	for i, e := range c.Entries {
		es[i] = c22EntryCoq(i, e)
	}
	as := make([]string, len(c.Args))
	for i, a := range c.Args {
		as[i] = coqlit.N(uint64(a))
	}
	shell := c.Shell && !c.ParentAlias
	ctx := coqlit.Record("shell_scope", coqlit.Bool(shell), "parent_alias", coqlit.Bool(c.ParentAlias), "autocd", coqlit.Bool(c.AutoCd))
	var obs string
	switch o.Kind {
	case "P", "F", "B", "E":
		kind := map[string]string{"P": "KPrivate", "F": "KFunction", "B": "KBuiltin", "E": "KExternal"}[o.Kind]
		idx := -1
		for i, n := range c22Names {
			if n == o.Name {
				idx = i
			}
		}
		oa := make([]string, len(o.Args))
		ok := idx >= 0
		for i, a := range o.Args {
			v, good := c22ArgNum(a)
			if !good {
				ok = false
			}
			oa[i] = coqlit.N(uint64(v))
		}
		if ok {
			obs = coqlit.App("ORan", kind, coqlit.N(uint64(idx)), coqlit.List(oa))
		} else {
			obs = "OOther"
		}
	case "notfound":
		obs = "ONotFound"
	case "hang":
		obs = "OHang"
	default:
		obs = "OOther"
	}
	coq := coqlit.Record("c_tables", coqlit.List(es), "c_ctx", ctx, "c_name", coqlit.N(uint64(c22Mod(c.Name, 4))),
		"c_args", coqlit.List(as), "c_obs", obs)
	e0 := c.Entries[c22Mod(c.Name, 4)]
	nkinds := 0
	for _, b := range []bool{e0.Priv, e0.Alias != nil, e0.Func, e0.Builtin, e0.Ext} {
		if b {
			nkinds++
		}
	}
	class := "noalias"
	if e0.Alias != nil {
		t := c22Mod(e0.Alias.T, 4)
		switch {
		case t == c22Mod(c.Name, 4):
			class = "alias-self"
		case c.Entries[t].Alias != nil:
			class = "alias-chain"
		default:
			class = "alias"
		}
	}
	if shell {
		class += "/shell"
	}
	if c.ParentAlias {
		class += "/in-alias"
	}
	if c.AutoCd {
		class += "/autocd"
	}
	return Result{Obs: o, Coq: coq, Nontrivial: nkinds >= 2 || e0.Alias != nil, Class: class}
}

// ---------------------------------------------------------------- generation

func c22Bits(b int) c22Entry {
	return c22Entry{Priv: b&1 != 0, Func: b&2 != 0, Builtin: b&4 != 0, Ext: b&8 != 0}
}

func (c22) Gen(seed int64, tier string, emit func(any)) {
	r := rand.New(rand.NewSource(seed))
	thorough := tier == "thorough"
	// all 2^5 presence combinations of name 0 (private, alias, function, builtin, external);
	// alias target in {self, name 1, name 2 (defined nowhere)}; with and without a user parameter
	oneKind := []int{0, 1, 2, 4, 8, 15}
	for b0 := 0; b0 < 16; b0++ {
		// no alias
		emit(c22Case{Entries: []c22Entry{c22Bits(b0)}, Name: 0, Args: []int{5}})
		// alias -> self, alias -> undefined name
		for _, t := range []int{0, 2} {
			e0 := c22Bits(b0)
			e0.Alias = &c22Alias{T: t, Args: []int{7}}
			emit(c22Case{Entries: []c22Entry{e0}, Name: 0, Args: []int{5}})
		}
		// alias -> name 1, name 1 defined as every kind combination and itself alias of {none, 0, 1, 2}
		b1s := oneKind
		if thorough {
			b1s = []int{0, 1, 2, 3, 4, 5, 6, 7, 8, 9, 10, 11, 12, 13, 14, 15}
		}
		for _, b1 := range b1s {
			for a1 := -1; a1 < 3; a1++ {
				e0 := c22Bits(b0)
				e0.Alias = &c22Alias{T: 1, Args: []int{7}}
				e1 := c22Bits(b1)
				if a1 >= 0 {
					e1.Alias = &c22Alias{T: a1, Args: []int{8}}
				}
				if !thorough && (b0*5+b1*3+a1+1)%2 != int(seed&1) && b0 != 0 && b0 != 15 {
					continue
				}
				emit(c22Case{Entries: []c22Entry{e0, e1}, Name: 0, Args: []int{5}})
			}
		}
	}
	// contexts: session scope (privates skipped) and inside a function named `alias` (no alias expansion)
	for b0 := 0; b0 < 16; b0++ {
		for _, al := range []int{-1, 0, 1} {
			for ctx := 0; ctx < 2; ctx++ {
				e0 := c22Bits(b0)
				if al >= 0 {
					e0.Alias = &c22Alias{T: al}
				}
				e1 := c22Bits(15 - b0)
				if !thorough && (b0+al+ctx)%2 == 0 && b0 != 15 {
					continue
				}
				emit(c22Case{Entries: []c22Entry{e0, e1}, Name: 0, Shell: ctx == 0, ParentAlias: ctx == 1})
			}
		}
	}
	// auto-cd: name 0 is a directory; `cd` is the real builtin, optionally shadowed by a function / alias
	for _, b0 := range []int{0, 8, 2, 4} {
		for cdv := 0; cdv < 4; cdv++ {
			for _, withArg := range []bool{false, true} {
				for _, al0 := range []int{-1, 0, 1} {
					e0 := c22Bits(b0)
					e0.Dir = true
					if al0 >= 0 {
						e0.Alias = &c22Alias{T: al0}
					}
					e1 := c22Entry{Dir: true}
					cd := c22Entry{}
					switch cdv {
					case 1:
						cd.Func = true
					case 2:
						cd.Alias = &c22Alias{T: 2, Args: []int{9}} // alias cd=<undefined> a9
					case 3:
						cd.Alias = &c22Alias{T: 1} // alias cd=<name 1, a directory>
					}
					var args []int
					if withArg {
						args = []int{5}
					}
					if !thorough && (b0+cdv+al0)%2 == 0 {
						continue
					}
					emit(c22Case{Entries: []c22Entry{e0, e1, {}, cd}, Name: 0, Args: args, AutoCd: true})
				}
			}
		}
	}
	// random tables over three names
	n := 150
	if thorough {
		n = 3000
	}
	for i := 0; i < n; i++ {
		es := make([]c22Entry, 3)
		for j := range es {
			es[j] = c22Bits(r.Intn(16))
			if r.Intn(3) > 0 {
				al := &c22Alias{T: r.Intn(3)}
				for k := r.Intn(3); k > 0; k-- {
					al.Args = append(al.Args, 10+r.Intn(5))
				}
				es[j].Alias = al
			}
		}
		var args []int
		for k := r.Intn(3); k > 0; k-- {
			args = append(args, 1+r.Intn(5))
		}
		c := c22Case{Entries: es, Name: r.Intn(3), Args: args}
		switch r.Intn(6) {
		case 0:
			c.Shell = true
		case 1:
			c.ParentAlias = true
		}
		emit(c)
	}
}
