//go:build prop_c37 || prop_all

package main

// C37 — Syntax highlighting never changes the typed text.
// Each case is a rune string; parser.Parse(line, 0) is what shell/parser.go
// calls for the highlighted prompt line.

import (
	"encoding/json"
	"math/rand"

	"verifharness/coqlit"
)

type c37 struct{}

func init() { register("C37", c37{}) }

type c37Obs struct {
	Panic    bool   `json:"panic"`
	Hl       string `json:"hl"`
	Stripped string `json:"stripped"`
	Same     bool   `json:"stripped_equals_typed"`
}

func (c37) Gen(seed int64, tier string, emit func(any)) {
	e := func(s []rune) { emit(tokMk(s, 0)) }
	// design-phase witnesses (also in corpus/C37)
	for _, w := range []string{"out a\\->b", "out a\\=>b", "a\\->", "\\=>", "out a->b", "out a => b"} {
		e([]rune(w))
	}
	thorough := tier == "thorough"
	// exhaustive small sizes
	if thorough {
		tokExhaustive(tokAlphabet, 3, e)
		tokExhaustive(tokAlphabetSmall, 4, e)
	} else {
		tokExhaustive(tokAlphabet, 2, e)
		tokExhaustive(tokAlphabetSmall, 3, e)
	}
	rng := rand.New(rand.NewSource(seed))
	nf, na, nh := 900, 400, 200
	if thorough {
		nf, na, nh = 6000, 4000, 2000
	}
	for i := 0; i < nf; i++ {
		e(tokRandFragments(rng, 12))
	}
	for i := 0; i < na; i++ {
		e(tokRandAlphabet(rng, 24))
	}
	for i := 0; i < nh; i++ {
		e(tokRandHostile(rng, 16))
	}
}

func (c37) Run(raw json.RawMessage) Result {
	var c tokCase
	if err := json.Unmarshal(raw, &c); err != nil {
		die("C37: bad case: %v", err)
	}
	src := c.runes()
	o := tokParse(src, 0)
	stripped := tokStrip(o.Hl)
	obs := c37Obs{Panic: o.Panic, Hl: o.Hl, Stripped: stripped, Same: stripped == string(src)}
	coq := coqlit.Record("c_src", tokRunes(src), "c_hl", tokRunes([]rune(o.Hl)),
		"c_stripped", tokRunes([]rune(stripped)), "c_panic", coqlit.Bool(o.Panic))
	cls := tokClass(src)
	return Result{Obs: obs, Coq: coq, Nontrivial: cls != "plain" && cls != "empty", Class: cls}
}

func (c37) Shrink(raw json.RawMessage) []any { return tokShrink(raw) }
